#!/usr/bin/env python3
"""Writes MANIFEST.json from manifest_src.py (single source of truth for claims)."""
import json, os
from manifest_src import CLAIMS, NOT_APPLICABLE, NOTES, HOOK_COMMITS
here = os.path.dirname(os.path.abspath(__file__))
checks = []
for pid, c in CLAIMS.items():
    checks.append({
        "property_id": pid,
        "quick_cmd": f"./check.py {pid} --tier quick",
        "thorough_cmd": f"./check.py {pid} --tier thorough",
        "evidence_file": f"/verif/evidence/{pid}.json",
        "replay_cmd_template": f"./check.py {pid} --replay {{path}}",
        "engine": "lean4-proof+correspondence",
        "level_claimed": {"category": "proof", "text": c["text"], "design_ref": c["design_ref"]},
        "level_note": c["note"],
        "technique": c["technique"],
    })
m = {
    "version": 1,
    "setup_cmd": "./check.py --setup",
    "hooks": {
        "guard": "--cfg opening_hours_verif",
        "enable": "RUSTFLAGS='--cfg opening_hours_verif' (set in /verif/harness/.cargo/config.toml; the harness crate depends on /repo by path)",
        "baseline_off_cmd": "cd /repo && cargo test --workspace --no-fail-fast --offline",
        "source_commits": HOOK_COMMITS,
        "add_only": True,
    },
    "engines": [{
        "name": "lean4-proof+correspondence",
        "path": "/verif/check.py",
        "serves_properties": list(CLAIMS.keys()),
        "kind_free_text": "Lean 4 theorems about an executable model (lean/OH) + differential correspondence of the model's executable definitions against the real code (harness/, compiled Lean driver) with the property predicate evaluated on the implementation's output",
    }],
    "checks": checks,
    "not_applicable": [{"property_id": k, "reason": v} for k, v in NOT_APPLICABLE.items()],
    "notes": NOTES,
}
json.dump(m, open(os.path.join(here, "MANIFEST.json"), "w"), indent=1, ensure_ascii=False)
print("MANIFEST.json:", len(checks), "checks,", len(NOT_APPLICABLE), "not claimed")
