// scratch check of the bound findings of Props/C02A (not part of the harness suites)
use chrono::{NaiveDate, TimeDelta};
use opening_hours::{Context, OpeningHours};

fn main() {
    let t = NaiveDate::from_ymd_opt(2024, 6, 3).unwrap().and_hms_opt(10, 0, 0).unwrap();
    let to = NaiveDate::from_ymd_opt(2024, 6, 10).unwrap().and_hms_opt(10, 0, 0).unwrap();
    let which = std::env::args().nth(1).unwrap_or_default();
    match which.as_str() {
        "neg" => {
            let ctx = Context::default().approx_bound_interval_size(TimeDelta::days(-2));
            let oh = OpeningHours::parse("Mo-Fr 09:00-17:00").unwrap().with_context(ctx);
            println!("state = {:?}", oh.state(t));
            println!("next_change = {:?}", oh.next_change(t));
            let mut n = 0u64;
            let mut last = None;
            for iv in oh.iter_range(t, to) {
                n += 1;
                if n <= 3 { println!("item {n}: {:?}", iv); }
                last = Some(iv);
                if n >= 1_000_000 { break; }
            }
            println!("iter_range(2024-06-03T10:00, 2024-06-10T10:00): stopped by the test after {n} items, last = {:?}", last);
        }
        "neg1" => {
            let ctx = Context::default().approx_bound_interval_size(TimeDelta::hours(-12));
            let oh = OpeningHours::parse("Mo-Fr 09:00-17:00").unwrap().with_context(ctx);
            println!("state = {:?}", oh.state(t));
            println!("next_change = {:?}", oh.next_change(t));
            let v: Vec<_> = oh.iter_range(t, to).take(50).collect();
            println!("iter_range: {} items (cap 50)", v.len());
            for iv in v.iter().take(4) { println!("  {:?}", iv); }
        }
        "max" => {
            let ctx = Context::default().approx_bound_interval_size(TimeDelta::MAX);
            let oh = OpeningHours::parse("Mo-Fr 09:00-17:00").unwrap().with_context(ctx);
            println!("state = {:?}", oh.state(t));
        }
        _ => println!("usage: bound neg|neg1|max"),
    }
}
