// Layer B finding check: for dated ranges whose shifted bounds leave their calendar year, the
// filter's value flips at Jan 1 (window y-1..y+1 moves) while next_change_hint (window y-1..y+10)
// jumps over it: the interval stream disagrees with pointwise evaluation.
// usage: dated_hint "<expr>" <from yyyy-mm-dd> <to yyyy-mm-dd>
use chrono::{Duration, NaiveDate};
use opening_hours::OpeningHours;

fn main() {
    let a: Vec<String> = std::env::args().collect();
    let expr = &a[1];
    let from = NaiveDate::parse_from_str(&a[2], "%Y-%m-%d").unwrap();
    let to = NaiveDate::parse_from_str(&a[3], "%Y-%m-%d").unwrap();
    let oh = OpeningHours::parse(expr).expect("parse");
    println!("expression: {expr}   (Display: {oh})");
    let f = from.and_hms_opt(0, 0, 0).unwrap();
    let t = to.and_hms_opt(0, 0, 0).unwrap();
    let ivs: Vec<_> = oh.iter_range(f, t).collect();
    println!("iter_range({from}, {to}):");
    for iv in &ivs {
        println!("  {} .. {}  {:?}", iv.range.start, iv.range.end, iv.kind);
    }
    // pointwise: state at noon of every day, and the schedule of the day
    let mut bad = 0;
    let mut d = from;
    let mut prev = None;
    while d < t.date() {
        let noon = d.and_hms_opt(12, 0, 0).unwrap();
        let st = oh.state(noon);
        let in_stream = ivs.iter().find(|iv| iv.range.start <= noon && noon < iv.range.end).map(|iv| iv.kind);
        if Some(st) != prev {
            println!("pointwise: from {d} state(noon) = {:?}", st);
            prev = Some(st);
        }
        if in_stream != Some(st) {
            if bad < 5 {
                println!("  MISMATCH at {noon}: state() = {:?}, interval stream says {:?}", st, in_stream);
            }
            bad += 1;
        }
        d = d + Duration::days(1);
    }
    println!("days where the stream differs from state(): {bad}");
    let q = from.and_hms_opt(12, 0, 0).unwrap();
    println!("next_change({q}) = {:?}", oh.next_change(q));
}
