//! Suite `nz` — normalisation (C07, C13) on the real code.
//!   nz.norm <expr> <day>*    parse(expr), normalize(), normalize().normalize()
//! `<expr>` is the percent-encoded source string; the optional `<day>`s are extra sample days for the
//! driver's meaning check (they do not influence the implementation's output).
//! Output: `<AST orig> | <AST n1> | <AST n2> | <rp0> <rp1> <det> <enc(n1.to_string())>` where `n1` =
//! `orig.normalize()`, `n2` = `n1.normalize()`, `rp0`/`rp1` ∈ same|diff|err|panic tell whether
//! `parse(x.to_string())` gives back `x` for `x` = orig / n1, `det` ∈ same|diff|panic whether a second
//! clone normalised on another thread equals `n1`.  A fifth section holds the AST of
//! `parse(n1.to_string())` when it differs from `n1` (else `-`).  A panic in `normalize` replaces the AST
//! by the single token `panic:<file>:<line>`.
use crate::ast;
use crate::ev::{dec, gen_day};
use crate::gen_expr;
use crate::util::{catch, enc, Rng};
use opening_hours_syntax::rules::OpeningHoursExpression;

/// `parse(e.to_string())` compared with `e`; the reparsed AST is returned when it differs
fn reparse(e: &OpeningHoursExpression) -> (&'static str, Option<String>) {
    let s = match catch(|| e.to_string()) {
        Ok(s) => s,
        Err(_) => return ("panic", None),
    };
    match catch(|| opening_hours_syntax::parse(&s)) {
        Err(_) => ("panic", None),
        Ok(Err(_)) => ("err", None),
        Ok(Ok(r)) => {
            if r == *e {
                ("same", None)
            } else {
                ("diff", Some(ast::expr(&r)))
            }
        }
    }
}

/// kinds of the day's schedule (comments left out: C07 is about states)
fn kinds_of<L: opening_hours::localization::Localize>(oh: &opening_hours::OpeningHours<L>, date: chrono::NaiveDate) -> String {
    catch(|| {
        let mut out = String::new();
        for tr in oh.schedule_at(date).into_iter() {
            out.push_str(&format!("{}-{}:{},", tr.range.start.mins_from_midnight(), tr.range.end.mins_from_midnight(), ast::kind_tok(tr.kind)));
        }
        if out.is_empty() {
            "-".to_string()
        } else {
            out
        }
    })
    .unwrap_or_else(|p| p)
}

/// `nz.api <day> <ctx> <expr>`: the PUBLIC entry point `OpeningHours::normalize()` under a context —
/// the day's kinds for the value, for `value.normalize()`, for `parse(..).normalize().with_context(ctx)`
/// and the states at noon (`state`) of the first two: `<k0> | <k1> | <k2> | <s0> <s1>`
fn exec_api(a: &[&str]) -> Option<String> {
    use opening_hours::localization::{Coordinates, TzLocation};
    use opening_hours::{Context, OpeningHours};
    let day: i64 = a.first()?.parse().ok()?;
    let date = ast::date_of(day)?;
    let spec = crate::ev::parse_ctx(a.get(1)?)?;
    let src = dec(a.get(2)?)?;
    let oh = match catch(|| OpeningHours::parse(&src)) {
        Err(p) => return Some(format!("parse-{p}")),
        Ok(Err(_)) => return Some("parse-error x".to_string()),
        Ok(Ok(oh)) => oh,
    };
    let hol = crate::ev::holidays(&spec)?;
    let noon = date.and_hms_opt(12, 0, 30)?;
    let st = |k: Result<opening_hours_syntax::rules::RuleKind, String>| k.map(|k| ast::kind_tok(k).to_string()).unwrap_or_else(|p| p);
    if let Some((lat, lon, tz)) = spec.coords {
        let Some(coords) = Coordinates::new(lat, lon) else { return Some("rejected".to_string()) };
        let loc = TzLocation::new(tz).with_coords(coords);
        let ctx = Context::default().with_holidays(hol).with_locale(loc.clone());
        let v = oh.clone().with_context(ctx.clone());
        let n1 = match catch(|| v.normalize()) {
            Ok(n) => n,
            Err(p) => return Some(format!("{} | {p} | - | - -", kinds_of(&v, date))),
        };
        let n2 = catch(|| oh.normalize().with_context(ctx)).ok()?;
        use opening_hours::localization::Localize;
        let t = loc.datetime(noon);
        Some(format!("{} | {} | {} | {} {}", kinds_of(&v, date), kinds_of(&n1, date), kinds_of(&n2, date), st(catch(|| v.state(t))), st(catch(|| n1.state(t)))))
    } else {
        let mut ctx = Context::default().with_holidays(hol);
        if let Some(b) = spec.bound_ns {
            ctx = ctx.approx_bound_interval_size(chrono::TimeDelta::nanoseconds(b));
        }
        let v = oh.clone().with_context(ctx.clone());
        let n1 = match catch(|| v.normalize()) {
            Ok(n) => n,
            Err(p) => return Some(format!("{} | {p} | - | - -", kinds_of(&v, date))),
        };
        let n2 = catch(|| oh.normalize().with_context(ctx)).ok()?;
        Some(format!("{} | {} | {} | {} {}", kinds_of(&v, date), kinds_of(&n1, date), kinds_of(&n2, date), st(catch(|| v.state(noon))), st(catch(|| n1.state(noon)))))
    }
}

pub fn exec(op: &str, a: &[&str]) -> Option<String> {
    if op == "nz.api" {
        return exec_api(a);
    }
    if op != "nz.norm" || a.is_empty() {
        return None;
    }
    let src = dec(a[0])?;
    let parsed = catch(|| opening_hours_syntax::parse(&src));
    let expr = match parsed {
        Err(p) => return Some(format!("parse-{p}")),
        Ok(Err(e)) => {
            return Some(format!(
                "parse-error {}",
                match e {
                    opening_hours_syntax::Error::Parser(_) => "parser",
                    opening_hours_syntax::Error::Unsupported(_) => "unsupported",
                    opening_hours_syntax::Error::Overflow { .. } => "overflow",
                    opening_hours_syntax::Error::InvalidExtendTime { .. } => "exttime",
                }
            ))
        }
        Ok(Ok(e)) => e,
    };
    let a0 = ast::expr(&expr);
    let n1 = match catch(|| expr.clone().normalize()) {
        Ok(n) => n,
        Err(p) => return Some(format!("{a0} | {p} | - | - - - % | -")),
    };
    let a1 = ast::expr(&n1);
    let a2 = match catch(|| n1.clone().normalize()) {
        Ok(n) => ast::expr(&n),
        Err(p) => p,
    };
    // determinism: a second clone normalised on another thread gives the same value
    let det = {
        let c = expr.clone();
        match std::thread::spawn(move || c.normalize()).join() {
            Ok(n) if n == n1 => "same",
            Ok(_) => "diff",
            Err(_) => "panic",
        }
    };
    let (rp0, _) = reparse(&expr);
    let (rp1, rp1_ast) = reparse(&n1);
    let s1 = catch(|| n1.to_string()).unwrap_or_else(|p| p);
    Some(format!(
        "{a0} | {a1} | {a2} | {rp0} {rp1} {det} {} | {}",
        enc(&s1),
        rp1_ast.unwrap_or_else(|| "-".into())
    ))
}

// ------------------------------------------------------------------------------------------
// generators

/// canonical-biased configuration: most rules are canonical so that the paving is exercised, the
/// rest keeps every non-canonical construct (the tail that `normalize` must leave alone)
const CFG: gen_expr::Cfg = gen_expr::Cfg {
    events: true,
    holidays: true,
    comments: true,
    dated: true,
    offsets: true,
    max_rules: 5,
    canonical: 80,
    year_focus: 90,
};

/// all-canonical configuration with many rules: overlapping regions in every dimension
const CFG_ALL: gen_expr::Cfg = gen_expr::Cfg {
    events: false,
    holidays: false,
    comments: true,
    dated: false,
    offsets: false,
    max_rules: 7,
    canonical: 100,
    year_focus: 97,
};

const WD: [&str; 7] = ["Mo", "Tu", "We", "Th", "Fr", "Sa", "Su"];
const MO: [&str; 12] = ["Jan", "Feb", "Mar", "Apr", "May", "Jun", "Jul", "Aug", "Sep", "Oct", "Nov", "Dec"];

fn hm(m: i64) -> String {
    format!("{:02}:{:02}", m / 60, m % 60)
}

/// A small dense family: few distinct cut values per dimension so that rules overlap, wrap and
/// share boundaries (the situation D13 needs), every operator and kind, spans passing midnight,
/// `24/7`, comments, rules after a fallback.
fn dense_rule(rng: &mut Rng) -> String {
    let mut parts: Vec<String> = Vec::new();
    if rng.chance(1, 5) {
        let ys = [2020, 2021, 2022, 2024, 1900, 9999];
        let a = *rng.pick(&ys);
        parts.push(match rng.below(4) {
            0 => format!("{a}"),
            1 => format!("{a}-{}", rng.pick(&ys)),
            2 => format!("{a}+"),
            _ => format!("{a},{}", rng.pick(&ys)),
        });
    }
    if rng.chance(1, 3) {
        let ms = [0usize, 1, 3, 4, 10, 11];
        let a = *rng.pick(&ms);
        parts.push(match rng.below(3) {
            0 => MO[a].to_string(),
            1 => format!("{}-{}", MO[a], MO[*rng.pick(&ms)]),
            _ => format!("{},{}", MO[a], MO[*rng.pick(&ms)]),
        });
    }
    if rng.chance(1, 6) {
        let ws = [1, 2, 26, 52, 53];
        let a = *rng.pick(&ws);
        parts.push(match rng.below(2) {
            0 => format!("week {a:02}"),
            _ => format!("week {:02}-{:02}", a, rng.pick(&ws)),
        });
    }
    if rng.chance(1, 2) {
        let a = rng.below(7) as usize;
        parts.push(match rng.below(3) {
            0 => WD[a].to_string(),
            1 => format!("{}-{}", WD[a], WD[rng.below(7) as usize]),
            _ => format!("{},{}", WD[a], WD[rng.below(7) as usize]),
        });
    }
    if rng.chance(3, 4) || parts.is_empty() {
        let ts = [0, 300, 480, 720, 810, 840, 1080, 1380, 1440];
        let n = if rng.chance(3, 4) { 1 } else { 2 };
        let spans: Vec<String> = (0..n)
            .map(|_| {
                let s = *rng.pick(&ts[..8]);
                let e = if rng.chance(1, 12) {
                    // passes midnight / inverted / beyond 24:00: not canonical
                    *rng.pick(&[1500i64, 1560, 2880, 0, 120])
                } else {
                    *rng.pick(&ts)
                };
                format!("{}-{}", hm(s), hm(e))
            })
            .collect();
        if rng.chance(1, 20) {
            parts.clear();
            parts.push("24/7".into());
        } else {
            parts.push(spans.join(","));
        }
    }
    let mut s = parts.join(" ");
    match rng.below(10) {
        0 => s.push_str(" open"),
        1 | 2 => s.push_str(" closed"),
        3 => s.push_str(" off"),
        4 | 5 => s.push_str(" unknown"),
        _ => {}
    }
    if rng.chance(1, 5) {
        s.push_str(&format!(" \"{}\"", rng.pick(&["a", "b", "c d"])));
    }
    s
}

fn dense_expr(rng: &mut Rng) -> String {
    let n = 1 + rng.below(5);
    let mut s = dense_rule(rng);
    for _ in 1..n {
        s.push_str(match rng.below(10) {
            0..=4 => "; ",
            5..=7 => ", ",
            _ => " || ",
        });
        s.push_str(&dense_rule(rng));
    }
    s
}

fn line(rng: &mut Rng, e: &str, days: usize) -> String {
    let mut l = format!("nz.norm {}", enc(e));
    let d0 = gen_day(rng);
    for k in 0..days {
        // two consecutive days (spans passing midnight), then independent days
        let d = if k < 2 { d0 + k as i64 } else { gen_day(rng) };
        l.push_str(&format!(" {d}"));
    }
    l
}

/// hand-written seeds: the documented example, the D13 and D12 witnesses, wrapping ranges in every
/// dimension, rules after a fallback, frame boundaries
const SEEDS: [&str; 24] = [
    "24/7 ; Su closed",
    "Apr 05:00-23:00, 13:30-14:00 unknown",
    "Sa 08:00-10:00; Fr 22:00-26:00",
    "24/7 closed; Fr 22:00-26:00 || unknown",
    "unknown, 2025+ 12:00-18:15 open",
    "Mo-Fr 10:00-18:00; Sa 10:00-12:00; PH off",
    "Nov-Feb 10:00-12:00; Dec closed",
    "Su-Tu 08:00-12:00, We 10:00-14:00 unknown \"maybe\"",
    "week 52-02 Mo 10:00-12:00; week 01 off",
    "2030-2020 10:00-12:00",
    "1900-9999 00:00-24:00",
    "9999 Dec Su 23:00-24:00",
    "Jan-Dec Mo-Su week 01-53 1900+ 00:00-24:00 closed \"all\"",
    "10:00-12:00 \"a\", 11:00-13:00 \"b\"",
    "10:00-12:00 closed \"a\"; 11:00-13:00 closed \"b\"",
    "Mo 10:00-12:00 || Tu 10:00-12:00; We 10:00-12:00",
    "Mo closed || 10:00-12:00",
    "10:00-12:00; Mo off; Mo 14:00-16:00, Mo 11:00-11:30 unknown",
    "Mar-Feb 10:00-12:00",
    "Su-Sa 10:00-12:00",
    "week 53-52 10:00-12:00",
    "2020,2022 Jan,Mar Mo,We 10:00-11:00,12:00-13:00",
    "Jan 10:00-12:00; 2021 14:00-16:00; week 02 Mo 18:00-20:00, Fr 08:00-09:00 unknown",
    "closed",
];

pub fn gen(tier: &str, rng: &mut Rng, emit: &mut dyn FnMut(String)) {
    let thorough = tier == "thorough";
    let days = if thorough { 6 } else { 4 };
    for s in SEEDS {
        emit(line(rng, s, days));
    }
    for l in gen_expr::sample_lines() {
        emit(line(rng, &l, days));
    }
    let n = if thorough { 100_000 } else { 5_000 };
    for i in 0..n {
        let e = match i % 10 {
            0..=3 => gen_expr::expr(rng, &CFG),
            4..=5 => gen_expr::expr(rng, &CFG_ALL),
            6 => gen_expr::expr(rng, &gen_expr::DEFAULT),
            _ => dense_expr(rng),
        };
        emit(line(rng, &e, days));
        // the public entry point under a context: holiday, sun-event and plain expressions alike
        if i % 2 == 0 || thorough {
            let e2 = match i % 6 {
                0 => format!("{e}; PH off"),
                2 => format!("{e}; SH off; PH 10:00-12:00"),
                4 => format!("sunrise-sunset; {e}"),
                _ => e.clone(),
            };
            let ctx = crate::ev::gen_ctx(rng, &e2, true);
            for _ in 0..2 {
                let d = crate::ev::gen_day_for(rng, &ctx, &e2);
                emit(format!("nz.api {d} {ctx} {}", enc(&e2)));
            }
        }
    }
    // interlocking selectors, enumerated: rule A constrains one dimension (weekday), rule B the same dimension by a
    // LIST of ranges inside a restriction of another dimension (month, week, year) — same or different hours, both
    // orders, both separators — evaluated on three whole weeks in different months and years.  The paving merges
    // sibling columns by `is_val` on multi-range selectors; seed `C07-paving-single-column-fast-path` (about 1 in 5 000
    // random expressions) was missed by the random sentences of the quick tier.
    {
        let weeks: Vec<i64> = [crate::ev::ymd(2024, 2, 5), crate::ev::ymd(2024, 6, 3), crate::ev::ymd(2025, 9, 1)].iter().flat_map(|d| *d..*d + 7).collect();
        let days_s = weeks.iter().map(|d| d.to_string()).collect::<Vec<_>>().join(" ");
        let r1s = ["Mo-Fr", "We", "Mo", "Tu"];
        let r2s = ["Su", "Mo,We,Fr", "Tu,Th", "Mo,Th", "Mo-Fr,Su"];
        let outers = ["Jan-Mar ", "Aug-Feb ", "week 01-10 ", "2024 ", "2024-2026 ", "Jan-Jun week 01-09 ", ""];
        let times = [("09:00-17:00", "09:00-17:00"), ("14:00-17:00", "09:00-12:00"), ("", "")];
        let mut k = 0usize;
        for r1 in r1s {
            for r2 in r2s {
                for o in outers {
                    for (ta, tb) in times {
                        for sep in [" ; ", ", "] {
                            k += 1;
                            if !thorough && k % 3 != 0 {
                                continue;
                            }
                            let a = format!("{r1} {ta}").trim().to_string() + if ta.is_empty() { " open" } else { "" };
                            let b = format!("{o}{r2} {tb}").trim().to_string() + if tb.is_empty() { " open" } else { "" };
                            emit(format!("nz.norm {} {days_s}", enc(&format!("{a}{sep}{b}"))));
                            emit(format!("nz.norm {} {days_s}", enc(&format!("{b}{sep}{a}"))));
                        }
                    }
                }
            }
        }
    }
    // contexts with ONE of the two calendars only (the other empty), holiday-only rules
    for (i, e) in ["Mo-Fr 10:00-18:00; SH off", "Mo-Fr 10:00-18:00; PH off", "24/7; PH,SH off", "SH 10:00-12:00", "PH 10:00-12:00; Sa off",
        "Mo-Su 08:00-20:00; SH +1 day off", "PH -1 day 10:00-14:00; Mo off", "10:00-12:00; PH off || unknown"].iter().enumerate()
    {
        for d in [739_000i64, 739_100, 739_200, 739_300] {
            let d = d + i as i64;
            for ctx in [format!("ph={d}"), format!("sh={d}"), format!("ph={d};sh={}", d + 1), format!("sh={d},{}", d + 1), "-".to_string()] {
                for dd in [d - 1, d, d + 1] {
                    emit(format!("nz.api {dd} {ctx} {}", enc(e)));
                }
            }
        }
    }
}
