//! Shared helpers: PRNG (one xorshift state per run, seeded by VERIF_SEED), panic capture.
use std::cell::RefCell;
use std::panic::{catch_unwind, AssertUnwindSafe};

pub struct Rng(pub u64);

impl Rng {
    pub fn new(seed: u64) -> Self {
        // splitmix to avoid the all-zero state
        let mut z = seed.wrapping_add(0x9E3779B97F4A7C15);
        z = (z ^ (z >> 30)).wrapping_mul(0xBF58476D1CE4E5B9);
        z = (z ^ (z >> 27)).wrapping_mul(0x94D049BB133111EB);
        Rng((z ^ (z >> 31)) | 1)
    }
    pub fn next(&mut self) -> u64 {
        let mut x = self.0;
        x ^= x >> 12;
        x ^= x << 25;
        x ^= x >> 27;
        self.0 = x;
        x.wrapping_mul(0x2545F4914F6CDD1D)
    }
    /// uniform in 0..n (n > 0)
    pub fn below(&mut self, n: u64) -> u64 {
        self.next() % n
    }
    /// uniform in lo..=hi
    pub fn range(&mut self, lo: i64, hi: i64) -> i64 {
        lo + (self.next() % ((hi - lo + 1) as u64)) as i64
    }
    pub fn chance(&mut self, num: u64, den: u64) -> bool {
        self.below(den) < num
    }
    pub fn pick<'a, T>(&mut self, xs: &'a [T]) -> &'a T {
        &xs[self.below(xs.len() as u64) as usize]
    }
}

thread_local! {
    static LAST_PANIC: RefCell<Option<String>> = const { RefCell::new(None) };
}

pub fn install_panic_hook() {
    std::panic::set_hook(Box::new(|info| {
        let loc = info
            .location()
            .map(|l| {
                let f = l.file();
                // keep the path relative to the repository / registry crate
                let f = f.rsplit_once("/repo/").map(|x| x.1).unwrap_or(f);
                let f = f.rsplit_once("/registry/src/").map(|x| x.1).unwrap_or(f);
                format!("{}:{}", f, l.line())
            })
            .unwrap_or_else(|| "?".to_string());
        LAST_PANIC.with(|p| *p.borrow_mut() = Some(loc));
    }));
}

/// Run `f`; a panic becomes `Err("panic:<file>:<line>")`.
pub fn catch<T>(f: impl FnOnce() -> T) -> Result<T, String> {
    match catch_unwind(AssertUnwindSafe(f)) {
        Ok(v) => Ok(v),
        Err(_) => {
            let loc = LAST_PANIC.with(|p| p.borrow_mut().take()).unwrap_or_else(|| "?".into());
            Err(format!("panic:{}", loc.replace(' ', "_")))
        }
    }
}

/// Percent-encode everything that is not a printable non-space ASCII character other than `%`,
/// so that arbitrary strings travel as one token.
pub fn enc(s: &str) -> String {
    let mut out = String::with_capacity(s.len() + 2);
    if s.is_empty() {
        return "%".to_string(); // the empty string is the single token "%"
    }
    for b in s.bytes() {
        // `|` and `=` are escaped too: sections of a line are separated by ` | ` and ` => `
        if b > 0x20 && b < 0x7f && b != b'%' && b != b'|' && b != b'=' {
            out.push(b as char);
        } else {
            out.push_str(&format!("%{:02X}", b));
        }
    }
    out
}
