//! Suite `ev` — evaluation ops on the real evaluator (C01, C02, C03, C08, C16, C17).
//!   ev.sched <day> <ctx> <expr>          schedule_at(day).into_iter()
//!   ev.iter  <from> <to> <ctx> <expr>    iter_range(from, to) collected
//!   ev.state <t> <ctx> <expr>            state / is_open / is_closed / is_unknown
//!   ev.next  <t> <ctx> <expr>            next_change
//! `<ctx>` is `-` or `;`-separated items `ph=<days,>` `sh=<days,>` `b=<ns>` `cc=<ISO>` `co=<lat>:<lon>:<tz>`;
//! `<expr>` is the percent-encoded source string.  Output: `<CTX dump> <AST dump> | <result>`.
use crate::ast;
use crate::gen_expr;
use crate::util::{catch, enc, Rng};
use chrono::{Duration, NaiveDate, NaiveDateTime, TimeDelta};
use compact_calendar::CompactCalendar;
use opening_hours::localization::{Coordinates, Country, Localize, TzLocation};
use opening_hours::{Context, ContextHolidays, DateTimeRange, OpeningHours};
use opening_hours_syntax::rules::time::TimeEvent;
use std::sync::Arc;

pub fn dec(s: &str) -> Option<String> {
    if s == "%" {
        return Some(String::new());
    }
    let b = s.as_bytes();
    let mut out = Vec::with_capacity(b.len());
    let mut i = 0;
    while i < b.len() {
        if b[i] == b'%' && i + 3 <= b.len() {
            let h = std::str::from_utf8(&b[i + 1..i + 3]).ok()?;
            out.push(u8::from_str_radix(h, 16).ok()?);
            i += 3;
        } else {
            out.push(b[i]);
            i += 1;
        }
    }
    String::from_utf8(out).ok()
}

/// interval-size bound token: nanoseconds, or `max` / `min` for `TimeDelta::MAX` / `TimeDelta::MIN`
fn parse_bound(s: &str) -> Option<TimeDelta> {
    match s {
        "max" => Some(TimeDelta::MAX),
        "min" => Some(TimeDelta::MIN),
        _ => Some(TimeDelta::nanoseconds(s.parse().ok()?)),
    }
}

pub struct CtxSpec {
    pub ph: Vec<i64>,
    pub sh: Vec<i64>,
    pub bound_ns: Option<i64>,
    pub coords: Option<(f64, f64, chrono_tz::Tz)>,
}

fn days_list(s: &str) -> Option<Vec<i64>> {
    if s.is_empty() {
        return Some(vec![]);
    }
    s.split(',').map(|x| x.parse().ok()).collect()
}

pub fn parse_ctx(s: &str) -> Option<CtxSpec> {
    let mut c = CtxSpec { ph: vec![], sh: vec![], bound_ns: None, coords: None };
    if s == "-" {
        return Some(c);
    }
    for item in s.split(';') {
        let (k, v) = item.split_once('=')?;
        match k {
            "ph" => c.ph = days_list(v)?,
            "sh" => c.sh = days_list(v)?,
            "b" => c.bound_ns = Some(v.parse().ok()?),
            "cc" => {
                let country: Country = v.parse().ok()?;
                let h = country.holidays();
                c.ph = h.get_public().iter().map(ast::day_num).collect();
                c.sh = h.get_school().iter().map(ast::day_num).collect();
            }
            "co" => {
                let mut it = v.split(':');
                let lat: f64 = it.next()?.parse().ok()?;
                let lon: f64 = it.next()?.parse().ok()?;
                let tz: chrono_tz::Tz = it.next()?.parse().ok()?;
                c.coords = Some((lat, lon, tz));
            }
            _ => return None,
        }
    }
    c.ph.sort();
    c.ph.dedup();
    c.sh.sort();
    c.sh.dedup();
    Some(c)
}

pub fn holidays(c: &CtxSpec) -> Option<ContextHolidays> {
    let cal = |v: &Vec<i64>| -> Option<CompactCalendar> { v.iter().map(|d| ast::date_of(*d)).collect::<Option<CompactCalendar>>() };
    Some(ContextHolidays::new(Arc::new(cal(&c.ph)?), Arc::new(cal(&c.sh)?)))
}

pub fn ctx_dump(c: &CtxSpec, events: &[(i64, [u32; 4])]) -> String {
    let mut out = vec!["C".to_string(), c.ph.len().to_string()];
    out.extend(c.ph.iter().map(|d| d.to_string()));
    out.push(c.sh.len().to_string());
    out.extend(c.sh.iter().map(|d| d.to_string()));
    out.push(c.bound_ns.map(|b| b.to_string()).unwrap_or_else(|| "-".into()));
    out.push("V".into());
    out.push(events.len().to_string());
    for (d, e) in events {
        out.push(d.to_string());
        out.extend(e.iter().map(|x| x.to_string()));
    }
    out.join(" ")
}

fn show_ranges(rs: impl Iterator<Item = opening_hours::schedule::TimeRange>) -> String {
    let v: Vec<_> = rs.collect();
    let mut out = vec![v.len().to_string()];
    for r in v {
        out.push(r.range.start.mins_from_midnight().to_string());
        out.push(r.range.end.mins_from_midnight().to_string());
        out.push(ast::kind_tok(r.kind).into());
        out.push(r.comments.len().to_string());
        out.extend(r.comments.iter().map(|c| enc(c)));
    }
    out.join(" ")
}

fn show_intervals(v: &[DateTimeRange]) -> String {
    let mut out = vec![v.len().to_string()];
    for r in v {
        out.push(ast::instant(r.range.start));
        out.push(ast::instant(r.range.end));
        out.push(ast::kind_tok(r.kind).into());
        out.push(r.comments.len().to_string());
        out.extend(r.comments.iter().map(|c| enc(c)));
    }
    out.join(" ")
}

fn events_of<L: Localize>(l: &L, d: NaiveDate) -> [u32; 4] {
    use chrono::Timelike;
    let f = |e| {
        let t = l.event_time(d, e);
        t.hour() * 60 + t.minute()
    };
    [f(TimeEvent::Dawn), f(TimeEvent::Sunrise), f(TimeEvent::Sunset), f(TimeEvent::Dusk)]
}

/// cap on the number of intervals collected by `ev.iter` (the window is cut there; the driver
/// compares only what was produced and is told the output was cut)
pub const ITER_CAP: usize = 400;

pub fn exec(op: &str, a: &[&str]) -> Option<String> {
    // the same operations serve several properties: `c01.sched`, `c02.iter`, … run as `ev.*`
    let name = op.split_once('.').map(|x| x.1)?;
    let op = &format!("ev.{name}")[..];
    let (ctx_s, expr_s) = match (op, a.len()) {
        ("ev.sched", 3) | ("ev.state", 3) | ("ev.next", 3) => (a[1], a[2]),
        ("ev.iter", 4) | ("ev.nextw", 4) | ("ev.nextpair", 4) | ("ev.bstate", 4) | ("ev.hint", 4) => (a[2], a[3]),
        ("ev.bnext", 5) | ("ev.biter", 5) => (a[3], a[4]),
        _ => return None,
    };
    let spec = parse_ctx(ctx_s)?;
    let src = dec(expr_s)?;
    let parsed = catch(|| opening_hours_syntax::parse(&src));
    let expr = match parsed {
        Err(p) => return Some(format!("parse-{p}")),
        Ok(Err(e)) => {
            return Some(format!(
                "parse-error {}",
                match e {
                    opening_hours_syntax::Error::Parser(_) => "parser",
                    opening_hours_syntax::Error::Unsupported(_) => "unsupported",
                    opening_hours_syntax::Error::Overflow { .. } => "overflow",
                    opening_hours_syntax::Error::InvalidExtendTime { .. } => "exttime",
                }
            ))
        }
        Ok(Ok(e)) => e,
    };
    let astd = ast::expr(&expr);
    let oh = OpeningHours::parse(&src).ok()?;
    let hol = holidays(&spec)?;
    let mut ctx = Context::default().with_holidays(hol.clone());
    if let Some(b) = spec.bound_ns {
        ctx = ctx.approx_bound_interval_size(TimeDelta::nanoseconds(b));
    }
    match op {
        "ev.sched" => {
            let day: i64 = a[0].parse().ok()?;
            let date = ast::date_of(day)?;
            if let Some((lat, lon, tz)) = spec.coords {
                let coords = Coordinates::new(lat, lon)?;
                let loc = TzLocation::new(tz).with_coords(coords);
                let mut evs = Vec::new();
                for d in [date.pred_opt(), Some(date)].into_iter().flatten() {
                    if let Ok(e) = catch(|| events_of(&loc, d)) {
                        evs.push((ast::day_num(d), e));
                    }
                }
                let lctx = Context::default().with_holidays(hol).with_locale(loc);
                let oh = oh.with_context(lctx);
                let r = catch(|| show_ranges(oh.schedule_at(date).into_iter()));
                Some(format!("{} {} | {}", ctx_dump(&spec, &evs), astd, r.unwrap_or_else(|p| p)))
            } else {
                let oh = oh.with_context(ctx);
                let r = catch(|| show_ranges(oh.schedule_at(date).into_iter()));
                Some(format!("{} {} | {}", ctx_dump(&spec, &[]), astd, r.unwrap_or_else(|p| p)))
            }
        }
        _ if spec.coords.is_some() => None,
        "ev.iter" => {
            let from = ast::parse_instant(a[0])?;
            let to = ast::parse_instant(a[1])?;
            let oh = oh.with_context(ctx);
            let r = catch(|| {
                let v: Vec<DateTimeRange> = oh.iter_range(from, to).take(ITER_CAP + 1).collect();
                if v.len() > ITER_CAP {
                    format!("cut {}", show_intervals(&v[..ITER_CAP]))
                } else {
                    format!("all {}", show_intervals(&v))
                }
            });
            Some(format!("{} {} | {}", ctx_dump(&spec, &[]), astd, r.unwrap_or_else(|p| p)))
        }
        "ev.state" => {
            let t = ast::parse_instant(a[0])?;
            let oh = oh.with_context(ctx);
            let r = catch(|| {
                let k = oh.state(t);
                let flags = (oh.is_open(t), oh.is_closed(t), oh.is_unknown(t));
                format!("{} {}{}{}", ast::kind_tok(k), flags.0 as u8, flags.1 as u8, flags.2 as u8)
            });
            Some(format!("{} {} | {}", ctx_dump(&spec, &[]), astd, r.unwrap_or_else(|p| p)))
        }
        "ev.nextw" => {
            // first interval of iter_range(t, t + horizon): the bounded-work form of next_change
            let t = ast::parse_instant(a[0])?;
            let h: i64 = a[1].parse().ok()?;
            let Some(to) = t.checked_add_signed(Duration::days(h)) else {
                return Some(format!("{} {} | skip-unrepresentable", ctx_dump(&spec, &[]), astd));
            };
            let oh = oh.with_context(ctx);
            let lim = std::cmp::min(to, opening_hours::DATE_END);
            let r = catch(|| match oh.iter_range(t, to).next() {
                None => "none".to_string(),
                Some(iv) if iv.range.end >= lim => format!("beyond {}", ast::kind_tok(iv.kind)),
                Some(iv) => format!("some {} {}", ast::instant(iv.range.end), ast::kind_tok(iv.kind)),
            });
            Some(format!("{} {} | {}", ctx_dump(&spec, &[]), astd, r.unwrap_or_else(|p| p)))
        }
        "ev.nextpair" => {
            // next_change at two instants (C03: identical inside one interval)
            let t = ast::parse_instant(a[0])?;
            let t2 = ast::parse_instant(a[1])?;
            let oh = oh.with_context(ctx);
            let show = |x: Option<NaiveDateTime>| match x {
                None => "none".to_string(),
                Some(c) => format!("some {}", ast::instant(c)),
            };
            let r = catch(|| format!("{} / {}", show(oh.next_change(t)), show(oh.next_change(t2))));
            Some(format!("{} {} | {}", ctx_dump(&spec, &[]), astd, r.unwrap_or_else(|p| p)))
        }
        "ev.bnext" => {
            // C16: exact answer on a window of `h` days (no bound) / next_change with bound `b` ns
            let t = ast::parse_instant(a[0])?;
            let b = parse_bound(a[1])?;
            let h: i64 = a[2].parse().ok()?;
            let to = t.checked_add_signed(Duration::days(h))?;
            let lim = std::cmp::min(to, opening_hours::DATE_END);
            let exact = oh.clone().with_context(Context::default().with_holidays(hol.clone()));
            let bounded = oh.with_context(Context::default().with_holidays(hol).approx_bound_interval_size(b));
            let r = catch(|| {
                let x = match exact.iter_range(t, to).next() {
                    None => "none".to_string(),
                    Some(iv) if iv.range.end >= lim => "beyond".to_string(),
                    Some(iv) => format!("some {}", ast::instant(iv.range.end)),
                };
                let y = match bounded.next_change(t) {
                    None => "none".to_string(),
                    Some(c) => format!("some {}", ast::instant(c)),
                };
                format!("{x} / {y}")
            });
            let mut spec_b = spec;
            spec_b.bound_ns = None;
            Some(format!("{} {} | {}", ctx_dump(&spec_b, &[]), astd, r.unwrap_or_else(|p| p)))
        }
        "ev.biter" => {
            // bounded stream: must end (cap 5000 items) and never panic; items are not compared
            let from = ast::parse_instant(a[0])?;
            let to = ast::parse_instant(a[1])?;
            let b = parse_bound(a[2])?;
            let bounded = oh.with_context(Context::default().with_holidays(hol).approx_bound_interval_size(b));
            let r = catch(|| {
                let n = bounded.iter_range(from, to).take(5001).count();
                if n > 5000 { "endless".to_string() } else { format!("ends {n}") }
            });
            let mut spec_b = spec;
            spec_b.bound_ns = None;
            Some(format!("{} {} | {}", ctx_dump(&spec_b, &[]), astd, r.unwrap_or_else(|p| p)))
        }
        "ev.bstate" => {
            let t = ast::parse_instant(a[0])?;
            let b = parse_bound(a[1])?;
            let exact = oh.clone().with_context(Context::default().with_holidays(hol.clone()));
            let bounded = oh.with_context(Context::default().with_holidays(hol).approx_bound_interval_size(b));
            let r = catch(|| format!("{} {}", ast::kind_tok(bounded.state(t)), ast::kind_tok(exact.state(t))));
            let mut spec_b = spec;
            spec_b.bound_ns = None;
            Some(format!("{} {} | {}", ctx_dump(&spec_b, &[]), astd, r.unwrap_or_else(|p| p)))
        }
        "ev.hint" => {
            // the day-skipping hint itself (hook `verif_next_change_hint`), for `n` consecutive days
            // from day `d0`: the iterator trusts it each time a day's schedule is used up
            let d0: i64 = a[0].parse().ok()?;
            let n: i64 = a[1].parse().ok()?;
            let oh = oh.with_context(ctx);
            let r = catch(|| {
                let mut out = Vec::new();
                for d in d0..d0 + n {
                    let Some(date) = ast::date_of(d) else {
                        out.push("x".to_string());
                        continue;
                    };
                    out.push(match oh.verif_next_change_hint(date) {
                        None => "none".to_string(),
                        Some(h) => ast::day_num(h).to_string(),
                    });
                }
                out.join(" ")
            });
            Some(format!("{} {} | {}", ctx_dump(&spec, &[]), astd, r.unwrap_or_else(|p| p)))
        }
        "ev.next" => {
            let t = ast::parse_instant(a[0])?;
            let oh = oh.with_context(ctx);
            let r = catch(|| match oh.next_change(t) {
                None => "none".to_string(),
                Some(c) => format!("some {}", ast::instant(c)),
            });
            Some(format!("{} {} | {}", ctx_dump(&spec, &[]), astd, r.unwrap_or_else(|p| p)))
        }
        _ => None,
    }
}

// ------------------------------------------------------------------------------------------
// generators

pub fn ymd(y: i32, m: u32, d: u32) -> i64 {
    ast::day_num(NaiveDate::from_ymd_opt(y, m, d).unwrap())
}

/// a day biased to the boundaries that matter
pub fn gen_day(rng: &mut Rng) -> i64 {
    match rng.below(20) {
        0 => ymd(1900, 1, 1) + rng.range(-2, 3),
        1 => ymd(9999, 12, 31) + rng.range(-3, 2),
        2 => {
            let y = *rng.pick(&[2020, 2024, 2000, 2100, 2023, 1900, 2400]);
            ymd(y, 2, 28) + rng.range(-1, 3)
        }
        3 => {
            // year ends, incl. ISO-week-53 years
            let y = *rng.pick(&[2020, 2015, 2026, 2021, 2024, 2032, 2019]);
            ymd(y, 12, 31) + rng.range(-7, 7)
        }
        4 => ymd(rng.range(1900, 9999) as i32, rng.range(1, 12) as u32, rng.range(1, 28) as u32),
        7 => {
            // century years (leap only when divisible by 400) and their Februaries
            let y = *rng.pick(&[1900, 2000, 2100, 2200, 2300, 2400, 2500, 3000, 9900]);
            if rng.chance(2, 3) {
                ymd(y, 2, 1) + rng.range(0, 29)
            } else {
                ymd(y, rng.range(1, 12) as u32, 1) + rng.range(0, 27)
            }
        }
        5 => {
            // month ends
            let y = rng.range(2018, 2032) as i32;
            let m = rng.range(1, 12) as u32;
            ymd(y, m, 1) + rng.range(-2, 1)
        }
        6 => {
            // around Easter
            let y = rng.range(2018, 2032) as i32;
            ymd(y, 3, 22) + rng.range(-3, 40)
        }
        _ => ymd(2018, 1, 1) + rng.range(0, 15 * 365),
    }
}

pub fn gen_holidays(rng: &mut Rng) -> String {
    let n = rng.range(1, 12);
    let base = ymd(2018, 1, 1);
    let mut v: Vec<i64> = (0..n).map(|_| if rng.chance(1, 6) { gen_day(rng) } else { base + rng.range(0, 15 * 365) }).collect();
    // a run of consecutive days (school holidays look like this)
    if rng.chance(1, 2) {
        let s = base + rng.range(0, 15 * 365);
        v.extend((0..rng.range(2, 15)).map(|i| s + i));
    }
    v.retain(|d| ast::date_of(*d).is_some());
    v.sort();
    v.dedup();
    v.iter().map(|d| d.to_string()).collect::<Vec<_>>().join(",")
}

pub fn gen_ctx(rng: &mut Rng, expr: &str, allow_bound: bool) -> String {
    let mut items = Vec::new();
    if expr.contains("PH") || rng.chance(1, 20) {
        if rng.chance(1, 10) {
            items.push(format!("cc={}", rng.pick(&["FR", "DE", "US", "GB", "JP", "BR"])));
        } else {
            items.push(format!("ph={}", gen_holidays(rng)));
        }
    }
    if expr.contains("SH") && !items.iter().any(|i: &String| i.starts_with("cc=")) {
        items.push(format!("sh={}", gen_holidays(rng)));
    }
    if allow_bound && rng.chance(1, 8) {
        let days = *rng.pick(&[1, 2, 7, 30, 366, 3650]);
        items.push(format!("b={}", days as i64 * 86_400_000_000_000));
    }
    if items.is_empty() {
        "-".into()
    } else {
        items.join(";")
    }
}

/// the holiday days listed in a generated context token (`ph=…`, `sh=…`)
fn ctx_days(ctx: &str) -> Vec<i64> {
    let mut v = Vec::new();
    for item in ctx.split(';') {
        if let Some(l) = item.strip_prefix("ph=").or_else(|| item.strip_prefix("sh=")) {
            v.extend(l.split(',').filter_map(|x| x.parse::<i64>().ok()));
        }
    }
    v
}

/// a day for a given context: half of the time next to one of its holidays (before, on, after,
/// a few days around: this is where `PH`/`SH` selectors and their offsets change state)
/// a day for a given context and expression: a third of the time a boundary day of the
/// expression's own selectors (see bdays.rs), else as `gen_day_ctx`
pub fn gen_day_for(rng: &mut Rng, ctx: &str, expr: &str) -> i64 {
    if rng.chance(1, 3) {
        if let Some(d) = catch(|| crate::bdays::pick(rng, expr, &ctx_days(ctx))).ok().flatten() {
            return d;
        }
    }
    gen_day_ctx(rng, ctx)
}

pub fn gen_instant_for(rng: &mut Rng, ctx: &str, expr: &str) -> String {
    let d = gen_day_for(rng, ctx, expr);
    let ns: u64 = match rng.below(6) {
        0 => 0,
        1 => 86_399_999_999_999,
        2 => rng.below(86_400) * 1_000_000_000 + rng.below(1_000_000_000),
        _ => rng.below(1440) * 60_000_000_000,
    };
    format!("{d}:{ns}")
}

pub fn gen_day_ctx(rng: &mut Rng, ctx: &str) -> i64 {
    let hs = ctx_days(ctx);
    if !hs.is_empty() && rng.chance(1, 2) {
        let h = *rng.pick(&hs);
        let d = h + *rng.pick(&[-3, -2, -1, -1, 0, 0, 0, 1, 1, 2, 3, 7, 10, -10]);
        if ast::date_of(d).is_some() {
            return d;
        }
    }
    gen_day(rng)
}

pub fn gen_instant_ctx(rng: &mut Rng, ctx: &str) -> String {
    let d = gen_day_ctx(rng, ctx);
    let ns: u64 = match rng.below(6) {
        0 => 0,
        1 => 86_399_999_999_999,
        2 => rng.below(86_400) * 1_000_000_000 + rng.below(1_000_000_000),
        _ => rng.below(1440) * 60_000_000_000,
    };
    format!("{d}:{ns}")
}

pub fn gen_instant(rng: &mut Rng) -> String {
    let d = gen_day(rng);
    let ns: u64 = match rng.below(6) {
        0 => 0,
        1 => 86_399_999_999_999,
        2 => rng.below(86_400) * 1_000_000_000 + rng.below(1_000_000_000),
        _ => rng.below(1440) * 60_000_000_000,
    };
    format!("{d}:{ns}")
}

fn add_ns(t: &str, ns: i64) -> Option<String> {
    let dt = ast::parse_instant(t)?;
    let r: NaiveDateTime = dt.checked_add_signed(Duration::nanoseconds(ns % 1_000_000_000))?.checked_add_signed(Duration::seconds(ns / 1_000_000_000))?;
    Some(ast::instant(r))
}

pub fn gen(tier: &str, rng: &mut Rng, emit: &mut dyn FnMut(String)) {
    gen_for("ev", tier, rng, emit)
}

fn gen_all(tier: &str, rng: &mut Rng, emit: &mut dyn FnMut(String)) {
    let thorough = tier == "thorough";
    let cfg = gen_expr::DEFAULT;
    // the suite's own sample expressions, each on a few days
    for line in gen_expr::sample_lines() {
        for _ in 0..(if thorough { 6 } else { 2 }) {
            let ctx = gen_ctx(rng, &line, false);
            emit(format!("ev.sched {} {} {}", gen_day(rng), ctx, enc(&line)));
        }
        let t = gen_instant(rng);
        emit(format!("ev.state {} {} {}", t, gen_ctx(rng, &line, false), enc(&line)));
    }
    let n = if thorough { 60_000 } else { 3_000 };
    let mut skipped_slow = 0u64;
    for i in 0..n {
        let e = gen_expr::expr(rng, &cfg);
        let ee = enc(&e);
        let ctx = gen_ctx(rng, &e, false);
        let days = if thorough { 10 } else { 5 };
        let d0 = gen_day(rng);
        for k in 0..days {
            // consecutive days exercise spans passing midnight, then independent days
            let d = if k < 2 { d0 + k } else { gen_day(rng) };
            emit(format!("ev.sched {d} {ctx} {ee}"));
        }
        if e.contains("sun") || e.contains("dawn") || e.contains("dusk") {
            let co = rng.pick(&["48.85:2.35:Europe/Paris", "-33.86:151.2:Australia/Sydney", "64.1:-21.9:Atlantic/Reykjavik", "1.35:103.8:Asia/Singapore", "40.7:-74.0:America/New_York"]);
            let c2 = if ctx == "-" { format!("co={co}") } else { format!("{ctx};co={co}") };
            emit(format!("ev.sched {} {c2} {ee}", gen_day(rng)));
        }
        // state / next_change / windows
        let t = gen_instant(rng);
        let ctxb = gen_ctx(rng, &e, true);
        emit(format!("ev.state {t} {ctx} {ee}"));
        if i % 2 == 0 {
            // next_change walks day by day while nothing changes: ask the windowed form first and
            // call the unbounded API only when the answer is near (or for a small ration)
            let h = *rng.pick(&[1, 7, 40, 400, 800]);
            let w = format!("ev.nextw {t} {h} {ctxb} {ee}");
            let near = {
                let toks: Vec<&str> = w.split(' ').collect();
                exec(toks[0], &toks[1..]).map(|r| !r.contains("| beyond")).unwrap_or(false)
            };
            emit(w);
            if near {
                emit(format!("ev.next {t} {ctxb} {ee}"));
            } else if rng.chance(1, 50) {
                // far answers: the unbounded API is only sent to the (slower) model when the real
                // code answered quickly; the others are counted as skipped for cost
                let l = format!("ev.next {t} {ctxb} {ee}");
                let toks: Vec<&str> = l.split(' ').collect();
                let t0 = std::time::Instant::now();
                let _ = exec(toks[0], &toks[1..]);
                if t0.elapsed().as_secs_f64() < 0.05 {
                    emit(l);
                } else {
                    skipped_slow += 1;
                }
            }
        }
        if i % 2 == 1 {
            let len_ns: i64 = match rng.below(6) {
                0 => 60_000_000_000,
                1 => rng.range(1, 86_400) * 1_000_000_000,
                2 => rng.range(1, 40) * 86_400_000_000_000,
                3 => rng.range(1, 400) * 86_400_000_000_000,
                4 => 0,
                _ => rng.range(1, 14) * 86_400_000_000_000 + rng.range(0, 86_399) * 1_000_000_000,
            };
            if let Some(to) = add_ns(&t, len_ns) {
                emit(format!("ev.iter {t} {to} {ctx} {ee}"));
            }
        }
    }
    emit(format!("#note unbounded next_change calls not sent to the model because of cost: {skipped_slow}"));
}

/// Deterministic sweep for the skip-ahead hints (C02, C03, C16): every hint template — every selector
/// kind that has a `next_change_hint` arm, alone and as `24/7; <selector> off` — queried from EVERY
/// boundary day of its own selectors (first / last day of each year, month, week, dated range, holiday
/// it mentions, and the days around them: computed by bdays.rs, not by the library) at the start, the
/// middle and the last nanosecond of the day.  A hint that is wrong only when it is evaluated ON one
/// particular day (the last day of a dated range, the eve of a holiday …) is invisible when the
/// iteration starts anywhere else: the hint of an earlier day jumps over that day.  Random instants hit
/// such a day about once in several thousand expressions (seed `C03-hint-on-the-last-day-of-a-single-
/// interval` was missed); the sweep visits each of them.
pub fn hint_sweep(thorough: bool) -> Vec<(String, String, i64)> {
    const EXTRA: [&str; 33] = [
        "{y} Jan 1-{y2} Dec 31", "{y} Dec 24-{y} Dec 26", "{y} Nov 1-Mar 15", "{y} Feb 28-Mar 1", "{y} Dec 25", "{y} Feb 29",
        "{y} easter-{y} May 1", "{y} easter", "Jan 1 +3 days-Jan 20 -2 days", "{y} Dec 30+", "Dec 30+", "Mar 1-Mar 10", "Jan 31-Feb 3",
        "Dec 25", "{y} Mar 28-Apr 16", "{y} Jan 1-{y3} Jan 1", "Feb 28-Mar 1", "Feb 29-Mar 2", "Dec 31-Jan 1", "{y} Dec 31-{y2} Jan 1",
        "Mo", "Sa-Su", "Mo[1]", "Fr[-1]", "Mo[2] +1 day", "{y} week 10 Mo", "{y} Feb", "Feb", "{y}-{y2} week 53", "Jan 1+Su-Jan 10",
        "week 40-52", "week 52", "week 02-52/10",
    ];
    // 2026 (and 2020, 2032) have 53 ISO weeks, 2024 has 52: the week selectors are swept in both kinds of year
    // (seed `C03-week-52-taken-for-the-last-week` was caught by C02's hint clause but not by C03 while only 2024 was swept)
    let years: &[i64] = if thorough { &[2023, 2024, 2026, 2027, 2032] } else { &[2024, 2026] };
    let mut out = Vec::new();
    let mut seen = std::collections::HashSet::new();
    for &y in years {
        let fill = |s: &str| s.replace("{y3}", &(y + 4).to_string()).replace("{y2}", &(y + 1).to_string()).replace("{y}", &y.to_string());
        let hol = [ymd(y as i32, 5, 1), ymd(y as i32, 12, 25), ymd(y as i32, 12, 26), ymd(y as i32 + 1, 1, 1)];
        let sch = [ymd(y as i32, 7, 10), ymd(y as i32, 7, 11), ymd(y as i32, 7, 12), ymd(y as i32, 12, 31)];
        let join = |v: &[i64]| v.iter().map(|d| d.to_string()).collect::<Vec<_>>().join(",");
        let mut exprs: Vec<String> = gen_expr::HINT_TEMPLATES.iter().map(|s| fill(s)).collect();
        for s in EXTRA {
            let s = fill(s);
            exprs.push(format!("24/7; {s} off"));
            exprs.push(s);
        }
        for e in exprs {
            if !thorough && y == 2026 && !e.contains("week") {
                continue;
            }
            // the same sentence is swept again around another focus year (its boundary days differ)
            if !seen.insert(format!("{y}:{e}")) {
                continue;
            }
            let Ok(parsed) = opening_hours_syntax::parse(&e) else { continue };
            let mut items = Vec::new();
            let mut hs: Vec<i64> = Vec::new();
            if e.contains("PH") {
                items.push(format!("ph={}", join(&hol)));
                hs.extend(hol);
            }
            if e.contains("SH") {
                items.push(format!("sh={}", join(&sch)));
                hs.extend(sch);
            }
            let ctx = if items.is_empty() { "-".to_string() } else { items.join(";") };
            let mut days = crate::bdays::boundary_days(&parsed, y as i32, &hs);
            for h in &hs {
                days.extend([h - 8, h - 7, h - 2, h + 2, h + 7, h + 8]);
            }
            days.sort();
            days.dedup();
            days.retain(|d| ast::date_of(*d).is_some());
            // quick tier: at most 48 days per expression, spread over the list
            let cap = if thorough { 400 } else { 48 };
            let step = days.len().div_ceil(cap).max(1);
            let ee = enc(&e);
            for d in days.iter().step_by(step) {
                out.push((ee.clone(), ctx.clone(), *d));
            }
        }
    }
    out
}

/// Does the real code answer this operation within `ms` milliseconds?  The call runs on its own
/// thread, which is abandoned when it is too slow (next_change may walk day by day to year 9999).
fn answers_within(l: &str, ms: u64) -> bool {
    let (tx, rx) = std::sync::mpsc::channel();
    let line = l.to_string();
    std::thread::spawn(move || {
        let _ = run_line(&line);
        let _ = tx.send(());
    });
    rx.recv_timeout(std::time::Duration::from_millis(ms)).is_ok()
}

fn run_line(l: &str) -> Option<String> {
    let toks: Vec<&str> = l.split(' ').collect();
    exec(toks[0], &toks[1..])
}

fn result_of(l: &str) -> Option<String> {
    run_line(l).and_then(|r| r.split(" | ").nth(1).map(|x| x.to_string()))
}

/// Per-property generators (the same executions, emphasis on what each property quantifies over).
pub fn gen_for(suite: &str, tier: &str, rng: &mut Rng, emit: &mut dyn FnMut(String)) {
    let thorough = tier == "thorough";
    let cfg = gen_expr::DEFAULT;
    let samples = gen_expr::sample_lines();
    let scale = |q: usize, t: usize| if thorough { t } else { q };
    match suite {
        "ev" => gen_all(tier, rng, emit),
        "c01" => {
            for line in &samples {
                for _ in 0..scale(3, 12) {
                    emit(format!("c01.sched {} {} {}", gen_day(rng), gen_ctx(rng, line, false), enc(line)));
                }
            }
            for _ in 0..scale(3_000, 60_000) {
                let e = gen_expr::expr(rng, &cfg);
                let ee = enc(&e);
                let ctx = gen_ctx(rng, &e, false);
                let d0 = gen_day_for(rng, &ctx, &e);
                for k in 0..scale(6, 12) as i64 {
                    let d = if k < 2 { d0 + k } else { gen_day_for(rng, &ctx, &e) };
                    emit(format!("c01.sched {d} {ctx} {ee}"));
                }
                if e.contains("sun") || e.contains("dawn") || e.contains("dusk") {
                    let co = rng.pick(&["48.85:2.35:Europe/Paris", "-33.86:151.2:Australia/Sydney", "64.1:-21.9:Atlantic/Reykjavik", "1.35:103.8:Asia/Singapore", "40.7:-74.0:America/New_York"]);
                    let c2 = if ctx == "-" { format!("co={co}") } else { format!("{ctx};co={co}") };
                    emit(format!("c01.sched {} {c2} {ee}", gen_day(rng)));
                }
            }
            // calendar enumerations: every nth-weekday selector and every week number on the days
            // where month lengths, leap rules and ISO year boundaries matter
            let wd = ["Mo", "Tu", "We", "Th", "Fr", "Sa", "Su"];
            // 2004 and 2032: leap years starting on a Thursday (53 ISO weeks although they do not END on a Thursday); 2020, 2026: long years ending on a Thursday
            let special_years = [1900, 2000, 2004, 2020, 2023, 2024, 2026, 2032, 2100, 2400, 9999];
            for y in special_years {
                let mut days: Vec<i64> = (ymd(y, 2, 1)..=ymd(y, 3, 1)).collect();
                days.extend(ymd(y, 12, 22)..=ymd(y, 12, 31));
                days.extend(ymd(y, 1, 1)..=ymd(y, 1, 10));
                days.extend([ymd(y, 4, 30), ymd(y, 5, 1), ymd(y, 6, 30), ymd(y, 7, 31), ymd(y, 8, 31), ymd(y, 10, 31), ymd(y, 11, 30)]);
                for (i, w) in wd.iter().enumerate() {
                    for n in [1, 2, 3, 4, 5, -1, -2, -3, -4, -5] {
                        let e = enc(&format!("{w}[{n}] 10:00-12:00"));
                        for d in days.iter().filter(|d| (**d + i as i64) % 2 == 0 || thorough) {
                            emit(format!("c01.sched {d} - {e}"));
                        }
                    }
                }
                for wk in ["1", "2", "51", "52", "53", "01-53/2", "02-53/3", "52-01", "53-02/2"] {
                    let e = enc(&format!("week {wk} 10:00-12:00"));
                    let next_january = if y < 9999 { ymd(y + 1, 1, 1)..=ymd(y + 1, 1, 12) } else { 0..=-1 };
                    for d in (ymd(y, 12, 20)..=ymd(y, 12, 31)).chain(ymd(y, 1, 1)..=ymd(y, 1, 12)).chain(next_january) {
                        emit(format!("c01.sched {d} - {e}"));
                    }
                }
            }
            // nth weekdays WITH a day offset (`Sa[-1] +7 days`, `Mo[-4] -1 day`): the position is counted in the month of
            // the day the offset is undone to, whose length may differ from the month of the evaluated day — the fortnight
            // around every month end of four years (seed `C01-nth-from-end-counted-in-the-wrong-month` was missed: the
            // enumeration above has no offsets and the random sentences rarely combine a negative position with one)
            for y in [2000, 2021, 2024, 2025] {
                let mut days: Vec<i64> = Vec::new();
                for m in 1..=12u32 {
                    let first = ymd(y, m, 1);
                    days.extend(first - 8..=first + 8);
                }
                for (i, w) in ["Mo", "Sa", "We"].iter().enumerate() {
                    for n in [1, 5, -1, -2, -4, -5] {
                        for off in ["+1 day", "-1 day", "+7 days", "-7 days", "+5 days", "-3 days"] {
                            let e = enc(&format!("{w}[{n}] {off} 10:00-12:00"));
                            for d in days.iter().filter(|d| thorough || (**d + i as i64 + n as i64) % 3 == 0) {
                                emit(format!("c01.sched {d} - {e}"));
                            }
                        }
                    }
                }
            }
            // dates with a weekday offset (`Jan 1+Su`, `easter-Fr`, `Dec 25+Mo-Jan 6`): the whole
            // fortnight around the date in years where the date falls on every weekday in turn (so
            // also on the target weekday itself, where the offset must do nothing), for every
            // target weekday and both signs
            // `Dec 31`, `Dec 28`, `Jan 3`: a forward shift crosses into the next year (the occurrence that decides the
            // first week of January belongs to the PREVIOUS year: mutant 0725 of the mutation sweep — the single-day
            // window `end_year - 1..` narrowed to `end_year..` — survived while no base lay within a week of the year end)
            for (base, (m, dd)) in [("Jan 1", (1u32, 1u32)), ("Dec 25", (12, 25)), ("Jun 15", (6, 15)), ("Feb 29", (2, 29)), ("Dec 31", (12, 31)), ("Dec 28", (12, 28)), ("Jan 3", (1, 3))] {
                for y in [2023, 2024, 2025, 2026, 2027, 2028, 2029, 2032] {
                    let Some(c) = chrono::NaiveDate::from_ymd_opt(y, m, dd).map(ast::day_num) else { continue };
                    for (i, w) in wd.iter().enumerate() {
                        for sign in ["+", "-"] {
                            if !thorough && (i + y as usize) % 2 == 1 {
                                continue;
                            }
                            let single = enc(&format!("{base}{sign}{w}"));
                            let range = enc(&format!("{base}{sign}{w}-{base} +12 days"));
                            for d in c - 8..=c + 8 {
                                emit(format!("c01.sched {d} - {single}"));
                                if (d - c) % 2 == 0 || thorough {
                                    emit(format!("c01.sched {d} - {range}"));
                                }
                            }
                        }
                    }
                }
            }
            for y in [2023, 2024, 2025, 2030] {
                let Some(c) = crate::bdays::easter_day(y) else { continue };
                for w in wd {
                    for sign in ["+", "-"] {
                        let e = enc(&format!("easter{sign}{w}"));
                        let e2 = enc(&format!("easter {sign}{w} +1 day-easter +10 days"));
                        for d in c - 8..=c + 9 {
                            emit(format!("c01.sched {d} - {e}"));
                            emit(format!("c01.sched {d} - {e2}"));
                        }
                    }
                }
            }
            if thorough {
                // every day of two full years for 500 expressions
                for _ in 0..500 {
                    let e = gen_expr::expr(rng, &cfg);
                    let ee = enc(&e);
                    let ctx = gen_ctx(rng, &e, false);
                    let y = *rng.pick(&[2020, 2023, 2024, 2027, 2032]);
                    for d in ymd(y, 1, 1)..ymd(y + 2, 1, 1) {
                        emit(format!("c01.sched {d} {ctx} {ee}"));
                    }
                }
            }
        }
        "c02" | "c17i" => {
            let op = if suite == "c02" { "c02.iter" } else { "c17.iter" };
            for line in &samples {
                let t = gen_instant(rng);
                if let Some(to) = add_ns(&t, rng.range(1, 60) * 86_400_000_000_000) {
                    emit(format!("{op} {t} {to} {} {}", gen_ctx(rng, line, false), enc(line)));
                }
            }
            for _ in 0..scale(3_000, 60_000) {
                let e = if rng.chance(1, 4) { gen_expr::hint_template(rng) } else { gen_expr::expr(rng, &cfg) };
                let ctx = gen_ctx(rng, &e, false);
                let t = gen_instant_for(rng, &ctx, &e);
                let len_ns: i64 = match rng.below(10) {
                    0 => 60_000_000_000,
                    1 => rng.range(1, 86_400) * 1_000_000_000,
                    2 | 3 => rng.range(1, 40) * 86_400_000_000_000,
                    4 | 5 => rng.range(1, 800) * 86_400_000_000_000,
                    6 => 0,
                    7 if rng.chance(1, 12) => rng.range(1, 600) * 86_400_000_000_000 * 30,
                    _ => rng.range(1, 14) * 86_400_000_000_000 + rng.range(0, 86_399) * 1_000_000_000,
                };
                if let Some(to) = add_ns(&t, len_ns) {
                    emit(format!("{op} {t} {to} {ctx} {}", enc(&e)));
                }
            }
            if suite == "c02" {
                // the hint itself, day by day (hook): a month around an expression-aware day for the
                // generated expressions, the week around every boundary day for the hint templates;
                // thorough: every day of two years for 300 expressions
                for _ in 0..scale(1_500, 20_000) {
                    let e = if rng.chance(1, 4) { gen_expr::hint_template(rng) } else { gen_expr::expr(rng, &cfg) };
                    let ctx = gen_ctx(rng, &e, false);
                    let d0 = gen_day_for(rng, &ctx, &e) - rng.range(0, 20);
                    emit(format!("c02.hint {d0} 30 {ctx} {}", enc(&e)));
                }
                for (ee, ctx, d) in hint_sweep(thorough) {
                    emit(format!("c02.hint {} 5 {ctx} {ee}", d - 2));
                }
                if thorough {
                    for _ in 0..300 {
                        let e = if rng.chance(1, 3) { gen_expr::hint_template(rng) } else { gen_expr::expr(rng, &cfg) };
                        let ctx = gen_ctx(rng, &e, false);
                        let y = *rng.pick(&[2020, 2023, 2024, 2027, 2032]);
                        emit(format!("c02.hint {} 731 {ctx} {}", ymd(y, 1, 1), enc(&e)));
                    }
                }
                // the deterministic hint sweep: a window that starts ON each boundary day
                for (i, (ee, ctx, d)) in hint_sweep(thorough).into_iter().enumerate() {
                    let ns = [0i64, 43_200_000_000_000, 86_399_999_999_999][i % 3];
                    let t = format!("{d}:{ns}");
                    let len = [3i64, 40, 400, 800][(i / 3) % 4] * 86_400_000_000_000;
                    if let Some(to) = add_ns(&t, len) {
                        emit(format!("{op} {t} {to} {ctx} {ee}"));
                    }
                }
            }
        }
        "c03" => {
            for _ in 0..scale(3_000, 60_000) {
                let e = if rng.chance(1, 20) && !samples.is_empty() {
                    rng.pick(&samples).clone()
                } else if rng.chance(1, 4) {
                    gen_expr::hint_template(rng)
                } else {
                    gen_expr::expr(rng, &cfg)
                };
                let ee = enc(&e);
                let ctx = gen_ctx(rng, &e, false);
                let t = gen_instant_for(rng, &ctx, &e);
                emit(format!("c03.state {t} {ctx} {ee}"));
                let h = *rng.pick(&[1, 7, 40, 400, 800]);
                let w = format!("c03.nextw {t} {h} {ctx} {ee}");
                let res = result_of(&w).unwrap_or_default();
                emit(w);
                if res.starts_with("some ") {
                    emit(format!("c03.next {t} {ctx} {ee}"));
                    // a second instant inside the same interval must give the same answer
                    let c = res.split(' ').nth(1).unwrap_or("");
                    if let (Some(a), Some(b)) = (ast::parse_instant(&t), ast::parse_instant(c)) {
                        let span = (b - a).num_seconds();
                        if span > 1 {
                            let t2 = a + Duration::seconds(rng.range(0, span - 1)) + Duration::nanoseconds(rng.range(0, 999_999_999));
                            if t2 < b {
                                emit(format!("c03.nextpair {t} {} {ctx} {ee}", ast::instant(t2)));
                            }
                        }
                    }
                } else if rng.chance(1, 20) {
                    let l = format!("c03.next {t} {ctx} {ee}");
                    if answers_within(&l, 30) {
                        emit(l);
                    }
                }
            }
            // the deterministic hint sweep: state and next_change asked ON each boundary day
            for (i, (ee, ctx, d)) in hint_sweep(thorough).into_iter().enumerate() {
                for ns in [0i64, 43_200_000_000_000, 86_399_999_999_999] {
                    if !thorough && ns == 43_200_000_000_000 && i % 2 == 1 {
                        continue;
                    }
                    let t = format!("{d}:{ns}");
                    emit(format!("c03.state {t} {ctx} {ee}"));
                    let w = format!("c03.nextw {t} 800 {ctx} {ee}");
                    let near = result_of(&w).map(|r| r.starts_with("some ")).unwrap_or(false);
                    emit(w);
                    // the unbounded call: when the windowed form found a change, and otherwise when the
                    // real code answers at once (a `None` that comes too early is what the sweep is after)
                    let l = format!("c03.next {t} {ctx} {ee}");
                    if near || answers_within(&l, 30) {
                        emit(l);
                    }
                }
            }
        }
        "c08" => {
            let lo = ymd(1900, 1, 1);
            let hi = ymd(9999, 12, 31) + 1;
            let special = ["9999", "1900-1901", "Dec 31 +1 day", "week 53", "2020+", "9999 Dec 31", "1900 Jan 1", "Jan 1 -1 day", "24/7", "Mo-Su 00:00-24:00 open", "9998-9999 Dec 31 22:00-26:00", "1900 Jan 1 00:00-01:00", "Dec 31 20:00-30:00", "9999 Dec 20+", "PH",
                "open", "24/7 unknown", "Jan-Dec", "Dec-Jan", "Nov-Feb", "Dec 31-Jan 01 unknown", "Dec 24-Jan 2", "Dec 31", "Jan 1", "1900", "1900-1950/10", "week 52-1", "week 1", "Su,Mo", "Dec 31-Jan 1 22:00-26:00"];
            // the eve and the first days of the supported range, the last days and the first day after it:
            // every special expression x every entry point x several times of day (a deterministic sweep)
            for e in special.iter() {
                let ee = enc(e);
                let ctx = if e.contains("PH") { format!("ph={},{},{}", lo - 1, lo, hi - 1) } else { "-".to_string() };
                for day in [lo - 2, lo - 1, lo, lo + 1, hi - 2, hi - 1, hi] {
                    for ns in [0i64, 1, 43_200_000_000_000, 86_340_000_000_000, 86_399_999_999_999] {
                        let t = format!("{day}:{ns}");
                        emit(format!("c08.state {t} {ctx} {ee}"));
                        emit(format!("c08.iter {t} {} {ctx} {ee}", add_ns(&t, 86_400_000_000_000 * 40).unwrap_or_else(|| t.clone())));
                        let l = format!("c08.next {t} {ctx} {ee}");
                        if answers_within(&l, 20) {
                            emit(l);
                        }
                    }
                }
            }
            for i in 0..scale(2_000, 40_000) {
                let e = if i % 3 == 0 { rng.pick(&special).to_string() } else { gen_expr::expr(rng, &cfg) };
                let ee = enc(&e);
                let mut ctx = if e.contains("PH") { format!("ph={},{},{}", lo - 1, lo, hi - 1) } else { gen_ctx(rng, &e, false) };
                // the window clauses hold for every context: a third of the lines carry an interval-size bound
                if rng.chance(1, 3) {
                    let b = *rng.pick(&[1i64, 2, 7, 30, 366, 3650]) * 86_400_000_000_000 + *rng.pick(&[0i64, 0, 43_200_000_000_000, 1]);
                    ctx = if ctx == "-" { format!("b={b}") } else { format!("{ctx};b={b}") };
                }
                let day = match rng.below(8) {
                    0 => lo + rng.range(-400, 3),
                    1 => hi + rng.range(-3, 400),
                    2 => rng.range(-95_000_000, 95_000_000),
                    3 => lo - rng.range(1, 700_000),
                    4 => hi + rng.range(0, 3_000_000),
                    5 => lo + rng.range(-2, 2),
                    6 => hi + rng.range(-2, 2),
                    _ => gen_day(rng),
                };
                let ns = if rng.chance(1, 2) { 0 } else { rng.below(86_400) * 1_000_000_000 };
                let t = format!("{day}:{ns}");
                if ast::parse_instant(&t).is_none() {
                    continue;
                }
                emit(format!("c08.state {t} {ctx} {ee}"));
                if rng.chance(1, 2) {
                    // the day schedule itself on both sides of each bound (1899-12-31, 1900-01-01, 9999-12-31, 10000-01-01 …)
                    let d = *rng.pick(&[lo - 2, lo - 1, lo, lo + 1, hi - 2, hi - 1, hi, hi + 1, hi + 7, lo - 7, day]);
                    if ast::date_of(d).is_some() {
                        emit(format!("c08.sched {d} {ctx} {ee}"));
                    }
                }
                // next_change from before 1900 walks until something opens: only with a cheap first probe
                let probe = format!("c08.iter {t} {} {ctx} {ee}", add_ns(&t, 86_400_000_000_000 * rng.range(1, if ctx.contains("b=") { 4000 } else { 900 })).unwrap_or_else(|| t.clone()));
                emit(probe);
                let l = format!("c08.next {t} {ctx} {ee}");
                if answers_within(&l, 20) {
                    emit(l);
                }
            }
        }
        "c16" => {
            for _ in 0..scale(3_000, 60_000) {
                let e = if rng.chance(1, 4) { gen_expr::hint_template(rng) } else { gen_expr::expr(rng, &cfg) };
                let ee = enc(&e);
                let ctx = gen_ctx(rng, &e, false);
                let t = gen_instant_for(rng, &ctx, &e);
                // find the exact answer on a window, then place bounds around it
                let probe = format!("c03.nextw {t} 800 {ctx} {ee}");
                let res = result_of(&probe).unwrap_or_default();
                let day = 86_400_000_000_000i64;
                let mut bounds: Vec<i64> = vec![day, 2 * day, 7 * day, 30 * day, 366 * day, 0, 1, day - 1, -1, -day, -2 * day];
                if let Some(c) = res.strip_prefix("some ").and_then(|r| r.split(' ').next()).and_then(ast::parse_instant) {
                    if let Some(a) = ast::parse_instant(&t) {
                        let delta = (c - a).num_nanoseconds().unwrap_or(0);
                        bounds.extend([delta - 1, delta, delta + 1, delta + day - 1, delta + day, delta + day + 1, delta / 2, delta + 3 * day].into_iter());
                    }
                }
                for _ in 0..scale(3, 8) {
                    let b = *rng.pick(&bounds);
                    let h = b / day + 3;
                    if h <= 900 {
                        emit(format!("c16.bnext {t} {b} {h} {ctx} {ee}"));
                    }
                    emit(format!("c16.bstate {t} {b} {ctx} {ee}"));
                }
            }
            // the deterministic hint sweep under interval-size bounds (one bound per case, in turn)
            let day = 86_400_000_000_000i64;
            for (i, (ee, ctx, d)) in hint_sweep(thorough).into_iter().enumerate() {
                let ns = [0i64, 86_399_999_999_999, 43_200_000_000_000][i % 3];
                let b = [day, 2 * day, 7 * day, 30 * day, 366 * day, day - 1, 3 * day + 1][i % 7];
                let t = format!("{d}:{ns}");
                emit(format!("c16.bnext {t} {b} {} {ctx} {ee}", b / day + 3));
                emit(format!("c16.bstate {t} {b} {ctx} {ee}"));
            }
        }
        "c17" => {
            let mut c = cfg;
            c.comments = true;
            for line in samples.iter().filter(|l| l.contains('"')) {
                for _ in 0..scale(3, 10) {
                    emit(format!("c17.sched {} {} {}", gen_day(rng), gen_ctx(rng, line, false), enc(line)));
                }
            }
            for _ in 0..scale(3_000, 60_000) {
                let mut e = gen_expr::expr(rng, &c);
                if !e.contains('"') {
                    // comments on a random subset of rules
                    // comments on a random subset of rules; a third of the commented rules carry TWO comments
                    // (`"x":` in front and one behind), so that unions of lists of different lengths occur
                    // (one operand with a run of two values above the other's last one, a shared value …)
                    e = e
                        .split("; ")
                        .map(|r| {
                            if rng.chance(1, 2) && !r.contains('"') {
                                let c = *rng.pick(&["a", "b", "c d", "a", "m", "z"]);
                                let starts_wide = r.starts_with(|ch: char| ch.is_ascii_digit()) || ["Jan", "Feb", "Mar", "Apr", "May", "Jun", "Jul", "Aug", "Sep", "Oct", "Nov", "Dec", "week", "easter", "24/7"].iter().any(|p| r.starts_with(p));
                                if rng.chance(1, 3) && !starts_wide && !r.contains("||") && !r.contains(", ") {
                                    format!("\"{}\":{r} \"{c}\"", rng.pick(&["b", "k", "y", "a"]))
                                } else {
                                    format!("{r} \"{c}\"")
                                }
                            } else {
                                r.to_string()
                            }
                        })
                        .collect::<Vec<_>>()
                        .join("; ");
                }
                let ee = enc(&e);
                let ctx = gen_ctx(rng, &e, false);
                let d0 = gen_day_for(rng, &ctx, &e);
                for k in 0..4 {
                    emit(format!("c17.sched {} {ctx} {ee}", if k < 2 { d0 + k } else { gen_day_for(rng, &ctx, &e) }));
                }
                let t = gen_instant_for(rng, &ctx, &e);
                if let Some(to) = add_ns(&t, rng.range(1, 20) * 86_400_000_000_000) {
                    emit(format!("c17.iter {t} {to} {ctx} {ee}"));
                }
            }
        }
        "c04" => {
            // every evaluator entry point at extreme instants and with extreme numbers
            let extremes_expr = [
                "Mo[1] +999999999 days", "Jan 1 +999999999 days", "PH +9223372036854775807 days", "PH -9223372036854775807 days",
                "Jan 1 -999999999 days", "easter +99999999999 days", "Mo +106751991168 days", "1900-9999/65535", "1900-9999/65534", "2020-9999/9999",
                "(dusk+23:00)-30:00", "(dawn-23:59)-(dusk+23:59)", "00:00-48:00", "24:00-48:00+", "week 1-53/255", "week 53", "9999", "1900",
                "Feb 29", "Feb 30", "Apr 31", "9999 Dec 31+", "1900 Jan 1-9999 Dec 31", "Dec 31 +1 day", "Jan 1 -1 day", "SH +1 day", "Su[-1] -32 days",
                "2020-2020/3", "Jan 1-Dec 31", "easter -100 days-easter +100 days", "Mo-Su 00:00-24:00", "24/7 closed || 24/7",
            ];
            let mn = ast::day_num(NaiveDate::MIN);
            let mx = ast::day_num(NaiveDate::MAX);
            let lo = ymd(1900, 1, 1);
            let hi = ymd(9999, 12, 31) + 1;
            let days = [mn, mn + 1, mx - 1, mx, lo - 1, lo, lo + 1, hi - 2, hi - 1, hi, hi + 1, 0, 1, -1, ymd(2024, 2, 29), ymd(2024, 3, 31)];
            for (i, e) in extremes_expr.iter().enumerate() {
                let ee = enc(e);
                let ctx = if e.contains("PH") || e.contains("SH") { format!("ph={},{},{};sh={}", lo, hi - 1, ymd(2024, 5, 1), ymd(2024, 5, 2)) } else { "-".to_string() };
                for d in days {
                    if ast::date_of(d).is_none() {
                        continue;
                    }
                    emit(format!("c04.sched {d} {ctx} {ee}"));
                    for ns in [0u64, 86_399_999_999_999] {
                        emit(format!("c04.state {d}:{ns} {ctx} {ee}"));
                        emit(format!("c04.nextw {d}:{ns} 400 {ctx} {ee}"));
                        if let Some(to) = add_ns(&format!("{d}:{ns}"), 86_400_000_000_000 * 40) {
                            emit(format!("c04.iter {d}:{ns} {to} {ctx} {ee}"));
                        }
                    }
                }
                // unbounded next_change only where it answers quickly
                let l = format!("c04.next {}:0 {ctx} {ee}", ymd(2024, 1, 1) + i as i64);
                if answers_within(&l, 50) {
                    emit(l);
                }
            }
            // every selector that takes a day offset x offsets around and beyond what chrono can represent
            // (the shifted date saturates at NaiveDate::MIN / MAX about 92 000 000 days away from today), BOTH
            // signs: seed `C04-december-of-the-last-representable-year` panics only for a weekday position
            // with a huge NEGATIVE offset (the date lands on 262142-12-31), which the list above did not have
            let sel = ["Mo[1] {o}", "Su[-1] {o}", "Fr[2,-1] {o}", "Mo[1] {o} 10:00-12:00", "PH {o}", "SH {o}", "Jan 1 {o}", "easter {o}", "Feb 29 {o}", "Dec 31 {o}",
                "Jan 1 {o}-Jan 10", "Jan 1-Jan 10 {o}", "2024 Jan 1 {o}-Feb 1", "2024 Jan 1-2024 Feb 1 {o}", "easter {o}-easter +3 days", "Dec 25 {o}-Jan 2 {o}", "24/7; Mo[2] {o} off"];
            let mags = ["91000000", "92100000", "95700000", "96000000", "100000000", "999999999", "9223372036854775807"];
            for s in sel {
                for m in mags {
                    for sign in ["+", "-"] {
                        let e = s.replace("{o}", &format!("{sign}{m} days"));
                        let ee = enc(&e);
                        let ctx = if e.contains("PH") || e.contains("SH") { format!("ph={},{},{};sh={}", lo, hi - 1, ymd(2024, 5, 1), ymd(2024, 5, 2)) } else { "-".to_string() };
                        for d in [ymd(2024, 1, 1), lo, hi - 1, ymd(2024, 12, 31)] {
                            emit(format!("c04.sched {d} {ctx} {ee}"));
                            emit(format!("c04.state {d}:43200000000000 {ctx} {ee}"));
                            emit(format!("c04.nextw {d}:0 400 {ctx} {ee}"));
                        }
                    }
                }
            }
            // bounds from 0 to 10^4 years, and the extremes of TimeDelta
            for _ in 0..scale(300, 3_000) {
                let e = gen_expr::expr(rng, &cfg);
                let b = *rng.pick(&["0", "1", "86400000000000", "31536000000000000", "4611686018427387903", "9223372036854775807", "max", "min", "-1", "-86400000000000", "-172800000000000", "-9223372036854775807"]);
                let t = gen_instant(rng);
                emit(format!("c04.bstate {t} {b} {} {}", gen_ctx(rng, &e, false), enc(&e)));
                // next_change with a huge bound walks like the unbounded one: only small and negative bounds here
                if !["4611686018427387903", "9223372036854775807", "max", "31536000000000000"].contains(&b) {
                    emit(format!("c04.bnext {t} {b} 40 {} {}", gen_ctx(rng, &e, false), enc(&e)));
                }
                if let Some(to) = add_ns(&t, 86_400_000_000_000 * 20) {
                    emit(format!("c04.biter {t} {to} {b} {} {}", gen_ctx(rng, &e, false), enc(&e)));
                }
            }
            for _ in 0..scale(2_000, 40_000) {
                let mut e = gen_expr::expr(rng, &cfg);
                // extreme numbers spliced into generated sentences
                if rng.chance(1, 3) {
                    e = e.replace(" days", &format!("{} days", rng.pick(&["", "0", "00", "000000", "99999"])));
                }
                let ee = enc(&e);
                let ctx = gen_ctx(rng, &e, true);
                let d = if rng.chance(1, 3) { *rng.pick(&days) } else { gen_day(rng) };
                if ast::date_of(d).is_none() {
                    continue;
                }
                emit(format!("c04.sched {d} {ctx} {ee}"));
                emit(format!("c04.state {d}:{} {ctx} {ee}", rng.below(86_400) * 1_000_000_000));
                emit(format!("c04.nextw {d}:0 {} {ctx} {ee}", rng.pick(&[1, 40, 400])));
            }
        }
        _ => {}
    }
}
