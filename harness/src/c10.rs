//! Suite `c10` (ops `hol.*`) — C10 embedded holiday calendars equal the source data, per country.
//!
//!   hol.load <public.txt> <school.txt>   the two SOURCE text files the driver must read itself; output
//!       `<bytes>:<fnv64> <lines> <bytes>:<fnv64> <lines>` (so that both sides provably read the same bytes)
//!   hol.all                              `Country::ALL`: `<n> <Debug>…`
//!   hol.country <CC>                     `<index in ALL> <iso_code> <name> <Display> <from_str(iso_code)>`
//!   hol.fromstr <s>…                     `from_str` of each (percent-encoded) string: `ok:<Debug>` | `err:<Display of the error>`
//!   hol.cal <CC> <pub|school>            the embedded calendar `CC.holidays().get_public()/get_school()`:
//!       `<len>:<fnv64 of serialize()> <count()> <n> <yyyymmdd>…(iter) | <bitmap 1990> … <bitmap 2085>`; the bitmap of a year is `contains`
//!       on each of its days in order, 4 days per hex digit (first day = most significant bit, zero padded),
//!       or `0` when no day of the year is contained
//!   hol.ph <CC> <PH|SH> <day | a..b>…    `OpeningHours::parse("PH")` with `Context::default().with_holidays(CC.holidays())`,
//!       `schedule_at` on each day (day numbers = `num_days_from_ce`, `a..b` inclusive):
//!       `<AST dump> | <ranges>*<run length>…` with `<ranges>` = `start-end-kind[-comments]` joined by `,`
//!   hol.pdate <s>…                       `NaiveDate::parse_from_str(s, "%Y-%m-%d")`: `ok:<yyyymmdd>` | `err`
//!   hol.raw <pub|school>                 the pair `decode_holidays_db` is called with, through the guarded hook
//!       `Country::verif_holiday_db()`: `<regions string, percent-encoded> <n compressed bytes> <lower-case hex of the
//!       embedded (still deflated) bytes>`; the driver inflates them with the Lean model of RFC 1951
//! `<CC>` is the `Debug` name of the variant.
use crate::ast;
use crate::util::{catch, enc, Rng};
use chrono::{Datelike, NaiveDate};
use opening_hours::localization::Country;
use opening_hours::{Context, OpeningHours};
use std::io::BufRead;
use std::str::FromStr;

pub const DATA_PUBLIC: &str = "/repo/opening-hours/data/holidays_public.txt";
pub const DATA_SCHOOL: &str = "/repo/opening-hours/data/holidays_school.txt";
const Y0: i32 = 1990;
const Y1: i32 = 2085;

fn dec(s: &str) -> Option<String> {
    crate::ev::dec(s)
}

fn country_of(name: &str) -> Option<Country> {
    Country::ALL.iter().copied().find(|c| format!("{c:?}") == name)
}

fn fnv(b: &[u8]) -> u64 {
    let mut h: u64 = 14695981039346656037;
    for &x in b {
        h = (h ^ x as u64).wrapping_mul(1099511628211);
    }
    h
}

fn ymd(d: NaiveDate) -> String {
    format!("{}", d.year() as i64 * 10000 + d.month() as i64 * 100 + d.day() as i64)
}

fn from_str_tok(s: &str) -> String {
    match catch(|| Country::from_str(s)) {
        Ok(Ok(c)) => format!("ok:{c:?}"),
        Ok(Err(e)) => format!("err:{}", enc(&e.to_string())),
        Err(p) => p,
    }
}

fn file_stat(path: &str) -> Option<String> {
    let bytes = std::fs::read(path).ok()?;
    let lines = std::io::BufReader::new(bytes.as_slice()).lines().count();
    Some(format!("{}:{:016x} {}", bytes.len(), fnv(&bytes), lines))
}

fn year_bitmap(cal: &compact_calendar::CompactCalendar, year: i32) -> String {
    let mut digits = String::new();
    let mut any = false;
    let mut d = NaiveDate::from_ymd_opt(year, 1, 1).unwrap();
    let mut nib = 0u32;
    let mut nbits = 0;
    while d.year() == year {
        let b = cal.contains(d);
        any |= b;
        nib = (nib << 1) | (b as u32);
        nbits += 1;
        if nbits == 4 {
            digits.push(char::from_digit(nib, 16).unwrap());
            nib = 0;
            nbits = 0;
        }
        d = d.succ_opt().unwrap();
    }
    if nbits > 0 {
        nib <<= 4 - nbits;
        digits.push(char::from_digit(nib, 16).unwrap());
    }
    if any {
        digits
    } else {
        "0".into()
    }
}

fn days_of(specs: &[&str]) -> Option<Vec<i64>> {
    let mut out = Vec::new();
    for s in specs {
        if let Some((a, b)) = s.split_once("..") {
            let (a, b): (i64, i64) = (a.parse().ok()?, b.parse().ok()?);
            out.extend(a..=b);
        } else {
            out.push(s.parse().ok()?);
        }
    }
    Some(out)
}

fn ranges_tok(rs: impl Iterator<Item = opening_hours::schedule::TimeRange>) -> String {
    let v: Vec<String> = rs
        .map(|r| {
            let mut t = format!("{}-{}-{}", r.range.start.mins_from_midnight(), r.range.end.mins_from_midnight(), ast::kind_tok(r.kind));
            for c in r.comments.iter() {
                t.push('-');
                t.push_str(&enc(c));
            }
            t
        })
        .collect();
    if v.is_empty() {
        "none".into()
    } else {
        v.join(",")
    }
}

fn rle(toks: Vec<String>) -> String {
    let mut out: Vec<String> = Vec::new();
    let mut i = 0;
    while i < toks.len() {
        let mut j = i;
        while j < toks.len() && toks[j] == toks[i] {
            j += 1;
        }
        out.push(format!("{}*{}", toks[i], j - i));
        i = j;
    }
    out.join(" ")
}

pub fn exec(op: &str, a: &[&str]) -> Option<String> {
    match op {
        "hol.load" if a.len() == 2 => Some(format!("{} {}", file_stat(a[0])?, file_stat(a[1])?)),
        "hol.all" if a.is_empty() => {
            let v: Vec<String> = Country::ALL.iter().map(|c| format!("{c:?}")).collect();
            Some(format!("{} {}", v.len(), v.join(" ")))
        }
        "hol.country" if a.len() == 1 => {
            let c = country_of(a[0])?;
            let idx = Country::ALL.iter().position(|x| *x == c)?;
            Some(format!(
                "{} {} {} {} {}",
                idx,
                enc(c.iso_code()),
                enc(c.name()),
                enc(&c.to_string()),
                from_str_tok(c.iso_code())
            ))
        }
        "hol.fromstr" => {
            let v: Option<Vec<String>> = a.iter().map(|s| dec(s).map(|s| from_str_tok(&s))).collect();
            Some(v?.join(" "))
        }
        "hol.cal" if a.len() == 2 => {
            let c = country_of(a[0])?;
            let public = match a[1] {
                "pub" => true,
                "school" => false,
                _ => return None,
            };
            let r = catch(|| {
                let h = c.holidays();
                let cal = if public { h.get_public() } else { h.get_school() };
                let dates: Vec<String> = cal.iter().map(ymd).collect();
                let maps: Vec<String> = (Y0..=Y1).map(|y| year_bitmap(cal, y)).collect();
                let mut ser = Vec::new();
                cal.serialize(&mut ser).expect("Vec write");
                let mut toks = vec![format!("{}:{:016x}", ser.len(), fnv(&ser)), cal.count().to_string(), dates.len().to_string()];
                toks.extend(dates);
                toks.push("|".into());
                toks.extend(maps);
                toks.join(" ")
            });
            Some(r.unwrap_or_else(|p| p))
        }
        "hol.ph" if a.len() >= 2 => {
            let c = country_of(a[0])?;
            let src = match a[1] {
                "PH" | "SH" => a[1],
                _ => return None,
            };
            let days = days_of(&a[2..])?;
            let expr = opening_hours_syntax::parse(src).ok()?;
            let astd = ast::expr(&expr);
            let r = catch(|| {
                let ctx = Context::default().with_holidays(c.holidays());
                let oh = OpeningHours::parse(src).expect("parse").with_context(ctx);
                let toks: Option<Vec<String>> = days
                    .iter()
                    .map(|d| ast::date_of(*d).map(|date| ranges_tok(oh.schedule_at(date).into_iter())))
                    .collect();
                toks.map(rle)
            });
            match r {
                Ok(None) => None,
                Ok(Some(s)) => Some(format!("{astd} | {s}")),
                Err(p) => Some(format!("{astd} | {p}")),
            }
        }
        "hol.raw" if a.len() == 1 => {
            let (regions, bytes) = match a[0] {
                "pub" => Country::verif_holiday_db()[0],
                "school" => Country::verif_holiday_db()[1],
                _ => return None,
            };
            let mut hex = String::with_capacity(2 * bytes.len());
            for b in bytes {
                hex.push(char::from_digit((b >> 4) as u32, 16).unwrap());
                hex.push(char::from_digit((b & 15) as u32, 16).unwrap());
            }
            if hex.is_empty() {
                hex.push('-');
            }
            Some(format!("{} {} {}", enc(regions), bytes.len(), hex))
        }
        "hol.pdate" => {
            let v: Option<Vec<String>> = a
                .iter()
                .map(|s| {
                    dec(s).map(|s| match catch(|| NaiveDate::parse_from_str(&s, "%Y-%m-%d")) {
                        Ok(Ok(d)) => format!("ok:{}", ymd(d)),
                        Ok(Err(_)) => "err".to_string(),
                        Err(p) => p,
                    })
                })
                .collect();
            Some(v?.join(" "))
        }
        _ => None,
    }
}

/// the distinct dates listed for `code` in a data file, as day numbers, sorted
fn listed_days(path: &str, code: &str) -> Vec<i64> {
    let text = std::fs::read_to_string(path).expect("data file");
    let mut v: Vec<i64> = text
        .lines()
        .filter_map(|l| {
            let (r, d) = l.split_once(' ')?;
            if r != code {
                return None;
            }
            NaiveDate::parse_from_str(d, "%Y-%m-%d").ok().map(ast::day_num)
        })
        .collect();
    v.sort();
    v.dedup();
    v
}

fn dn(y: i32, m: u32, d: u32) -> i64 {
    ast::day_num(NaiveDate::from_ymd_opt(y, m, d).unwrap())
}

pub fn gen(tier: &str, rng: &mut Rng, emit: &mut dyn FnMut(String)) {
    let thorough = tier == "thorough";
    emit(format!("hol.load {DATA_PUBLIC} {DATA_SCHOOL}"));
    // the embedded (deflated) bytes and region strings themselves
    emit("hol.raw pub".into());
    emit("hol.raw school".into());
    emit("hol.all".into());
    for c in Country::ALL {
        emit(format!("hol.country {c:?}"));
    }

    // FromStr: all 26² two-letter upper-case strings …
    for a in b'A'..=b'Z' {
        let row: Vec<String> = (b'A'..=b'Z').map(|b| format!("{}{}", a as char, b as char)).collect();
        emit(format!("hol.fromstr {}", row.join(" ")));
    }
    // … and the case / length / blank variants of every code
    let codes: Vec<&str> = Country::ALL.iter().map(|c| c.iso_code()).collect();
    let var = |f: &dyn Fn(&str) -> String| -> String { codes.iter().map(|c| enc(&f(c))).collect::<Vec<_>>().join(" ") };
    emit(format!("hol.fromstr {}", var(&|c| c.to_lowercase())));
    emit(format!("hol.fromstr {}", var(&|c| format!("{}{}", &c[..1], c[1..].to_lowercase()))));
    emit(format!("hol.fromstr {}", var(&|c| format!("{}{}", c[..1].to_lowercase(), &c[1..]))));
    emit(format!("hol.fromstr {}", var(&|c| format!(" {c}"))));
    emit(format!("hol.fromstr {}", var(&|c| format!("{c} "))));
    emit(format!("hol.fromstr {}", var(&|c| format!("{} {}", &c[..1], &c[1..]))));
    emit(format!("hol.fromstr {}", var(&|c| format!("{c}\n"))));
    emit(format!("hol.fromstr {}", var(&|c| format!("{c}\0"))));
    emit(format!("hol.fromstr {}", var(&|c| format!("{c}{}", &c[1..]))));
    emit(format!("hol.fromstr {}", var(&|c| format!("{c}A"))));
    emit(format!("hol.fromstr {}", var(&|c| c[..1].to_string())));
    emit(format!("hol.fromstr {}", var(&|c| c[1..].to_string())));
    emit(format!("hol.fromstr {}", var(&|c| format!("{c},{c}"))));
    emit(format!("hol.fromstr {}", var(&|c| format!("{c}-XX"))));
    let singles: Vec<String> = (b'A'..=b'Z').map(|a| (a as char).to_string()).collect();
    emit(format!("hol.fromstr {}", singles.join(" ")));
    let misc = [
        "", " ", "  ", "FRA", "DEU", "USA", "GBR", "fra", "250", "00", "F", "f", "FR FR", "ＦＲ", "ＦR", "FＲ", "F\u{0301}R", "ÅX", "AX", "Åland Islands",
        "France", "fr-FR", "FR_fr", "EN", "UK", "EU", "XK", "ZZ", "AA", "Fr", "fR", "\tFR", "FR\r\n", "%", "%46%52", "=", ">",
    ];
    emit(format!("hol.fromstr {}", misc.iter().map(|s| enc(s)).collect::<Vec<_>>().join(" ")));
    if thorough {
        // all 26³ three-letter upper-case strings and all two-letter mixed-case strings
        for a in b'A'..=b'Z' {
            for b in b'A'..=b'Z' {
                let row: Vec<String> = (b'A'..=b'Z').map(|c| format!("{}{}{}", a as char, b as char, c as char)).collect();
                emit(format!("hol.fromstr {}", row.join(" ")));
            }
        }
        let letters: Vec<char> = (b'A'..=b'Z').chain(b'a'..=b'z').map(|x| x as char).collect();
        for a in &letters {
            let row: Vec<String> = letters.iter().filter(|b| a.is_lowercase() || b.is_lowercase()).map(|b| format!("{a}{b}")).collect();
            emit(format!("hol.fromstr {}", row.join(" ")));
        }
    }

    // the date parser on the modelled shape (and a few other shapes, reported as not modelled)
    let mut pd: Vec<String> = Vec::new();
    for y in [0, 1, 4, 100, 400, 1900, 1999, 2000, 2001, 2023, 2024, 2075, 2100, 9999] {
        for (m, d) in [(0, 1), (1, 0), (1, 1), (1, 31), (1, 32), (2, 28), (2, 29), (2, 30), (4, 30), (4, 31), (12, 31), (12, 32), (13, 1), (99, 99), (0, 0)] {
            pd.push(format!("{y:04}-{m:02}-{d:02}"));
        }
    }
    for _ in 0..(if thorough { 20000 } else { 2000 }) {
        let y = rng.range(0, 9999);
        let m = rng.range(0, 13);
        let d = if rng.chance(1, 2) { rng.range(27, 32) } else { rng.range(0, 32) };
        pd.push(format!("{y:04}-{m:02}-{d:02}"));
    }
    for chunk in pd.chunks(200) {
        emit(format!("hol.pdate {}", chunk.join(" ")));
    }
    let odd = [
        "2000-1-1", " 2000-01-01", "2000-01-01 ", "+2000-01-01", "-2000-01-01", "02000-01-01", "20000-01-01", "200-01-01", "2000-001-01", "2000/01/01", "2000-01-1",
        "2000-01-011", "2000-01", "", "2000-01-01\r", "２０００-01-01", "2000-0a-01", "20a0-01-01", "2000- 1- 1", "2000 -01-01",
    ];
    emit(format!("hol.pdate {}", odd.iter().map(|s| enc(s)).collect::<Vec<_>>().join(" ")));

    // the embedded calendars: listed dates + `contains` on every day 1990-01-01 … 2085-12-31
    for c in Country::ALL {
        emit(format!("hol.cal {c:?} pub"));
        emit(format!("hol.cal {c:?} school"));
    }

    // PH / SH through the evaluator
    let (w0, w1) = (dn(Y0, 1, 1), dn(Y1, 12, 31));
    for c in Country::ALL {
        for (src, path) in [("PH", DATA_PUBLIC), ("SH", DATA_SCHOOL)] {
            let listed = listed_days(path, c.iso_code());
            let mut days: Vec<i64> = Vec::new();
            for d in &listed {
                days.extend([d - 1, *d, d + 1]);
            }
            // window and representable-range edges, the days around the first / last listed one
            days.extend([w0, w0 + 1, w1 - 1, w1, dn(1900, 1, 1), dn(1900, 1, 2), dn(9999, 12, 30), dn(9999, 12, 31), dn(2000, 2, 29), dn(2100, 2, 28), dn(2100, 3, 1)]);
            if let (Some(f), Some(l)) = (listed.first(), listed.last()) {
                days.extend([f - 366, f - 365, f - 2, l + 2, l + 365, l + 366]);
            }
            for _ in 0..(if listed.is_empty() { 40 } else { 300 }) {
                days.push(rng.range(w0, w1));
            }
            days.sort();
            days.dedup();
            emit(format!("hol.ph {c:?} {src} {}", days.iter().map(|d| d.to_string()).collect::<Vec<_>>().join(" ")));
            if thorough {
                emit(format!("hol.ph {c:?} {src} {w0}..{w1}"));
            }
        }
    }
}
