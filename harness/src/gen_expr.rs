//! Grammar-directed generator of opening_hours expressions: mostly valid sentences covering every
//! selector kind and syntactic variant, biased to the boundaries that matter (DESIGN §2.3).
use crate::util::Rng;

#[derive(Clone, Copy)]
pub struct Cfg {
    pub events: bool,
    pub holidays: bool,
    pub comments: bool,
    pub dated: bool,
    pub offsets: bool,
    pub max_rules: u64,
    /// probability (per cent) that a rule is "canonical" (simple ranges only, no offsets)
    pub canonical: u64,
    /// probability (per cent) that years are close to the focus year
    pub year_focus: u64,
}

pub const DEFAULT: Cfg = Cfg {
    events: true,
    holidays: true,
    comments: true,
    dated: true,
    offsets: true,
    max_rules: 4,
    canonical: 35,
    year_focus: 85,
};

const WD: [&str; 7] = ["Mo", "Tu", "We", "Th", "Fr", "Sa", "Su"];
const MO: [&str; 12] = ["Jan", "Feb", "Mar", "Apr", "May", "Jun", "Jul", "Aug", "Sep", "Oct", "Nov", "Dec"];
const COMMENTS: [&str; 6] = ["a", "b", "on appointment", "zz top", "é", "b"];

fn year(rng: &mut Rng, c: &Cfg) -> u32 {
    if rng.chance(c.year_focus, 100) {
        rng.range(2018, 2032) as u32
    } else {
        *rng.pick(&[1900, 1901, 1999, 2000, 2100, 2400, 5000, 9998, 9999, 2024, 2020])
    }
}

fn hm(m: i64) -> String {
    format!("{:02}:{:02}", m / 60, m % 60)
}

fn minute_grid(rng: &mut Rng, max: i64) -> i64 {
    match rng.below(10) {
        0 => 0,
        1 => max,
        2 => rng.range(0, max),
        3 => 1440.min(max),
        4 => *rng.pick(&[1, 15, 1439, 1441, 720, 1425]) % (max + 1),
        _ => 15 * rng.range(0, max / 15),
    }
}

fn event(rng: &mut Rng) -> String {
    let e = *rng.pick(&["dawn", "sunrise", "sunset", "dusk"]);
    match rng.below(4) {
        0 => {
            let off = *rng.pick(&[30, 60, 90, 5, 120, 600, 1380, 1439]);
            format!("({}{}{})", e, if rng.chance(1, 2) { "+" } else { "-" }, hm(off))
        }
        _ => e.to_string(),
    }
}

fn timespan(rng: &mut Rng, c: &Cfg, simple: bool) -> String {
    if c.events && !simple && rng.chance(1, 6) {
        let a = if rng.chance(2, 3) { event(rng) } else { hm(minute_grid(rng, 1439)) };
        let b = if rng.chance(2, 3) { event(rng) } else { hm(minute_grid(rng, 2880)) };
        return match rng.below(8) {
            0 => format!("{a}+"),
            1 => format!("{a}-{b}+"),
            _ => format!("{a}-{b}"),
        };
    }
    let s = minute_grid(rng, 1440);
    let e = if simple {
        // canonical: start < end <= 24:00
        let s2 = s.min(1425);
        let e = rng.range(s2 + 1, 1440);
        return format!("{}-{}", hm(s2), hm(if rng.chance(1, 2) { (e + 14) / 15 * 15 } else { e }.min(1440).max(s2 + 1)));
    } else {
        minute_grid(rng, 2880)
    };
    match rng.below(12) {
        0 => format!("{}+", hm(s)),
        1 => format!("{}-{}+", hm(s), hm(e)),
        2 => format!("{} - {}", hm(s), hm(e)),
        3 if s < 600 => format!("{}:{:02}-{}", s / 60, s % 60, hm(e)), // one-digit hour
        _ => format!("{}-{}", hm(s), hm(e)),
    }
}

fn time_selector(rng: &mut Rng, c: &Cfg, simple: bool) -> String {
    let n = if rng.chance(3, 4) { 1 } else { rng.range(2, 3) };
    (0..n).map(|_| timespan(rng, c, simple)).collect::<Vec<_>>().join(",")
}

fn day_offset(rng: &mut Rng) -> String {
    let n = *rng.pick(&[1, 1, 2, 3, 7, 10, 30, 100, 365, 400]);
    format!(" {}{} day{}", if rng.chance(1, 2) { "+" } else { "-" }, n, if n == 1 && rng.chance(1, 2) { "" } else { "s" })
}

fn nth(rng: &mut Rng) -> String {
    let n = rng.range(1, 3);
    let mut v = Vec::new();
    for _ in 0..n {
        v.push(match rng.below(4) {
            0 => {
                let a = rng.range(1, 5);
                let b = rng.range(a, 5);
                format!("{a}-{b}")
            }
            1 => format!("-{}", rng.range(1, 5)),
            _ => format!("{}", rng.range(1, 5)),
        });
    }
    format!("[{}]", v.join(","))
}

fn weekday_range(rng: &mut Rng, c: &Cfg, simple: bool) -> String {
    let a = rng.below(7) as usize;
    if simple {
        return if rng.chance(1, 2) { WD[a].to_string() } else { format!("{}-{}", WD[a], WD[rng.below(7) as usize]) };
    }
    match rng.below(6) {
        0 => format!("{}-{}", WD[a], WD[rng.below(7) as usize]),
        1 => {
            let mut s = format!("{}{}", WD[a], nth(rng));
            if c.offsets && rng.chance(1, 3) {
                s.push_str(&day_offset(rng));
            }
            s
        }
        _ => WD[a].to_string(),
    }
}

fn holiday(rng: &mut Rng, c: &Cfg) -> String {
    if rng.chance(2, 3) {
        let mut s = "PH".to_string();
        if c.offsets && rng.chance(1, 3) {
            let n = *rng.pick(&[1, 1, 2, 2, 3, 7]);
            s.push_str(&format!(" {}{} day{}", if rng.chance(1, 2) { "+" } else { "-" }, n, if n == 1 { "" } else { "s" }));
        }
        s
    } else {
        "SH".to_string()
    }
}

fn weekday_selector(rng: &mut Rng, c: &Cfg, simple: bool) -> String {
    let nw = if rng.chance(3, 4) { 1 } else { 2 };
    let wds = (0..nw).map(|_| weekday_range(rng, c, simple)).collect::<Vec<_>>().join(",");
    if c.holidays && !simple && rng.chance(1, 4) {
        let h = holiday(rng, c);
        match rng.below(5) {
            0 | 4 => h,
            1 => format!("{h},{wds}"),
            2 => format!("{wds},{h}"),
            _ => format!("{h} {wds}"),
        }
    } else {
        wds
    }
}

fn week_selector(rng: &mut Rng, simple: bool) -> String {
    let a = *rng.pick(&[1, 1, 2, 10, 26, 52, 53, 5, 30]);
    let s = if simple {
        if rng.chance(1, 2) { format!("{a:02}") } else { format!("{:02}-{:02}", a, rng.range(1, 53)) }
    } else {
        match rng.below(5) {
            0 => format!("{a}"),
            1 => format!("{:02}-{:02}", a, rng.range(1, 53)),
            2 => format!("{:02}-{:02}/{}", a, rng.range(1, 53), rng.range(1, 5)),
            3 => format!("{:02},{:02}", a, rng.range(1, 53)),
            _ => format!("{a:02}"),
        }
    };
    format!("week{}{}", if rng.chance(2, 3) { " " } else { "" }, s)
}

fn daynum(rng: &mut Rng) -> u32 {
    *rng.pick(&[1, 1, 2, 10, 15, 28, 29, 30, 31, 31, 20, 5])
}

fn date(rng: &mut Rng, c: &Cfg, with_year: bool) -> String {
    let y = if with_year { format!("{} ", year(rng, c)) } else { String::new() };
    if rng.chance(1, 8) {
        return format!("{y}easter");
    }
    let m = if rng.chance(1, 4) { 1 } else { rng.below(12) as usize };
    let m = if rng.chance(1, 6) { 1 } else { m }; // Feb more often
    let d = daynum(rng);
    if rng.chance(1, 8) {
        format!("{y}{} {:02}", MO[m], d)
    } else {
        format!("{y}{} {}", MO[m], d)
    }
}

/// day offsets of dated bounds beyond a year (the pairing windows of `MonthdayRange::Date` are centred
/// on the year the bound has to come from; these offsets move it away from the evaluated day's year)
/// and, now and then, beyond what chrono can represent (about 95 700 000 days on either side of the evaluated
/// days: the year the bound has to come from, or a year of the window around it, does not exist; the shifted
/// days are pinned at `NaiveDate::MIN`/`MAX`)
fn big_day_offset(rng: &mut Rng) -> String {
    let n: i64 = if rng.chance(1, 6) {
        *rng.pick(&[
            92_000_000, 95_003_000, 95_006_400, 95_700_000, 96_485_000, 96_488_000, 100_000_000, 200_000_000,
            1_000_000_000,
        ])
    } else {
        *rng.pick(&[366, 400, 500, 730, 770, 1100, 1500, 3000, 100000])
    };
    format!(" {}{} days", if rng.chance(1, 2) { "+" } else { "-" }, n)
}

fn date_offset(rng: &mut Rng) -> String {
    if rng.chance(1, 4) {
        return if rng.chance(1, 3) {
            format!("{}{}{}", if rng.chance(1, 2) { "+" } else { "-" }, WD[rng.below(7) as usize], big_day_offset(rng))
        } else {
            big_day_offset(rng)
        };
    }
    match rng.below(3) {
        0 => format!("{}{}", if rng.chance(1, 2) { "+" } else { "-" }, WD[rng.below(7) as usize]),
        1 => format!("{}{}{}", if rng.chance(1, 2) { "+" } else { "-" }, WD[rng.below(7) as usize], day_offset(rng)),
        _ => day_offset(rng),
    }
}

fn monthday_range(rng: &mut Rng, c: &Cfg, simple: bool) -> String {
    if simple || !c.dated || rng.chance(2, 5) {
        // month range
        let a = rng.below(12) as usize;
        let y = if !simple && rng.chance(1, 5) { format!("{}", year(rng, c)) } else { String::new() };
        return if rng.chance(1, 2) { format!("{y}{}", MO[a]) } else { format!("{y}{}-{}", MO[a], MO[rng.below(12) as usize]) };
    }
    let sy = rng.chance(1, 4);
    let mut s = date(rng, c, sy);
    if c.offsets && rng.chance(1, 5) {
        s.push_str(&date_offset(rng));
    }
    match rng.below(6) {
        0 => s,
        1 => format!("{s}+"),
        2 => format!("{s}-{}", daynum(rng)),
        _ => {
            let ey = rng.chance(1, 6);
            let mut e = date(rng, c, ey);
            if c.offsets && rng.chance(1, 6) {
                e.push_str(&date_offset(rng));
            }
            format!("{s}-{e}")
        }
    }
}

fn year_range(rng: &mut Rng, c: &Cfg, simple: bool) -> String {
    let a = year(rng, c);
    if simple {
        return if rng.chance(1, 2) { format!("{a}") } else { format!("{a}-{}", a + rng.range(0, 5) as u32) };
    }
    match rng.below(6) {
        0 => format!("{a}-{}", (a + rng.range(0, 12) as u32).min(9999)),
        1 => format!("{a}-{}/{}", (a + rng.range(0, 40) as u32).min(9999), rng.range(1, 4)),
        2 => format!("{a}+"),
        3 => format!("{a}-{}", year(rng, c)),
        _ => format!("{a}"),
    }
}

fn comment(rng: &mut Rng) -> String {
    format!("\"{}\"", rng.pick(&COMMENTS))
}

pub fn rule(rng: &mut Rng, c: &Cfg) -> String {
    let simple = rng.chance(c.canonical, 100);
    if rng.chance(1, 25) {
        let mut s = "24/7".to_string();
        modifier(rng, c, &mut s);
        return s;
    }
    let mut wide = String::new();
    if c.comments && rng.chance(1, 25) {
        // the `"comment":` form of the wide-range selectors, often with the same text as the
        // modifier's comment (a rule then carries the same comment twice)
        let cm = comment(rng);
        let rest = format!("{}{}", if rng.chance(1, 2) { weekday_selector(rng, c, true) + " " } else { String::new() }, time_selector(rng, c, simple));
        let mut s = format!("{cm}:{rest}");
        if rng.chance(1, 2) {
            s.push_str(&format!(" open {cm}"));
        } else {
            modifier(rng, c, &mut s);
        }
        return s;
    }
    if rng.chance(1, 6) {
        let n = if rng.chance(4, 5) { 1 } else { 2 };
        wide.push_str(&(0..n).map(|_| year_range(rng, c, simple)).collect::<Vec<_>>().join(","));
    }
    if rng.chance(1, 3) {
        let n = if rng.chance(4, 5) { 1 } else { 2 };
        if !wide.is_empty() && rng.chance(1, 2) {
            wide.push(' ');
        }
        wide.push_str(&(0..n).map(|_| monthday_range(rng, c, simple)).collect::<Vec<_>>().join(","));
    }
    if rng.chance(1, 8) {
        if !wide.is_empty() {
            wide.push(' ');
        }
        wide.push_str(&week_selector(rng, simple));
    }
    let mut small = String::new();
    let has_wd = rng.chance(1, 2);
    let has_time = rng.chance(3, 4) || (wide.is_empty() && !has_wd);
    if has_wd {
        small.push_str(&weekday_selector(rng, c, simple));
    }
    if has_time {
        if has_wd {
            small.push(' ');
        }
        small.push_str(&time_selector(rng, c, simple));
    }
    let mut s = if wide.is_empty() {
        small
    } else if small.is_empty() {
        wide
    } else {
        format!("{wide}{}{small}", rng.pick(&[" ", " ", ": ", ":"]))
    };
    modifier(rng, c, &mut s);
    s
}

fn modifier(rng: &mut Rng, c: &Cfg, s: &mut String) {
    match rng.below(10) {
        0 => s.push_str(" open"),
        1 => s.push_str(" closed"),
        2 => s.push_str(" off"),
        3 => s.push_str(" unknown"),
        4 if c.comments => {
            s.push(' ');
            s.push_str(&comment(rng));
            return;
        }
        _ => {}
    }
    if c.comments && rng.chance(1, 6) {
        s.push(' ');
        s.push_str(&comment(rng));
    }
}

pub fn expr(rng: &mut Rng, c: &Cfg) -> String {
    let n = 1 + if rng.chance(2, 5) { 0 } else { rng.below(c.max_rules) };
    let mut s = rule(rng, c);
    for _ in 1..n {
        s.push_str(match rng.below(10) {
            0..=4 => "; ",
            5 => ";",
            6 | 7 => ", ",
            _ => " || ",
        });
        s.push_str(&rule(rng, c));
    }
    s
}

/// The suite's sample file (one expression per line), read at run time from /repo.
pub fn sample_lines() -> Vec<String> {
    std::fs::read_to_string("/repo/opening-hours/src/tests/data/sample.txt")
        .map(|s| s.lines().map(|l| l.to_string()).filter(|l| !l.trim().is_empty()).collect())
        .unwrap_or_default()
}

/// Realistic sentences whose state stays constant for many days between changes, so that the
/// iterator relies on `next_change_hint` (every selector kind that has a hint, with offsets,
/// wrapping ranges and steps); `{y}` is replaced by a focus year.
pub const HINT_TEMPLATES: [&str; 44] = [
    "24/7; PH off", "24/7; PH +1 day off", "24/7; PH -1 day off", "24/7; PH off; PH +2 days off", "PH 10:00-12:00",
    "PH +1 day 10:00-12:00", "PH -2 days 00:00-24:00", "SH off; 24/7", "24/7; SH off", "SH 10:00-12:00; PH off",
    "PH,SH off; Mo-Fr 08:00-18:00", "24/7; PH +7 days closed \"inventory\"", "{y}", "{y}-{y2}", "{y}-{y3}/2", "{y}+", "{y3}-{y}",
    "{y} 10:00-12:00", "Jan", "Nov-Feb", "Jun-Aug 00:00-24:00", "{y}Dec", "{y}Nov-Feb", "Dec 24-Jan 2", "Dec 24-Jan 2 off; 24/7",
    "{y} Mar 28-Apr 16 off; 24/7", "{y} Sep 01+", "easter", "easter -2 days-easter +1 day", "24/7; easter off", "Feb 29", "Feb 29 open; Mar 1 closed",
    "week 1", "week 10-20", "week 2-52/2", "week 50-05", "week 53", "24/7; week 1-26/3 off", "Jan 1 +1 day", "Dec 31 -3 days-Jan 2",
    "Apr-Oct 00:00-24:00; PH off", "{y}-{y2} Jun: 24/7", "Mo-Su 00:00-24:00; {y} off", "24/7 open \"a\"; {y2} closed \"b\"",
];

pub fn hint_template(rng: &mut Rng) -> String {
    let y = rng.range(2019, 2031);
    rng.pick(&HINT_TEMPLATES)
        .replace("{y3}", &(y + rng.range(3, 9)).to_string())
        .replace("{y2}", &(y + rng.range(0, 3)).to_string())
        .replace("{y}", &y.to_string())
}
