//! Suite `c11` (ops `sun.*`) — C11 sun events.  A SEARCH (a test, not a proof): the ordering of the
//! events is a fact about the floating-point solar geometry of the `sunrise` crate and about the zone
//! `tzf-rs` finds; neither is modelled.
//!
//!   sun.ast                          => AST dump of the parsed text `sunrise-sunset`
//!   sun.default <day>                => `NoLocation` and `TzLocation` without coordinates: the four
//!                                       event times of that day in minutes, twice
//!   sun.coords <lat bits> <lon bits> => `1 <lat bits> <lon bits>` (accepted, values stored) | `0`
//!                                       (IEEE-754 bit patterns in decimal: NaNs, ±inf, ±0 travel exactly)
//!   sun.events <lat> <lon> <day>     => <zone>
//!         U <4 UTC instants, unix seconds: dawn sunrise sunset dusk>      `Coordinates::event_time`
//!         L <4 local times of day, minutes>                                `TzLocation::event_time`
//!         O <4 local dates of the events, as day offsets from <day>>       (what event_time drops)
//!         N <local day> <minute> <events of the day before ×4> <events of that day ×4> <state>
//!         M <local day> <minute> <…×4> <…×4> <state>
//!       N = solar noon (midpoint of the sunrise and sunset instants), M = solar midnight (12 h later),
//!       state = `state()` of `sunrise-sunset` with `Context::from_coords` at that instant.
//!   sun.scan <lat> <lon> <first day> <stride> <last day>
//!         => <zone> <n days> I <n instants unordered> <n of those with a 1970-01-01 instant>
//!            L <n local times of day unordered because the date was dropped (D17)>
//!              <n … because the clock changed between two events> <n … for another reason>
//!            N <n noon not open> <n of those on a day with a clock change between events>
//!            M <n midnight not closed> <n of those on a day with a clock change between events>
//!            P <n panics> W <first witness day of I, L, N, M, P or -> R <min max minutes between
//!            consecutive events over the days with ordered instants, ×3>
//!       the same checks as `sun.events`, done in-harness over many days (thorough tier: too many
//!       lines for the pipe otherwise), 8 threads
//!   sun.accept <lat bits> <lon bits> => `rejected` | <zone> <country or -> <state> <next_change or ->
//!       `TzLocation::from_coords`, `Country::try_from_coords`, `Context::from_coords`, one `state`
//!       and one bounded `next_change` (must not panic)
use crate::ast;
use crate::util::{catch, Rng};
use chrono::{Datelike, NaiveDate, TimeDelta, TimeZone, Timelike, Utc};
use opening_hours::localization::{Coordinates, Country, Localize, NoLocation, TzLocation};
use opening_hours::{Context, OpeningHours};
use opening_hours_syntax::rules::time::TimeEvent;
use opening_hours_syntax::rules::RuleKind;

const EVENTS: [TimeEvent; 4] = [TimeEvent::Dawn, TimeEvent::Sunrise, TimeEvent::Sunset, TimeEvent::Dusk];
const EXPR: &str = "sunrise-sunset";

fn tod<L: Localize>(l: &L, d: NaiveDate) -> [u32; 4] {
    EVENTS.map(|e| {
        let t = l.event_time(d, e);
        t.hour() * 60 + t.minute()
    })
}

fn join<T: ToString>(xs: &[T]) -> String {
    xs.iter().map(|x| x.to_string()).collect::<Vec<_>>().join(" ")
}

struct DayFacts {
    utc: [i64; 4],
    local: [u32; 4],
    offs: [i64; 4],
    /// the zone's UTC offset (seconds) at each event instant, from chrono-tz directly
    zoff: [i64; 4],
    /// the minute of the day each event instant shows on the zone's clock, from chrono-tz directly
    wall: [u32; 4],
    noon: (NaiveDate, u32, RuleKind),
    midnight: (NaiveDate, u32, RuleKind),
}

fn day_facts(coords: Coordinates, loc: &TzLocation<chrono_tz::Tz>, oh: &OpeningHours<TzLocation<chrono_tz::Tz>>, date: NaiveDate) -> DayFacts {
    let inst = EVENTS.map(|e| coords.event_time(date, e));
    let utc = inst.map(|t| t.timestamp());
    let local = tod(loc, date);
    let tz = *loc.get_timezone();
    let offs = inst.map(|t| (t.with_timezone(&tz).naive_local().date() - date).num_days());
    let zoff = inst.map(|t| i64::from(chrono::Offset::fix(&chrono::TimeZone::offset_from_utc_datetime(&tz, &t.naive_utc())).local_minus_utc()));
    let wall = inst.map(|t| {
        let n = t.with_timezone(&tz).naive_local().time();
        n.hour() * 60 + n.minute()
    });
    let noon_ts = (utc[1] + utc[2]).div_euclid(2);
    let at = |ts: i64| {
        let dt = Utc.timestamp_opt(ts, 0).unwrap().with_timezone(&tz);
        let n = dt.naive_local();
        (n.date(), n.time().hour() * 60 + n.time().minute(), oh.state(dt))
    };
    DayFacts { utc, local, offs, zoff, wall, noon: at(noon_ts), midnight: at(noon_ts + 12 * 3600) }
}

fn ordered<T: PartialOrd>(x: &[T; 4]) -> bool {
    x[0] < x[1] && x[1] < x[2] && x[2] < x[3]
}

fn parse_f(s: &str) -> Option<f64> {
    s.parse().ok()
}

pub fn exec(op: &str, a: &[&str]) -> Option<String> {
    match (op, a) {
        ("sun.ast", []) => {
            let r = catch(|| opening_hours_syntax::parse(EXPR).map(|e| ast::expr(&e)));
            Some(match r {
                Ok(Ok(s)) => s,
                Ok(Err(_)) => "parse-error".into(),
                Err(p) => p,
            })
        }
        ("sun.default", [day]) => {
            let date = ast::date_of(day.parse().ok()?)?;
            let r = catch(|| {
                let a = tod(&NoLocation, date);
                let b = tod(&TzLocation::new(chrono_tz::Europe::Paris), date);
                format!("{} {}", join(&a), join(&b))
            });
            Some(r.unwrap_or_else(|p| p))
        }
        // `sun.off <default | lat,lon> <day> <event 0..3> <offset minutes>`: the minute at which the span
        // `(event±HH:MM)-48:00` starts on that day, read back from the real evaluator (schedule_at on the day
        // and on the next one), together with the event's own minute: `<event minute> <resolved start>`
        // (`-` when no start is visible: the resolved start is 48:00)
        ("sun.off", [place, day, ev, off]) => {
            let date = ast::date_of(day.parse().ok()?)?;
            let next = date.succ_opt()?;
            let ev: usize = ev.parse().ok()?;
            let off: i64 = off.parse().ok()?;
            if ev > 3 || off.abs() > 1440 {
                return None;
            }
            let name = ["dawn", "sunrise", "sunset", "dusk"][ev];
            let span = if off == 0 { format!("{name}-48:00") } else { format!("({name}{}{:02}:{:02})-48:00", if off < 0 { '-' } else { '+' }, off.abs() / 60, off.abs() % 60) };
            // the rule applies on that one day only, so that the day itself shows the part before 24:00 and
            // the next day the part after it (and nothing continued from the day before)
            let months = ["Jan", "Feb", "Mar", "Apr", "May", "Jun", "Jul", "Aug", "Sep", "Oct", "Nov", "Dec"];
            let src = format!("{} {} {} {span}", date.year(), months[date.month0() as usize], date.day());
            if !(1900..=9999).contains(&date.year()) {
                return None;
            }
            let place = place.to_string();
            let r = catch(move || {
                let first_open = |ranges: Vec<(u32, u32, RuleKind)>| ranges.into_iter().find(|r| r.2 == RuleKind::Open).map(|r| (r.0, r.1));
                let (evm, today, tomorrow) = if place == "default" {
                    let oh = OpeningHours::parse(&src).unwrap();
                    let sched = |d: NaiveDate| oh.schedule_at(d).into_iter().map(|r| (r.range.start.mins_from_midnight() as u32, r.range.end.mins_from_midnight() as u32, r.kind)).collect::<Vec<_>>();
                    (tod(&NoLocation, date)[ev], first_open(sched(date)), first_open(sched(next)))
                } else {
                    let (la, lo) = place.split_once(',').unwrap();
                    let coords = Coordinates::new(la.parse().unwrap(), lo.parse().unwrap()).unwrap();
                    let ctx = Context::from_coords(coords);
                    let evm = tod(&ctx.locale, date)[ev];
                    let oh = OpeningHours::parse(&src).unwrap().with_context(ctx);
                    let sched = |d: NaiveDate| oh.schedule_at(d).into_iter().map(|r| (r.range.start.mins_from_midnight() as u32, r.range.end.mins_from_midnight() as u32, r.kind)).collect::<Vec<_>>();
                    (evm, first_open(sched(date)), first_open(sched(next)))
                };
                // the span runs to 48:00: today's part (if any) ends at 24:00; else the start is 24:00 + the
                // start of tomorrow's part
                let start = match (today, tomorrow) {
                    (Some((s, 1440)), _) => s.to_string(),
                    (None, Some((s, 1440))) => (1440 + s).to_string(),
                    (None, None) => "-".to_string(),
                    other => format!("unexpected:{other:?}").replace(' ', ""),
                };
                format!("{evm} {start}")
            });
            Some(r.unwrap_or_else(|p| p))
        }
        ("sun.coords", [la, lo]) => {
            let lat = f64::from_bits(la.parse().ok()?);
            let lon = f64::from_bits(lo.parse().ok()?);
            let r = catch(|| match Coordinates::new(lat, lon) {
                Some(c) => format!("1 {} {}", c.lat().to_bits(), c.lon().to_bits()),
                None => "0".to_string(),
            });
            Some(r.unwrap_or_else(|p| p))
        }
        ("sun.events", [la, lo, day]) => {
            let (lat, lon) = (parse_f(la)?, parse_f(lo)?);
            let date = ast::date_of(day.parse().ok()?)?;
            // a pair the generator wrote is within the documented ranges: a refusal is an answer, not a bad op
            let Some(coords) = Coordinates::new(lat, lon) else { return Some("rejected".to_string()) };
            let r = catch(|| {
                let ctx = Context::from_coords(coords);
                let loc = ctx.locale.clone();
                let oh = OpeningHours::parse(EXPR).unwrap().with_context(ctx);
                let f = day_facts(coords, &loc, &oh, date);
                let side = |x: &(NaiveDate, u32, RuleKind)| {
                    let prev = x.0.pred_opt().map(|p| tod(&loc, p)).unwrap_or([0; 4]);
                    format!("{} {} {} {} {}", ast::day_num(x.0), x.1, join(&prev), join(&tod(&loc, x.0)), ast::kind_tok(x.2))
                };
                format!(
                    "{} U {} L {} O {} Z {} C {} N {} M {}",
                    loc.get_timezone().name(),
                    join(&f.utc),
                    join(&f.local),
                    join(&f.offs),
                    join(&f.zoff),
                    join(&f.wall),
                    side(&f.noon),
                    side(&f.midnight)
                )
            });
            Some(r.unwrap_or_else(|p| p))
        }
        ("sun.scan", [la, lo, first, stride, last]) => {
            let (lat, lon) = (parse_f(la)?, parse_f(lo)?);
            let (first, stride, last): (i64, i64, i64) = (first.parse().ok()?, stride.parse().ok()?, last.parse().ok()?);
            if stride <= 0 {
                return None;
            }
            // a pair the generator wrote is within the documented ranges: a refusal is an answer, not a bad op
            let Some(coords) = Coordinates::new(lat, lon) else { return Some("rejected".to_string()) };
            let r = catch(|| scan(coords, first, stride, last));
            Some(r.unwrap_or_else(|p| p))
        }
        ("sun.accept", [la, lo]) => {
            let lat = f64::from_bits(la.parse().ok()?);
            let lon = f64::from_bits(lo.parse().ok()?);
            let r = catch(|| {
                let Some(coords) = Coordinates::new(lat, lon) else { return "rejected".to_string() };
                let loc = TzLocation::from_coords(coords);
                let country = Country::try_from_coords(coords);
                let ctx = Context::from_coords(coords).approx_bound_interval_size(TimeDelta::days(30));
                let oh = OpeningHours::parse("sunrise-sunset; PH off").unwrap().with_context(ctx);
                let t = loc.datetime(NaiveDate::from_ymd_opt(2024, 6, 21).unwrap().and_hms_opt(12, 0, 0).unwrap());
                let st = oh.state(t.clone());
                let nx = oh.next_change(t);
                format!(
                    "{} {} {} {}",
                    loc.get_timezone().name(),
                    country.map(|c| c.iso_code().to_string()).unwrap_or_else(|| "-".into()),
                    ast::kind_tok(st),
                    nx.map(|x| ast::instant(x.naive_local())).unwrap_or_else(|| "-".into())
                )
            });
            Some(r.unwrap_or_else(|p| p))
        }
        _ => None,
    }
}

#[derive(Default, Clone)]
struct ScanStats {
    days: u64,
    inst_unordered: u64,
    inst_epoch: u64,
    /// local times of day unordered, instants ordered, the gaps between the local times equal the gaps
    /// between the instants (mod 24 h) and the events fall on different local dates: the date was dropped
    local_d17: u64,
    /// local times of day unordered, instants ordered, some gap differs: the clock changed between two events
    local_clock_change: u64,
    /// local times of day unordered for any other reason (includes days with unordered instants)
    local_other: u64,
    noon_not_open: u64,
    noon_not_open_cc: u64,
    midnight_not_closed: u64,
    midnight_not_closed_cc: u64,
    /// days on which some local event time is not the minute its instant shows on the zone's clock
    local_not_wall: u64,
    panics: u64,
    wit: [Option<i64>; 5],
    /// min / max of sunrise−dawn, sunset−sunrise, dusk−sunset in minutes, over days with ordered instants
    gaps: [(i64, i64); 3],
}

/// the clock changed between two events of the day: the zone's UTC offset (read from the zone data,
/// not from what the library answered) is not the same at the four event instants
fn clock_changed(f: &DayFacts) -> bool {
    f.zoff.iter().any(|o| *o != f.zoff[0])
}

fn scan_chunk(coords: Coordinates, days: &[i64]) -> ScanStats {
    let ctx = Context::from_coords(coords);
    let loc = ctx.locale.clone();
    let oh = OpeningHours::parse(EXPR).unwrap().with_context(ctx);
    let mut s = ScanStats { gaps: [(i64::MAX, i64::MIN); 3], ..Default::default() };
    for &d in days {
        let Some(date) = ast::date_of(d) else { continue };
        s.days += 1;
        let Ok(f) = catch(|| day_facts(coords, &loc, &oh, date)) else {
            s.panics += 1;
            if s.wit[4].is_none() {
                s.wit[4] = Some(d);
            }
            continue;
        };
        let io = ordered(&f.utc);
        let cc = io && clock_changed(&f);
        let mut hit = |i: usize| {
            if s.wit[i].is_none() {
                s.wit[i] = Some(d);
            }
        };
        if !io {
            hit(0);
            s.inst_unordered += 1;
            // an instant on 1970-01-01 for a date that is not close to it
            if f.utc.iter().any(|t| (0..86_400).contains(t)) && (date.year() != 1970 && date.year() != 1969) {
                s.inst_epoch += 1;
            }
        } else {
            for k in 0..3 {
                let g = (f.utc[k + 1] - f.utc[k]) / 60;
                s.gaps[k] = (s.gaps[k].0.min(g), s.gaps[k].1.max(g));
            }
        }
        if !ordered(&f.local) {
            hit(1);
            if cc {
                s.local_clock_change += 1;
            } else if io && !f.offs.iter().all(|o| *o == f.offs[0]) {
                s.local_d17 += 1;
            } else {
                s.local_other += 1;
            }
        }
        if f.local != f.wall {
            s.local_not_wall += 1;
        }
        // the consequence is about local dates of the supported range: at the very first day the noon
        // or midnight instant can fall on 1899-12-31 local (zones west of UTC), where everything is closed
        let first_day = NaiveDate::from_ymd_opt(1900, 1, 1).unwrap();
        if f.noon.0 >= first_day && f.noon.2 != RuleKind::Open {
            hit(2);
            s.noon_not_open += 1;
            s.noon_not_open_cc += cc as u64;
        }
        if f.midnight.0 >= first_day && f.midnight.2 != RuleKind::Closed {
            hit(3);
            s.midnight_not_closed += 1;
            s.midnight_not_closed_cc += cc as u64;
        }
    }
    s
}

fn scan(coords: Coordinates, first: i64, stride: i64, last: i64) -> String {
    let days: Vec<i64> = (0..).map(|k| first + k * stride).take_while(|d| *d <= last).collect();
    let nthreads = 8usize;
    let chunk = days.len().div_ceil(nthreads).max(1);
    let parts: Vec<ScanStats> = std::thread::scope(|sc| {
        let hs: Vec<_> = days.chunks(chunk).map(|c| sc.spawn(move || scan_chunk(coords, c))).collect();
        hs.into_iter().map(|h| h.join().unwrap_or_else(|_| ScanStats { panics: 1, ..Default::default() })).collect()
    });
    let mut t = ScanStats { gaps: [(i64::MAX, i64::MIN); 3], ..Default::default() };
    for p in parts {
        t.days += p.days;
        t.inst_unordered += p.inst_unordered;
        t.inst_epoch += p.inst_epoch;
        t.local_d17 += p.local_d17;
        t.local_clock_change += p.local_clock_change;
        t.local_other += p.local_other;
        t.noon_not_open += p.noon_not_open;
        t.noon_not_open_cc += p.noon_not_open_cc;
        t.midnight_not_closed += p.midnight_not_closed;
        t.midnight_not_closed_cc += p.midnight_not_closed_cc;
        t.panics += p.panics;
        t.local_not_wall += p.local_not_wall;
        for i in 0..5 {
            if t.wit[i].is_none() {
                t.wit[i] = p.wit[i];
            }
        }
        for k in 0..3 {
            if p.gaps[k].0 <= p.gaps[k].1 {
                t.gaps[k] = (t.gaps[k].0.min(p.gaps[k].0), t.gaps[k].1.max(p.gaps[k].1));
            }
        }
    }
    let zone = TzLocation::from_coords(coords).get_timezone().name().to_string();
    let w = |x: Option<i64>| x.map(|d| d.to_string()).unwrap_or_else(|| "-".into());
    let g = |x: (i64, i64)| if x.0 <= x.1 { format!("{} {}", x.0, x.1) } else { "- -".into() };
    format!(
        "{zone} {} I {} {} L {} {} {} N {} {} M {} {} P {} X {} W {} {} {} {} {} R {} {} {}",
        t.days,
        t.inst_unordered,
        t.inst_epoch,
        t.local_d17,
        t.local_clock_change,
        t.local_other,
        t.noon_not_open,
        t.noon_not_open_cc,
        t.midnight_not_closed,
        t.midnight_not_closed_cc,
        t.panics,
        t.local_not_wall,
        w(t.wit[0]),
        w(t.wit[1]),
        w(t.wit[2]),
        w(t.wit[3]),
        w(t.wit[4]),
        g(t.gaps[0]),
        g(t.gaps[1]),
        g(t.gaps[2])
    )
}

// ------------------------------------------------------------------------------------------
// generators

fn zone_at(lat: f64, lon: f64) -> chrono_tz::Tz {
    *TzLocation::from_coords(Coordinates::new(lat, lon).unwrap()).get_timezone()
}

fn fmt_f(x: f64) -> String {
    // shortest representation that parses back to the same double
    format!("{x:?}")
}

/// `n` grid points with |lat| ≤ 60: about half on a jittered regular grid over all longitudes, the
/// rest within a few hundredths of a degree of a zone border (found by walking along parallels and
/// bisecting where the zone changes), plus fixed special points.
fn grid(n: usize, rng: &mut Rng) -> Vec<(f64, f64)> {
    let mut pts: Vec<(f64, f64)> = vec![
        (55.2, -162.7), // D17 witness of the design phase
        (60.0, 0.0),
        (-60.0, 0.0),
        (60.0, 180.0),
        (60.0, -180.0),
        (0.0, 180.0),
        (0.0, -180.0),
        (0.0, 0.0),
        (59.9139, 10.7522),  // Oslo
        (59.3293, 18.0686),  // Stockholm
        (60.0, 30.0),        // near St Petersburg
        (60.0, -150.0),      // Alaska
        (-54.8019, -68.303), // Ushuaia
        (48.8535, 2.34839),
        (-21.1343, -175.2018), // Tonga (UTC+13)
        (1.87, -157.4),        // Kiritimati (UTC+14)
        (-14.27, -170.7),      // Pago Pago (UTC-11)
        (39.47, 75.99),        // Kashgar (clock far ahead of the sun)
        (43.8, 87.6),          // Ürümqi
        (64.0, -21.0),         // outside the band: removed by the filter below (kept to show the filter works)
    ];
    pts.retain(|p| p.0.abs() <= 60.0);
    let quota_grid = n / 2;
    while pts.len() < quota_grid {
        let lat = (rng.range(-6000, 6000) as f64) / 100.0;
        let lon = (rng.range(-18000, 18000) as f64) / 100.0;
        pts.push((lat, lon));
    }
    // border points
    let mut guard = 0;
    while pts.len() < n && guard < 100_000 {
        guard += 1;
        let lat = (rng.range(-6000, 6000) as f64) / 100.0;
        let lon0 = (rng.range(-18000, 17900) as f64) / 100.0;
        let z0 = zone_at(lat, lon0);
        // walk east up to 20° in steps of 0.5° until the zone changes
        let mut a = lon0;
        let mut found = None;
        for k in 1..=40 {
            let b = (lon0 + 0.5 * k as f64).min(180.0);
            if zone_at(lat, b) != z0 {
                found = Some((a, b));
                break;
            }
            a = b;
            if b >= 180.0 {
                break;
            }
        }
        let Some((mut a, mut b)) = found else { continue };
        for _ in 0..12 {
            let m = (a + b) / 2.0;
            if zone_at(lat, m) == z0 {
                a = m;
            } else {
                b = m;
            }
        }
        let r = |x: f64| (x * 10_000.0).round() / 10_000.0;
        pts.push((lat, r(a - 0.01)));
        if pts.len() < n {
            pts.push((lat, r(b + 0.01)));
        }
    }
    pts.truncate(n);
    pts
}

fn special_bits() -> Vec<u64> {
    let mut v: Vec<f64> = vec![
        0.0, -0.0, 90.0, -90.0, 180.0, -180.0, 60.0, -60.0, 45.5, -45.5, 1e-300, -1e-300, 1e300, -1e300,
        f64::MIN_POSITIVE, f64::MAX, f64::MIN, f64::INFINITY, f64::NEG_INFINITY, f64::NAN, -f64::NAN, 91.0, -91.0, 181.0, -181.0,
        89.99999999999999, 179.99999999999997, 360.0, -360.0, 5e-324,
    ];
    // the doubles just outside / inside the four limits
    for x in [90.0f64, 180.0] {
        let up = f64::from_bits(x.to_bits() + 1);
        let down = f64::from_bits(x.to_bits() - 1);
        v.extend([up, down, -up, -down]);
    }
    let mut bits: Vec<u64> = v.iter().map(|x| x.to_bits()).collect();
    // NaNs with other payloads / signalling
    bits.extend([0x7FF0_0000_0000_0001, 0xFFF8_0000_0000_0000, 0x7FFF_FFFF_FFFF_FFFF, 0xFFF0_0000_0000_0001]);
    bits
}

pub fn gen(tier: &str, rng: &mut Rng, emit: &mut dyn FnMut(String)) {
    let thorough = tier == "thorough";
    emit("sun.ast".into());
    // default events: boundary days and a sample
    let lo = crate::ev::ymd(1900, 1, 1);
    let hi = crate::ev::ymd(2100, 12, 31);
    for d in [lo, hi, crate::ev::ymd(2024, 6, 21), crate::ev::ymd(2024, 12, 21), crate::ev::ymd(9999, 12, 31), crate::ev::ymd(1, 1, 1)] {
        emit(format!("sun.default {d}"));
    }
    for _ in 0..(if thorough { 2000 } else { 200 }) {
        emit(format!("sun.default {}", rng.range(lo, hi)));
    }
    // event offsets through the real evaluator: every event x offsets around 0, around the event's own
    // time of day (where the sum leaves 00:00..48:00 on either side) and the extremes ±24:00, without
    // coordinates and at a few places
    let places = ["default", "48.8535,2.34839", "-33.8688,151.2093", "40.7128,-74.006", "1.3521,103.8198", "59.9,10.75"];
    for place in places {
        for ev in 0..4 {
            let base: [i64; 4] = [360, 420, 1140, 1200];
            let mut offs: Vec<i64> = vec![0, 1, -1, 59, 60, -60, 90, -45, 1439, 1440, -1439, -1440, 720, -720];
            for d in [-2i64, -1, 0, 1, 2, 30, -30] {
                offs.push(-base[ev] + d); // around "the sum reaches 00:00"
                offs.push(1440 - base[ev] + d); // around 24:00
                offs.push(-base[ev] - 120 + d);
            }
            for _ in 0..(if thorough { 60 } else { 6 }) {
                offs.push(rng.range(-1440, 1440));
            }
            for off in offs {
                if off.abs() <= 1440 {
                    let day = if thorough { rng.range(lo, hi) } else { *rng.pick(&[crate::ev::ymd(2024, 6, 21), crate::ev::ymd(2024, 12, 21), crate::ev::ymd(2025, 3, 20)]) };
                    emit(format!("sun.off {place} {day} {ev} {off}"));
                }
            }
        }
    }
    // coordinate validity: all pairs of special values, then random doubles around the limits
    let sp = special_bits();
    for a in &sp {
        for b in &sp {
            emit(format!("sun.coords {a} {b}"));
        }
    }
    for _ in 0..(if thorough { 100_000 } else { 5_000 }) {
        let pick = |rng: &mut Rng, lim: f64| -> u64 {
            match rng.below(6) {
                0 => rng.next(), // any bit pattern
                1 => ((rng.range(-2_000_000, 2_000_000) as f64) / 10_000.0).to_bits(),
                2 => {
                    // within a few ulps of ±limit
                    let b = lim.to_bits() as i64 + rng.range(-3, 3);
                    let x = f64::from_bits(b as u64);
                    (if rng.chance(1, 2) { x } else { -x }).to_bits()
                }
                3 => *rng.pick(&sp),
                _ => ((rng.range(-(lim as i64) * 1000 - 500, (lim as i64) * 1000 + 500) as f64) / 1000.0).to_bits(),
            }
        };
        let la = pick(rng, 90.0);
        let lo = pick(rng, 180.0);
        emit(format!("sun.coords {la} {lo}"));
    }
    // every accepted pair yields a zone and evaluates: poles, antimeridian, limits, oceans, random
    let mut acc: Vec<(f64, f64)> = vec![
        (90.0, 0.0), (-90.0, 0.0), (90.0, 180.0), (-90.0, -180.0), (90.0, -180.0), (-90.0, 180.0), (0.0, 180.0), (0.0, -180.0),
        (0.0, 0.0), (-0.0, -0.0), (89.999999, 179.999999), (-89.999999, -179.999999), (0.0, -140.0), (-48.9, -123.4), (30.0, -40.0),
        (-30.0, 80.0), (75.0, 0.0), (-75.0, 0.0), (66.6, 25.0), (-66.6, 140.0), (78.2, 15.6), (-77.85, 166.67), (5e-324, 5e-324),
        (f64::NAN, 0.0), (0.0, f64::INFINITY), (90.00000000000001, 0.0), (0.0, 180.00000000000003),
    ];
    for _ in 0..(if thorough { 3000 } else { 300 }) {
        acc.push(((rng.range(-9000, 9000) as f64) / 100.0, (rng.range(-18000, 18000) as f64) / 100.0));
    }
    for (la, lo) in acc {
        emit(format!("sun.accept {} {}", la.to_bits(), lo.to_bits()));
    }
    // the grid
    let npts = if thorough { 2000 } else { 300 };
    let pts = grid(npts, rng);
    let ndays = 150;
    let step = (hi - lo) / ndays; // ≈ 489
    for (la, lo_) in &pts {
        let phase = rng.range(0, step - 1);
        for k in 0..ndays {
            let d = lo + phase + k * step;
            emit(format!("sun.events {} {} {d}", fmt_f(*la), fmt_f(*lo_)));
        }
        // solstices and equinoxes of a few years
        for y in [1900, 1970, 2024, 2100] {
            for (m, dd) in [(3, 20), (6, 21), (9, 22), (12, 21)] {
                emit(format!("sun.events {} {} {}", fmt_f(*la), fmt_f(*lo_), crate::ev::ymd(y, m, dd)));
            }
        }
    }
    if thorough {
        // every day 1900-01-01 … 2100-12-31 for every grid point
        for (la, lo_) in &pts {
            emit(format!("sun.scan {} {} {lo} 1 {hi}", fmt_f(*la), fmt_f(*lo_)));
        }
    } else {
        // a ration of full scans in the quick tier too: every 5th day for 20 points
        for (la, lo_) in pts.iter().take(20) {
            emit(format!("sun.scan {} {} {} 5 {hi}", fmt_f(*la), fmt_f(*lo_), lo + rng.range(0, 4)));
        }
    }
}
