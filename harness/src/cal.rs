//! Suite `cal` (ops `chr.*`) — ties the calendar model (lean/OH/Model/Calendar.lean) to chrono.
//! A day is chrono's `num_days_from_ce()`.
//!   chr.bounds                  => <MIN day> <MAX day> <DATE_END day>
//!   chr.civil <day>             => <y> <m> <d> <weekday 0=Mon> <isoyear> <isoweek> <ordinal0> | none
//!   chr.ymd <y> <m> <d>         => some <day> | none          `NaiveDate::from_ymd_opt`
//!   chr.isoywd <y> <w> <wd>     => some <day> | none          `NaiveDate::from_isoywd_opt`
//!   chr.succ <day> / chr.pred <day>   => some <day> | none    `succ_opt` / `pred_opt`
//!   chr.adddays <day> <n>       => some <day> | none          `checked_add_signed(days(n))`, and `+` panics iff none
//!   chr.addmonth <day>          => some <day> | none          `checked_add_months(Months::new(1))`
//!   chr.withyear <day> <y>      => some <day> | none          `with_year`
//!   chr.first <day>             => <day>                      `with_day(1)`
//!   chr.dim <day>               => <n>      the arithmetic of `utils::dates::count_days_in_month` (a copy: the
//!                                           function is `pub(crate)`)
//!   chr.easter <y>              => some <day> | none          through the public API: the day of year `y` on
//!                                           which `OpeningHours::parse("easter")` is open
use crate::util::{catch, Rng};
use chrono::{Datelike, Duration, Months, NaiveDate, NaiveTime, TimeDelta, Weekday};
use opening_hours::OpeningHours;

fn date(day: &str) -> Option<Option<NaiveDate>> {
    let n: i64 = day.parse().ok()?;
    Some(i32::try_from(n).ok().and_then(NaiveDate::from_num_days_from_ce_opt))
}

fn dn(d: NaiveDate) -> i64 {
    d.num_days_from_ce() as i64
}

fn show(d: Option<NaiveDate>) -> String {
    match d {
        Some(d) => format!("some {}", dn(d)),
        None => "none".into(),
    }
}

fn r<T>(x: Result<T, String>, f: impl FnOnce(T) -> String) -> String {
    match x {
        Ok(v) => f(v),
        Err(p) => p,
    }
}

fn wd_of(n: u32) -> Option<Weekday> {
    Some(match n {
        0 => Weekday::Mon,
        1 => Weekday::Tue,
        2 => Weekday::Wed,
        3 => Weekday::Thu,
        4 => Weekday::Fri,
        5 => Weekday::Sat,
        6 => Weekday::Sun,
        _ => return None,
    })
}

/// Verbatim copy of `opening_hours::utils::dates::count_days_in_month` (pub(crate) there).
fn count_days_in_month(date: NaiveDate) -> u8 {
    let Some(date_next_month) = date.checked_add_months(Months::new(1)) else {
        // December of last supported year
        return 31;
    };

    let first_this_month = date.with_day(1).expect("first of the month should always exist");

    let first_next_month = date_next_month.with_day(1).expect("first of the month should always exist");

    (first_next_month - first_this_month)
        .num_days()
        .try_into()
        .expect("time not monotonic while comparing dates")
}

/// Easter of year `y` as the public API sees it: `easter` is open exactly on that day.
fn easter_via_api(y: i32) -> String {
    let oh = OpeningHours::parse("easter").expect("parse easter");
    let Some(jan1) = NaiveDate::from_ymd_opt(y, 1, 1) else { return "none".into() };
    let t0 = jan1.and_time(NaiveTime::MIN);
    if oh.is_open(t0) {
        return "odd:open-jan1".into();
    }
    let Some(t1) = oh.next_change(t0) else { return "none".into() };
    if t1.date().year() != y {
        return "none".into();
    }
    if t1.time() != NaiveTime::MIN {
        return format!("odd:time:{}", t1.time());
    }
    if !oh.is_open(t1) {
        return "odd:not-open".into();
    }
    // open for exactly that day
    match oh.next_change(t1) {
        Some(t2) if t2 == t1 + Duration::days(1) => {}
        other => return format!("odd:end:{}", other.map(|t| t.to_string().replace(' ', "T")).unwrap_or("-".into())),
    }
    // and `schedule_at` agrees: open on that day, closed the day before and after
    let open_on = |d: NaiveDate| oh.schedule_at(d).into_iter().any(|tr| tr.kind == opening_hours_syntax::rules::RuleKind::Open);
    if !open_on(t1.date()) || open_on(t1.date().pred_opt().unwrap()) || open_on(t1.date().succ_opt().unwrap()) {
        return "odd:schedule".into();
    }
    format!("some {}", dn(t1.date()))
}

pub fn exec(op: &str, a: &[&str]) -> Option<String> {
    Some(match (op, a) {
        ("chr.bounds", []) => format!(
            "{} {} {}",
            dn(NaiveDate::MIN),
            dn(NaiveDate::MAX),
            dn(opening_hours::DATE_END.date())
        ),
        ("chr.civil", [day]) => match date(day)? {
            None => "none".into(),
            Some(d) => r(
                catch(|| {
                    let w = d.iso_week();
                    format!(
                        "{} {} {} {} {} {} {}",
                        d.year(),
                        d.month(),
                        d.day(),
                        d.weekday().num_days_from_monday(),
                        w.year(),
                        w.week(),
                        d.ordinal0()
                    )
                }),
                |x| x,
            ),
        },
        ("chr.ymd", [y, m, d]) => {
            let (y, m, d): (i32, u32, u32) = (y.parse().ok()?, m.parse().ok()?, d.parse().ok()?);
            r(catch(|| NaiveDate::from_ymd_opt(y, m, d)), show)
        }
        ("chr.isoywd", [y, w, wd]) => {
            let (y, w, wd): (i32, u32, u32) = (y.parse().ok()?, w.parse().ok()?, wd.parse().ok()?);
            let wd = wd_of(wd)?;
            r(catch(|| NaiveDate::from_isoywd_opt(y, w, wd)), show)
        }
        ("chr.succ", [day]) => {
            let d = date(day)??;
            r(catch(|| d.succ_opt()), show)
        }
        ("chr.pred", [day]) => {
            let d = date(day)??;
            r(catch(|| d.pred_opt()), show)
        }
        ("chr.adddays", [day, n]) => {
            let d = date(day)??;
            let n: i64 = n.parse().ok()?;
            let delta = TimeDelta::try_days(n)?;
            let checked = catch(|| d.checked_add_signed(delta));
            // the evaluator uses the panicking `+`: it must panic exactly when the checked form is None
            let plus = catch(|| d + delta);
            match (&checked, &plus) {
                (Ok(Some(x)), Ok(y)) if x == y => {}
                (Ok(None), Err(_)) => {}
                _ => return Some("incoherent".into()),
            }
            r(checked, show)
        }
        ("chr.addmonth", [day]) => {
            let d = date(day)??;
            r(catch(|| d.checked_add_months(Months::new(1))), show)
        }
        ("chr.withyear", [day, y]) => {
            let d = date(day)??;
            let y: i32 = y.parse().ok()?;
            r(catch(|| d.with_year(y)), show)
        }
        ("chr.first", [day]) => {
            let d = date(day)??;
            r(catch(|| d.with_day(1)), |x| match x {
                Some(x) => dn(x).to_string(),
                None => "none".into(),
            })
        }
        ("chr.dim", [day]) => {
            let d = date(day)??;
            r(catch(|| count_days_in_month(d)), |x| x.to_string())
        }
        ("chr.easter", [y]) => {
            let y: i32 = y.parse().ok()?;
            r(catch(|| easter_via_api(y)), |x| x)
        }
        _ => return None,
    })
}

const MIN_YEAR: i64 = -262143;
const MAX_YEAR: i64 = 262142;

fn ymd(y: i64, m: u32, d: u32) -> Option<i64> {
    NaiveDate::from_ymd_opt(y as i32, m, d).map(dn)
}

/// years whose calendar is enumerated completely in the quick tier
fn boundary_years() -> Vec<i64> {
    let mut ys: Vec<i64> = vec![];
    let mut around = |c: i64, k: i64| {
        for y in c - k..=c + k {
            ys.push(y);
        }
    };
    around(0, 5);
    around(-100, 1);
    around(-400, 1);
    around(-10000, 0);
    around(100, 1);
    around(400, 1);
    around(1582, 0);
    around(1600, 1);
    around(1900, 2);
    around(1970, 0);
    around(2000, 1);
    around(2022, 4); // 2020 and 2026 have 53 ISO weeks
    around(2100, 1);
    around(2400, 1);
    around(4000, 0);
    around(9999, 2);
    around(MIN_YEAR + 2, 2);
    around(MAX_YEAR - 2, 2);
    // ISO week 53 years and their neighbours
    for y in [1903, 1908, 1914, 1920, 1925, 2004, 2009, 2015, 2032, 2037, 2043, 2048, -6, 9996] {
        ys.push(y);
    }
    ys.sort();
    ys.dedup();
    ys.retain(|y| (MIN_YEAR..=MAX_YEAR).contains(y));
    ys
}

fn rand_year(rng: &mut Rng) -> i64 {
    match rng.below(4) {
        0 => rng.range(1900, 9999),
        1 => rng.range(-500, 2500),
        _ => rng.range(MIN_YEAR, MAX_YEAR),
    }
}

pub fn gen(tier: &str, rng: &mut Rng, emit: &mut dyn FnMut(String)) {
    let thorough = tier == "thorough";
    let min = dn(NaiveDate::MIN);
    let max = dn(NaiveDate::MAX);
    emit("chr.bounds".into());

    // --- every op on one day
    let all_ops = |day: i64, rng: &mut Rng, emit: &mut dyn FnMut(String)| {
        emit(format!("chr.civil {day}"));
        if (min..=max).contains(&day) {
            emit(format!("chr.succ {day}"));
            emit(format!("chr.pred {day}"));
            emit(format!("chr.addmonth {day}"));
            emit(format!("chr.first {day}"));
            emit(format!("chr.dim {day}"));
            let y = NaiveDate::from_num_days_from_ce_opt(day as i32).unwrap().year() as i64;
            for ty in [y, y + 1, y - 1, y + 4, rand_year(rng), MIN_YEAR - 1, MAX_YEAR + 1] {
                emit(format!("chr.withyear {day} {ty}"));
            }
            for n in [0, 1, -1, 7, -7, 31, 365, -366, rng.range(-1000, 1000), rng.range(-200_000_000, 200_000_000)] {
                emit(format!("chr.adddays {day} {n}"));
            }
        }
    };

    // --- the ends of the representable range, out-of-range and non-i32 day numbers
    for k in -12..=12 {
        all_ops(min + k, rng, emit);
        all_ops(max + k, rng, emit);
    }
    for day in [i32::MIN as i64 - 1, i32::MIN as i64, i32::MIN as i64 + 1, i32::MAX as i64 - 1, i32::MAX as i64, i32::MAX as i64 + 1, 1 << 40] {
        emit(format!("chr.civil {day}"));
    }
    for k in -3..=3 {
        all_ops(k, rng, emit); // around 0000-12-31 / 0001-01-01
        all_ops(693596 + k, rng, emit); // DATE_START
        all_ops(3652060 + k, rng, emit); // DATE_END
    }

    // --- whole boundary years
    let years = boundary_years();
    for &y in &years {
        let (Some(a), Some(b)) = (ymd(y, 1, 1), ymd(y, 12, 31)) else { continue };
        for day in a..=b {
            emit(format!("chr.civil {day}"));
        }
    }

    // --- month ends of random years, all ops
    let n_years = if thorough { 3000 } else { 300 };
    for _ in 0..n_years {
        let y = rand_year(rng);
        for m in 1..=12 {
            let first = ymd(y, m, 1).unwrap();
            for k in -2..=1 {
                let day = first + k;
                if (min..=max).contains(&day) {
                    all_ops(day, rng, emit);
                }
            }
        }
    }

    // --- random days over the whole range
    for _ in 0..(if thorough { 1_000_000 } else { 15_000 }) {
        let day = rng.range(min, max);
        emit(format!("chr.civil {day}"));
    }

    // --- from_ymd_opt: all triples (including invalid ones) of a few years
    let mut ymd_years: Vec<i64> = vec![
        1900, 2000, 2023, 2024, 2100, 0, -1, -4, -100, -400, 1, 4, 9999, 10000, MAX_YEAR, MAX_YEAR + 1, MIN_YEAR,
        MIN_YEAR - 1, i32::MIN as i64, i32::MAX as i64,
    ];
    if thorough {
        ymd_years.extend(1900..=9999);
        ymd_years.sort();
        ymd_years.dedup();
    }
    for &y in &ymd_years {
        for m in 0..=13 {
            for d in 0..=32 {
                emit(format!("chr.ymd {y} {m} {d}"));
            }
        }
    }
    for (m, d) in [(1, u32::MAX), (u32::MAX, 1), (2, 256 + 1), (256 + 1, 1), (12, 31 + (1 << 16))] {
        emit(format!("chr.ymd 2024 {m} {d}"));
    }
    if thorough {
        // yearStart / isLeap on EVERY representable year (cheap for the model: closed forms)
        for y in MIN_YEAR - 1..=MAX_YEAR + 1 {
            emit(format!("chr.ymd {y} 1 1"));
            emit(format!("chr.ymd {y} 2 29"));
            emit(format!("chr.ymd {y} 12 31"));
        }
    }

    // --- from_isoywd_opt
    let iso_years: Vec<i64> = if thorough { (1900..=9999).collect() } else { years.iter().copied().step_by(2).collect() };
    for &y in iso_years.iter().chain([MIN_YEAR - 1, MIN_YEAR, MAX_YEAR, MAX_YEAR + 1, MAX_YEAR + 2].iter()) {
        for w in 0..=54 {
            for wd in 0..=6 {
                emit(format!("chr.isoywd {y} {w} {wd}"));
            }
        }
    }
    for _ in 0..(if thorough { 200_000 } else { 3000 }) {
        let y = rand_year(rng);
        let w = if rng.chance(1, 3) { rng.range(52, 54) } else { rng.range(0, 54) };
        emit(format!("chr.isoywd {y} {w} {}", rng.below(7)));
    }

    // --- Feb 29 to other years
    for _ in 0..(if thorough { 20_000 } else { 1000 }) {
        let y = rand_year(rng) / 4 * 4;
        if let Some(day) = ymd(y, 2, 29) {
            emit(format!("chr.withyear {day} {}", y + rng.range(-8, 8)));
            emit(format!("chr.withyear {day} {}", rand_year(rng)));
        }
    }

    // --- day arithmetic
    for _ in 0..(if thorough { 200_000 } else { 5000 }) {
        let day = if rng.chance(1, 4) {
            if rng.chance(1, 2) {
                min + rng.range(0, 400)
            } else {
                max - rng.range(0, 400)
            }
        } else {
            rng.range(min, max)
        };
        let n = match rng.below(4) {
            0 => rng.range(-400, 400),
            1 => rng.range(-200_000_000, 200_000_000),
            2 => rng.range(-(1 << 33), 1 << 33),
            _ => (if rng.chance(1, 2) { max } else { min }) - day + rng.range(-2, 2),
        };
        emit(format!("chr.adddays {day} {n}"));
    }

    // --- Easter through the public API, every year the parser accepts (and the window allows)
    for y in 1900..=9999 {
        emit(format!("chr.easter {y}"));
    }

    if thorough {
        // EVERY day of the evaluator's window 1900-01-01 … 9999-12-31 (+ a margin)
        for day in 693596 - 400..=3652060 + 400 {
            emit(format!("chr.civil {day}"));
            emit(format!("chr.dim {day}"));
            emit(format!("chr.addmonth {day}"));
            emit(format!("chr.first {day}"));
        }
    }
}
