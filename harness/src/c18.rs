//! Suite `c18` (ops `pur.*`) — C18: evaluation is pure across calls, clones and threads.
//!
//!   pur.batch <mode> <n ops> <seed>  => <n equal> <n different> stats=<distinct answers>,<parse errors>,<panics> [first difference…]
//!       A batch of `n` evaluation ops is built from `seed` (expressions: fixed list + generator;
//!       contexts: plain, country holidays (`Country::holidays`), `Context::from_coords`,
//!       `TzLocation::from_coords` + `Country::try_from_coords`; queries: `state`+`is_*`,
//!       `next_change`, `schedule_at`, `iter_range`; plus `ev.sched/state/nextw/iter` lines run
//!       through `ev::exec` with `cc=` contexts).  Every op is first evaluated once, sequentially,
//!       on its pre-built value: the reference answer.  Then, by `<mode>`:
//!         seq          each op evaluated twice more on the same value, and once on a value
//!                      built afresh (second parse, second context)
//!         threads<k>   k threads (k = 8…16), each evaluating ALL ops on the SAME values (`Arc`),
//!                      in a different rotation, every third op also on a value built inside the thread
//!         clones       each op on `OpeningHours::clone()` of the value, on this thread and moved
//!                      to another thread
//!         recontext    one parse, several contexts (clone/with_context share the parsed expression): the
//!                      same query under other contexts first, then under the item's own
//!         interleaved  each op re-evaluated between evaluations of other expressions, and its
//!                      iterator advanced step by step with other evaluations in between
//!       An op counts as `equal` iff ALL its re-evaluations returned the reference answer.
//!
//!   pur.firstuse <order> => <n equal> <n different> cells=<cell order> [first difference…]
//!       The lazily initialised tables live for the whole process, so the harness re-executes ITSELF
//!       (`current_exe() c18-child <order>`) for each order.  `<order>` is a permutation of the five
//!       lazily-initialising API entry points `H` (`Country::holidays`), `B` (`Country::try_from_coords`),
//!       `Z` (`TzLocation::from_coords`), `C` (`Context::from_coords`), `P` (`parse` of an `easter`
//!       expression: the `WARN_EASTER` once-flag), performed in that order in the fresh process, or
//!       `concurrent<k>`: 5·k threads released together by a barrier, k per entry point.  The child then
//!       evaluates a fixed probe batch and prints every answer; the parent compares them with its own
//!       sequential answers.  (The five statics are function-local: `DB_PUBLIC` is always forced
//!       just before `DB_SCHOOL`, `TZ_NAME_FINDER` just before `TZ_BY_NAME`; `cells=` is the order
//!       of first use of the cells that the entry-point order implies, 0 = DB_PUBLIC, 1 = DB_SCHOOL,
//!       2 = BOUNDARIES, 3 = TZ_NAME_FINDER, 4 = TZ_BY_NAME.)
//!
//!   pur.selftest <counter|racy-cell> => <n equal> <n different>
//!       the same comparison applied to a deliberately impure evaluator (hidden call counter; a broken
//!       once-cell whose racing initialisers keep different values): differences MUST be reported.
use crate::ast;
use crate::ev;
use crate::gen_expr;
use crate::util::{catch, enc, Rng};
use chrono::{Duration, NaiveDate, NaiveDateTime, TimeDelta};
use opening_hours::localization::{Coordinates, Country, Localize, NoLocation, TzLocation};
use opening_hours::{Context, OpeningHours};
use std::collections::BTreeMap;
use std::fmt::Debug;
use std::sync::{Arc, Barrier};

type TzLoc = TzLocation<chrono_tz::Tz>;

const EXPRS: &[&str] = &[
    "24/7",
    "Mo-Fr 09:00-12:30,14:00-18:00; Sa 09:00-12:00; PH off",
    "sunrise-sunset",
    "(sunrise+01:00)-(sunset-00:30); PH closed",
    "dawn-dusk; SH off",
    "Mo-Su 08:00-20:00; PH 10:00-14:00",
    "PH,Su off; Mo-Sa 07:30-19:00",
    "SH Mo-Fr 10:00-16:00; PH off",
    "easter -2 days-easter +1 day 10:00-12:00",
    "week 1-53/2 Mo 10:00-12:00; PH -1 day closed",
    "Jan-Mar,Nov-Dec Mo-Fr 08:00-17:00 \"winter\"; Apr-Oct 07:00-21:00 \"summer\"",
    "22:00-02:00; PH 20:00-26:00",
    "Mo-Fr 08:00-18:00 || \"on appointment\"",
    "2024-2030/2 Dec 24-Dec 26 off; 10:00-20:00",
    "Fr[1],Sa[-1] 10:00-12:00; PH +1 day 12:00-13:00",
    "Mo-Fr 10:00-12:00, Sa,Su sunrise-12:00 unknown \"maybe\"",
];

const COORDS: &[(f64, f64)] = &[
    (48.8535, 2.34839),   // Paris
    (40.7128, -74.006),   // New York
    (-33.8688, 151.2093), // Sydney
    (64.1466, -21.9426),  // Reykjavik
    (55.2, -162.7),       // Alaska peninsula (D17 witness)
    (35.6762, 139.6503),  // Tokyo
    (-23.5505, -46.6333), // São Paulo
    (0.0, -30.0),         // Atlantic ocean
    (89.9, 10.0),         // near the pole
    (51.5074, -0.1278),   // London
    (-41.2866, 174.7756), // Wellington
    (28.6139, 77.209),    // Delhi
    // territories whose boundary lies inside the boundary of another listed country (two candidate
    // countries for one point: the look-up must always answer the same one)
    (22.3193, 114.1694),  // Hong Kong (HK / CN)
    (18.4655, -66.1057),  // San Juan (PR / US)
    (64.1814, -51.6941),  // Nuuk (GL / DK)
    (60.0973, 19.9348),   // Mariehamn (AX / FI)
    (62.0079, -6.79),     // Tórshavn (FO / DK)
    (78.2232, 15.6267),   // Longyearbyen (SJ / NO)
    (49.4657, -2.5853),   // Guernsey (GG / GB)
    (49.2144, -2.1312),   // Jersey (JE / GB)
    (54.1523, -4.4861),   // Douglas (IM / GB)
    (36.1408, -5.3536),   // Gibraltar (GI / GB)
    (16.7425, -62.1874),  // Montserrat (MS / GB)
];

const COUNTRIES: &[&str] = &["FR", "DE", "US", "GB", "JP", "BR", "IT", "AU", "XX"];

#[derive(Clone, Debug)]
enum CtxSpec {
    Plain,
    Country(&'static str),
    FromCoords(usize),
    TzAndCountry(usize),
    /// the coordinates of entry `.0` with an EXPLICIT zone (entry `.1` of `OTHER_ZONES`): the same
    /// place seen from several zones, so that anything keyed on the coordinates alone shows
    CoordsExplicitTz(usize, usize),
}

const OTHER_ZONES: &[chrono_tz::Tz] = &[chrono_tz::UTC, chrono_tz::Asia::Tokyo, chrono_tz::America::New_York, chrono_tz::Europe::Paris];

#[derive(Clone, Debug)]
enum Query {
    State(NaiveDateTime),
    Next(NaiveDateTime),
    Sched(NaiveDate),
    Iter(NaiveDateTime, i64),
}

enum Val {
    Plain(OpeningHours<NoLocation>),
    Tz(OpeningHours<TzLoc>, TzLoc),
    /// the expression does not parse (answer = the error class)
    Bad(String),
}

enum Kind {
    /// a protocol line of suite `ev`, run through `ev::exec` (builds its own values)
    Line(String),
    Query { expr: String, ctx: CtxSpec, bounded: bool, q: Query, val: Arc<Val> },
}

struct Item {
    kind: Kind,
}

fn holidays_of(cc: &str) -> opening_hours::ContextHolidays {
    cc.parse::<Country>().map(|c| c.holidays()).unwrap_or_default()
}

fn build_val(expr: &str, ctx: &CtxSpec, bounded: bool) -> Val {
    let oh = match catch(|| OpeningHours::parse(expr)) {
        Ok(Ok(oh)) => oh,
        Ok(Err(_)) => return Val::Bad("parse-error".into()),
        Err(p) => return Val::Bad(format!("parse-{p}")),
    };
    build_val_from(oh, ctx, bounded)
}

/// the value for `ctx` derived from an already parsed expression (`with_context` keeps the parsed
/// expression shared with every other value derived from the same parse)
fn build_val_from(oh: OpeningHours<NoLocation>, ctx: &CtxSpec, bounded: bool) -> Val {
    let bound = TimeDelta::days(400);
    match ctx {
        CtxSpec::Plain => {
            let mut c = Context::default();
            if bounded {
                c = c.approx_bound_interval_size(bound);
            }
            Val::Plain(oh.with_context(c))
        }
        CtxSpec::Country(cc) => {
            let mut c = Context::default().with_holidays(holidays_of(cc));
            if bounded {
                c = c.approx_bound_interval_size(bound);
            }
            Val::Plain(oh.with_context(c))
        }
        CtxSpec::FromCoords(i) => {
            let (lat, lon) = COORDS[*i];
            let coords = Coordinates::new(lat, lon).expect("valid coordinates");
            let mut c = Context::from_coords(coords);
            let loc = c.locale.clone();
            if bounded {
                c = c.approx_bound_interval_size(bound);
            }
            Val::Tz(oh.with_context(c), loc)
        }
        CtxSpec::CoordsExplicitTz(i, z) => {
            let (lat, lon) = COORDS[*i];
            let coords = Coordinates::new(lat, lon).expect("valid coordinates");
            let loc = TzLocation::new(OTHER_ZONES[*z]).with_coords(coords);
            let mut c = Context::default().with_locale(loc.clone());
            if bounded {
                c = c.approx_bound_interval_size(bound);
            }
            Val::Tz(oh.with_context(c), loc)
        }
        CtxSpec::TzAndCountry(i) => {
            let (lat, lon) = COORDS[*i];
            let coords = Coordinates::new(lat, lon).expect("valid coordinates");
            let loc = TzLocation::from_coords(coords);
            let hol = Country::try_from_coords(coords).map(Country::holidays).unwrap_or_default();
            let mut c = Context::default().with_holidays(hol).with_locale(loc.clone());
            if bounded {
                c = c.approx_bound_interval_size(bound);
            }
            Val::Tz(oh.with_context(c), loc)
        }
    }
}

fn show_sched(s: opening_hours::schedule::Schedule) -> String {
    let mut out = Vec::new();
    for r in s.into_iter() {
        out.push(format!(
            "{}-{}{}{}",
            r.range.start.mins_from_midnight(),
            r.range.end.mins_from_midnight(),
            ast::kind_tok(r.kind),
            r.comments.iter().map(|c| format!("\"{}\"", enc(c))).collect::<String>()
        ));
    }
    format!("sched[{}]", out.join(","))
}

const ITER_CAP: usize = 120;

fn show_interval<D: Debug>(r: &opening_hours::DateTimeRange<D>) -> String {
    format!(
        "{:?}..{:?}{}{}",
        r.range.start,
        r.range.end,
        ast::kind_tok(r.kind),
        r.comments.iter().map(|c| format!("\"{}\"", enc(c))).collect::<String>()
    )
}

fn run_query<L: Localize>(oh: &OpeningHours<L>, loc: &L, q: &Query) -> String
where
    L::DateTime: Debug,
{
    let s = match q {
        Query::State(t) => {
            let dt = loc.datetime(*t);
            format!(
                "state:{}{}{}{}",
                ast::kind_tok(oh.state(dt.clone())),
                oh.is_open(dt.clone()) as u8,
                oh.is_closed(dt.clone()) as u8,
                oh.is_unknown(dt) as u8
            )
        }
        Query::Next(t) => format!("next:{:?}", oh.next_change(loc.datetime(*t))),
        Query::Sched(d) => show_sched(oh.schedule_at(*d)),
        Query::Iter(t, days) => {
            let to = *t + Duration::days(*days);
            let v: Vec<String> = oh.iter_range(loc.datetime(*t), loc.datetime(to)).take(ITER_CAP).map(|r| show_interval(&r)).collect();
            format!("iter[{}]", v.join(","))
        }
    };
    s.replace(' ', "_")
}

fn eval_val(val: &Val, q: &Query) -> String {
    match val {
        Val::Bad(e) => e.clone(),
        Val::Plain(oh) => catch(|| run_query(oh, &NoLocation, q)).unwrap_or_else(|p| p),
        Val::Tz(oh, loc) => catch(|| run_query(oh, loc, q)).unwrap_or_else(|p| p),
    }
}

fn clone_val(val: &Val) -> Val {
    match val {
        Val::Bad(e) => Val::Bad(e.clone()),
        Val::Plain(oh) => Val::Plain(oh.clone()),
        Val::Tz(oh, loc) => Val::Tz(oh.clone(), loc.clone()),
    }
}

fn run_line(l: &str) -> String {
    let toks: Vec<&str> = l.split(' ').collect();
    ev::exec(toks[0], &toks[1..]).unwrap_or_else(|| "bad-line".into()).replace(' ', "_")
}

/// the reference way of evaluating an item: on its pre-built value
fn eval_shared(it: &Item) -> String {
    match &it.kind {
        Kind::Line(l) => run_line(l),
        Kind::Query { q, val, .. } => eval_val(val, q),
    }
}

/// the same op on a value built now (second parse, context built again: `Country::holidays`,
/// `from_coords` … are called again)
fn eval_fresh(it: &Item) -> String {
    match &it.kind {
        Kind::Line(l) => run_line(l),
        Kind::Query { expr, ctx, bounded, q, .. } => eval_val(&build_val(expr, ctx, *bounded), q),
    }
}

fn eval_clone(it: &Item) -> String {
    match &it.kind {
        Kind::Line(l) => run_line(l),
        Kind::Query { q, val, .. } => eval_val(&clone_val(val), q),
    }
}

fn gen_naive(rng: &mut Rng) -> NaiveDateTime {
    // 1990–2060 mostly (zones have interesting rules there), sometimes anywhere
    let day = if rng.chance(1, 12) { ev::gen_day(rng) } else { ev::ymd(1990, 1, 1) + rng.range(0, 70 * 365) };
    let date = ast::date_of(day).unwrap_or_else(|| NaiveDate::from_ymd_opt(2024, 6, 21).unwrap());
    let secs = match rng.below(4) {
        0 => rng.below(24) * 3600,
        1 => rng.below(1440) * 60,
        _ => rng.below(86_400),
    };
    date.and_hms_opt(0, 0, 0).unwrap() + Duration::seconds(secs as i64)
}

fn build_batch(n: usize, seed: u64) -> Vec<Item> {
    let mut rng = Rng::new(seed.wrapping_mul(0x9E37_79B9).wrapping_add(18));
    let cfg = gen_expr::DEFAULT;
    let mut items = Vec::with_capacity(n);
    for i in 0..n {
        let expr: String = if rng.chance(3, 5) { rng.pick(EXPRS).to_string() } else { gen_expr::expr(&mut rng, &cfg) };
        if i % 6 == 5 {
            // an `ev.*` line with a country context
            let cc = rng.pick(&COUNTRIES[..8]);
            let ctx = format!("cc={cc}");
            let ee = enc(&expr);
            let t = ast::instant(gen_naive(&mut rng));
            let l = match rng.below(4) {
                0 => format!("ev.sched {} {ctx} {ee}", t.split(':').next().unwrap()),
                1 => format!("ev.state {t} {ctx} {ee}"),
                2 => format!("ev.nextw {t} {} {ctx} {ee}", rng.pick(&[7, 40, 400])),
                _ => {
                    let from = ast::parse_instant(&t).unwrap();
                    format!("ev.iter {t} {} {ctx} {ee}", ast::instant(from + Duration::days(rng.range(1, 20))))
                }
            };
            items.push(Item { kind: Kind::Line(l) });
            continue;
        }
        let ctx = match rng.below(10) {
            0 => CtxSpec::Plain,
            1 | 2 => CtxSpec::Country(*rng.pick(COUNTRIES)),
            3 | 4 | 5 => CtxSpec::FromCoords(rng.below(COORDS.len() as u64) as usize),
            6 | 7 => CtxSpec::TzAndCountry(rng.below(COORDS.len() as u64) as usize),
            // few coordinates x all zones, so that the same place is met under several zones
            _ => CtxSpec::CoordsExplicitTz(rng.below(3) as usize, rng.below(OTHER_ZONES.len() as u64) as usize),
        };
        let mut t = gen_naive(&mut rng);
        let mut expr = expr;
        if matches!(ctx, CtxSpec::CoordsExplicitTz(..)) {
            // the same place under several zones asked about the same few days with sun events: results
            // that depend on what was evaluated before (a cache keyed without the zone, say) then differ
            // between evaluation orders
            expr = rng.pick(&["sunrise-sunset", "dawn-dusk", "(sunrise+01:00)-(sunset-01:00); PH off", "sunset-sunrise"]).to_string();
            let d = NaiveDate::from_ymd_opt(2024, 6, 20).unwrap() + chrono::Duration::days(rng.range(0, 2));
            t = d.and_hms_opt(rng.range(0, 23) as u32, 30, 0).unwrap();
        }
        let q = match rng.below(8) {
            0 | 1 | 2 => Query::State(t),
            3 => Query::Next(t),
            4 | 5 => Query::Sched(t.date()),
            _ => Query::Iter(t, rng.range(1, 20)),
        };
        let bounded = matches!(q, Query::Next(_)) || rng.chance(1, 6);
        let val = Arc::new(build_val(&expr, &ctx, bounded));
        items.push(Item { kind: Kind::Query { expr, ctx, bounded, q, val } });
    }
    items
}

fn describe(it: &Item) -> String {
    match &it.kind {
        Kind::Line(l) => enc(l),
        Kind::Query { expr, ctx, bounded, q, .. } => enc(&format!("{expr} @ {ctx:?} bounded={bounded} {q:?}")),
    }
}

/// per op: did every re-evaluation return the reference answer?  (first difference kept)
struct Tally {
    ok: Vec<bool>,
    first: Option<String>,
}

impl Tally {
    fn new(n: usize) -> Self {
        Tally { ok: vec![true; n], first: None }
    }
    fn check(&mut self, i: usize, how: &str, want: &str, got: &str, it: &Item) {
        if want != got {
            self.ok[i] = false;
            if self.first.is_none() {
                let cut = |s: &str| enc(&s.chars().take(300).collect::<String>());
                self.first = Some(format!("op={i} how={how} {} want={} got={}", describe(it), cut(want), cut(got)));
            }
        }
    }
    /// `stats=<distinct reference answers>,<parse errors>,<panics>`: how non-trivial the batch is
    fn report(&self, want: &[String]) -> String {
        let eq = self.ok.iter().filter(|x| **x).count();
        let distinct: std::collections::BTreeSet<&String> = want.iter().collect();
        let bad = want.iter().filter(|w| w.starts_with("parse-error") || w.contains("|_parse-error")).count();
        let panics = want.iter().filter(|w| w.contains("panic:")).count();
        let mut s = format!("{} {} stats={},{},{}", eq, self.ok.len() - eq, distinct.len(), bad, panics);
        if let Some(f) = &self.first {
            s.push(' ');
            s.push_str(f);
        }
        s
    }
}

fn batch(mode: &str, n: usize, seed: u64) -> Option<String> {
    let items = build_batch(n, seed);
    let want: Vec<String> = items.iter().map(eval_shared).collect();
    let mut tally = Tally::new(n);
    if mode == "seq" {
        for (i, it) in items.iter().enumerate() {
            tally.check(i, "again", &want[i], &eval_shared(it), it);
            tally.check(i, "again2", &want[i], &eval_shared(it), it);
            tally.check(i, "fresh", &want[i], &eval_fresh(it), it);
        }
    } else if let Some(k) = mode.strip_prefix("threads") {
        let k: usize = k.parse().ok()?;
        if !(1..=64).contains(&k) {
            return None;
        }
        let barrier = Barrier::new(k);
        let results: Vec<Vec<(usize, &'static str, String)>> = std::thread::scope(|s| {
            let hs: Vec<_> = (0..k)
                .map(|tid| {
                    let items = &items;
                    let barrier = &barrier;
                    s.spawn(move || {
                        let mut out = Vec::with_capacity(n + n / 3 + 1);
                        barrier.wait();
                        for j in 0..n {
                            // each thread walks the batch from another starting point, odd threads backwards
                            let i = if tid % 2 == 0 { (j + tid * n / k) % n } else { (n - 1 - j + tid * n / k) % n };
                            out.push((i, "shared", eval_shared(&items[i])));
                            if (i + tid) % 3 == 0 {
                                out.push((i, "fresh-in-thread", eval_fresh(&items[i])));
                            }
                        }
                        out
                    })
                })
                .collect();
            hs.into_iter().map(|h| h.join().unwrap_or_default()).collect()
        });
        for (tid, r) in results.iter().enumerate() {
            if r.len() < n {
                // a thread died outside `catch`: every op counts as different
                for i in 0..n {
                    tally.check(i, &format!("thread{tid}-died"), &want[i], "thread-died", &items[i]);
                }
            }
            for (i, how, got) in r {
                tally.check(*i, &format!("thread{tid}-{how}"), &want[*i], got, &items[*i]);
            }
        }
    } else if mode == "clones" {
        for (i, it) in items.iter().enumerate() {
            tally.check(i, "clone", &want[i], &eval_clone(it), it);
            // a clone moved to another thread, the original still alive here
            if let Kind::Query { q, val, .. } = &it.kind {
                let c = clone_val(val);
                let q2 = q.clone();
                let got = std::thread::spawn(move || eval_val(&c, &q2)).join().unwrap_or_else(|_| "thread-died".into());
                tally.check(i, "clone-moved", &want[i], &got, it);
                // and the original again after the clone has been used and dropped
                tally.check(i, "original-after-clone", &want[i], &eval_shared(it), it);
            }
        }
    } else if mode == "recontext" {
        // ONE parse, several contexts: values derived by clone() / with_context() share the parsed
        // expression; the same query is asked under other contexts immediately before (same thread,
        // same day), then under the item's own context — anything remembered per expression or per
        // day without the context shows as a different answer
        for (i, it) in items.iter().enumerate() {
            let Kind::Query { expr, ctx, bounded, q, .. } = &it.kind else {
                tally.check(i, "line", &want[i], &eval_shared(it), it);
                continue;
            };
            let oh0 = match catch(|| OpeningHours::parse(expr)) {
                Ok(Ok(oh)) => oh,
                _ => {
                    tally.check(i, "unparsed", &want[i], &eval_shared(it), it);
                    continue;
                }
            };
            let others = [
                CtxSpec::Plain,
                CtxSpec::Country(COUNTRIES[i % COUNTRIES.len()]),
                CtxSpec::Country("FR"),
                CtxSpec::FromCoords(i % COORDS.len()),
                CtxSpec::CoordsExplicitTz(i % 3, i % OTHER_ZONES.len()),
                CtxSpec::TzAndCountry((i * 5 + 1) % COORDS.len()),
            ];
            for o in others.iter() {
                let _ = eval_val(&build_val_from(oh0.clone(), o, *bounded), q);
                let got = eval_val(&build_val_from(oh0.clone(), ctx, *bounded), q);
                tally.check(i, "after-other-context-of-the-same-parse", &want[i], &got, it);
            }
            // and the other way round: the item's context first, then another one, against a value
            // built from its own parse
            let o = &others[i % others.len()];
            let _ = eval_val(&build_val_from(oh0.clone(), ctx, *bounded), q);
            let got = eval_val(&build_val_from(oh0.clone(), o, *bounded), q);
            let alone = eval_val(&build_val(expr, o, *bounded), q);
            if got != alone {
                tally.check(i, "other-context-after-own", &alone, &got, it);
            }
        }
    } else if mode == "interleaved" {
        for (i, it) in items.iter().enumerate() {
            let j = (i * 7 + 3) % n;
            let k = (i * 13 + 5) % n;
            let _ = eval_shared(&items[j]);
            tally.check(i, "after-other", &want[i], &eval_shared(it), it);
            let _ = eval_fresh(&items[k]);
            tally.check(i, "after-other-fresh", &want[i], &eval_shared(it), it);
            // an iterator advanced step by step with other evaluations in between
            if let Kind::Query { q: Query::Iter(t, days), val, .. } = &it.kind {
                let got = match &**val {
                    Val::Bad(e) => e.clone(),
                    Val::Plain(oh) => stepwise(oh, &NoLocation, *t, *days, &items, i),
                    Val::Tz(oh, loc) => stepwise(oh, loc, *t, *days, &items, i),
                };
                tally.check(i, "stepwise-iterator", &want[i], &got, it);
            }
        }
    } else {
        return None;
    }
    Some(tally.report(&want))
}

fn stepwise<L: Localize>(oh: &OpeningHours<L>, loc: &L, t: NaiveDateTime, days: i64, items: &[Item], i: usize) -> String
where
    L::DateTime: Debug,
{
    catch(|| {
        let to = t + Duration::days(days);
        let mut it = oh.iter_range(loc.datetime(t), loc.datetime(to));
        let mut v = Vec::new();
        let mut step = 0usize;
        while v.len() < ITER_CAP {
            let Some(r) = it.next() else { break };
            v.push(show_interval(&r));
            step += 1;
            if step % 4 == 0 {
                let _ = eval_shared(&items[(i + step) % items.len()]);
            }
        }
        format!("iter[{}]", v.join(",")).replace(' ', "_")
    })
    .unwrap_or_else(|p| p)
}

// ------------------------------------------------------------------------------------------
// first use, in a fresh process

const ACTIONS: &str = "HBZCP";

fn action(a: char) -> String {
    let day = |y, m, d| NaiveDate::from_ymd_opt(y, m, d).unwrap();
    catch(|| match a {
        'H' => {
            let h = Country::FR.holidays();
            let probe = [day(2024, 7, 14), day(2024, 7, 15), day(2025, 12, 25), day(2024, 2, 20), day(2024, 8, 1)];
            format!(
                "{} {} {} {}",
                h.get_public().iter().count(),
                h.get_school().iter().count(),
                probe.iter().map(|d| h.get_public().contains(*d) as u8).map(|b| b.to_string()).collect::<String>(),
                probe.iter().map(|d| h.get_school().contains(*d) as u8).map(|b| b.to_string()).collect::<String>()
            )
        }
        'B' => format!("{:?}", Country::try_from_coords(Coordinates::new(48.8535, 2.34839).unwrap())),
        'Z' => TzLocation::from_coords(Coordinates::new(40.7128, -74.006).unwrap()).get_timezone().name().to_string(),
        'C' => {
            let ctx = Context::from_coords(Coordinates::new(35.6762, 139.6503).unwrap());
            let loc = ctx.locale.clone();
            let oh = OpeningHours::parse("PH off; sunrise-sunset").unwrap().with_context(ctx);
            let t = |y, m, d, h| loc.datetime(day(y, m, d).and_hms_opt(h, 0, 0).unwrap());
            format!(
                "{} {}{}{}",
                loc.get_timezone().name(),
                ast::kind_tok(oh.state(t(2024, 6, 21, 12))),
                ast::kind_tok(oh.state(t(2024, 6, 21, 23))),
                ast::kind_tok(oh.state(t(2025, 1, 1, 12)))
            )
        }
        'P' => {
            let oh = OpeningHours::parse("easter -2 days-easter +1 day 10:00-12:00").unwrap();
            let t = |y, m, d| day(y, m, d).and_hms_opt(11, 0, 0).unwrap();
            format!("{}{}{}", ast::kind_tok(oh.state(t(2024, 3, 29))), ast::kind_tok(oh.state(t(2024, 4, 1))), ast::kind_tok(oh.state(t(2024, 4, 2))))
        }
        _ => "unknown-action".into(),
    })
    .unwrap_or_else(|p| p)
    .replace(' ', "_")
}

const PROBE_N: usize = 48;
const PROBE_SEED: u64 = 777;

/// answers of the probe batch, keyed `p<i>` (shared value) and `f<i>` (value built afresh)
fn probe_answers(items: &[Item]) -> Vec<(String, String)> {
    let mut out = Vec::new();
    for (i, it) in items.iter().enumerate() {
        out.push((format!("p{i}"), eval_shared(it)));
        if i % 2 == 0 {
            out.push((format!("f{i}"), eval_fresh(it)));
        }
    }
    out
}

fn valid_order(order: &str) -> bool {
    let mut cs: Vec<char> = order.chars().collect();
    cs.sort();
    let mut all: Vec<char> = ACTIONS.chars().collect();
    all.sort();
    cs == all
}

/// order of first use of the five tables implied by an order of entry points
fn cell_order(order: &str) -> String {
    let mut seen = Vec::new();
    for a in order.chars() {
        let cells: &[u8] = match a {
            'H' => &[0, 1],
            'B' => &[2],
            'Z' => &[3, 4],
            // `Context::from_coords`: try_from_coords, holidays (a country is found for the probe), TzLocation::from_coords
            'C' => &[2, 0, 1, 3, 4],
            _ => &[],
        };
        for c in cells {
            if !seen.contains(c) {
                seen.push(*c);
            }
        }
    }
    seen.iter().map(|c| c.to_string()).collect()
}

/// Body of the hidden subcommand `c18-child <order>`: prints `<thread> <key> <answer>` lines.
pub fn child_main(order: &str) {
    use std::io::Write;
    let out = std::io::stdout();
    let mut w = out.lock();
    if let Some(k) = order.strip_prefix("concurrent") {
        let k: usize = k.parse().unwrap_or(1).clamp(1, 8);
        let nthreads = 5 * k;
        let barrier = Barrier::new(nthreads);
        // first uses: all entry points at once
        let firsts: Vec<(usize, char, String)> = std::thread::scope(|s| {
            let hs: Vec<_> = (0..nthreads)
                .map(|tid| {
                    let barrier = &barrier;
                    s.spawn(move || {
                        let a = ACTIONS.chars().nth(tid % 5).unwrap();
                        barrier.wait();
                        (tid, a, action(a))
                    })
                })
                .collect();
            hs.into_iter().map(|h| h.join().unwrap_or((99, '?', "thread-died".into()))).collect()
        });
        for (tid, a, ans) in &firsts {
            writeln!(w, "{tid} a{a} {ans}").unwrap();
        }
        // then the probe batch from every thread on shared values
        let items = build_batch(PROBE_N, PROBE_SEED);
        let all: Vec<(usize, Vec<(String, String)>)> = std::thread::scope(|s| {
            let hs: Vec<_> = (0..nthreads.min(10))
                .map(|tid| {
                    let items = &items;
                    s.spawn(move || (tid, probe_answers(items)))
                })
                .collect();
            hs.into_iter().map(|h| h.join().unwrap_or((99, vec![("died".into(), "thread-died".into())]))).collect()
        });
        for (tid, answers) in all {
            for (k, v) in answers {
                writeln!(w, "{tid} {k} {v}").unwrap();
            }
        }
    } else {
        for a in order.chars() {
            writeln!(w, "0 a{a} {}", action(a)).unwrap();
        }
        let items = build_batch(PROBE_N, PROBE_SEED);
        for (k, v) in probe_answers(&items) {
            writeln!(w, "0 {k} {v}").unwrap();
        }
    }
    w.flush().unwrap();
}

fn firstuse(order: &str) -> Option<String> {
    let concurrent = order.strip_prefix("concurrent").map(|k| k.parse::<usize>().is_ok()).unwrap_or(false);
    if !concurrent && !valid_order(order) {
        return None;
    }
    // the parent's own sequential answers (its tables may or may not be decoded already: by C18 that
    // must not matter either)
    let mut want: BTreeMap<String, String> = BTreeMap::new();
    for a in ACTIONS.chars() {
        want.insert(format!("a{a}"), action(a));
    }
    let items = build_batch(PROBE_N, PROBE_SEED);
    for (k, v) in probe_answers(&items) {
        want.insert(k, v);
    }
    let exe = std::env::current_exe().ok()?;
    let outp = std::process::Command::new(exe).arg("c18-child").arg(order).output().ok()?;
    let cells = if concurrent { "racing".to_string() } else { cell_order(order) };
    if !outp.status.success() {
        return Some(format!("0 1 cells={cells} child-failed status={:?}", outp.status.code()));
    }
    let text = String::from_utf8_lossy(&outp.stdout);
    let (mut eq, mut diff, mut first) = (0usize, 0usize, None);
    let mut seen_keys = std::collections::BTreeSet::new();
    for line in text.lines() {
        let mut it = line.splitn(3, ' ');
        let (Some(tid), Some(key), Some(ans)) = (it.next(), it.next(), it.next()) else {
            diff += 1;
            first.get_or_insert(format!("malformed-child-line={}", enc(line)));
            continue;
        };
        seen_keys.insert(key.to_string());
        match want.get(key) {
            Some(w) if w == ans => eq += 1,
            w => {
                diff += 1;
                first.get_or_insert(format!(
                    "thread={tid} key={key} want={} got={}",
                    enc(&w.cloned().unwrap_or_else(|| "missing".into()).chars().take(300).collect::<String>()),
                    enc(&ans.chars().take(300).collect::<String>())
                ));
            }
        }
    }
    // every expected answer must have been given at least once
    for k in want.keys() {
        if !seen_keys.contains(k) {
            diff += 1;
            first.get_or_insert(format!("key={k} missing-in-child"));
        }
    }
    Some(match first {
        None => format!("{eq} {diff} cells={cells}"),
        Some(f) => format!("{eq} {diff} cells={cells} {f}"),
    })
}

// ------------------------------------------------------------------------------------------
// self-test of the detector: deliberately impure evaluators must be caught

mod impure {
    use std::sync::atomic::{AtomicBool, AtomicU64, Ordering};

    /// hidden state across calls: the answer depends on how many calls were made before
    pub static CALLS: AtomicU64 = AtomicU64::new(0);
    pub fn counter_eval(x: u64) -> String {
        let n = CALLS.fetch_add(1, Ordering::SeqCst);
        format!("{}", x * 2 + (n % 97 == 96) as u64)
    }

    /// a broken once-cell: the flag is published before the value, the initialiser's value depends
    /// on who runs it, and a reader that sees the flag early reads the not-yet-written value
    pub struct RacyCell {
        pub ready: AtomicBool,
        pub value: AtomicU64,
    }
    impl RacyCell {
        pub const fn new() -> Self {
            RacyCell { ready: AtomicBool::new(false), value: AtomicU64::new(0) }
        }
        pub fn force(&self, who: u64) -> u64 {
            if !self.ready.swap(true, Ordering::SeqCst) {
                std::thread::sleep(std::time::Duration::from_millis(2)); // "decoding"
                self.value.store(1000 + who, Ordering::SeqCst);
            }
            self.value.load(Ordering::SeqCst)
        }
    }
}

/// `pur.selftest <kind>`: the comparison machinery of `pur.batch` applied to an impure evaluator;
/// it MUST report differences (the driver says `ok selftest-detected` then, `fail selftest-blind` otherwise)
fn selftest(kind: &str) -> Option<String> {
    let n = 400usize;
    match kind {
        "counter" => {
            let want: Vec<String> = (0..n as u64).map(impure::counter_eval).collect();
            let mut diff = 0;
            for (i, w) in want.iter().enumerate() {
                if &impure::counter_eval(i as u64) != w || &impure::counter_eval(i as u64) != w {
                    diff += 1;
                }
            }
            Some(format!("{} {}", n - diff, diff))
        }
        "racy-cell" => {
            // sequential reference in a "process" of its own (a fresh cell), then 8 threads racing on
            // first use of another fresh cell
            let seq_cell = impure::RacyCell::new();
            let want: Vec<u64> = (0..n as u64).map(|x| x + seq_cell.force(0)).collect();
            let cell = impure::RacyCell::new();
            let barrier = Barrier::new(8);
            let got: Vec<Vec<u64>> = std::thread::scope(|s| {
                let hs: Vec<_> = (0..8u64)
                    .map(|tid| {
                        let (cell, barrier) = (&cell, &barrier);
                        s.spawn(move || {
                            barrier.wait();
                            (0..n as u64).map(|x| x + cell.force(tid)).collect::<Vec<u64>>()
                        })
                    })
                    .collect();
                hs.into_iter().map(|h| h.join().unwrap_or_default()).collect()
            });
            let diff = (0..n).filter(|i| got.iter().any(|g| g.get(*i) != Some(&want[*i]))).count();
            Some(format!("{} {}", n - diff, diff))
        }
        _ => None,
    }
}

pub fn exec(op: &str, a: &[&str]) -> Option<String> {
    match (op, a) {
        ("pur.selftest", [kind]) => selftest(kind),
        ("pur.batch", [mode, n, seed]) => {
            let n: usize = n.parse().ok()?;
            if n == 0 || n > 100_000 {
                return None;
            }
            batch(mode, n, seed.parse().ok()?)
        }
        ("pur.firstuse", [order]) => firstuse(order),
        ("pur.rebuild", [i, n]) => rebuild(i.parse().ok()?, n.parse().ok()?),
        _ => None,
    }
}

/// Everything that is derived from a pair of coordinates, rebuilt from scratch: the country, the time
/// zone, the size of the attached calendars and one evaluation through `Context::from_coords`.
fn from_coords_answer(i: usize) -> String {
    let (lat, lon) = COORDS[i];
    let coords = Coordinates::new(lat, lon).expect("valid coordinates");
    let country = Country::try_from_coords(coords);
    let hol = country.map(Country::holidays).unwrap_or_default();
    let tz = TzLocation::from_coords(coords);
    let ctx = Context::from_coords(coords);
    let from = chrono::NaiveDate::from_ymd_opt(2024, 1, 1).unwrap().and_hms_opt(0, 0, 0).unwrap();
    let to = chrono::NaiveDate::from_ymd_opt(2025, 1, 1).unwrap().and_hms_opt(0, 0, 0).unwrap();
    let (from, to) = (ctx.locale.datetime(from), ctx.locale.datetime(to));
    let oh = OpeningHours::parse("24/7; PH off; SH unknown").expect("parse").with_context(ctx);
    let changes = oh.iter_range(from, to).count();
    format!("{:?}/{}/{}+{}/{}", country, tz.get_timezone().name(), hol.get_public().count(), hol.get_school().count(), changes)
}

/// `pur.rebuild <i> <n>`: the answer derived from coordinates `i`, rebuilt `n` times in a row and then
/// `n` times from 8 fresh threads: `<eq> <diff> <first answer>` (diff = answers unlike the first)
fn rebuild(i: usize, n: usize) -> Option<String> {
    if i >= COORDS.len() || n == 0 || n > 10_000 {
        return None;
    }
    let first = from_coords_answer(i);
    let mut all: Vec<String> = (1..n).map(|_| from_coords_answer(i)).collect();
    let per = n.div_ceil(8);
    let threaded: Vec<Vec<String>> = std::thread::scope(|s| {
        let hs: Vec<_> = (0..8).map(|_| s.spawn(move || (0..per).map(|_| from_coords_answer(i)).collect::<Vec<String>>())).collect();
        hs.into_iter().map(|h| h.join().unwrap_or_default()).collect()
    });
    all.extend(threaded.into_iter().flatten());
    let diff = all.iter().filter(|a| **a != first).count();
    Some(format!("{} {} {}", all.len() + 1 - diff, diff, first.replace(' ', "_")))
}

fn permutations(s: &[char]) -> Vec<String> {
    if s.len() <= 1 {
        return vec![s.iter().collect()];
    }
    let mut out = Vec::new();
    for i in 0..s.len() {
        let mut rest = s.to_vec();
        let c = rest.remove(i);
        for p in permutations(&rest) {
            out.push(format!("{c}{p}"));
        }
    }
    out
}

pub fn gen(tier: &str, rng: &mut Rng, emit: &mut dyn FnMut(String)) {
    let thorough = tier == "thorough";
    emit("pur.selftest counter".into());
    emit("pur.selftest racy-cell".into());
    // everything derived from coordinates, rebuilt again and again (sequentially and from fresh threads)
    for i in 0..COORDS.len() {
        emit(format!("pur.rebuild {i} {}", if thorough { 200 } else { 48 }));
    }
    let (nseeds, n) = if thorough { (24, 6000) } else { (6, 2000) };
    for _ in 0..nseeds {
        let seed = rng.below(1_000_000);
        for mode in ["seq", "threads8", "threads16", "clones", "interleaved", "recontext"] {
            emit(format!("pur.batch {mode} {n} {seed}"));
        }
        let k = rng.range(9, 15);
        emit(format!("pur.batch threads{k} {n} {seed}"));
    }
    // first-use orders: all 120 in the thorough tier, 12 in the quick one (each entry point first at
    // least twice), plus racing first uses
    let chars: Vec<char> = ACTIONS.chars().collect();
    let all = permutations(&chars);
    if thorough {
        for p in &all {
            emit(format!("pur.firstuse {p}"));
        }
        for i in 0..40 {
            emit(format!("pur.firstuse concurrent{}", 1 + i % 4));
        }
    } else {
        let mut chosen: Vec<String> = Vec::new();
        for c in &chars {
            let with_c: Vec<&String> = all.iter().filter(|p| p.starts_with(*c)).collect();
            for _ in 0..2 {
                chosen.push((*rng.pick(&with_c)).clone());
            }
        }
        chosen.push("CPHBZ".into());
        chosen.push("ZBHPC".into());
        for p in chosen {
            emit(format!("pur.firstuse {p}"));
        }
        for k in [1, 2, 3, 4] {
            emit(format!("pur.firstuse concurrent{k}"));
        }
    }
}
