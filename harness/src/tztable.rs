//! Transition tables of chrono-tz zones, extracted through the public API only
//! (`offset_from_utc_datetime`): hourly scan of the UTC offset over 1900-01-01 … 2100-01-01 and
//! bisection of every change to the exact second.  (chrono-tz keeps its `FixedTimespanSet`
//! private; transitions are whole seconds, offsets whole seconds.)
use chrono::{NaiveDate, Offset, TimeZone};
use chrono_tz::Tz;
use std::collections::HashMap;
use std::sync::{Mutex, OnceLock};

#[derive(Clone, Debug)]
pub struct Table {
    /// offset (seconds east of UTC) in force at `SCAN_LO`
    pub init: i64,
    /// (UTC timestamp in seconds at which the offset starts to apply, offset in seconds)
    pub trans: Vec<(i64, i64)>,
}

pub fn ts(y: i32, m: u32, d: u32) -> i64 {
    NaiveDate::from_ymd_opt(y, m, d).unwrap().and_hms_opt(0, 0, 0).unwrap().and_utc().timestamp()
}

pub fn scan_lo() -> i64 {
    ts(1899, 1, 1)
}
pub fn scan_hi() -> i64 {
    ts(2101, 1, 1)
}

pub fn offset_at(tz: Tz, t: i64) -> i64 {
    let dt = chrono::DateTime::from_timestamp(t, 0).unwrap().naive_utc();
    tz.offset_from_utc_datetime(&dt).fix().local_minus_utc() as i64
}

fn bisect(tz: Tz, mut lo: i64, mut hi: i64, olo: i64, out: &mut Vec<(i64, i64)>) {
    // invariant: offset(lo) = olo ≠ offset(hi); finds the FIRST change in (lo, hi], then recurses on
    // the rest so that several changes inside one scan step are all found as long as the offsets
    // at the step's ends differ
    let ohi = offset_at(tz, hi);
    let hi0 = hi;
    while hi - lo > 1 {
        let mid = lo + (hi - lo) / 2;
        if offset_at(tz, mid) == olo {
            lo = mid;
        } else {
            hi = mid;
        }
    }
    let o = offset_at(tz, hi);
    out.push((hi, o));
    if o != ohi {
        bisect(tz, hi, hi0, o, out);
    }
}

fn compute(tz: Tz) -> Table {
    const STEP: i64 = 3600;
    let (lo, hi) = (scan_lo(), scan_hi());
    let init = offset_at(tz, lo);
    let mut trans = Vec::new();
    let mut t = lo;
    let mut o = init;
    while t < hi {
        let t2 = t + STEP;
        let o2 = offset_at(tz, t2);
        if o2 != o {
            bisect(tz, t, t2, o, &mut trans);
        }
        t = t2;
        o = o2;
    }
    Table { init, trans }
}

pub fn table(tz: Tz) -> Table {
    static CACHE: OnceLock<Mutex<HashMap<Tz, Table>>> = OnceLock::new();
    let m = CACHE.get_or_init(|| Mutex::new(HashMap::new()));
    if let Some(t) = m.lock().unwrap().get(&tz) {
        return t.clone();
    }
    let t = compute(tz);
    m.lock().unwrap().insert(tz, t.clone());
    t
}

impl Table {
    /// offset in force just before transition `i`
    pub fn prev_offset(&self, i: usize) -> i64 {
        if i == 0 {
            self.init
        } else {
            self.trans[i - 1].1
        }
    }

    /// the sub-table sent to the driver: the offset in force at `lo - margin` as initial offset and
    /// the transitions within `[lo - margin, hi + margin]`
    pub fn restrict(&self, lo: i64, hi: i64, margin: i64) -> Table {
        let (a, b) = (lo.saturating_sub(margin), hi.saturating_add(margin));
        let mut init = self.init;
        let mut trans = Vec::new();
        for &(t, o) in &self.trans {
            if t < a {
                init = o;
            } else if t <= b {
                trans.push((t, o));
            }
        }
        Table { init, trans }
    }

    /// tokens `Z <init> <n> (<utc seconds> <offset>)*`
    pub fn dump(&self) -> String {
        let mut out = vec!["Z".to_string(), self.init.to_string(), self.trans.len().to_string()];
        for (t, o) in &self.trans {
            out.push(t.to_string());
            out.push(o.to_string());
        }
        out.join(" ")
    }
}

/// statistics over the installed database (`ohharness tzscan`)
pub fn scan_report() {
    let mut unaligned: Vec<String> = Vec::new();
    let mut min_space: (i64, String) = (i64::MAX, String::new());
    let mut close: Vec<String> = Vec::new();
    let mut ntrans = 0usize;
    let mut maxn = 0usize;
    let t0 = std::time::Instant::now();
    for tz in chrono_tz::TZ_VARIANTS.iter().copied() {
        let tb = table(tz);
        ntrans += tb.trans.len();
        maxn = maxn.max(tb.trans.len());
        for (i, &(t, o)) in tb.trans.iter().enumerate() {
            let p = tb.prev_offset(i);
            if o > p && (t + o).rem_euclid(60) != 0 {
                let dt = chrono::DateTime::from_timestamp(t, 0).unwrap();
                unaligned.push(format!("{} utc={} {}->{} gap-end-local-sec={}", tz.name(), dt.naive_utc(), p, o, (t + o).rem_euclid(60)));
            }
            if i + 1 < tb.trans.len() {
                let d = tb.trans[i + 1].0 - t;
                if d < min_space.0 {
                    min_space = (d, format!("{} at {}", tz.name(), t));
                }
                if d < 2 * 86400 + 60 {
                    close.push(format!("{} t={} d={}s offsets {} {} {}", tz.name(), t, d, p, o, tb.trans[i + 1].1));
                }
            }
        }
    }
    println!("tzdb {} zones {} transitions {} max/zone {} scan {:.1}s", chrono_tz::IANA_TZDB_VERSION, chrono_tz::TZ_VARIANTS.len(), ntrans, maxn, t0.elapsed().as_secs_f64());
    println!("min spacing {}s {}", min_space.0, min_space.1);
    println!("transitions closer than 2 days + 1 min: {}", close.len());
    for c in &close {
        println!("  {c}");
    }
    println!("non-minute-aligned gap ends: {}", unaligned.len());
    for u in &unaligned {
        println!("  {u}");
    }
}
