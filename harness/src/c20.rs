//! Suite `c20` (ops `usv.*`) — C20 `UniqueSortedVec`.
//! Vectors are space-separated element tokens, `-` is the empty vector, `|` separates operands.
//! Every `UniqueSortedVec` operand is built from an arbitrary vector through `From<Vec<T>>`
//! (the only public constructor besides `new()` and `union`).
//! Integer ops use `UniqueSortedVec<u64>`; the `usv.s*` ops use `UniqueSortedVec<String>` and, in
//! parallel, `UniqueSortedVec<Arc<str>>` (the instantiation the library uses for comments) and
//! `to_ref::<str>()`; any difference between them is reported as `incoherent`.
use crate::util::{catch, enc, Rng};
use opening_hours_syntax::sorted_vec::UniqueSortedVec;
use std::sync::Arc;

/// `util::enc`, with the tokens reserved by this suite (`|`, `-`) and by the protocol (`=>`)
/// made impossible by escaping `|`, `-` and `=` as well
fn enc2(s: &str) -> String {
    enc(s).replace('|', "%7C").replace('-', "%2D").replace('=', "%3D")
}

fn dec(t: &str) -> Option<String> {
    if t == "%" {
        return Some(String::new());
    }
    let b = t.as_bytes();
    let mut out = Vec::with_capacity(b.len());
    let mut i = 0;
    while i < b.len() {
        if b[i] == b'%' {
            let h = std::str::from_utf8(b.get(i + 1..i + 3)?).ok()?;
            out.push(u8::from_str_radix(h, 16).ok()?);
            i += 3;
        } else {
            out.push(b[i]);
            i += 1;
        }
    }
    String::from_utf8(out).ok()
}

fn parse_vec<T>(toks: &[&str], p: &dyn Fn(&str) -> Option<T>) -> Option<Vec<T>> {
    match toks {
        ["-"] => Some(vec![]),
        [] => None,
        _ => toks.iter().map(|t| p(t)).collect(),
    }
}

fn show_vec<T>(v: &[T], s: &dyn Fn(&T) -> String) -> String {
    if v.is_empty() {
        "-".to_string()
    } else {
        v.iter().map(s).collect::<Vec<_>>().join(" ")
    }
}

fn r<T>(x: Result<T, String>, f: impl FnOnce(T) -> String) -> String {
    match x {
        Ok(v) => f(v),
        Err(p) => p,
    }
}

/// the operations on one element type
fn exec_g<T: Ord + Clone>(
    op: &str,
    a: &[&str],
    p: &dyn Fn(&str) -> Option<T>,
    s: &dyn Fn(&T) -> String,
) -> Option<String> {
    let parts: Vec<&[&str]> = a.split(|t| *t == "|").collect();
    Some(match (op, parts.as_slice()) {
        ("from", [v]) => {
            let v = parse_vec(v, p)?;
            r(catch(|| UniqueSortedVec::from(v)), |u| show_vec(u.as_slice(), s))
        }
        ("union", [x, y]) => {
            let (x, y) = (parse_vec(x, p)?, parse_vec(y, p)?);
            r(
                catch(|| {
                    let (x, y): (UniqueSortedVec<T>, UniqueSortedVec<T>) = (x.into(), y.into());
                    x.union(y)
                }),
                |u| show_vec(u.as_slice(), s),
            )
        }
        ("chain", vs) => {
            let vs: Vec<Vec<T>> = vs.iter().map(|v| parse_vec(v, p)).collect::<Option<_>>()?;
            r(
                catch(|| {
                    let mut acc = UniqueSortedVec::new();
                    for v in vs {
                        acc = acc.union(v.into());
                    }
                    acc
                }),
                |u| show_vec(u.as_slice(), s),
            )
        }
        ("contains", [[x], v]) => {
            let (x, v) = (p(x)?, parse_vec(v, p)?);
            r(catch(|| UniqueSortedVec::from(v).contains(&x)), |b| b.to_string())
        }
        ("fff", [[x], v]) => {
            let (x, v) = (p(x)?, parse_vec(v, p)?);
            r(
                catch(|| UniqueSortedVec::from(v).find_first_following(&x).cloned()),
                |o| match o {
                    None => "none".to_string(),
                    Some(y) => format!("some {}", s(&y)),
                },
            )
        }
        _ => return None,
    })
}

/// Execute one operation on the real code; `None` = not an op of this suite / malformed.
pub fn exec(op: &str, a: &[&str]) -> Option<String> {
    let op = op.strip_prefix("usv.")?;
    if let ("deep", [n]) = (op, a) {
        // manual probe (never generated): recursion depth of `union` on two interleaved vectors of
        // `n` elements each; a stack overflow aborts the process (it is not a panic)
        let n: u64 = n.parse().ok()?;
        let x: UniqueSortedVec<u64> = (0..n).map(|k| 2 * k).collect::<Vec<_>>().into();
        let y: UniqueSortedVec<u64> = (0..n).map(|k| 2 * k + 1).collect::<Vec<_>>().into();
        return Some(r(catch(|| x.union(y)), |u| format!("len {}", u.len())));
    }
    if matches!(op, "from" | "union" | "chain" | "contains" | "fff") {
        return exec_g::<u64>(op, a, &|t| t.parse().ok(), &|x| x.to_string());
    }
    let op = op.strip_prefix('s')?;
    let out = exec_g::<String>(op, a, &dec, &|x| enc2(x))?;
    // the same through Arc<str> (byte-wise `Ord` of `str`, as for `String`)
    let out_arc = exec_g::<Arc<str>>(op, a, &|t| dec(t).map(Arc::from), &|x| enc2(x))?;
    if out != out_arc {
        return Some(format!("incoherent-arc {out_arc}"));
    }
    if op == "from" && !out.starts_with("panic:") {
        // `to_ref` keeps the elements and their order
        let v = parse_vec(a, &dec)?;
        let got = catch(|| {
            let u: UniqueSortedVec<String> = v.into();
            let rf: UniqueSortedVec<&str> = u.to_ref();
            show_vec(rf.as_slice(), &|x| enc2(x))
        });
        if got.as_deref() != Ok(out.as_str()) {
            return Some(format!("incoherent-ref {}", r(got, |x| x)));
        }
    }
    Some(out)
}

// ---------------------------------------------------------------------------------------------

/// all vectors over `1..=alpha` of length `0..=maxlen`, shortest first
fn all_vecs(alpha: u64, maxlen: usize) -> Vec<Vec<u64>> {
    let mut out: Vec<Vec<u64>> = vec![vec![]];
    let mut start = 0;
    for _ in 0..maxlen {
        let end = out.len();
        for i in start..end {
            for x in 1..=alpha {
                let mut v = out[i].clone();
                v.push(x);
                out.push(v);
            }
        }
        start = end;
    }
    out
}

/// all strictly increasing vectors over `1..=alpha` (the subsets)
fn all_subsets(alpha: u64) -> Vec<Vec<u64>> {
    (0..(1u64 << alpha)).map(|m| (1..=alpha).filter(|k| m >> (k - 1) & 1 == 1).collect()).collect()
}

fn sv<T: ToString>(v: &[T]) -> String {
    show_vec(v, &|x| x.to_string())
}

/// a random vector: `len` elements of an alphabet of `alpha` values `base + k * stride`
fn rand_vec(rng: &mut Rng, len: usize, alpha: u64, base: u64, stride: u64) -> Vec<u64> {
    (0..len).map(|_| base.saturating_add(rng.below(alpha).saturating_mul(stride))).collect()
}

fn rand_len(rng: &mut Rng, max: u64) -> usize {
    // biased to short and to the maximum
    match rng.below(10) {
        0 => 0,
        1 => 1,
        2 => max as usize,
        _ => rng.below(max + 1) as usize,
    }
}

const STRS: &[&str] = &[
    "", "a", "A", "aa", "ab", "b", "z", "~", "\u{7f}", "\u{80}", "é", "e\u{301}", "ÿ", "Ā", "\u{7ff}", "\u{800}",
    "日本", "\u{d7ff}", "\u{e000}", "\u{fffd}", "\u{ffff}", "\u{10000}", "\u{1F600}", "\u{10ffff}", " ", "-", "|", "%",
    "=>", "Anaïs", "Hello", "hello", "\t", "a b", "a\u{0}", "a\u{10000}", "a\u{ffff}",
];

fn rand_str(rng: &mut Rng) -> String {
    let n = match rng.below(6) {
        0 => 0,
        1 | 2 | 3 => 1,
        4 => 2,
        _ => 3,
    };
    (0..n).map(|_| *rng.pick(STRS)).collect()
}

fn ssv(v: &[String]) -> String {
    show_vec(v, &|x| enc2(x))
}

pub fn gen(tier: &str, rng: &mut Rng, emit: &mut dyn FnMut(String)) {
    let thorough = tier == "thorough";

    // 1. union on every pair of sorted-unique vectors over a small alphabet
    let subs = all_subsets(if thorough { 8 } else { 4 });
    for a in &subs {
        for b in &subs {
            emit(format!("usv.union {} | {}", sv(a), sv(b)));
        }
    }

    // 2. from / contains / find_first_following on every vector (any order, with repetitions)
    let (alpha, maxlen) = if thorough { (5, 6) } else { (4, 5) };
    let vecs = all_vecs(alpha, maxlen);
    for v in &vecs {
        emit(format!("usv.from {}", sv(v)));
        for x in 0..=alpha + 1 {
            // 0 is below and alpha + 1 above every element
            emit(format!("usv.contains {x} | {}", sv(v)));
            emit(format!("usv.fff {x} | {}", sv(v)));
        }
    }

    // 3. union on every pair of arbitrary vectors, each passed through `From<Vec>`
    let spaces: &[(u64, usize)] = if thorough { &[(2, 6), (3, 6), (4, 5), (5, 4)] } else { &[(2, 6), (3, 4), (4, 4)] };
    for &(alpha, maxlen) in spaces {
        let vecs = all_vecs(alpha, maxlen);
        for a in &vecs {
            let sa = sv(a);
            for b in &vecs {
                emit(format!("usv.union {sa} | {}", sv(b)));
            }
        }
    }
    if thorough {
        // all pairs of vectors up to length 6 over 4 and 5 letters (29.8M + 381M pairs): too many
        // lines for the driver, so checked here against the set union (proved equal to the model's
        // result in C20.union_fromVec / sorted_ext); only mismatches are sent on — they then fail in
        // the driver too
        for alpha in [4u64, 5] {
            let vecs = all_vecs(alpha, 6);
            let built: Vec<UniqueSortedVec<u64>> = vecs.iter().map(|v| v.clone().into()).collect();
            let mask = |u: &UniqueSortedVec<u64>| u.iter().fold(0u64, |m, k| m | 1 << k);
            let masks: Vec<u64> = built.iter().map(mask).collect();
            let mut n = 0u64;
            for (i, a) in built.iter().enumerate() {
                for (j, b) in built.iter().enumerate() {
                    n += 1;
                    let got = catch(|| a.clone().union(b.clone()));
                    let m = masks[i] | masks[j];
                    let ok = match &got {
                        Ok(u) => u.iter().copied().eq((1..=alpha).filter(|k| m >> k & 1 == 1)),
                        Err(_) => false,
                    };
                    if !ok {
                        emit(format!("usv.union {} | {}", sv(&vecs[i]), sv(&vecs[j])));
                    }
                }
            }
            emit(format!(
                "#note usv.union checked in-harness against the set union for all pairs of vectors of length <= 6 over {alpha} letters: {n} cases"
            ));
        }
    }

    // 4. random longer vectors
    let n_rand = if thorough { 200_000 } else { 5_000 };
    for _ in 0..n_rand {
        let alpha = rng.range(2, 50) as u64;
        let (base, stride) = match rng.below(8) {
            0 => (u64::MAX - 49 * 3, 3),                  // top of the range
            1 => (0, u64::MAX / 50),                      // spread over the whole range
            2 => (rng.below(1 << 40), 1 + rng.below(1000)),
            _ => (0, 1),
        };
        let (la, lb) = (rand_len(rng, 40), rand_len(rng, 40));
        let a = rand_vec(rng, la, alpha, base, stride);
        emit(format!("usv.from {}", sv(&a)));
        // second operand: same alphabet / strictly above / strictly below / touching / interleaved
        let b: Vec<u64> = match rng.below(8) {
            0 => {
                // above `a` (concatenation arm), needs room
                let top = a.iter().copied().max().unwrap_or(0);
                (0..lb).map(|_| top.saturating_add(1 + rng.below(alpha))).collect()
            }
            1 => {
                let bot = a.iter().copied().min().unwrap_or(u64::MAX);
                (0..lb).map(|_| bot.saturating_sub(1 + rng.below(alpha))).collect()
            }
            2 => {
                // first of `b` == last of `a` (no concatenation, `Equal` arm at once)
                let top = a.iter().copied().max().unwrap_or(0);
                (0..lb).map(|_| top.saturating_add(rng.below(alpha))).collect()
            }
            3 => {
                // interleaved without common elements when stride is even
                let (base, stride) = (0u64, 2u64);
                let a2 = rand_vec(rng, la, alpha, base, stride);
                let b2 = rand_vec(rng, lb, alpha, base + 1, stride);
                emit(format!("usv.union {} | {}", sv(&a2), sv(&b2)));
                b2
            }
            4 => rand_vec(rng, lb, 2 * alpha, base, stride), // larger alphabet
            _ => rand_vec(rng, lb, alpha, base, stride),
        };
        emit(format!("usv.union {} | {}", sv(&a), sv(&b)));
        // queries: an element, a neighbour of an element, anything
        let x = match rng.below(4) {
            0 if !a.is_empty() => *rng.pick(&a),
            1 if !a.is_empty() => rng.pick(&a).saturating_add(1),
            2 if !a.is_empty() => rng.pick(&a).saturating_sub(1),
            _ => base.saturating_add(rng.below(alpha + 2).saturating_mul(stride)),
        };
        emit(format!("usv.contains {x} | {}", sv(&a)));
        emit(format!("usv.fff {x} | {}", sv(&a)));
        if rng.chance(1, 10) {
            let k = rng.range(0, 6);
            let vs: Vec<String> = (0..k)
                .map(|_| {
                    let l = rand_len(rng, 12);
                    sv(&rand_vec(rng, l, alpha, base, stride))
                })
                .collect();
            emit(format!("usv.chain {}", if vs.is_empty() { "-".to_string() } else { vs.join(" | ") }));
        }
    }

    // 5. strings: byte-wise order of Rust `str` vs code-point order of the model's `String`
    //    every pair of the table (as singleton / two-element vectors), then random vectors
    for a in STRS {
        for b in STRS {
            let (a, b) = (a.to_string(), b.to_string());
            emit(format!("usv.sfrom {}", ssv(&[a.clone(), b.clone()])));
            emit(format!("usv.sunion {} | {}", ssv(&[a.clone()]), ssv(&[b.clone()])));
            emit(format!("usv.sfff {} | {}", enc2(&a), ssv(&[b.clone()])));
            emit(format!("usv.scontains {} | {}", enc2(&a), ssv(&[b.clone(), a.clone() + "a"])));
        }
    }
    let small: Vec<String> = ["", "a", "é", "\u{ffff}", "\u{10000}"].iter().map(|s| s.to_string()).collect();
    let svecs: Vec<Vec<String>> = all_vecs(small.len() as u64, if thorough { 3 } else { 2 })
        .into_iter()
        .map(|v| v.into_iter().map(|k| small[k as usize - 1].clone()).collect())
        .collect();
    for a in &svecs {
        for b in &svecs {
            emit(format!("usv.sunion {} | {}", ssv(a), ssv(b)));
        }
    }
    for _ in 0..(if thorough { 50_000 } else { 3_000 }) {
        let pool: Vec<String> = (0..rng.range(1, 12)).map(|_| rand_str(rng)).collect();
        let rv = |rng: &mut Rng| -> Vec<String> {
            let l = rand_len(rng, 16);
            (0..l).map(|_| rng.pick(&pool).clone()).collect()
        };
        let (a, b) = (rv(rng), rv(rng));
        emit(format!("usv.sfrom {}", ssv(&a)));
        emit(format!("usv.sunion {} | {}", ssv(&a), ssv(&b)));
        let x = if rng.chance(1, 2) { rng.pick(&pool).clone() } else { rand_str(rng) };
        emit(format!("usv.scontains {} | {}", enc2(&x), ssv(&a)));
        emit(format!("usv.sfff {} | {}", enc2(&x), ssv(&a)));
        if rng.chance(1, 10) {
            let c = rv(rng);
            emit(format!("usv.schain {} | {} | {}", ssv(&a), ssv(&b), ssv(&c)));
        }
    }
}
