//! Expression-aware day generation: the days on which the selectors of a parsed expression change
//! state (first/last day of each year, month, week, dated range and holiday they mention, ±1 day,
//! shifted by their offsets), around a focus year.  Off-by-one mistakes in selectors and hints show
//! on exactly these days, which uniform sampling rarely hits.
use crate::ast::day_num;
use crate::util::Rng;
use chrono::{Datelike, NaiveDate, Weekday};
use opening_hours_syntax::rules::day::{Date, DateOffset, MonthdayRange, WeekDayOffset, WeekDayRange};
use opening_hours_syntax::rules::OpeningHoursExpression;

fn push3(out: &mut Vec<i64>, d: Option<NaiveDate>) {
    if let Some(d) = d {
        let n = day_num(d);
        out.extend([n - 1, n, n + 1]);
    }
}

fn first_of(y: i32, m: u32) -> Option<NaiveDate> {
    NaiveDate::from_ymd_opt(y, m, 1)
}

fn last_of(y: i32, m: u32) -> Option<NaiveDate> {
    if m == 12 {
        NaiveDate::from_ymd_opt(y, 12, 31)
    } else {
        NaiveDate::from_ymd_opt(y, m + 1, 1)?.pred_opt()
    }
}

fn easter(y: i32) -> Option<NaiveDate> {
    // same anonymous Gregorian algorithm as the library (only used to aim the generator)
    let a = y % 19;
    let b = y / 100;
    let c = y % 100;
    let d = b / 4;
    let e = b % 4;
    let f = (b + 8) / 25;
    let g = (b - f + 1) / 3;
    let h = (19 * a + b - d - g + 15) % 30;
    let i = c / 4;
    let k = c % 4;
    let l = (32 + 2 * e + 2 * i - h - k) % 7;
    let m = (a + 11 * h + 22 * l) / 451;
    NaiveDate::from_ymd_opt(y, ((h + l - 7 * m + 114) / 31) as u32, ((h + l - 7 * m + 114) % 31 + 1) as u32)
}

fn plus_days(d: NaiveDate, n: i64) -> NaiveDate {
    d.checked_add_signed(chrono::Duration::days(n)).unwrap_or(d)
}

/// the date a bound denotes once its offsets are applied — computed HERE, not by the library's
/// `DateOffset::apply` (the days to look at must not depend on the code under test)
fn shifted(base: NaiveDate, off: &DateOffset) -> NaiveDate {
    let d = plus_days(base, off.day_offset.clamp(-100_000, 100_000));
    let wd = |x: Weekday| i64::from(x.num_days_from_monday());
    match off.wday_offset {
        WeekDayOffset::None => d,
        WeekDayOffset::Next(t) => plus_days(d, (wd(t) - wd(d.weekday())).rem_euclid(7)),
        WeekDayOffset::Prev(t) => plus_days(d, -(wd(d.weekday()) - wd(t)).rem_euclid(7)),
    }
}

/// day number of Easter Sunday of year `y` (the harness's own computation)
pub fn easter_day(y: i32) -> Option<i64> {
    easter(y).map(day_num)
}

fn date_on(d: &Date, y: i32) -> Vec<NaiveDate> {
    match d {
        Date::Fixed { year, month, day } => {
            let y = year.map(i32::from).unwrap_or(y);
            let m = *month as u32;
            // the date itself, or the neighbours an impossible day is moved to
            match NaiveDate::from_ymd_opt(y, m, (*day).into()) {
                Some(d) => vec![d],
                None => [last_of(y, m), last_of(y, m).and_then(|d| d.succ_opt())].into_iter().flatten().collect(),
            }
        }
        Date::Easter { year } => easter(year.map(i32::from).unwrap_or(y)).into_iter().collect(),
    }
}

/// boundary days of `e` around `focus` (a year), plus the holidays `hol` shifted by the offsets used
pub fn boundary_days(e: &OpeningHoursExpression, focus: i32, hol: &[i64]) -> Vec<i64> {
    let mut out = Vec::new();
    for r in &e.rules {
        let ds = &r.day_selector;
        for yr in &ds.year {
            for y in [i32::from(yr.range.start().0), i32::from(yr.range.end().0)] {
                for k in [0, 1, i32::from(yr.step), i32::from(yr.step) + 1] {
                    push3(&mut out, first_of(y + k, 1));
                }
            }
        }
        for md in &ds.monthday {
            match md {
                MonthdayRange::Month { range, year } => {
                    let y = year.map(i32::from).unwrap_or(focus);
                    for yy in [y, y + 1] {
                        push3(&mut out, first_of(yy, *range.start() as u32));
                        push3(&mut out, last_of(yy, *range.end() as u32));
                    }
                }
                MonthdayRange::Date { start, end } => {
                    for yy in [focus - 1, focus, focus + 1] {
                        for (d, off) in [start, end] {
                            for base in date_on(d, yy) {
                                push3(&mut out, Some(shifted(base, off)));
                                push3(&mut out, Some(base));
                            }
                        }
                    }
                    // a weekday offset does nothing when the date already falls on that weekday: the
                    // years in which it does (one in seven for a fixed date, every year for `easter+Su`)
                    // are where an off-by-a-week slip shows — the date, ±1, and one week either side
                    for (d, off) in [start, end] {
                        let target = match off.wday_offset {
                            WeekDayOffset::None => continue,
                            WeekDayOffset::Next(w) | WeekDayOffset::Prev(w) => w,
                        };
                        let mut found = 0;
                        for yy in focus - 1..focus + 30 {
                            for base in date_on(d, yy) {
                                let b = plus_days(base, off.day_offset.clamp(-400, 400));
                                if b.weekday() == target && found < 2 {
                                    found += 1;
                                    for k in [-8, -7, -6, -1, 0, 1, 6, 7, 8] {
                                        out.push(day_num(plus_days(b, k)));
                                    }
                                }
                            }
                        }
                    }
                }
            }
        }
        for wk in &ds.week {
            for yy in [focus - 1, focus, focus + 1] {
                for w in [wk.range.start().0, wk.range.end().0, wk.range.end().0.saturating_add(1), wk.range.start().0.saturating_add(wk.step)] {
                    push3(&mut out, NaiveDate::from_isoywd_opt(yy, w.into(), Weekday::Mon));
                }
                // ISO year boundaries
                push3(&mut out, NaiveDate::from_isoywd_opt(yy, 1, Weekday::Mon));
            }
        }
        for wd in &ds.weekday {
            match wd {
                WeekDayRange::Fixed { offset, nth_from_start, nth_from_end, .. } => {
                    if nth_from_start.contains(&false) || nth_from_end.contains(&false) || *offset != 0 {
                        // month boundaries matter for nth positions: first and last ten days of some months
                        for m in [1u32, 2, 3, 12] {
                            if let (Some(a), Some(b)) = (first_of(focus, m), last_of(focus, m)) {
                                let (a, b) = (day_num(a), day_num(b));
                                out.extend((0..8).map(|i| a + i + offset.clamp(&-400, &400)));
                                out.extend((0..8).map(|i| b - i + offset.clamp(&-400, &400)));
                            }
                        }
                    }
                }
                WeekDayRange::Holiday { offset, .. } => {
                    let o = (*offset).clamp(-400, 400);
                    for h in hol.iter().take(6) {
                        out.extend([h + o - 1, h + o, h + o + 1, *h, h - 1, h + 1]);
                    }
                }
            }
        }
    }
    out.retain(|d| crate::ast::date_of(*d).is_some());
    out.sort();
    out.dedup();
    out
}

/// pick one of the boundary days of the expression `src` (None if it has none or does not parse)
pub fn pick(rng: &mut Rng, src: &str, hol: &[i64]) -> Option<i64> {
    let e = opening_hours_syntax::parse(src).ok()?;
    let focus = *rng.pick(&[2020, 2021, 2023, 2024, 2024, 2025, 2027, 2028]);
    let v = boundary_days(&e, focus, hol);
    if v.is_empty() {
        None
    } else {
        Some(*rng.pick(&v))
    }
}

#[allow(dead_code)]
pub fn year_of(d: i64) -> Option<i32> {
    crate::ast::date_of(d).map(|x| x.year())
}
