//! Suite `c14` (ops `sch.*`) — C14 Schedule algebra: `from_ranges`, `addition`, iteration,
//! plus the range helpers of `utils/range.rs`.
//!
//! `sch.hist <tok>…` is one history in postfix notation over a stack of schedules:
//!   `N`                               push `Schedule::new()`
//!   `F:<k>:<comments>:<ranges>`       push `Schedule::from_ranges(ranges, kind, &comments.into())`
//!                                     k = o|c|u, comments = `_` or `,`-separated encoded strings,
//!                                     ranges = `_` or `,`-separated `s-e` in minutes (0..=2880)
//!   `A`                               pop b, pop a, push `a.addition(b)`
//! Output: one group per token, `[ <raw ranges…> / <iterated ranges…> ]` for the schedule pushed by
//! that token; a range is `s-e:k:<comments>`.  Raw ranges come from `Schedule::verif_ranges`.
//!
//! `sch.union <ranges>`, `sch.inter s-e s-e`, `sch.wrap lo hi x` run the `pub(crate)` helpers of
//! `/repo/opening-hours/src/utils/range.rs`, compiled into this crate from the very same source
//! file through `#[path]` (no copy).
#![allow(unexpected_cfgs)]
use crate::util::{catch, enc, Rng};
#[cfg(not(c14_copy))]
use opening_hours::schedule::{Schedule, TimeRange};
// Detection self-test only (`RUSTFLAGS="--cfg opening_hours_verif --cfg c14_copy"`): run the suite on
// a COPY of schedule.rs kept in harness/mut/, which is then mutated by hand (see NOTES.md).
#[cfg(c14_copy)]
#[allow(dead_code, unused_macros)]
#[path = "../mut/schedule_copy.rs"]
mod schedule_copy;
#[cfg(c14_copy)]
use schedule_copy::{Schedule, TimeRange};
use opening_hours_syntax::sorted_vec::UniqueSortedVec;
use opening_hours_syntax::{ExtendedTime, RuleKind};
use std::ops::Range;
use std::sync::Arc;

#[allow(dead_code)]
#[path = "/repo/opening-hours/src/utils/range.rs"]
mod repo_range;
use repo_range::{range_intersection, ranges_union, WrappingRange};

/// `util::enc` plus the three separators used inside tokens
fn encc(s: &str) -> String {
    enc(s).replace(',', "%2C").replace(':', "%3A").replace('_', "%5F")
}

fn dec(s: &str) -> Option<String> {
    if s == "%" {
        return Some(String::new());
    }
    let b = s.as_bytes();
    let mut out = Vec::new();
    let mut i = 0;
    while i < b.len() {
        if b[i] == b'%' {
            let h = std::str::from_utf8(b.get(i + 1..i + 3)?).ok()?;
            out.push(u8::from_str_radix(h, 16).ok()?);
            i += 3;
        } else {
            out.push(b[i]);
            i += 1;
        }
    }
    String::from_utf8(out).ok()
}

fn kind_of(s: &str) -> Option<RuleKind> {
    Some(match s {
        "o" => RuleKind::Open,
        "c" => RuleKind::Closed,
        "u" => RuleKind::Unknown,
        _ => return None,
    })
}

fn kind_str(k: RuleKind) -> &'static str {
    match k {
        RuleKind::Open => "o",
        RuleKind::Closed => "c",
        RuleKind::Unknown => "u",
    }
}

fn parse_pairs(s: &str) -> Option<Vec<(u16, u16)>> {
    if s == "_" {
        return Some(vec![]);
    }
    s.split(',')
        .map(|r| {
            let (a, b) = r.split_once('-')?;
            Some((a.parse().ok()?, b.parse().ok()?))
        })
        .collect()
}

fn parse_comments(s: &str) -> Option<Vec<Arc<str>>> {
    if s == "_" {
        return Some(vec![]);
    }
    s.split(',').map(|c| dec(c).map(|x| Arc::from(x.as_str()))).collect()
}

fn show_tr(tr: &TimeRange) -> String {
    let cs: Vec<String> = tr.comments.iter().map(|c| encc(c)).collect();
    format!(
        "{}-{}:{}:{}",
        tr.range.start.mins_from_midnight(),
        tr.range.end.mins_from_midnight(),
        kind_str(tr.kind),
        if cs.is_empty() { "_".to_string() } else { cs.join(",") }
    )
}

/// `[ raw… / iter… ]` for one schedule
fn show_schedule(s: &Schedule) -> String {
    let mut out = String::from("[");
    for tr in s.verif_ranges() {
        out.push(' ');
        out.push_str(&show_tr(tr));
    }
    out.push_str(" /");
    let c = s.clone();
    // collect incrementally so that ranges yielded before a panic are kept
    let mut got: Vec<TimeRange> = Vec::new();
    let res = catch(|| {
        for tr in c {
            got.push(tr);
        }
    });
    for tr in &got {
        out.push(' ');
        out.push_str(&show_tr(tr));
    }
    if let Err(p) = res {
        out.push(' ');
        out.push_str(&p);
    }
    out.push_str(" ]");
    out
}

fn hist(toks: &[&str]) -> Option<String> {
    let mut stack: Vec<Schedule> = Vec::new();
    let mut out: Vec<String> = Vec::new();
    for t in toks {
        let pushed: Result<Schedule, String> = if *t == "N" {
            catch(Schedule::new)
        } else if *t == "A" {
            let b = stack.pop()?;
            let a = stack.pop()?;
            catch(move || a.addition(b))
        } else {
            let mut it = t.split(':');
            if it.next()? != "F" {
                return None;
            }
            let kind = kind_of(it.next()?)?;
            let comments = parse_comments(it.next()?)?;
            let pairs = parse_pairs(it.next()?)?;
            if it.next().is_some() {
                return None;
            }
            let ranges: Vec<Range<ExtendedTime>> = pairs
                .iter()
                .map(|&(s, e)| {
                    Some(ExtendedTime::from_mins_from_midnight(s)?..ExtendedTime::from_mins_from_midnight(e)?)
                })
                .collect::<Option<_>>()?;
            catch(move || {
                let comments: UniqueSortedVec<Arc<str>> = comments.into();
                Schedule::from_ranges(ranges, kind, &comments)
            })
        };
        match pushed {
            Ok(s) => {
                out.push(show_schedule(&s));
                stack.push(s);
            }
            Err(p) => {
                out.push(format!("[ {p} ]"));
                // keep the stack shape so that the rest of the line still parses
                stack.push(Schedule::new());
            }
        }
    }
    if stack.len() != 1 {
        return None;
    }
    Some(out.join(" "))
}

fn show_pairs(v: &[(u16, u16)]) -> String {
    if v.is_empty() {
        "_".into()
    } else {
        v.iter().map(|(a, b)| format!("{a}-{b}")).collect::<Vec<_>>().join(",")
    }
}

/// fixed instances of the macro `schedule!` (the same table is in OH/Driver/C14.lean `macroTable`)
#[cfg(not(c14_copy))]
fn macro_instance(id: &str) -> Option<Result<Schedule, String>> {
    use opening_hours::schedule;
    Some(match id {
        "0" => catch(|| schedule! {}),
        // the example of the macro's documentation
        "1" => catch(|| {
            schedule! {
                 9,00 => RuleKind::Open => 12,00;
                14,00 => RuleKind::Open => 18,00
                      => RuleKind::Unknown, "Closes when stock is depleted" => 20,00;
                22,00 => RuleKind::Closed, "Maintenance team only" => 26,00;
            }
        }),
        // duplicate / unsorted comment literals, an inverted link, overlapping sequences
        "2" => catch(|| {
            schedule! {
                10,00 => RuleKind::Open, "b", "a", "b" => 14,00 => RuleKind::Closed => 12,00
                      => RuleKind::Unknown, "c" => 13,00;
                 8,00 => RuleKind::Unknown => 11,00 => RuleKind::Open, "a" => 12,30
            }
        }),
        // touching links of the same kind coalesce
        "3" => catch(|| {
            schedule! {
                0,00 => RuleKind::Open => 6,00 => RuleKind::Open, "x" => 12,00 => RuleKind::Closed => 24,00;
            }
        }),
        _ => return None,
    })
}

#[cfg(c14_copy)]
fn macro_instance(_id: &str) -> Option<Result<Schedule, String>> {
    None
}

pub fn exec(op: &str, a: &[&str]) -> Option<String> {
    Some(match (op, a) {
        ("sch.macro", [id]) => match macro_instance(id)? {
            Ok(s) => show_schedule(&s),
            Err(p) => format!("[ {p} ]"),
        },
        ("sch.hist", toks) if !toks.is_empty() => hist(toks)?,
        ("sch.union", [rs]) => {
            let pairs = parse_pairs(rs)?;
            match catch(|| ranges_union(pairs.iter().map(|&(s, e)| s..e)).map(|r| (r.start, r.end)).collect::<Vec<_>>()) {
                Ok(v) => show_pairs(&v),
                Err(p) => p,
            }
        }
        ("sch.inter", [r1, r2]) => {
            let (p1, p2) = (parse_pairs(r1)?, parse_pairs(r2)?);
            let (&[(s1, e1)], &[(s2, e2)]) = (&p1[..], &p2[..]) else { return None };
            match catch(|| range_intersection(s1..e1, s2..e2)) {
                Ok(None) => "none".into(),
                Ok(Some(r)) => format!("{}-{}", r.start, r.end),
                Err(p) => p,
            }
        }
        ("sch.wrap", [lo, hi, x]) => {
            let (lo, hi, x): (u16, u16, u16) = (lo.parse().ok()?, hi.parse().ok()?, x.parse().ok()?);
            match catch(|| (lo..=hi).wrapping_contains(&x)) {
                Ok(b) => b.to_string(),
                Err(p) => p,
            }
        }
        _ => return None,
    })
}

// ---------------------------------------------------------------------------------------------
// generation

const KINDS: [&str; 3] = ["o", "c", "u"];

fn ftok(kind: &str, comments: &[&str], ranges: &[(u16, u16)]) -> String {
    let cs = if comments.is_empty() {
        "_".to_string()
    } else {
        comments.iter().map(|c| encc(c)).collect::<Vec<_>>().join(",")
    };
    format!("F:{kind}:{cs}:{}", show_pairs(ranges))
}

/// all `(s, e)` over a grid, including empty and inverted ranges
fn all_pairs(grid: &[u16]) -> Vec<(u16, u16)> {
    let mut v = Vec::new();
    for &s in grid {
        for &e in grid {
            v.push((s, e));
        }
    }
    v
}

fn valid_pairs(grid: &[u16]) -> Vec<(u16, u16)> {
    all_pairs(grid).into_iter().filter(|(s, e)| s < e).collect()
}

const POOL: [&str; 8] = ["a", "b", "c", "", "b b", "Z", "\u{e9}t\u{e9}", "a,b:c_d%"];

fn random_comments(rng: &mut Rng) -> Vec<&'static str> {
    let n = match rng.below(10) {
        0..=3 => 0,
        4..=6 => 1,
        7..=8 => 2,
        _ => 4,
    };
    (0..n).map(|_| *rng.pick(&POOL[..])).collect()
}

/// one random history; `limit` is the largest minute (1440 or 2880)
fn random_hist(rng: &mut Rng, limit: u16) -> String {
    // endpoints come from a small per-history pool so that they coincide, touch and nest
    let npts = rng.range(3, 8) as usize;
    let mut pts: Vec<u16> = (0..npts).map(|_| rng.range(0, limit as i64) as u16).collect();
    if rng.chance(1, 2) {
        pts.push(0);
    }
    if rng.chance(1, 2) {
        pts.push(1440.min(limit));
    }
    if limit > 1440 && rng.chance(1, 3) {
        pts.push(limit);
    }
    let point = |rng: &mut Rng| -> u16 {
        let p = *rng.pick(&pts) as i64;
        let d = match rng.below(8) {
            0 => -1,
            1 => 1,
            _ => 0,
        };
        (p + d).clamp(0, limit as i64) as u16
    };
    let nsched = if rng.chance(1, 4) { rng.range(1, 3) } else { rng.range(2, 12) } as usize;
    let mut toks: Vec<String> = Vec::new();
    let mut depth = 0usize; // schedules on the stack
    let mut made = 0usize;
    while made < nsched || depth > 1 {
        // push when nothing to add; otherwise mostly add immediately (left-deep), sometimes nest
        let push = made < nsched && (depth < 2 || rng.chance(1, 4));
        if push {
            if rng.chance(1, 25) {
                toks.push("N".into());
            } else {
                let nr = match rng.below(12) {
                    0 => 0,
                    1..=4 => 1,
                    5..=7 => 2,
                    8..=9 => 3,
                    _ => rng.range(4, 6),
                } as usize;
                let mut ranges = Vec::new();
                for _ in 0..nr {
                    let (a, b) = (point(rng), point(rng));
                    // mostly proper ranges, sometimes empty / inverted as drawn
                    if a > b && !rng.chance(1, 6) {
                        ranges.push((b, a));
                    } else {
                        ranges.push((a, b));
                    }
                }
                let cs = random_comments(rng);
                toks.push(ftok(*rng.pick(&KINDS[..]), &cs, &ranges));
            }
            made += 1;
            depth += 1;
        } else {
            toks.push("A".into());
            depth -= 1;
        }
    }
    format!("sch.hist {}", toks.join(" "))
}

pub fn gen(tier: &str, rng: &mut Rng, emit: &mut dyn FnMut(String)) {
    let thorough = tier == "thorough";
    let g4: [u16; 4] = [0, 480, 960, 1440];
    let g5: [u16; 5] = [0, 360, 720, 1080, 1440];
    let g6: [u16; 6] = [0, 300, 600, 900, 1200, 1440];
    let g8: [u16; 8] = [0, 1, 300, 600, 601, 900, 1439, 1440];

    // --- from_ranges alone: all lists of two ranges (6-point grid, every kind), of three ranges
    //     (4-point grid), including empty and inverted ranges
    emit("sch.hist N".into());
    emit(format!("sch.hist {}", ftok("o", &[], &[])));
    for k in KINDS {
        for &r in &all_pairs(&g6) {
            emit(format!("sch.hist {}", ftok(k, &["a"], &[r])));
        }
        for &r1 in &all_pairs(&g6) {
            for &r2 in &all_pairs(&g6) {
                emit(format!("sch.hist {}", ftok(k, &["a"], &[r1, r2])));
            }
        }
    }
    for &r1 in &all_pairs(&g4) {
        for &r2 in &all_pairs(&g4) {
            for &r3 in &all_pairs(&g4) {
                emit(format!("sch.hist {}", ftok("o", &["b", "a", "b"], &[r1, r2, r3])));
            }
        }
    }
    if thorough {
        let v4 = valid_pairs(&g5);
        for &r1 in &v4 {
            for &r2 in &v4 {
                for &r3 in &v4 {
                    for &r4 in &v4 {
                        emit(format!("sch.hist {}", ftok("u", &[], &[r1, r2, r3, r4])));
                    }
                }
            }
        }
    }

    // --- two operations: a two-range schedule (4-point grid incl. empty/inverted) and a single
    //     range (5-point grid), in both orders, every pair of kinds
    let two: Vec<_> = all_pairs(&g4).into_iter().flat_map(|a| all_pairs(&g4).into_iter().map(move |b| (a, b))).collect();
    let one = valid_pairs(&g5);
    for &(a, b) in &two {
        for &c in &one {
            for k1 in KINDS {
                for k2 in KINDS {
                    let f2 = ftok(k1, &["a"], &[a, b]);
                    let f1 = ftok(k2, &["b"], &[c]);
                    emit(format!("sch.hist {f2} {f1} A"));
                    emit(format!("sch.hist {f1} {f2} A"));
                }
            }
        }
    }

    // --- three operations over single ranges (5-point grid), all kinds, both tree shapes
    for &a in &one {
        for &b in &one {
            for &c in &one {
                for k1 in KINDS {
                    for k2 in KINDS {
                        for k3 in KINDS {
                            let (fa, fb, fc) = (ftok(k1, &["a"], &[a]), ftok(k2, &["b"], &[b]), ftok(k3, &["c", "a"], &[c]));
                            emit(format!("sch.hist {fa} {fb} A {fc} A"));
                            // the right-nested shape differs only when b and c interact
                            if b.0 <= c.1 && c.0 <= b.1 {
                                emit(format!("sch.hist {fa} {fb} {fc} A A"));
                            }
                        }
                    }
                }
            }
        }
    }

    // --- thorough: four operations, sample of an 8-point grid
    if thorough {
        let v8 = valid_pairs(&g8);
        for _ in 0..300_000 {
            let mut toks = Vec::new();
            for i in 0..4 {
                let n = if rng.chance(1, 4) { 2 } else { 1 };
                let rs: Vec<_> = (0..n).map(|_| *rng.pick(&v8)).collect();
                toks.push(ftok(*rng.pick(&KINDS[..]), &[["a", "b", "c", "d"][i]], &rs));
                if i > 0 {
                    toks.push("A".into());
                }
            }
            emit(format!("sch.hist {}", toks.join(" ")));
        }
    }

    // --- random long histories
    for _ in 0..(if thorough { 200_000 } else { 5_000 }) {
        emit(random_hist(rng, 1440));
    }
    // --- ranges reaching beyond 24:00 (separate small stream)
    for _ in 0..(if thorough { 20_000 } else { 600 }) {
        emit(random_hist(rng, 2880));
    }

    // --- the macro `schedule!` (fixed instances)
    #[cfg(not(c14_copy))]
    for id in 0..4 {
        emit(format!("sch.macro {id}"));
    }

    // --- utils/range.rs
    let g: [u16; 5] = [0, 1, 2, 3, 4];
    let ap = all_pairs(&g);
    for &a in &ap {
        for &b in &ap {
            emit(format!("sch.inter {}-{} {}-{}", a.0, a.1, b.0, b.1));
            emit(format!("sch.union {}", show_pairs(&[a, b])));
        }
    }
    for lo in 0..6u16 {
        for hi in 0..6u16 {
            for x in 0..6u16 {
                emit(format!("sch.wrap {lo} {hi} {x}"));
            }
        }
    }
    emit("sch.union _".into());
    for _ in 0..(if thorough { 100_000 } else { 10_000 }) {
        let n = rng.range(0, 7) as usize;
        let lim = *rng.pick(&[6i64, 12, 2880][..]);
        let rs: Vec<(u16, u16)> = (0..n)
            .map(|_| {
                let (a, b) = (rng.range(0, lim) as u16, rng.range(0, lim) as u16);
                if a > b && !rng.chance(1, 5) { (b, a) } else { (a, b) }
            })
            .collect();
        emit(format!("sch.union {}", show_pairs(&rs)));
    }
}
