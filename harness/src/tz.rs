//! Suite `tz` — time-zone contexts (C09) on the real `TzLocation<chrono_tz::Tz>`.
//!   tz.naive    <zone> <utc-instant>                          Localize::naive
//!   tz.datetime <zone> <naive-instant>                        from_local_datetime + Localize::datetime
//!   tz.state    <zone> <input-zone> <utc-instant> <ctx> <expr>
//!   tz.next     <zone> <input-zone> <utc-instant> <ctx> <expr>
//!   tz.iter     <zone> <input-zone> <utc-from> <utc-to> <ctx> <expr>
//! Instants are `day:ns` (`ast::instant`); absolute instants are given and printed as their UTC
//! reading.  The `DateTime<Tz>` handed to the API is built in `<input-zone>` (a different zone than
//! the context's) for the same absolute instant.  Output:
//!   `Z <init> <n> (<unix s> <offset s>)* [<CTX dump> <AST dump>] | <result>`
//! evaluator ops: `<result> =N= <wall-clock time(s)> <NoLocation result>`; `tz.next` adds
//! `=I= <k> <k NoLocation intervals from the wall-clock time>` (as far as the answer needs them).
//! where `Z…` is the context zone's transition table restricted to ±3 years around the instants of
//! the line (initial offset = offset in force at the start of that window).
use crate::ast;
use crate::ev;
use crate::gen_expr;
use crate::tztable::{self, Table};
use crate::util::{catch, enc, Rng};
use chrono::{DateTime, LocalResult, NaiveDateTime, TimeDelta, TimeZone};
use chrono_tz::Tz;
use opening_hours::localization::{Localize, TzLocation};
use opening_hours::{Context, DateTimeRange, OpeningHours};

const MARGIN: i64 = 3 * 366 * 86_400;
pub const ITER_CAP: usize = 200;

fn unix(dt: NaiveDateTime) -> i64 {
    dt.and_utc().timestamp()
}

/// smallest window covering the given instants (unix seconds); the restricted table goes with it
struct Win(i64, i64);
impl Win {
    fn new() -> Self {
        Win(i64::MAX, i64::MIN)
    }
    fn add(&mut self, t: i64) {
        self.0 = self.0.min(t);
        self.1 = self.1.max(t);
    }
    fn table(&self, tz: Tz) -> String {
        let full = tztable::table(tz);
        if self.0 > self.1 {
            return Table { init: full.init, trans: vec![] }.dump();
        }
        // local readings are within a day of the absolute instant: one more day of margin
        full.restrict(self.0, self.1, MARGIN).dump()
    }
}

fn show_abs(dt: &DateTime<Tz>) -> String {
    ast::instant(dt.naive_utc())
}

fn show_intervals(v: &[DateTimeRange<DateTime<Tz>>], w: &mut Win) -> String {
    let mut out = vec![v.len().to_string()];
    for r in v {
        w.add(r.range.start.timestamp());
        w.add(r.range.end.timestamp());
        out.push(show_abs(&r.range.start));
        out.push(show_abs(&r.range.end));
        out.push(ast::kind_tok(r.kind).into());
        out.push(r.comments.len().to_string());
        out.extend(r.comments.iter().map(|c| enc(c)));
    }
    out.join(" ")
}

type Built = (OpeningHours<TzLocation<Tz>>, OpeningHours, ev::CtxSpec, String);

/// parse the expression and attach `Context::default().with_locale(TzLocation::new(tz))`
fn build(tz: Tz, ctx_s: &str, expr_s: &str) -> Option<Result<Built, String>> {
    let spec = ev::parse_ctx(ctx_s)?;
    if spec.coords.is_some() {
        return None;
    }
    let src = ev::dec(expr_s)?;
    let parsed = catch(|| opening_hours_syntax::parse(&src));
    let expr = match parsed {
        Err(p) => return Some(Err(format!("parse-{p}"))),
        Ok(Err(_)) => return Some(Err("parse-error".to_string())),
        Ok(Ok(e)) => e,
    };
    let astd = ast::expr(&expr);
    let oh = OpeningHours::parse(&src).ok()?;
    let hol = ev::holidays(&spec)?;
    // NB `with_locale` resets `approx_bound_interval_size`, so the bound is applied after it
    let mut nctx = Context::default().with_holidays(hol.clone());
    let mut ctx = Context::default().with_holidays(hol).with_locale(TzLocation::new(tz));
    if let Some(b) = spec.bound_ns {
        ctx = ctx.approx_bound_interval_size(TimeDelta::nanoseconds(b));
        nctx = nctx.approx_bound_interval_size(TimeDelta::nanoseconds(b));
    }
    // the same expression without location: the oracle of "evaluates on local wall-clock time"
    let noloc = oh.clone().with_context(nctx);
    Some(Ok((oh.with_context(ctx), noloc, spec, astd)))
}

/// does the state change within `days` after `t` (bounded work)?  Guards the unbounded `next_change`.
fn change_is_near(tz: Tz, t: i64, days: i64, ctx_s: &str, expr_s: &str) -> bool {
    let Some(Ok((oh, _, _, _))) = build(tz, ctx_s, expr_s) else { return false };
    let from = tz.from_utc_datetime(&DateTime::from_timestamp(t, 0).unwrap().naive_utc());
    let to = tz.from_utc_datetime(&DateTime::from_timestamp(t + days * 86_400, 0).unwrap().naive_utc());
    let lim = to.clone();
    catch(|| match oh.iter_range(from, to).next() {
        None => false,
        Some(iv) => iv.range.end < lim,
    })
    .unwrap_or(false)
}

/// env `OH_TZ_MUTANT`: 0 / unset = the real `TzLocation`; otherwise a mutated copy (sanity tests of the suite)
fn mutant() -> u8 {
    std::env::var("OH_TZ_MUTANT").ok().and_then(|s| s.parse().ok()).unwrap_or(0)
}

/// a COPY of `impl Localize for TzLocation<Tz>` (localize.rs) with seeded defects:
/// 1 = `earliest()` instead of `latest()`, 2 = steps of one hour instead of one minute,
/// 3 = `naive` forgets to convert the input to the context zone
#[derive(Clone)]
struct MutLoc {
    tz: Tz,
    mutant: u8,
}

impl Localize for MutLoc {
    type DateTime = DateTime<Tz>;

    fn naive(&self, dt: Self::DateTime) -> NaiveDateTime {
        if self.mutant == 3 {
            return dt.naive_local();
        }
        dt.with_timezone(&self.tz).naive_local()
    }

    fn datetime(&self, mut naive: NaiveDateTime) -> Self::DateTime {
        loop {
            let lr = self.tz.from_local_datetime(&naive);
            if let Some(dt) = if self.mutant == 1 { lr.earliest() } else { lr.latest() } {
                return dt;
            }
            naive = naive
                .checked_add_signed(if self.mutant == 2 { TimeDelta::hours(1) } else { TimeDelta::minutes(1) })
                .expect("no valid datetime for time zone");
        }
    }
}

#[allow(clippy::too_many_arguments)]
fn eval_ops<L>(op: &str, a: &[&str], tz: Tz, loc: L, oh: OpeningHours<L>, noloc: OpeningHours, spec: &ev::CtxSpec, astd: &str) -> Option<String>
where
    L: Localize<DateTime = DateTime<Tz>>,
{
    let itz: Tz = a[1].parse().ok()?;
    let mut w = Win::new();
    let t0 = ast::parse_instant(a[2])?;
    w.add(unix(t0));
    // the same absolute instant, expressed in another zone
    let dt0: DateTime<Tz> = itz.from_utc_datetime(&t0);
    // wall-clock time of the input in the context zone, by chrono
    let n0 = match catch(|| loc.naive(dt0.clone())) {
        Ok(n) => n,
        Err(p) => return Some(format!("{} {} {} | {}", w.table(tz), ev::ctx_dump(spec, &[]), astd, p)),
    };
    // `<localized result> =N= <wall-clock time(s)> <result of the NoLocation evaluation there>`
    let res = match op {
        "tz.state" => catch(|| ast::kind_tok(oh.state(dt0)).to_string()).map(|r| {
            let nv = catch(|| ast::kind_tok(noloc.state(n0)).to_string()).unwrap_or_else(|p| p);
            format!("{r} =N= {} {nv}", ast::instant(n0))
        }),
        "tz.next" => catch(|| match oh.next_change(dt0) {
            None => ("none".to_string(), opening_hours::DATE_END),
            Some(c) => {
                w.add(c.timestamp());
                (format!("some {}", show_abs(&c)), loc.naive(c.clone()))
            }
        })
        .map(|(r, n_ans)| {
            let nv = catch(|| match noloc.next_change(n0) {
                None => "none".to_string(),
                Some(c) => format!("some {}", ast::instant(c)),
            })
            .unwrap_or_else(|p| p);
            // the NoLocation stream from the wall-clock time, as far as the localized answer needs it
            // (since /repo dfe1ade the answer is the end of the first range of the stream with the
            // spans the clock skips dropped and their neighbours merged): every range that starts
            // at/before the wall-clock time of the answer and the first one that starts after it
            let ni = catch(|| {
                let mut out: Vec<String> = Vec::new();
                let mut k = 0usize;
                for r in noloc.iter_from(n0) {
                    k += 1;
                    out.push(ast::instant(r.range.start));
                    out.push(ast::instant(r.range.end));
                    out.push(ast::kind_tok(r.kind).into());
                    out.push(r.comments.len().to_string());
                    out.extend(r.comments.iter().map(|c| enc(c)));
                    if r.range.start > n_ans || k >= ITER_CAP {
                        break;
                    }
                }
                format!("{k} {}", out.join(" "))
            })
            .unwrap_or_else(|p| p);
            format!("{r} =N= {} {nv} =I= {ni}", ast::instant(n0))
        }),
        _ => {
            let t1 = ast::parse_instant(a[3])?;
            w.add(unix(t1));
            let dt1: DateTime<Tz> = itz.from_utc_datetime(&t1);
            let n1 = match catch(|| loc.naive(dt1.clone())) {
                Ok(n) => n,
                Err(p) => return Some(format!("{} {} {} | {}", w.table(tz), ev::ctx_dump(spec, &[]), astd, p)),
            };
            catch(|| {
                let v: Vec<_> = oh.iter_range(dt0, dt1).take(ITER_CAP + 1).collect();
                if v.len() > ITER_CAP {
                    format!("cut {}", show_intervals(&v[..ITER_CAP], &mut w))
                } else {
                    format!("all {}", show_intervals(&v, &mut w))
                }
            })
            .map(|r| {
                let nv = catch(|| {
                    let v: Vec<DateTimeRange> = noloc.iter_range(n0, n1).take(ITER_CAP).collect();
                    let mut out = vec![v.len().to_string()];
                    for r in &v {
                        out.push(ast::instant(r.range.start));
                        out.push(ast::instant(r.range.end));
                        out.push(ast::kind_tok(r.kind).into());
                        out.push(r.comments.len().to_string());
                        out.extend(r.comments.iter().map(|c| enc(c)));
                    }
                    out.join(" ")
                })
                .unwrap_or_else(|p| p);
                format!("{r} =N= {} {} {nv}", ast::instant(n0), ast::instant(n1))
            })
        }
    };
    Some(format!("{} {} {} | {}", w.table(tz), ev::ctx_dump(spec, &[]), astd, res.unwrap_or_else(|p| p)))
}

pub fn exec(op: &str, a: &[&str]) -> Option<String> {
    // `tzc02.iter` is the execution of `tz.iter` (C02 judges the same stream by its own clauses)
    let op = if op == "tzc02.iter" { "tz.iter" } else { op };
    match (op, a.len()) {
        ("tz.naive", 2) => {
            let tz: Tz = a[0].parse().ok()?;
            let u = ast::parse_instant(a[1])?;
            let mut w = Win::new();
            w.add(unix(u));
            let loc = TzLocation::new(tz);
            // the value is handed over in UTC's sibling representation of the same enum type
            let dt = chrono_tz::UTC.from_utc_datetime(&u);
            let r = catch(|| ast::instant(loc.naive(dt)));
            Some(format!("{} | {}", w.table(tz), r.unwrap_or_else(|p| p)))
        }
        ("tz.datetime", 2) => {
            let tz: Tz = a[0].parse().ok()?;
            let n = ast::parse_instant(a[1])?;
            let mut w = Win::new();
            w.add(unix(n));
            let loc = TzLocation::new(tz);
            let r = catch(|| {
                let lr = match tz.from_local_datetime(&n) {
                    LocalResult::None => "none".to_string(),
                    LocalResult::Single(x) => format!("single {}", show_abs(&x)),
                    LocalResult::Ambiguous(x, y) => format!("ambiguous {} {}", show_abs(&x), show_abs(&y)),
                };
                let d = loc.datetime(n);
                format!("{} {}", lr, show_abs(&d))
            });
            Some(format!("{} | {}", w.table(tz), r.unwrap_or_else(|p| p)))
        }
        ("tz.state", 5) | ("tz.next", 5) | ("tz.iter", 6) => {
            let tz: Tz = a[0].parse().ok()?;
            let (oh, noloc, spec, astd) = match build(tz, a[a.len() - 2], a[a.len() - 1])? {
                Ok(x) => x,
                Err(e) => return Some(e),
            };
            match mutant() {
                0 => eval_ops(op, a, tz, TzLocation::new(tz), oh, noloc, &spec, &astd),
                m => {
                    // sanity runs only: the same context with a mutated copy of `Localize for TzLocation`
                    let loc = MutLoc { tz, mutant: m };
                    let mut ctx = Context::default().with_holidays(ev::holidays(&spec)?).with_locale(loc.clone());
                    if let Some(b) = spec.bound_ns {
                        ctx = ctx.approx_bound_interval_size(TimeDelta::nanoseconds(b));
                    }
                    eval_ops(op, a, tz, loc, noloc.clone().with_context(ctx), noloc, &spec, &astd)
                }
            }
        }
        _ => None,
    }
}

// ------------------------------------------------------------------------------------------
// generators

const QUICK_ZONES: [&str; 40] = [
    "UTC",
    "Europe/Paris",
    "Europe/London",
    "Europe/Dublin",
    "Europe/Amsterdam",
    "Europe/Lisbon",
    "Europe/Moscow",
    "Europe/Istanbul",
    "Europe/Chisinau",
    "America/New_York",
    "America/Chicago",
    "America/Los_Angeles",
    "America/St_Johns",
    "America/Sao_Paulo",
    "America/Caracas",
    "America/Santiago",
    "America/Havana",
    "America/Asuncion",
    "America/Godthab",
    "America/Argentina/Buenos_Aires",
    "Africa/Casablanca",
    "Africa/Cairo",
    "Africa/Monrovia",
    "Africa/Johannesburg",
    "Asia/Kolkata",
    "Asia/Kathmandu",
    "Asia/Pyongyang",
    "Asia/Tehran",
    "Asia/Gaza",
    "Asia/Tokyo",
    "Asia/Amman",
    "Australia/Lord_Howe",
    "Australia/Adelaide",
    "Australia/Sydney",
    "Pacific/Apia",
    "Pacific/Kiritimati",
    "Pacific/Chatham",
    "Pacific/Auckland",
    "Pacific/Norfolk",
    "Antarctica/Troll",
];

const INPUT_ZONES: [&str; 6] = ["Asia/Tokyo", "America/New_York", "UTC", "Australia/Lord_Howe", "Europe/Paris", "Pacific/Apia"];

fn inst_of_unix(t: i64, ns: i64) -> String {
    let total = t as i128 * 1_000_000_000 + ns as i128;
    let s = total.div_euclid(1_000_000_000) as i64;
    let n = total.rem_euclid(1_000_000_000) as u32;
    ast::instant(DateTime::from_timestamp(s, n).unwrap().naive_utc())
}

fn hm(m: i64) -> String {
    format!("{:02}:{:02}", m / 60, m % 60)
}

/// `s-e` with `s` wrapped into the day and `e` as extended time (≤ 48:00)
fn span(s: i64, len: i64) -> String {
    let s = s.rem_euclid(1440);
    // never a whole day: `23:00-48:00` is always open and `next_change` then walks to year 9999
    let e = (s + len.clamp(1, 1320)).min(2880);
    format!("{}-{}", hm(s), hm(e))
}

/// expressions whose boundaries fall on / around the local times of a transition: `lo..hi` is the
/// skipped (gap) or repeated (fold) local span, as minutes of the day of `lo`
fn around_exprs(lo: i64, hi: i64) -> Vec<String> {
    let len = (hi - lo).max(1);
    let mut v = vec![
        "24/7".to_string(),
        "00:00-24:00 open".to_string(),
        "Mo-Su 02:00-03:00".to_string(),
        "02:30-02:45".to_string(),
        "01:00-03:30".to_string(),
        "22:00-26:00".to_string(),
        "Mo-Su 00:00-02:30 unknown; Mo-Su 02:30-24:00 open \"x\"".to_string(),
        // exactly the span
        span(lo, len),
        // strictly inside (whole minutes)
        span(lo + len / 4, (len / 2).max(1)),
        // covering it
        span(lo - 60, len + 90),
        // starting inside, ending after
        span(lo + len / 2, len),
        // ending inside
        span(lo - 45, 45 + len / 2),
        // last whole minute of the span
        span(hi - 1, 60),
        // two rules meeting inside
        format!("{} open; {} unknown", span(lo - 30, 30 + len / 2), span(lo + len / 2, len)),
        // every minute boundary of the hour around
        format!("{},{},{}", span(lo - 2, 1), span(lo, 1), span(hi, 1)),
    ];
    v.dedup();
    v
}

struct Tr {
    t: i64,
    p: i64,
    o: i64,
}

fn transitions(tz: Tz, from: i64, to: i64) -> Vec<Tr> {
    let tb = tztable::table(tz);
    (0..tb.trans.len()).filter(|&i| tb.trans[i].0 >= from && tb.trans[i].0 < to).map(|i| Tr { t: tb.trans[i].0, p: tb.prev_offset(i), o: tb.trans[i].1 }).collect()
}

/// the cheap ops (naive / datetime) around one transition
fn emit_zone_ops(z: &str, tr: &Tr, rng: &mut Rng, emit: &mut dyn FnMut(String)) {
    let (lo, hi) = (tr.t + tr.p.min(tr.o), tr.t + tr.p.max(tr.o)); // local span skipped / repeated
    let d = hi - lo;
    // absolute instants
    for (dt, ns) in [(-61, 0), (-60, 0), (-1, 0), (-1, 999_999_999), (0, 0), (0, 1), (1, 0), (59, 0), (60, 0), (-d, 0), (-d - 1, 0), (d, 0), (d - 1, 500_000_000)] {
        emit(format!("tz.naive {z} {}", inst_of_unix(tr.t + dt, ns)));
    }
    emit(format!("tz.naive {z} {}", inst_of_unix(tr.t + rng.range(-2 * d - 60, 2 * d + 60), rng.range(0, 999_999_999))));
    // local times: ends of the span ± 1 s / 1 min, inside on and off the minute grid
    let lo_min = lo.div_euclid(60) * 60;
    let hi_min = hi.div_euclid(60) * 60;
    let mut locals = vec![
        (lo - 60, 0),
        (lo - 1, 0),
        (lo - 1, 999_999_999),
        (lo, 0),
        (lo, 1),
        (lo + 1, 0),
        (lo + d / 2, 0),
        (hi - 61, 0),
        (hi - 60, 0),
        (hi - 59, 0),
        (hi - 1, 0),
        (hi - 1, 999_999_999),
        (hi, 0),
        (hi + 1, 0),
        (hi + 59, 0),
        (hi + 60, 0),
        (lo_min, 0),
        (lo_min + 60, 0),
        (hi_min, 0),
        (hi_min - 60, 0),
        (hi_min + 60, 0),
    ];
    for _ in 0..3 {
        locals.push((rng.range(lo - 120, hi + 120), if rng.chance(1, 2) { 0 } else { rng.range(0, 999_999_999) }));
        locals.push((lo_min + 60 * rng.range(-2, d / 60 + 2), 0));
    }
    for (s, ns) in locals {
        emit(format!("tz.datetime {z} {}", inst_of_unix(s, ns)));
    }
}

/// the evaluator ops around one transition for one expression
fn emit_expr_ops(z: &str, tr: &Tr, e: &str, rng: &mut Rng, emit: &mut dyn FnMut(String)) {
    let ee = enc(e);
    let iz = *rng.pick(&INPUT_ZONES);
    let (lo, hi) = (tr.t + tr.p.min(tr.o), tr.t + tr.p.max(tr.o));
    let d = hi - lo;
    let ctx = if rng.chance(1, 10) { "b=172800000000000" } else { "-" };
    // state: the minute before the transition, the transition, both passes of a fold
    let mut ts = vec![(-60, 0), (-30, 0), (-1, 999_999_999), (0, 0), (30, 0), (-d, 0), (-d + 30, 0), (d, 0), (d - 30, 0)];
    ts.push((rng.range(-2 * d - 3600, 2 * d + 3600), 0));
    for (dt, ns) in ts {
        emit(format!("tz.state {z} {iz} {} {ctx} {ee}", inst_of_unix(tr.t + dt, ns)));
    }
    for dt in [-7200, -d - 1800, -60, 0, d / 2] {
        emit(format!("tz.next {z} {iz} {} {ctx} {ee}", inst_of_unix(tr.t + dt, 0)));
    }
    // windows: a day around, and windows whose end is clipped just after / inside the transition
    let f = tr.t - 86_400 + rng.range(0, 3600);
    emit(format!("tz.iter {z} {iz} {} {} {ctx} {ee}", inst_of_unix(f, 0), inst_of_unix(tr.t + 86_400, 0)));
    for end in [1, 15, 45, 61, d + 15, -30, -d + 10] {
        emit(format!("tz.iter {z} {iz} {} {} {ctx} {ee}", inst_of_unix(tr.t - 7200 - d, 0), inst_of_unix(tr.t + end, if rng.chance(1, 3) { 500_000_000 } else { 0 })));
    }
    emit(format!("tz.iter {z} {iz} {} {} {ctx} {ee}", inst_of_unix(tr.t - 30, 0), inst_of_unix(tr.t + 2 * d + 3600, 0)));
}

fn minute_of_day(local: i64) -> i64 {
    local.rem_euclid(86_400) / 60
}

fn emit_transition(z: &str, tr: &Tr, n_expr: usize, rng: &mut Rng, emit: &mut dyn FnMut(String)) {
    emit_zone_ops(z, tr, rng, emit);
    let (lo, hi) = (tr.t + tr.p.min(tr.o), tr.t + tr.p.max(tr.o));
    let lom = minute_of_day(lo);
    let him = lom + (hi - lo + 59) / 60;
    let all = around_exprs(lom, him);
    if n_expr >= all.len() {
        for e in &all {
            emit_expr_ops(z, tr, e, rng, emit);
        }
    } else {
        for _ in 0..n_expr {
            let e = rng.pick(&all).clone();
            emit_expr_ops(z, tr, &e, rng, emit);
        }
    }
}

/// random instants with generated expressions; `next_change` only where the real code is quick
fn emit_random(z: &str, n: usize, rng: &mut Rng, emit: &mut dyn FnMut(String), skipped: &mut u64) {
    let cfg = gen_expr::DEFAULT;
    let (lo, hi) = (tztable::ts(1995, 1, 1), tztable::ts(2035, 1, 1));
    for _ in 0..n {
        let e = gen_expr::expr(rng, &cfg);
        let ee = enc(&e);
        let ctx = ev::gen_ctx(rng, &e, true);
        let iz = *rng.pick(&INPUT_ZONES);
        let t = match rng.below(4) {
            0 => rng.range(tztable::ts(1900, 1, 1), tztable::ts(2100, 1, 1)),
            _ => rng.range(lo, hi),
        };
        let t = if rng.chance(1, 2) { t / 60 * 60 } else { t };
        let ti = inst_of_unix(t, if rng.chance(1, 4) { rng.range(0, 999_999_999) } else { 0 });
        emit(format!("tz.naive {z} {ti}"));
        emit(format!("tz.datetime {z} {ti}"));
        emit(format!("tz.state {z} {iz} {ti} {ctx} {ee}"));
        let len = match rng.below(4) {
            0 => rng.range(1, 86_400),
            1 => rng.range(1, 400) * 86_400,
            _ => rng.range(1, 14) * 86_400 + rng.range(0, 86_399),
        };
        emit(format!("tz.iter {z} {iz} {ti} {} {ctx} {ee}", inst_of_unix(t + len, 0)));
        if change_is_near(z.parse().unwrap(), t, 400, &ctx, &ee) {
            emit(format!("tz.next {z} {iz} {ti} {ctx} {ee}"));
        } else {
            *skipped += 1;
        }
    }
}

pub fn gen(tier: &str, rng: &mut Rng, emit: &mut dyn FnMut(String)) {
    let thorough = tier == "thorough";
    let mut skipped = 0u64;
    // the witnesses of the findings, always first
    for l in [
        // D16: Paris 2024-03-31, 02:30-02:45
        "tz.iter Europe/Paris Asia/Tokyo 738975:0 738977:0 - 02:30-02:45",
        // state in the last minute before the clock is set back (Paris 2024-10-27 00:59:30Z): was `closed`
        // for every expression before /repo b0d5731
        "tz.state Europe/Paris Asia/Tokyo 739186:3570000000000 - 24/7",
        // bounds going backwards in a gap that does not end on a whole minute (Monrovia 1972)
        "tz.iter Africa/Monrovia UTC 719898:82800000000000 719899:2685000000000 - 00:00-00:10",
        "tz.datetime Africa/Monrovia 719899:0",
    ] {
        emit(l.to_string());
    }
    if !thorough {
        for z in QUICK_ZONES {
            let tz: Tz = z.parse().unwrap();
            // every gap and fold of 2000–2030, three expressions each (all of them for a few)
            for (i, tr) in transitions(tz, tztable::ts(2000, 1, 1), tztable::ts(2031, 1, 1)).iter().enumerate() {
                let n = if i == 3 || i == 4 { 99 } else if i % 4 < 2 { 1 } else { 0 };
                if n > 0 {
                    emit_transition(z, tr, n, rng, emit);
                } else {
                    emit_zone_ops(z, tr, rng, emit);
                }
            }
            // the historical ones (seconds-granular offsets): zone ops for all, expressions for some
            for tr in transitions(tz, tztable::ts(1900, 1, 1), tztable::ts(2000, 1, 1)) {
                let secs = tr.p % 60 != 0 || tr.o % 60 != 0;
                if secs {
                    emit_transition(z, &tr, 5, rng, emit);
                } else {
                    emit_zone_ops(z, &tr, rng, emit);
                    if rng.chance(1, 6) {
                        emit_transition(z, &tr, 1, rng, emit);
                    }
                }
            }
            emit_random(z, 12, rng, emit, &mut skipped);
        }
    } else {
        for tz in chrono_tz::TZ_VARIANTS.iter().copied() {
            let z = tz.name();
            for tr in transitions(tz, tztable::ts(1900, 1, 1), tztable::ts(2100, 1, 1)) {
                let secs = tr.p % 60 != 0 || tr.o % 60 != 0;
                let odd = (tr.t + tr.o) % 3600 != 0;
                let n = if secs { 6 } else if odd { 2 } else if rng.chance(1, 4) { 1 } else { 0 };
                if n > 0 {
                    emit_transition(z, &tr, n, rng, emit);
                } else {
                    emit_zone_ops(z, &tr, rng, emit);
                }
            }
            emit_random(z, 6, rng, emit, &mut skipped);
        }
    }
    emit(format!("#note unbounded next_change calls not sent to the model because of cost: {skipped}"));
}
