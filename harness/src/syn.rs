//! Suite `syn` — parser and printers (C05, C06, parser part of C04) on the real code.
//!   c05.parse  <src>              parse(src)
//!   c05.den    <src> <expected…>  parse(src); the expected denotation (`A <AST>` or `X`) was written by
//!                                 the sentence generator of the Lean side and is judged by the driver
//!   c05.rej    <src>              parse(src) of a sentence with one out-of-range field (must be an error)
//!   c06.print  <src>              e = parse(src): e.to_string(), parse(e.to_string())
//!   c06.printn <src>              the same for e = parse(src).normalize()
//! `<src>` is the percent-encoded source string.
//! Output of parse/den/rej: `A <AST>` | `err <class>` | `panic:<file>:<line>`.
//! Output of print/printn:  `<AST of e> | <enc(printed)> | <A <AST of the reparse> | err <class> | panic:…>`
//! (or `parse-error <class>` / `parse-panic:…` / `norm-panic:…` when there is no `e`; a panic inside
//! `to_string` replaces the printed form by `panic:…` and the third section by `-`).
use crate::ast;
use crate::ev::dec;
use crate::gen_expr;
use crate::util::{catch, enc, Rng};
use opening_hours_syntax::rules::OpeningHoursExpression;

fn err_class(e: &opening_hours_syntax::Error) -> &'static str {
    match e {
        opening_hours_syntax::Error::Parser(_) => "parser",
        opening_hours_syntax::Error::Unsupported(_) => "unsupported",
        opening_hours_syntax::Error::Overflow { .. } => "overflow",
        opening_hours_syntax::Error::InvalidExtendTime { .. } => "exttime",
    }
}

fn parse_out(src: &str) -> (String, Option<OpeningHoursExpression>) {
    match catch(|| opening_hours_syntax::parse(src)) {
        Err(p) => (p, None),
        Ok(Err(e)) => (format!("err {}", err_class(&e)), None),
        Ok(Ok(e)) => (format!("A {}", ast::expr(&e)), Some(e)),
    }
}

fn print_out(e: &OpeningHoursExpression) -> String {
    let a = ast::expr(e);
    match catch(|| e.to_string()) {
        Err(p) => format!("{a} | {p} | -"),
        Ok(s) => {
            let (rp, _) = parse_out(&s);
            format!("{a} | {} | {rp}", enc(&s))
        }
    }
}

pub fn exec(op: &str, a: &[&str]) -> Option<String> {
    if a.is_empty() {
        return None;
    }
    let src = dec(a[0])?;
    match op {
        "c05.parse" | "c05.den" | "c05.rej" => Some(parse_out(&src).0),
        "c04.parse" => {
            // totality beyond the parser: printing, normalizing and printing the normal form of a
            // parsed expression must return normally too
            let (out, e) = parse_out(&src);
            match e {
                None => Some(out),
                Some(e) => {
                    let st = |r: Result<(), String>| match r {
                        Ok(()) => "ok".to_string(),
                        Err(p) => p,
                    };
                    let print = st(catch(|| e.to_string()).map(|_| ()));
                    let dbg = st(catch(|| format!("{e:?}")).map(|_| ()));
                    let (norm, nprint) = match catch(|| e.clone().normalize()) {
                        Err(p) => (p, "-".to_string()),
                        Ok(n) => ("ok".to_string(), st(catch(|| n.to_string()).map(|_| ()))),
                    };
                    Some(format!("{out} | T {print} {dbg} {norm} {nprint}"))
                }
            }
        }
        "c06.print" | "c06.printn" => {
            let (out, e) = parse_out(&src);
            let Some(e) = e else {
                return Some(if out.starts_with("panic:") { format!("parse-{out}") } else { format!("parse-error {}", &out[4..]) });
            };
            if op == "c06.print" {
                Some(print_out(&e))
            } else {
                match catch(|| e.normalize()) {
                    Err(p) => Some(format!("norm-{p}")),
                    Ok(n) => Some(print_out(&n)),
                }
            }
        }
        _ => None,
    }
}

// ------------------------------------------------------------------------------------------
// generators

/// hand-written sentences covering every syntactic variant the grammar documents (relaxations
/// included) and the shapes that interact: they seed the corruption streams too
pub const VARIANTS: [&str; 102] = [
    "24/7", "24/7 off", "24/7 closed \"x\"", "\"only comment\"", "open", "off", "unknown \"u\"", "Mo", "Mo-Fr", "Mo,We,Fr",
    "Mo-Fr 10:00-12:00", "Mo-Fr 10:00-12:00,14:00-18:00", "Mo-Fr 9:00-12:00", "Mo-Fr 09:00 - 12:00", "10:00-26:00", "10:00+",
    "10:00-12:00+", "22:00-02:00", "00:00-24:00", "00:00-48:00", "24:00-48:00", "10:00-12:00/30", "10:00-12:00/01:30",
    "10:00-12:00 / 5", "sunrise-sunset", "(sunrise+01:00)-(sunset-00:30)", "dawn-dusk", "sunrise-12:00", "12:00-sunset+",
    "dusk+", "(dawn-02:00)+", "PH", "SH", "PH,SH", "PH off", "PH +1 day", "PH -2 days", "PH,Mo-Fr", "Mo-Fr,PH", "PH Mo", "Mo PH",
    "Sa,Su,PH 10:00-14:00", "Mo[1]", "Mo[-1]", "Mo[1,3]", "Mo[1-3]", "Mo[1-3,-1]", "Mo[2] +1 day", "Mo[1] -3 days", "Fr[5]",
    "week 1", "week 01", "week 1-53", "week 2-52/2", "week 1,3,5-9/2", "week1", "Jan week 2 Mo", "week 10 Mo 10:00-12:00",
    "Jan", "Jan-Mar", "Jan,Mar", "Nov-Feb", "Jan 1", "Jan 01", "Jan 1-Feb 15", "Jan 1-15", "Jan 20-10", "Dec 20-10", "Jan 1+",
    "Jan 1 +2 days", "Jan 1 -1 day-Feb 1 +3 days", "Jan 1+Mo", "Jan 1-Mo", "Jan 1+Mo +2 days-Feb 1-Fr", "easter", "easter +1 day",
    "easter -2 days-easter +1 day", "easter-Jun 1", "Jan 1-easter", "2020", "2020-2022", "2020-2030/2", "2020+", "2020,2022",
    "2020 Jan", "2020 Jan-Mar", "2020Jan", "2020 Jan 1", "2020 Jan 1-2021 Feb 1", "2020 Jan 1+", "2020 easter", "2020-2022 Jan",
    "2020 week 1", "2020: Mo", "Jan: 10:00-12:00", "\"c\": Mo",
    // degenerate (backwards) ranges the grammar accepts
    "Mo[3-1]", "Fr[5-2] 10:00-12:00", "Tu[2-1,5-4] -2 days", "Mo[3-1,2]", "Su[-1--3]", "2030-2010",
];

const SEPS: [&str; 8] = ["; ", ";", " ; ", " ;", ", ", " || ", "|| ", " ||  "];
const ALPHABET: [&str; 40] = [
    " ", ":", ",", ";", "-", "+", "/", "[", "]", "(", ")", "\"", "|", "0", "1", "2", "3", "5", "9", "00", "24", "48", "60", "Mo", "Su", "PH", "SH",
    "Jan", "Dec", "week", "easter", "sunrise", "dusk", "off", "open", "day", "days", "é", "\u{1F600}", "\u{0}",
];

fn base_sentence(rng: &mut Rng, samples: &[String]) -> String {
    match rng.below(10) {
        0..=2 => rng.pick(&VARIANTS).to_string(),
        3 | 4 if !samples.is_empty() => rng.pick(samples).clone(),
        5 => {
            let n = 2 + rng.below(2);
            let mut s = rng.pick(&VARIANTS).to_string();
            for _ in 1..n {
                s.push_str(*rng.pick(&SEPS));
                s.push_str(*rng.pick(&VARIANTS));
            }
            s
        }
        _ => gen_expr::expr(rng, &gen_expr::DEFAULT),
    }
}

/// one random edit: delete / insert / replace / duplicate / truncate / swap at a character boundary
fn corrupt(rng: &mut Rng, s: &str) -> String {
    let chars: Vec<char> = s.chars().collect();
    if chars.is_empty() {
        return rng.pick(&ALPHABET).to_string();
    }
    let i = rng.below(chars.len() as u64) as usize;
    let mut out: Vec<char> = chars.clone();
    match rng.below(7) {
        0 => {
            out.remove(i);
        }
        1 => {
            let ins: Vec<char> = rng.pick(&ALPHABET).chars().collect();
            let j = rng.below(chars.len() as u64 + 1) as usize;
            out.splice(j..j, ins);
        }
        2 => {
            let ins: Vec<char> = rng.pick(&ALPHABET).chars().collect();
            out.splice(i..i + 1, ins);
        }
        3 => {
            let j = (i + 1 + rng.below(4) as usize).min(chars.len());
            let dup: Vec<char> = chars[i..j].to_vec();
            out.splice(i..i, dup);
        }
        4 => out.truncate(i),
        5 => {
            if i + 1 < out.len() {
                out.swap(i, i + 1);
            }
        }
        _ => {
            // a digit replaced by another digit (boundary values of numeric fields)
            if let Some(k) = (0..chars.len()).map(|d| (i + d) % chars.len()).find(|k| chars[*k].is_ascii_digit()) {
                out[k] = *rng.pick(&['0', '1', '2', '3', '4', '5', '6', '9']);
            } else {
                out.push('0');
            }
        }
    }
    out.into_iter().collect()
}

fn unicode_noise(rng: &mut Rng) -> String {
    let n = rng.below(12);
    (0..n)
        .map(|_| match rng.below(6) {
            0 => char::from_u32(rng.below(0x80) as u32).unwrap_or('?'),
            1 => char::from_u32(0x80 + rng.below(0x700) as u32).unwrap_or('?'),
            2 => char::from_u32(0x4E00 + rng.below(0x1000) as u32).unwrap_or('?'),
            3 => char::from_u32(0x1F300 + rng.below(0x300) as u32).unwrap_or('?'),
            4 => *rng.pick(&['"', ' ', '\t', '\n', '\u{a0}', '\u{feff}', '\u{10ffff}']),
            _ => rng.pick(&ALPHABET).chars().next().unwrap(),
        })
        .collect()
}

/// sentences with exactly one out-of-range field (the rejection clause of C05)
pub fn out_of_range(rng: &mut Rng) -> String {
    let y_lo = ["1899", "1000", "0", "999", "190"];
    let y_hi = ["10000", "12345", "99999"];
    match rng.below(22) {
        0 => format!("{}:00-12:00", rng.range(25, 99)),
        1 => format!("10:{}-12:00", rng.range(60, 99)),
        2 => format!("10:00-12:{}", rng.range(60, 99)),
        3 => format!("10:00-{}:{:02}", rng.range(49, 99), rng.range(0, 59)),
        4 => format!("10:00-48:{:02}", rng.range(1, 59)),
        5 => format!("24:{:02}-30:00", rng.range(1, 59)),
        6 => "Jan 0".to_string(),
        7 => format!("Jan {}", rng.range(32, 99)),
        8 => format!("Jan 1-{}", rng.range(32, 99)),
        9 => "Jan 1-Feb 0".to_string(),
        10 => "week 0".to_string(),
        11 => format!("week {}", rng.range(54, 99)),
        12 => format!("week 1-{}", rng.range(54, 99)),
        13 => "Mo[0]".to_string(),
        14 => format!("Mo[{}]", rng.range(6, 9)),
        15 => format!("Mo[-{}]", *rng.pick(&[0, 6, 7, 9])),
        16 => rng.pick(&y_lo).to_string(),
        17 => rng.pick(&y_hi).to_string(),
        18 => format!("{} Jan 1", rng.pick(&y_lo)),
        19 => format!("2020-2030/{}", *rng.pick(&["0", "00", "000"])),
        20 => format!("week 1-10/{}", *rng.pick(&["0", "00"])),
        _ => match rng.below(6) {
            0 => String::new(),
            1 => "\"unbalanced".to_string(),
            2 => "Mo \"a".to_string(),
            3 => "Mo a\"".to_string(),
            4 => "\"\"".to_string(),
            _ => "Mo \"a\" \"b".to_string(),
        },
    }
}

pub fn gen(suite: &str, tier: &str, rng: &mut Rng, emit0: &mut dyn FnMut(String)) {
    // one generator, two views: suite `c05` keeps the parse lines, suite `c06` the print lines
    let keep = if suite == "c05" { "c05." } else { "c06." };
    let mut emit = |op: String| {
        if op.starts_with(keep) {
            emit0(op)
        }
    };
    let thorough = tier == "thorough";
    let samples = gen_expr::sample_lines();
    // every sample line and every hand-written variant: parse, print, normalized print
    for s in samples.iter().map(|s| s.as_str()).chain(VARIANTS.iter().copied()) {
        let e = enc(s);
        emit(format!("c05.parse {e}"));
        emit(format!("c06.print {e}"));
        emit(format!("c06.printn {e}"));
    }
    // pairs of variants under every separator spelling
    for (k, sep) in SEPS.iter().enumerate() {
        for i in 0..VARIANTS.len() {
            let j = (i * 7 + k * 13 + 5) % VARIANTS.len();
            let s = format!("{}{}{}", VARIANTS[i], sep, VARIANTS[j]);
            emit(format!("c05.parse {}", enc(&s)));
            if k < 3 {
                emit(format!("c06.print {}", enc(&s)));
            }
        }
    }
    let n = if thorough { 400_000 } else { 12_000 };
    for i in 0..n {
        let s = base_sentence(rng, &samples);
        let e = enc(&s);
        match i % 8 {
            0 | 1 => emit(format!("c06.print {e}")),
            2 => emit(format!("c06.printn {e}")),
            3 => emit(format!("c05.parse {e}")),
            4 | 5 => {
                let mut c = corrupt(rng, &s);
                if rng.chance(1, 4) {
                    c = corrupt(rng, &c);
                }
                emit(format!("c05.parse {}", enc(&c)));
            }
            6 => {
                if rng.chance(1, 3) {
                    emit(format!("c05.parse {}", enc(&unicode_noise(rng))));
                } else {
                    // a corrupted sentence that still parses is printed too
                    let c = corrupt(rng, &s);
                    emit(format!("c06.print {}", enc(&c)));
                }
            }
            _ => {
                let bad = out_of_range(rng);
                // alone, and spliced as a further rule after a valid sentence
                if rng.chance(1, 2) {
                    emit(format!("c05.rej {}", enc(&bad)));
                } else if !bad.is_empty() {
                    emit(format!("c05.rej {}", enc(&format!("{}; {}", rng.pick(&VARIANTS), bad))));
                }
            }
        }
    }
}

/// suite `syn4` (parser part of C04): parse never panics — near-valid and arbitrary strings
pub fn gen4(tier: &str, rng: &mut Rng, emit: &mut dyn FnMut(String)) {
    let thorough = tier == "thorough";
    let samples = gen_expr::sample_lines();
    // regression inputs and shapes behind rare builder branches
    let fixed = [
        "10:00-12:00/30", "10:00-12:00/01:30", "10:00-12:00/24:00", "10:00-12:00/00", "10:00-12:00/59", "10:00-12:00+/30",
        "Mo[1] +999999999 days", "PH +9223372036854775807 days", "PH +9223372036854775808 days", "PH -9223372036854775808 days",
        "PH +18446744073709551615 days", "PH +18446744073709551616 days", "Jan 1 +99999999999999999999999999 days",
        "week 1-53/255", "week 1-53/256", "week 1-53/18446744073709551616", "2020-2030/65535", "2020-2030/65536",
        "2020-2030/18446744073709551616", "9999 Dec 31-1", "9999 Dec 31-Jan 1", "easter-10", "easter -1 day-10", "Jan 31-1", "Dec 31-1",
        "(sunrise+24:00)-(sunset-24:00)", "(sunrise+23:59)+", "24:00-48:00", "24:00+", "48:00-48:00", "00:00-00:00", "Mo[5-1]", "Mo[1-5,-5--1]", "Mo[3-1]", "Fr[5-2] 10:00-12:00",
        "Tu[2-1,5-4] -2 days", "Mo[3-1,2]", "Su[-1--3]", "Mo[-3--1]", "2030-2010", "2030-2010/3", "week 53-01", "week 10-02/3", "Dec-Jan", "Su-Mo", "Jan 31-Jan 1",
        "Mo[1,1,1,1,1,1,1,1]", "\"\"", "\"\"\"", "\"a\":\"b\"", "\"a\": \"a\"", "\"\u{0}\"", ",", ";", "||", " ", "  ", ";;", ", ,", "24/7 24/7", "24/724/7",
    ];
    for s in fixed {
        emit(format!("c04.parse {}", enc(s)));
    }
    // long inputs (iteration, not recursion, in the engine; the builders are loops)
    for n in [50usize, 500, 5000] {
        emit(format!("c04.parse {}", enc(&vec!["Mo"; n].join(","))));
        emit(format!("c04.parse {}", enc(&vec!["10:00-12:00"; n].join(","))));
        emit(format!("c04.parse {}", enc(&vec!["Mo 10:00-12:00"; n].join("; "))));
        emit(format!("c04.parse {}", enc(&format!("Mo[{}]", vec!["1"; n].join(",")))));
        emit(format!("c04.parse {}", enc(&format!("\"{}\"", "x".repeat(n)))));
        emit(format!("c04.parse {}", enc(&format!("PH +{} days", "9".repeat(n.min(400))))));
        emit(format!("c04.parse {}", enc(&format!("PH +{}1 days", "0".repeat(n.min(400))))));
    }
    let n = if thorough { 2_000_000 } else { 40_000 };
    for i in 0..n {
        let s = base_sentence(rng, &samples);
        let out = match i % 6 {
            0 => unicode_noise(rng),
            1 => {
                // a huge or boundary number spliced over a digit run
                let nums = ["0", "00", "255", "256", "65535", "65536", "4294967296", "9223372036854775807", "9223372036854775808", "18446744073709551615", "18446744073709551616", "99999999999999999999999"];
                let chars: Vec<char> = s.chars().collect();
                match (0..chars.len()).filter(|k| chars[*k].is_ascii_digit()).nth(rng.below(6) as usize) {
                    Some(k) => {
                        let mut o: String = chars[..k].iter().collect();
                        o.push_str(*rng.pick(&nums));
                        o.extend(chars[k + 1..].iter());
                        o
                    }
                    None => format!("{s} +{} days", rng.pick(&nums)),
                }
            }
            _ => {
                let mut c = corrupt(rng, &s);
                for _ in 0..rng.below(3) {
                    c = corrupt(rng, &c);
                }
                c
            }
        };
        emit(format!("c04.parse {}", enc(&out)));
    }
}
