//! Correspondence harness: calls the real code in-process and prints protocol lines
//! `<op> <args> => <implementation output>` (DESIGN §2.3).
//!   ohharness run <suite> <quick|thorough> <seed>   generate operations and execute them
//!   ohharness exec                                   execute the operation lines read on stdin
mod ast;
mod bdays;
mod c10;
mod c11;
mod c14;
mod c15;
mod c18;
mod cal;
mod c19;
mod c20;
mod ev;
mod gen_expr;
mod nz;
mod py;
mod syn;
mod tz;
mod tztable;
mod util;

use std::io::{BufRead, BufWriter, Write};
use std::sync::Mutex;
use std::time::Instant;

/// The operation being executed (watchdog, crash attribution): a real-code call that does not return
/// is a totality failure (C04: "after a bounded amount of work"), not something to wait for.
static CURRENT_OP: Mutex<(String, Option<Instant>)> = Mutex::new((String::new(), None));

/// Watchdog thread: an operation running longer than its limit ends the process with exit code 3 and
/// `HANG <seconds> <op>` on stderr (check.py turns that into a violation naming the operation).
/// Limits: `OH_OP_LIMIT_S` (default 300 s; 1800 s for the batch operations `pur.*` / `sun.scan*`).
fn start_watchdog() {
    let limit: u64 = std::env::var("OH_OP_LIMIT_S").ok().and_then(|s| s.parse().ok()).unwrap_or(300);
    std::thread::spawn(move || loop {
        std::thread::sleep(std::time::Duration::from_millis(500));
        let g = CURRENT_OP.lock().unwrap_or_else(|e| e.into_inner());
        if let Some(t0) = g.1 {
            let lim = if g.0.starts_with("pur.") || g.0.starts_with("sun.scan") { limit.max(1800) } else { limit };
            if t0.elapsed().as_secs() >= lim {
                eprintln!("HANG {lim} {}", g.0);
                std::process::exit(3);
            }
        }
    });
}

fn note_op(line: &str) {
    let mut g = CURRENT_OP.lock().unwrap_or_else(|e| e.into_inner());
    g.0.clear();
    g.0.push_str(line);
    g.1 = Some(Instant::now());
    drop(g);
    // crash attribution (second run after an abort): the operation is written out before it runs
    if let Ok(p) = std::env::var("OH_TRACE_OP") {
        let _ = std::fs::write(p, line);
    }
}

fn op_done() {
    CURRENT_OP.lock().unwrap_or_else(|e| e.into_inner()).1 = None;
}

/// Execute one operation line (`<op> <args…>`, anything after ` => ` is ignored).
fn exec_line(line: &str) -> String {
    let line = line.split(" => ").next().unwrap().trim_end();
    if line.starts_with('#') {
        return line.to_string();
    }
    let toks: Vec<&str> = line.split(' ').collect();
    let (op, args) = (toks[0], &toks[1..]);
    note_op(line);
    let t0 = std::time::Instant::now();
    let res = if op == "c04.parse" || op.starts_with("c05.") || op.starts_with("c06.") {
        syn::exec(op, args)
    } else if op.starts_with("et.") {
        c19::exec(op, args)
    } else if ["ev.", "c01.", "c02.", "c03.", "c04.", "c08.", "c16.", "c17."].iter().any(|p| op.starts_with(p)) {
        ev::exec(op, args)
    } else if op.starts_with("cal.") {
        c15::exec(op, args)
    } else if op.starts_with("chr.") {
        cal::exec(op, args)
    } else if op.starts_with("py.") {
        py::exec(op, args)
    } else if op.starts_with("pur.") {
        c18::exec(op, args)
    } else if op.starts_with("sun.") {
        c11::exec(op, args)
    } else if op.starts_with("hol.") {
        c10::exec(op, args)
    } else if op.starts_with("nz.") {
        nz::exec(op, args)
    } else if op.starts_with("tz.") || op.starts_with("tzc02.") {
        tz::exec(op, args)
    } else if op.starts_with("sch.") {
        c14::exec(op, args)
    } else if op.starts_with("usv.") {
        c20::exec(op, args)
    } else {
        None
    };
    op_done();
    let dt = t0.elapsed().as_secs_f64();
    if dt > 0.25 && !op.starts_with("pur.") && !op.starts_with("sun.scan") {
        eprintln!("slow-op {dt:.2}s {line}");
    }
    match res {
        Some(r) => format!("{line} => {r}"),
        None => format!("{line} => harness-bad-op"),
    }
}

fn main() {
    let args: Vec<String> = std::env::args().collect();
    util::install_panic_hook();
    start_watchdog();
    let out = std::io::stdout();
    let mut w = BufWriter::with_capacity(1 << 20, out.lock());
    match args.get(1).map(|s| s.as_str()) {
        Some("run") if args.len() >= 5 => {
            let (suite, tier) = (args[2].as_str(), args[3].as_str());
            let seed: u64 = args[4].parse().expect("seed");
            let mut rng = util::Rng::new(seed);
            let mut emit = |op: String| {
                writeln!(w, "{}", exec_line(&op)).expect("write");
            };
            match suite {
                "c19" => c19::gen(tier, &mut rng, &mut emit),
                "ev" => ev::gen(tier, &mut rng, &mut emit),
                "c01" | "c02" | "c03" | "c04" | "c08" | "c16" | "c17" | "c17i" => ev::gen_for(suite, tier, &mut rng, &mut emit),
                "c20" => c20::gen(tier, &mut rng, &mut emit),
                "c14" => c14::gen(tier, &mut rng, &mut emit),
                "c15" => c15::gen(tier, &mut rng, &mut emit),
                "cal" => cal::gen(tier, &mut rng, &mut emit),
                "tz" => tz::gen(tier, &mut rng, &mut emit),
                // C02 in zone contexts: the windows of the tz suite, judged by C02's own clauses on the localized stream
                "tzc02" => tz::gen(tier, &mut rng, &mut |l: String| {
                    if let Some(rest) = l.strip_prefix("tz.iter ") {
                        emit(format!("tzc02.iter {rest}"));
                    }
                }),
                "nz" => nz::gen(tier, &mut rng, &mut emit),
                "c10" => c10::gen(tier, &mut rng, &mut emit),
                "c18" => c18::gen(tier, &mut rng, &mut emit),
                "py" => py::gen(tier, &mut rng, &mut emit),
                "c11" => c11::gen(tier, &mut rng, &mut emit),
                "c05" | "c06" => syn::gen(suite, tier, &mut rng, &mut emit),
                "c04p" => syn::gen4(tier, &mut rng, &mut emit),
                _ => {
                    eprintln!("unknown suite {suite}");
                    std::process::exit(2);
                }
            }
        }
        // hidden: the fresh process of `pur.firstuse` (suite c18)
        Some("c18-child") if args.len() >= 3 => {
            drop(w);
            c18::child_main(&args[2]);
            return;
        }
        Some("tzscan") => tztable::scan_report(),
        Some("exec") => {
            for line in std::io::stdin().lock().lines() {
                let line = line.expect("read");
                if line.trim().is_empty() {
                    continue;
                }
                writeln!(w, "{}", exec_line(&line)).expect("write");
            }
        }
        _ => {
            eprintln!("usage: ohharness run <suite> <quick|thorough> <seed> | ohharness exec < ops");
            std::process::exit(2);
        }
    }
    w.flush().expect("flush");
}
