//! Suite `c15` (ops `cal.*`) — C15 CompactCalendar is a faithful set of dates, also across serialization.
//!
//! One line = one replay.  Dates are `Y/M/D` (Y may be negative), byte strings are `x<hex>`.
//!   cal.hist <step>…            one history on `CompactCalendar::default()`; one output token per step
//!       ins:D has:D after:D yf:D count iter ser serh rt:x<trailing> de:x<bytes>
//!   cal.eq <D>… | <D>…          `==` of the calendars of two histories (first via `FromIterator`)
//!   cal.stream <D>… | … rest:x<trailing>   several calendars written to one stream and read back
//!   cal.trunc <D>… cut:<k>      the serialization without its last k bytes must not deserialize
//!   cal.de x<bytes>             deserialization of arbitrary bytes
//!   cal.month <mask> <step>…    CompactMonth: first after:d has:d ins:d count iter ser
//!   cal.year x<48 bytes> <step>…  CompactYear: first after:m/d has:m/d ins:m/d count iter ser
use crate::util::{catch, Rng};
use chrono::{Datelike, NaiveDate};
use compact_calendar::{CompactCalendar, CompactMonth, CompactYear};

fn pdate(s: &str) -> Option<NaiveDate> {
    let mut it = s.split('/');
    let y: i32 = it.next()?.parse().ok()?;
    let m: u32 = it.next()?.parse().ok()?;
    let d: u32 = it.next()?.parse().ok()?;
    if it.next().is_some() {
        return None;
    }
    NaiveDate::from_ymd_opt(y, m, d)
}

fn sdate(d: NaiveDate) -> String {
    format!("{}/{}/{}", d.year(), d.month(), d.day())
}

fn hex(b: &[u8]) -> String {
    let mut s = String::with_capacity(2 * b.len() + 1);
    s.push('x');
    for x in b {
        s.push_str(&format!("{x:02x}"));
    }
    s
}

fn unhex(s: &str) -> Option<Vec<u8>> {
    let s = s.strip_prefix('x')?;
    if s.len() % 2 != 0 {
        return None;
    }
    (0..s.len() / 2).map(|i| u8::from_str_radix(&s[2 * i..2 * i + 2], 16).ok()).collect()
}

/// panic token; panics raised inside the standard library (overflow in `Step::forward`,
/// `Sum for u32`) are reported as `panic:core`
fn ptok(p: String) -> String {
    if p.contains("/library/core/") || p.contains("/library/alloc/") || p.contains("/library/std/") {
        "panic:core".into()
    } else {
        p
    }
}

fn r<T>(x: Result<T, String>, f: impl FnOnce(T) -> String) -> String {
    match x {
        Ok(v) => f(v),
        Err(p) => ptok(p),
    }
}

fn tf(b: bool) -> String {
    if b { "t" } else { "f" }.to_string()
}

fn od(x: Option<NaiveDate>) -> String {
    x.map(sdate).unwrap_or_else(|| "none".into())
}

fn ser_cal(c: &CompactCalendar) -> Vec<u8> {
    let mut buf = Vec::new();
    c.serialize(&mut buf).expect("Vec write");
    buf
}

fn fnv(b: &[u8]) -> u64 {
    let mut h: u64 = 14695981039346656037;
    for &x in b {
        h = (h ^ x as u64).wrapping_mul(1099511628211);
    }
    h
}

/// an empty date list is written `-`
fn dl(v: &[String]) -> String {
    if v.is_empty() {
        "-".into()
    } else {
        v.join(" ")
    }
}

fn build(dates: &[&str]) -> Option<Result<CompactCalendar, String>> {
    let ds: Option<Vec<NaiveDate>> = dates.iter().filter(|s| **s != "-").map(|s| pdate(s)).collect();
    let ds = ds?;
    Some(catch(move || {
        let mut c = CompactCalendar::default();
        for d in ds {
            c.insert(d);
        }
        c
    }))
}

fn hist(steps: &[&str]) -> Option<String> {
    let mut cal = CompactCalendar::default();
    let mut out: Vec<String> = Vec::new();
    for st in steps {
        let (name, arg) = match st.split_once(':') {
            Some((n, a)) => (n, a),
            None => (*st, ""),
        };
        let tok = match name {
            "ins" => {
                let d = pdate(arg)?;
                r(catch(|| cal.insert(d)), tf)
            }
            "has" => {
                let d = pdate(arg)?;
                r(catch(|| cal.contains(d)), tf)
            }
            "after" => {
                let d = pdate(arg)?;
                r(catch(|| cal.first_after(d)), od)
            }
            "yf" => {
                let d = pdate(arg)?;
                r(
                    catch(|| {
                        cal.year_for(d).map(|y| {
                            let mut b = Vec::new();
                            y.serialize(&mut b).expect("Vec write");
                            b
                        })
                    }),
                    |x| x.map(|b| hex(&b)).unwrap_or_else(|| "none".into()),
                )
            }
            "count" => r(catch(|| cal.count()), |n| n.to_string()),
            "iter" => r(catch(|| cal.iter().collect::<Vec<_>>()), |v| {
                format!("[{}]", v.into_iter().map(sdate).collect::<Vec<_>>().join(","))
            }),
            "ser" => r(catch(|| ser_cal(&cal)), |b| hex(&b)),
            "serh" => r(catch(|| ser_cal(&cal)), |b| format!("{}:{:016x}", b.len(), fnv(&b))),
            "rt" => {
                let rest = unhex(arg)?;
                r(
                    catch(|| {
                        let mut buf = ser_cal(&cal);
                        buf.extend_from_slice(&rest);
                        let mut reader: &[u8] = &buf;
                        match CompactCalendar::deserialize(&mut reader) {
                            Ok(c2) => {
                                // derived PartialEq both ways and through `!=`
                                let e = c2 == cal && cal == c2 && !(c2 != cal);
                                format!("{}:{}", tf(e), hex(reader))
                            }
                            Err(_) => "err".to_string(),
                        }
                    }),
                    |x| x,
                )
            }
            "de" => {
                let bytes = unhex(arg)?;
                let res = catch(|| {
                    let mut reader: &[u8] = &bytes;
                    CompactCalendar::deserialize(&mut reader).map(|c| (c, reader.to_vec())).ok()
                });
                match res {
                    Ok(Some((c, rest))) => {
                        cal = c;
                        format!("ok:{}", hex(&rest))
                    }
                    Ok(None) => "err".into(),
                    Err(p) => ptok(p),
                }
            }
            _ => return None,
        };
        out.push(tok);
    }
    Some(out.join(" "))
}

fn month_of(mask: u32) -> CompactMonth {
    CompactMonth::deserialize(&mask.to_ne_bytes()[..]).expect("4 bytes")
}

fn month_ops(mask: &str, steps: &[&str]) -> Option<String> {
    let mut mo = month_of(mask.parse().ok()?);
    let mut out = Vec::new();
    let on = |x: Option<u32>| x.map(|d| d.to_string()).unwrap_or_else(|| "none".into());
    for st in steps {
        let (name, arg) = match st.split_once(':') {
            Some((n, a)) => (n, a),
            None => (*st, ""),
        };
        let tok = match name {
            "first" => r(catch(|| mo.first()), on),
            "after" => {
                let d: u32 = arg.parse().ok()?;
                r(catch(|| mo.first_after(d)), on)
            }
            "has" => {
                let d: u32 = arg.parse().ok()?;
                r(catch(|| mo.contains(d)), tf)
            }
            "ins" => {
                let d: u32 = arg.parse().ok()?;
                r(catch(|| mo.insert(d)), tf)
            }
            "count" => r(catch(|| mo.count()), |n| n.to_string()),
            "iter" => r(catch(|| mo.iter().collect::<Vec<_>>()), |v| {
                format!("[{}]", v.iter().map(|d| d.to_string()).collect::<Vec<_>>().join(","))
            }),
            "ser" => r(
                catch(|| {
                    let mut b = Vec::new();
                    mo.serialize(&mut b).expect("Vec write");
                    b
                }),
                |b| hex(&b),
            ),
            _ => return None,
        };
        out.push(tok);
    }
    Some(out.join(" "))
}

fn pmd(s: &str) -> Option<(u32, u32)> {
    let (m, d) = s.split_once('/')?;
    Some((m.parse().ok()?, d.parse().ok()?))
}

fn year_ops(bytes: &str, steps: &[&str]) -> Option<String> {
    let bytes = unhex(bytes)?;
    if bytes.len() != 48 {
        return None;
    }
    let mut yr = CompactYear::deserialize(&bytes[..]).expect("48 bytes");
    let mut out = Vec::new();
    let omd = |x: Option<(u32, u32)>| x.map(|(m, d)| format!("{m}/{d}")).unwrap_or_else(|| "none".into());
    for st in steps {
        let (name, arg) = match st.split_once(':') {
            Some((n, a)) => (n, a),
            None => (*st, ""),
        };
        let tok = match name {
            "first" => r(catch(|| yr.first()), omd),
            "after" => {
                let (m, d) = pmd(arg)?;
                r(catch(|| yr.first_after(m, d)), omd)
            }
            "has" => {
                let (m, d) = pmd(arg)?;
                r(catch(|| yr.contains(m, d)), tf)
            }
            "ins" => {
                let (m, d) = pmd(arg)?;
                r(catch(|| yr.insert(m, d)), tf)
            }
            "count" => r(catch(|| yr.count()), |n| n.to_string()),
            "iter" => r(catch(|| yr.iter().collect::<Vec<_>>()), |v| {
                format!("[{}]", v.iter().map(|(m, d)| format!("{m}/{d}")).collect::<Vec<_>>().join(","))
            }),
            "ser" => r(
                catch(|| {
                    let mut b = Vec::new();
                    yr.serialize(&mut b).expect("Vec write");
                    b
                }),
                |b| hex(&b),
            ),
            _ => return None,
        };
        out.push(tok);
    }
    Some(out.join(" "))
}

/// Execute one operation on the real code; `None` = not an op of this suite / malformed.
pub fn exec(op: &str, a: &[&str]) -> Option<String> {
    Some(match op {
        "cal.hist" => hist(a)?,
        "cal.month" => month_ops(a.first()?, &a[1..])?,
        "cal.year" => year_ops(a.first()?, &a[1..])?,
        "cal.eq" => {
            let mut parts = a.split(|s| *s == "|");
            let (p1, p2) = (parts.next()?, parts.next()?);
            let d1: Option<Vec<NaiveDate>> = p1.iter().filter(|s| **s != "-").map(|s| pdate(s)).collect();
            let d1 = d1?;
            let c2 = build(p2)?;
            r(
                catch(move || {
                    let c1: CompactCalendar = d1.into_iter().collect(); // FromIterator
                    let c2 = c2.expect("build");
                    let e = c1 == c2;
                    if (c2 == c1) != e || (c1 != c2) == e {
                        "incoherent".to_string()
                    } else {
                        tf(e)
                    }
                }),
                |x| x,
            )
        }
        "cal.stream" => {
            let (rest, lists) = a.split_last()?;
            let rest = unhex(rest.strip_prefix("rest:")?)?;
            let mut cals = Vec::new();
            for p in lists.split(|s| *s == "|") {
                cals.push(build(p)?.ok()?);
            }
            r(
                catch(move || {
                    let mut buf = Vec::new();
                    for c in &cals {
                        c.serialize(&mut buf).expect("Vec write");
                    }
                    buf.extend_from_slice(&rest);
                    let mut reader: &[u8] = &buf;
                    let mut out = Vec::new();
                    for c in &cals {
                        match CompactCalendar::deserialize(&mut reader) {
                            Ok(c2) => out.push(tf(&c2 == c)),
                            Err(_) => out.push("err".into()),
                        }
                    }
                    out.push(hex(reader));
                    out.join(" ")
                }),
                |x| x,
            )
        }
        "cal.trunc" => {
            let (cut, dates) = a.split_last()?;
            let cut: usize = cut.strip_prefix("cut:")?.parse().ok()?;
            let c = build(dates)?.ok()?;
            r(
                catch(move || {
                    let buf = ser_cal(&c);
                    let n = buf.len().saturating_sub(cut);
                    let mut reader: &[u8] = &buf[..n];
                    match CompactCalendar::deserialize(&mut reader) {
                        Ok(_) => format!("ok:{}", reader.len()),
                        Err(_) => "err".to_string(),
                    }
                }),
                |x| x,
            )
        }
        "cal.de" => {
            let bytes = unhex(a.first()?)?;
            r(
                catch(move || {
                    let mut reader: &[u8] = &bytes;
                    match CompactCalendar::deserialize(&mut reader) {
                        Ok(c) => format!("ok {} {}", hex(&ser_cal(&c)), hex(reader)),
                        Err(_) => "err".to_string(),
                    }
                }),
                |x| x,
            )
        }
        _ => return None,
    })
}

// ---------------------------------------------------------------------------------------------
// generation

fn leap(y: i32) -> bool {
    y.rem_euclid(4) == 0 && (y.rem_euclid(100) != 0 || y.rem_euclid(400) == 0)
}

fn dim(y: i32, m: u32) -> u32 {
    match m {
        2 => {
            if leap(y) {
                29
            } else {
                28
            }
        }
        4 | 6 | 9 | 11 => 30,
        _ => 31,
    }
}

const MIN_Y: i32 = -262143;
const MAX_Y: i32 = 262142;

/// a valid date in year `y`, boundary-biased (day 31, Feb 28/29, Dec 31, Jan 1)
fn date_in(y: i32, rng: &mut Rng) -> String {
    let (m, d) = match rng.below(12) {
        0 => (1, 1),
        1 => (12, 31),
        2 => (2, dim(y, 2)),
        3 => (2, 28),
        4 => (3, 1),
        5 => {
            let m = *rng.pick(&[1u32, 3, 5, 7, 8, 10, 12]);
            (m, 31)
        }
        6 => {
            let m = *rng.pick(&[4u32, 6, 9, 11]);
            (m, 30)
        }
        7 => (12, rng.range(1, 31) as u32),
        _ => {
            let m = rng.range(1, 12) as u32;
            (m, rng.range(1, dim(y, m) as i64) as u32)
        }
    };
    format!("{y}/{m}/{d}")
}

fn clamp_y(y: i64) -> i32 {
    y.clamp(MIN_Y as i64, MAX_Y as i64) as i32
}

/// neighbours of a date string (the day before/after within the month, same day other month/year)
fn near(rng: &mut Rng, s: &str) -> String {
    let d = pdate(s).expect("valid");
    let (y, m, dd) = (d.year(), d.month(), d.day());
    match rng.below(7) {
        0 => d.pred_opt().map(sdate).unwrap_or_else(|| s.to_string()),
        1 => d.succ_opt().map(sdate).unwrap_or_else(|| s.to_string()),
        2 => format!("{y}/{m}/{}", rng.range(1, dim(y, m) as i64)),
        3 => {
            let m2 = rng.range(1, 12) as u32;
            format!("{y}/{m2}/{}", dd.min(dim(y, m2)))
        }
        4 => {
            let y2 = clamp_y(y as i64 + rng.range(-2, 2));
            format!("{y2}/{m}/{}", dd.min(dim(y2, m)))
        }
        5 => format!("{y}/12/31"),
        _ => format!("{y}/1/1"),
    }
}

fn rand_bytes(rng: &mut Rng, n: usize) -> Vec<u8> {
    (0..n).map(|_| rng.below(256) as u8).collect()
}

fn gen_dates(rng: &mut Rng, max_span: i64) -> (Vec<String>, i32, i32) {
    let span = match rng.below(100) {
        0..=39 => 0,
        40..=69 => rng.range(1, 3),
        70..=89 => rng.range(4, 40),
        90..=97 => rng.range(41, 400),
        _ => rng.range(401.min(max_span), max_span),
    }
    .min(max_span);
    let base = match rng.below(10) {
        0 => MIN_Y as i64,
        1 => MAX_Y as i64 - span,
        2 => -span / 2, // straddles year 0
        3 => *rng.pick(&[1583i64, 1899, 1900, 1999, 2000, 2019, 2020, 2023, 2024, 2100]),
        4 => rng.range(-5000, 5000),
        5 => rng.range(1970, 2040),
        _ => rng.range(MIN_Y as i64, MAX_Y as i64 - span),
    };
    let base = clamp_y(base);
    let top = clamp_y(base as i64 + span);
    let many = rng.chance(1, 5);
    let n = 1 + rng.below(if many { 40 } else { 8 });
    let mut ds = Vec::new();
    for _ in 0..n {
        let y = match rng.below(5) {
            0 => base,
            1 => top,
            _ => rng.range(base as i64, top as i64) as i32,
        };
        ds.push(date_in(y, rng));
    }
    (ds, base, top)
}

fn query(rng: &mut Rng, pool: &[String], base: i32, top: i32) -> String {
    match rng.below(10) {
        0..=2 => rng.pick(pool).clone(),
        3..=5 => {
            let p = rng.pick(pool).clone();
            near(rng, &p)
        }
        6 => date_in(clamp_y(base as i64 - rng.range(1, 3)), rng),
        7 => date_in(clamp_y(top as i64 + rng.range(1, 3)), rng),
        8 => date_in(rng.range(MIN_Y as i64, MAX_Y as i64) as i32, rng),
        _ => date_in(rng.range(base as i64, top as i64) as i32, rng),
    }
}

fn gen_hist(rng: &mut Rng, max_span: i64) -> String {
    let (pool, base, top) = gen_dates(rng, max_span);
    let small = (top as i64 - base as i64) <= 40;
    let mut steps: Vec<String> = Vec::new();
    if rng.chance(1, 6) {
        // queries on the default calendar
        steps.push(format!("has:{}", query(rng, &pool, base, top)));
        steps.push(format!("after:{}", query(rng, &pool, base, top)));
        steps.push("count".into());
        steps.push("iter".into());
        steps.push("ser".into());
    }
    // a few histories never insert: the default calendar answers like the empty set
    let n = if rng.chance(1, 50) { 0 } else { pool.len() + rng.below(pool.len() as u64 + 3) as usize };
    for i in 0..n {
        // insertions in pool order first or at random (duplicates on purpose)
        let d = if i < pool.len() && rng.chance(3, 4) { pool[i].clone() } else { rng.pick(&pool).clone() };
        steps.push(format!("ins:{d}"));
        match rng.below(12) {
            0 | 1 => steps.push(format!("has:{}", query(rng, &pool, base, top))),
            2 | 3 | 4 => steps.push(format!("after:{}", query(rng, &pool, base, top))),
            5 => steps.push("count".into()),
            6 => steps.push("iter".into()),
            7 => steps.push(if small { "ser".into() } else { "serh".into() }),
            8 => {
                let k = rng.below(6) as usize;
                steps.push(format!("rt:{}", hex(&rand_bytes(rng, k))))
            }
            9 => steps.push(format!("yf:{}", query(rng, &pool, base, top))),
            _ => {}
        }
    }
    for _ in 0..rng.below(4) {
        steps.push(format!("has:{}", query(rng, &pool, base, top)));
        steps.push(format!("after:{}", query(rng, &pool, base, top)));
    }
    steps.push("count".into());
    steps.push("iter".into());
    steps.push(if small { "ser".into() } else { "serh".into() });
    let k = rng.below(4) as usize;
    steps.push(format!("rt:{}", hex(&rand_bytes(rng, k))));
    format!("cal.hist {}", steps.join(" "))
}

/// bytes of a calendar that insertions cannot build: arbitrary `first_year`, arbitrary masks
fn raw_bytes(rng: &mut Rng) -> Vec<u8> {
    let fy: i32 = match rng.below(10) {
        0 => i32::MIN,
        1 => i32::MAX,
        2 => i32::MAX - 1,
        3 => i32::MAX - 2,
        4 => MIN_Y - 1,
        5 => MAX_Y,
        6 => i32::MIN + 262142,
        _ => rng.range(1990, 2030) as i32,
    };
    let len = rng.below(4) as usize;
    let mut b = Vec::new();
    b.extend_from_slice(&fy.to_ne_bytes());
    b.extend_from_slice(&len.to_ne_bytes());
    for _ in 0..len {
        for _ in 0..12 {
            let m: u32 = match rng.below(8) {
                0 => 0x8000_0000,
                1 => 0xFFFF_FFFF,
                2 => 0x4000_0000,
                3 => rng.next() as u32,
                4 => 1 << rng.below(32),
                _ => 0,
            };
            b.extend_from_slice(&m.to_ne_bytes());
        }
    }
    b
}

fn gen_raw(rng: &mut Rng) -> String {
    let bytes = raw_bytes(rng);
    let mut fy = i32::from_ne_bytes(bytes[0..4].try_into().unwrap());
    let mut len = usize::from_ne_bytes(bytes[4..12].try_into().unwrap());
    let mut steps = vec![format!("de:{}", hex(&bytes))];
    let yq = |rng: &mut Rng, fy: i32| -> i32 {
        match rng.below(4) {
            0 => clamp_y(fy as i64 + rng.range(-1, 4)),
            1 => rng.range(MIN_Y as i64, MAX_Y as i64) as i32,
            2 => *rng.pick(&[MIN_Y, MAX_Y, 0, 2020]),
            _ => clamp_y(fy as i64),
        }
    };
    for _ in 0..(2 + rng.below(6)) {
        let y = yq(rng, fy);
        let d = date_in(y, rng);
        steps.push(match rng.below(8) {
            0 | 1 => format!("has:{d}"),
            2 | 3 => format!("after:{d}"),
            4 => "iter".into(),
            5 => "count".into(),
            // an insertion far from a non-empty raw window would allocate the whole gap
            6 if len == 0 || (y as i64 - fy as i64).abs() <= 3000 || (y as i64 - fy as i64) < i32::MIN as i64 => {
                if len == 0 {
                    fy = y; // first insertion into an empty window moves it
                }
                len += 1; // (at least) no longer empty
                format!("ins:{d}")
            }
            _ => format!("yf:{d}"),
        });
    }
    steps.push("iter".into());
    steps.push("count".into());
    steps.push(if steps.iter().any(|s| s.starts_with("ins:")) { "serh".into() } else { "ser".into() });
    format!("cal.hist {}", steps.join(" "))
}

fn shuffle<T>(rng: &mut Rng, v: &mut [T]) {
    for i in (1..v.len()).rev() {
        v.swap(i, rng.below(i as u64 + 1) as usize);
    }
}

fn gen_eq(rng: &mut Rng) -> String {
    let (pool, base, top) = gen_dates(rng, 300);
    let mut a = pool.clone();
    let mut b = pool.clone();
    // duplicates and another order do not matter
    for _ in 0..rng.below(3) {
        a.push(rng.pick(&pool).clone());
        b.push(rng.pick(&pool).clone());
    }
    shuffle(rng, &mut a);
    shuffle(rng, &mut b);
    match rng.below(6) {
        0 => {
            // maybe one more date, inside or next to the window (a far one would allocate the gap)
            let q = loop {
                let q = query(rng, &pool, base, top);
                let y = pdate(&q).expect("valid").year();
                if y >= base - 3 && y <= top + 3 {
                    break q;
                }
            };
            b.push(q);
        }
        1 => {
            let i = rng.below(b.len() as u64) as usize;
            b.remove(i); // maybe one date less (unless duplicated)
        }
        2 => {
            // a date in an empty year next to the window: same years, different window
            b.push(date_in(clamp_y(top as i64 + 1), rng));
        }
        3 => {
            a.clear(); // empty against non-empty, or both empty
            if rng.chance(1, 2) {
                b.clear();
            }
        }
        _ => {}
    }
    format!("cal.eq {} | {}", dl(&a), dl(&b))
}

fn gen_stream(rng: &mut Rng) -> String {
    let k = 1 + rng.below(4);
    let mut parts = Vec::new();
    for _ in 0..k {
        if rng.chance(1, 6) {
            parts.push("-".to_string()); // an empty calendar inside the stream
        } else {
            let (pool, _, _) = gen_dates(rng, 100);
            parts.push(pool.join(" "));
        }
    }
    let n = rng.below(9) as usize;
    let rest = hex(&rand_bytes(rng, n));
    let body = parts.join(" | ");
    format!("cal.stream {body} rest:{rest}")
}

fn gen_trunc(rng: &mut Rng) -> String {
    let (pool, base, top) = gen_dates(rng, 60);
    let len = 12 + 48 * (top as i64 - base as i64 + 1);
    let cut = match rng.below(6) {
        0 => 1,
        1 => len,
        2 => len - 11,
        3 => 48,
        4 => 47,
        _ => rng.range(1, len),
    };
    format!("cal.trunc {} cut:{cut}", pool.join(" "))
}

fn gen_de(rng: &mut Rng) -> String {
    let mut b = match rng.below(3) {
        0 => raw_bytes(rng),
        1 => {
            // a real serialization with one corrupted byte (often in the header)
            let (pool, _, _) = gen_dates(rng, 20);
            let refs: Vec<&str> = pool.iter().map(|s| s.as_str()).collect();
            let mut b = ser_cal(&build(&refs).unwrap().unwrap());
            let i = if rng.chance(2, 3) { rng.below(12) } else { rng.below(b.len() as u64) } as usize;
            b[i] ^= 1 << rng.below(8);
            b
        }
        _ => {
            let n = rng.below(70) as usize;
            rand_bytes(rng, n)
        }
    };
    match rng.below(4) {
        0 => {
            let n = rng.below(b.len() as u64 + 1) as usize;
            b.truncate(n)
        }
        1 => {
            let n = rng.below(50) as usize;
            b.extend(rand_bytes(rng, n))
        }
        _ => {}
    }
    format!("cal.de {}", hex(&b))
}

fn gen_months(thorough: bool, rng: &mut Rng, emit: &mut dyn FnMut(String)) {
    let mut masks: Vec<u32> = vec![
        0, 1, 2, 3, 0x4000_0000, 0x8000_0000, 0xC000_0000, 0xFFFF_FFFF, 0x7FFF_FFFF, 0x5555_5555, 0xAAAA_AAAA,
        0x8000_0001, 0x0FFF_FFFF, 0x1FFF_FFFF, 0x3FFF_FFFF,
    ];
    for i in 0..32 {
        masks.push(1 << i);
        masks.push(!(1u32 << i));
    }
    for _ in 0..(if thorough { 400 } else { 40 }) {
        masks.push(match rng.below(3) {
            0 => rng.next() as u32,
            1 => (rng.next() & rng.next()) as u32,
            _ => (1u32 << rng.below(32)) | (1u32 << rng.below(32)),
        });
    }
    for m in masks {
        // queries for every day, including the ones the assertions reject (0, 32, 33)
        let mut steps = vec!["first".to_string(), "count".into(), "iter".into(), "ser".into()];
        for d in 0..=33 {
            steps.push(format!("after:{d}"));
        }
        for d in 0..=33 {
            steps.push(format!("has:{d}"));
        }
        emit(format!("cal.month {m} {}", steps.join(" ")));
        for d in 0..=33 {
            emit(format!("cal.month {m} ins:{d} ser count iter first has:{d} ins:{d} ser"));
        }
    }
}

fn year_bytes(rng: &mut Rng) -> Vec<u8> {
    let mut b = Vec::new();
    let style = rng.below(4);
    for _ in 0..12 {
        let m: u32 = match style {
            0 => 0,
            1 => {
                if rng.chance(1, 4) {
                    1 << rng.below(32)
                } else {
                    0
                }
            }
            2 => (rng.next() & rng.next() & rng.next()) as u32,
            _ => match rng.below(5) {
                0 => 0xFFFF_FFFF,
                1 => 0x8000_0000,
                2 => 0x4000_0000,
                3 => 1,
                _ => 0,
            },
        };
        b.extend_from_slice(&m.to_ne_bytes());
    }
    b
}

fn gen_years(thorough: bool, rng: &mut Rng, emit: &mut dyn FnMut(String)) {
    for _ in 0..(if thorough { 3000 } else { 300 }) {
        let b = year_bytes(rng);
        let mut steps = vec!["first".to_string(), "count".into(), "iter".into()];
        let md = |rng: &mut Rng| -> String {
            let m = match rng.below(12) {
                0 => 0,
                1 => 13,
                2 => 12,
                3 => 1,
                _ => rng.range(1, 12),
            };
            let d = match rng.below(12) {
                0 => 0,
                1 => 32,
                2 => 31,
                3 => 1,
                4 => 30,
                _ => rng.range(1, 31),
            };
            format!("{m}/{d}")
        };
        for _ in 0..(3 + rng.below(8)) {
            let x = md(rng);
            steps.push(match rng.below(4) {
                0 => format!("has:{x}"),
                1 | 2 => format!("after:{x}"),
                _ => format!("ins:{x}"),
            });
        }
        steps.push("count".into());
        steps.push("iter".into());
        steps.push("first".into());
        steps.push("ser".into());
        emit(format!("cal.year {} {}", hex(&b), steps.join(" ")));
    }
    // first_after from every (month, boundary day) on a year with one day per month / only December
    let mut one = Vec::new();
    let mut dec = Vec::new();
    for i in 0..12u32 {
        one.extend_from_slice(&(1u32 << (2 * i)).to_ne_bytes());
        dec.extend_from_slice(&(if i == 11 { 0x4000_0000u32 } else { 0 }).to_ne_bytes());
    }
    for b in [one, dec] {
        let mut steps = Vec::new();
        for m in 0..=13 {
            for d in [0, 1, 2, 15, 30, 31, 32] {
                steps.push(format!("after:{m}/{d}"));
                steps.push(format!("has:{m}/{d}"));
            }
        }
        emit(format!("cal.year {} {}", hex(&b), steps.join(" ")));
    }
}

pub fn gen(tier: &str, rng: &mut Rng, emit: &mut dyn FnMut(String)) {
    let thorough = tier == "thorough";
    let (n_hist, max_span) = if thorough { (200_000, 3000) } else { (5_000, 2000) };
    // fixed seeds: the documented examples and the corner shapes
    for l in [
        "cal.hist has:2020/1/1 after:2020/1/1 count iter ser rt:x rt:xdeadbeef yf:2020/1/1",
        "cal.hist ins:2013/11/3 ins:2022/3/5 ins:2055/9/7 ins:2013/11/3 count iter after:2010/1/1 after:2022/3/5 after:2055/9/7 after:2060/1/1 serh",
        "cal.hist ins:2020/2/29 has:2020/2/29 has:2020/2/28 after:1999/12/31 after:2020/2/29 count iter ser rt:x00",
        "cal.hist ins:-262143/1/1 ins:-262143/1/1 ins:-262142/12/31 after:-262143/1/1 iter count ser",
        "cal.hist ins:262142/12/31 ins:262140/1/31 after:262142/12/30 after:262142/12/31 after:262141/6/6 iter ser",
        "cal.hist ins:1/1/1 ins:-1/12/31 ins:0/2/29 iter after:-1/12/31 after:0/2/29 after:0/12/31 has:0/2/29 ser",
        "cal.hist ins:2024/12/31 ins:2020/1/1 after:2020/1/1 after:2021/5/5 after:2024/12/30 after:2024/12/31 yf:2022/1/1 yf:2025/1/1 yf:2019/1/1 iter serh",
        "cal.eq 2020/1/1 2021/1/1 | 2021/1/1 2020/1/1 2020/1/1",
        "cal.eq - | -",
        "cal.eq 2020/1/1 | -",
        "cal.stream 2020/1/1 | - | 1999/12/31 2001/2/28 rest:x0102",
        "cal.trunc 2020/1/1 cut:1",
        "cal.de x",
        "cal.de xe4070000",
        "cal.de xe40700000000000000000000",
        "cal.de xe4070000ffffffffffffffff",
        "cal.hist de:xffffff7f0100000000000000010000000000000000000000000000000000000000000000000000000000000000000000000000000000000000000000 iter count has:2020/1/1 after:2020/1/1",
        "cal.hist de:xe40700000100000000000000000000800000000000000000000000000000000000000000000000000000000000000000000000000000000000000000 iter count after:2019/1/1 after:2020/1/1 has:2020/1/31",
    ] {
        emit(l.to_string());
    }
    for i in 0..n_hist {
        if i % 20 == 19 {
            emit(gen_raw(rng));
        } else {
            emit(gen_hist(rng, max_span));
        }
    }
    let k = if thorough { 20_000 } else { 1_000 };
    for _ in 0..k {
        emit(gen_eq(rng));
    }
    for _ in 0..k / 2 {
        emit(gen_stream(rng));
    }
    for _ in 0..k / 2 {
        emit(gen_trunc(rng));
    }
    for _ in 0..k {
        emit(gen_de(rng));
    }
    gen_months(thorough, rng, emit);
    gen_years(thorough, rng, emit);
}
