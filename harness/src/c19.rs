//! Suite `c19` (ops `et.*`) — C19 ExtendedTime.  Exhaustive over the finite domains the property names.
use crate::util::{catch, Rng};
use chrono::NaiveTime;
use opening_hours_syntax::ExtendedTime;
use std::convert::TryInto;

fn show(t: Option<ExtendedTime>) -> String {
    match t {
        None => "none".into(),
        Some(t) => format!("some {} {}", t.hour(), t.minute()),
    }
}

fn r<T>(x: Result<T, String>, f: impl FnOnce(T) -> String) -> String {
    match x {
        Ok(v) => f(v),
        Err(p) => p,
    }
}

fn et(h: &str, m: &str) -> Option<ExtendedTime> {
    ExtendedTime::new(h.parse().ok()?, m.parse().ok()?)
}

/// Execute one operation on the real code; `None` = not an op of this suite / malformed.
pub fn exec(op: &str, a: &[&str]) -> Option<String> {
    Some(match (op, a) {
        ("et.new", [h, m]) => {
            let (h, m): (u8, u8) = (h.parse().ok()?, m.parse().ok()?);
            r(catch(|| ExtendedTime::new(h, m)), show)
        }
        ("et.frommins", [n]) => {
            let n: u16 = n.parse().ok()?;
            r(catch(|| ExtendedTime::from_mins_from_midnight(n)), show)
        }
        ("et.mins", [h, m]) => {
            let t = et(h, m)?;
            r(catch(|| t.mins_from_midnight()), |x| x.to_string())
        }
        ("et.disp", [h, m]) => {
            let t = et(h, m)?;
            r(catch(|| format!("{t}")), |x| x)
        }
        ("et.naive", [h, m]) => {
            let t = et(h, m)?;
            let nt: Result<Result<NaiveTime, ()>, String> = catch(|| t.try_into());
            r(nt, |x| match x {
                Ok(nt) => {
                    use chrono::Timelike;
                    format!("some {}", nt.num_seconds_from_midnight())
                }
                Err(()) => "none".into(),
            })
        }
        ("et.addh", [h, m, d]) => {
            let t = et(h, m)?;
            let d: i8 = d.parse().ok()?;
            r(catch(|| t.add_hours(d)), show)
        }
        ("et.addm", [h, m, d]) => {
            let t = et(h, m)?;
            let d: i16 = d.parse().ok()?;
            r(catch(|| t.add_minutes(d)), show)
        }
        ("et.fromnaive", [s]) => {
            let s: u32 = s.parse().ok()?;
            let nt = NaiveTime::from_num_seconds_from_midnight_opt(s, 0)?;
            r(catch(|| ExtendedTime::from(nt)), |t| format!("{} {}", t.hour(), t.minute()))
        }
        ("et.cmp", [h1, m1, h2, m2]) => {
            let (a, b) = (et(h1, m1)?, et(h2, m2)?);
            r(
                catch(|| {
                    let c = match a.cmp(&b) {
                        std::cmp::Ordering::Less => "lt",
                        std::cmp::Ordering::Equal => "eq",
                        std::cmp::Ordering::Greater => "gt",
                    };
                    // derived PartialOrd / Ord / PartialEq must be coherent
                    let coherent = (a < b) == (c == "lt")
                        && (a == b) == (c == "eq")
                        && (a > b) == (c == "gt")
                        && (a <= b) == (c != "gt")
                        && (a >= b) == (c != "lt");
                    if coherent { c } else { "incoherent" }.to_string()
                }),
                |x| x,
            )
        }
        _ => return None,
    })
}

pub fn gen(tier: &str, rng: &mut Rng, emit: &mut dyn FnMut(String)) {
    let thorough = tier == "thorough";
    let mut valid = Vec::new();
    // all (u8, u8)
    for h in 0..=255u8 {
        for m in 0..=255u8 {
            if let Some(t) = ExtendedTime::new(h, m) {
                valid.push(t);
            }
            emit(format!("et.new {h} {m}"));
        }
    }
    // all u16
    for n in 0..=u16::MAX {
        emit(format!("et.frommins {n}"));
    }
    // every valid value: minutes, display, clock conversion, add_hours over all i8
    for &t in &valid {
        let (h, m) = (t.hour(), t.minute());
        emit(format!("et.mins {h} {m}"));
        emit(format!("et.disp {h} {m}"));
        emit(format!("et.naive {h} {m}"));
        for d in i8::MIN..=i8::MAX {
            emit(format!("et.addh {h} {m} {d}"));
        }
    }
    // clock time -> extended time
    for s in (0..86400u32).step_by(if thorough { 1 } else { 7 }) {
        emit(format!("et.fromnaive {s}"));
    }
    // order: all pairs of a boundary-biased subset
    let step = if thorough { 3 } else { 29 };
    let sub: Vec<_> = valid
        .iter()
        .copied()
        .enumerate()
        .filter(|(i, t)| i % step == 0 || t.minute() == 0 || t.minute() == 59)
        .map(|x| x.1)
        .collect();
    for &a in &sub {
        for &b in &sub {
            emit(format!("et.cmp {} {} {} {}", a.hour(), a.minute(), b.hour(), b.minute()));
        }
    }
    // add_minutes: every value x a set of offsets
    let mut offs: Vec<i16> = vec![
        i16::MIN, i16::MIN + 1, -2881, -2880, -2879, -1441, -1440, -1439, -61, -60, -59, -1, 0, 1, 59, 60, 61, 1439,
        1440, 1441, 2879, 2880, 2881, i16::MAX - 1, i16::MAX,
    ];
    for _ in 0..(if thorough { 575 } else { 275 }) {
        offs.push(if rng.chance(2, 3) {
            rng.range(-3000, 3000) as i16
        } else {
            rng.range(i16::MIN as i64, i16::MAX as i64) as i16
        });
    }
    for &t in &valid {
        for &d in &offs {
            emit(format!("et.addm {} {} {d}", t.hour(), t.minute()));
        }
    }
    if thorough {
        // all values x all i16, in-harness against the closed form proved for the model
        // (C19.addMinutes_spec); only mismatches are sent on — they then fail in the driver too
        let mut n = 0u64;
        for &t in &valid {
            for d in i16::MIN..=i16::MAX {
                n += 1;
                let got = catch(|| t.add_minutes(d));
                let s = t.mins_from_midnight() as i32 + d as i32;
                let exp = if (0..=2880).contains(&s) {
                    ExtendedTime::new((s / 60) as u8, (s % 60) as u8)
                } else {
                    None
                };
                if got.as_ref().ok() != Some(&exp) {
                    emit(format!("et.addm {} {} {d}", t.hour(), t.minute()));
                }
            }
        }
        emit(format!("#note et.addm checked in-harness against the closed form for all values x all i16: {n} cases"));
    }
}
