//! Dump of the parsed AST (public fields only) and of evaluation contexts in the prefix token
//! encoding documented in lean/OH/Driver/Ast.lean.
use crate::util::enc;
use chrono::{Datelike, NaiveDate, NaiveDateTime, Timelike};
use opening_hours_syntax::rules::day::{
    Date, DateOffset, DaySelector, HolidayKind, MonthdayRange, WeekDayOffset, WeekDayRange,
};
use opening_hours_syntax::rules::time::{Time, TimeEvent, TimeSpan};
use opening_hours_syntax::rules::{OpeningHoursExpression, RuleKind, RuleOperator, RuleSequence};

pub fn kind_tok(k: RuleKind) -> &'static str {
    match k {
        RuleKind::Open => "o",
        RuleKind::Closed => "c",
        RuleKind::Unknown => "u",
    }
}

fn opt<T: std::fmt::Display>(x: Option<T>) -> String {
    x.map(|v| v.to_string()).unwrap_or_else(|| "-".into())
}

fn date(out: &mut Vec<String>, d: &Date) {
    match d {
        Date::Fixed { year, month, day } => {
            out.push("f".into());
            out.push(opt(*year));
            out.push((*month as u8).to_string());
            out.push(day.to_string());
        }
        Date::Easter { year } => {
            out.push("e".into());
            out.push(opt(*year));
        }
    }
}

fn offset(out: &mut Vec<String>, o: &DateOffset) {
    out.push(match o.wday_offset {
        WeekDayOffset::None => "n".into(),
        WeekDayOffset::Next(w) => format!("+{}", w.num_days_from_monday()),
        WeekDayOffset::Prev(w) => format!("-{}", w.num_days_from_monday()),
    });
    out.push(o.day_offset.to_string());
}

fn bits(b: &[bool; 5]) -> String {
    b.iter().map(|x| if *x { '1' } else { '0' }).collect()
}

fn day_selector(out: &mut Vec<String>, ds: &DaySelector) {
    out.push("Y".into());
    out.push(ds.year.len().to_string());
    for y in &ds.year {
        out.push(y.range.start().0.to_string());
        out.push(y.range.end().0.to_string());
        out.push(y.step.to_string());
    }
    out.push("M".into());
    out.push(ds.monthday.len().to_string());
    for m in &ds.monthday {
        match m {
            MonthdayRange::Month { range, year } => {
                out.push("m".into());
                out.push((*range.start() as u8).to_string());
                out.push((*range.end() as u8).to_string());
                out.push(opt(*year));
            }
            MonthdayRange::Date { start, end } => {
                out.push("d".into());
                date(out, &start.0);
                offset(out, &start.1);
                date(out, &end.0);
                offset(out, &end.1);
            }
        }
    }
    out.push("W".into());
    out.push(ds.week.len().to_string());
    for w in &ds.week {
        out.push(w.range.start().0.to_string());
        out.push(w.range.end().0.to_string());
        out.push(w.step.to_string());
    }
    out.push("D".into());
    out.push(ds.weekday.len().to_string());
    for w in &ds.weekday {
        match w {
            WeekDayRange::Fixed { range, offset, nth_from_start, nth_from_end } => {
                out.push("f".into());
                out.push(range.start().num_days_from_monday().to_string());
                out.push(range.end().num_days_from_monday().to_string());
                out.push(offset.to_string());
                out.push(bits(nth_from_start));
                out.push(bits(nth_from_end));
            }
            WeekDayRange::Holiday { kind, offset } => {
                out.push("h".into());
                out.push(match kind {
                    HolidayKind::Public => "p".into(),
                    HolidayKind::School => "s".into(),
                });
                out.push(offset.to_string());
            }
        }
    }
}

pub fn event_tok(e: TimeEvent) -> &'static str {
    e.as_str()
}

fn time(out: &mut Vec<String>, t: &Time) {
    match t {
        Time::Fixed(x) => {
            out.push("x".into());
            out.push(x.mins_from_midnight().to_string());
        }
        Time::Variable(v) => {
            out.push("v".into());
            out.push(event_tok(v.event).into());
            out.push(v.offset.to_string());
        }
    }
}

fn span(out: &mut Vec<String>, s: &TimeSpan) {
    time(out, &s.range.start);
    time(out, &s.range.end);
    out.push(if s.open_end { "1" } else { "0" }.into());
    out.push(opt(s.repeats.map(|d| d.num_minutes())));
}

fn rule(out: &mut Vec<String>, r: &RuleSequence) {
    out.push("R".into());
    out.push(
        match r.operator {
            RuleOperator::Normal => "n",
            RuleOperator::Additional => "a",
            RuleOperator::Fallback => "f",
        }
        .into(),
    );
    out.push(kind_tok(r.kind).into());
    out.push(r.comments.len().to_string());
    for c in r.comments.iter() {
        out.push(enc(c));
    }
    day_selector(out, &r.day_selector);
    out.push("T".into());
    out.push(r.time_selector.time.len().to_string());
    for s in &r.time_selector.time {
        span(out, s);
    }
}

pub fn expr(e: &OpeningHoursExpression) -> String {
    let mut out = vec!["E".to_string(), e.rules.len().to_string()];
    for r in &e.rules {
        rule(&mut out, r);
    }
    out.join(" ")
}

pub fn day_num(d: NaiveDate) -> i64 {
    d.num_days_from_ce() as i64
}

pub fn date_of(n: i64) -> Option<NaiveDate> {
    NaiveDate::from_num_days_from_ce_opt(i32::try_from(n).ok()?)
}

pub fn instant(dt: NaiveDateTime) -> String {
    let ns = dt.time().num_seconds_from_midnight() as u64 * 1_000_000_000 + dt.time().nanosecond() as u64;
    format!("{}:{}", day_num(dt.date()), ns)
}

pub fn parse_instant(s: &str) -> Option<NaiveDateTime> {
    let (d, n) = s.split_once(':')?;
    let date = date_of(d.parse().ok()?)?;
    let n: u64 = n.parse().ok()?;
    let t = chrono::NaiveTime::from_num_seconds_from_midnight_opt((n / 1_000_000_000) as u32, (n % 1_000_000_000) as u32)?;
    Some(NaiveDateTime::new(date, t))
}
