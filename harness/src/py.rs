//! Suite `py` — the Rust-core side of property C12 (Python bindings return what the core returns).
//!
//! The SAME operation lines are executed by CPython on the extension module (`py/pydrive.py`) and
//! here on the Rust core "with the equivalent context"; `py/run_py_suite.py` joins both outputs as
//! `<op line> => <python tokens> || <rust tokens> ## <facts>` for the Lean driver (`OH.Driver.Py`).
//!
//! Operation lines (`<ctor>` = six tokens `<oh> <tz> <country> <coords> <auto_country> <auto_timezone>`):
//!   py.ctor      <ctor>
//!   py.validate  <oh>
//!   py.valctor   <oh>                        validate(oh) next to OpeningHours(oh)
//!   py.state     <ctor> <dt>                 state / is_open / is_closed / is_unknown
//!   py.next      <ctor> <dt>                 next_change
//!   py.intervals <ctor> <start> <end> <cap>  first `cap` items of intervals(start, end)
//!   py.str       <ctor>                      str(x)
//!   py.repr      <ctor>                      repr(x), and str(eval(repr(x))) == str(x)
//!   py.normalize <ctor> <dt>                 str(x.normalize()), x.normalize().next_change(dt)
//!   py.eq        <ctor>                      x == x, x == OpeningHours(same args), hashes
//!   py.enum                                  str / order / equality / hash of State.OPEN, CLOSED, UNKNOWN
//! tokens:
//!   <oh>       percent-encoded expression
//!   <tz>       `-` | `Z:<IANA name>` (zoneinfo.ZoneInfo) | `F:<seconds>` (datetime.timezone) | `U` (timezone.utc) | `S:<enc>` (a str)
//!   <country>  `-` | `=<enc>`
//!   <coords>   `-` | `b:<lat bits>,<lon bits>` (IEEE-754 bit patterns, 16 hex digits) | `i:<int>,<int>` (Python ints)
//!   flags      `d` (argument omitted) | `-` (None) | `1` | `0`
//!   <dt>       `-` (omitted: now) | `N:<day>:<ns>` naive | `A:<zone>:<fold>:<day>:<ns>` aware (ZoneInfo, wall-clock
//!              reading + fold) | `F:<seconds>:<day>:<ns>` aware with a fixed-offset `datetime.timezone` | `U:<day>:<ns>`
//!              aware with `timezone.utc`;  `<day>:<ns>` as everywhere (`ast::instant`), ns a multiple of 1000
//! result tokens (both sides):
//!   `E <ctor|call|iter:k> <exception class>`   (this side prints `panic:<site>` for a Rust panic)
//!   `R …` with date-times as `N:<day>:<ns>` | `A:<zone>:<wall day>:<wall ns>:<utc offset s>` | `none`
//! facts (this side only, after `##`): what the real core returned for every abstract operation of the
//! model (`OH.Model.Py.Core`), so that the Lean driver can run the binding model on them:
//!   `P:<1|0|panic:site>` parse, `C:<1|0|->` country known, `X:<1|0|->` Coordinates::new, `AZ:<zone|->`
//!   zone at the coordinates, `K:<hol>;<loc>` the equivalent context built here, `D:<enc>` / `ND:<enc>` Display of
//!   the expression / of its normal form, `DQ:<enc>` that string as a double quoted Python literal (the binding's `python_quoted`, mirrored here), `in0=` / `in1=` the inputs as chrono sees them (`N:<day>:<ns>`,
//!   `A:<zone>:<utc day>:<utc ns>`, `conv`, `now:<day>:<ns>`), `Tn:<zone>:<utc>:<naive>` naive_local,
//!   `Td:<zone>:<naive>:<utc|panic>` Localize::datetime, then ONE stream fact, the items of
//!   `iter_range_naive(from, to)` as far as the call pulls them (`<iv>` = `<start> <end> <kind> <k> <comment>*`):
//!     `F <from> <to> <all|cut|panic:site> <n> <iv>*`   py.state / py.next / py.normalize: the lazily pulled prefix.
//!         state: the first item.  next_change (generic `iter_range` of /repo dfe1ade: filter
//!         `naive(datetime(start)) < end`, merge same-kind neighbours with `curr.end <= next.start`, map): every
//!         item up to and including the first KEPT one that is not merged into the head (`next_if` peeks it).
//!         `all` = the stream ended there, `cut` = it was not pulled further, `panic:…` = the next pull panicked.
//!     `L <from> <to> <all|cut|panic:site> <n> <iv>*`   py.intervals: the items that make up the first `cap`
//!         LOCALIZED ranges (dropped and merged ones included); `cut` = a further localized range exists (its
//!         first kept item is NOT listed), `all` = the stream ended.
//!   For a context with a zone every listed item comes with `Td` of its start and end (the filter needs
//!   `Td` + `Tn` of the start, the mapped bounds are among them).  The stream is obtained through the public
//!   `iter_range` of an identity locale (`NoLocation` / `Wall`): its filter keeps every non-empty range and its
//!   merge is idle on a stream without same-kind neighbours, which is what `TimeDomainIterator` produces
//!   (`consume_until_next_kind`) — `iter_range_naive` itself is private.
use crate::ast;
use crate::ev;
use crate::gen_expr;
use crate::tztable;
use crate::util::{catch, enc, Rng};
use chrono::{DateTime, Duration, LocalResult, NaiveDate, NaiveDateTime, NaiveTime, Offset, TimeZone};
use chrono_tz::Tz;
use opening_hours::localization::{Coordinates, Country, Localize, NoLocation, TzLocation};
use opening_hours::{Context, ContextHolidays, DateTimeRange, OpeningHours, DATE_END};
use opening_hours_syntax::rules::time::TimeEvent;
use opening_hours_syntax::rules::RuleKind;
use std::collections::HashSet;

// ------------------------------------------------------------------------------------------
// the place read on its wall clock: what a naive Python input means for an aware context

#[derive(Clone)]
struct Wall<L: Localize>(L);

impl<L: Localize> Localize for Wall<L> {
    type DateTime = NaiveDateTime;
    fn naive(&self, dt: NaiveDateTime) -> NaiveDateTime {
        dt
    }
    fn datetime(&self, naive: NaiveDateTime) -> NaiveDateTime {
        naive
    }
    fn event_time(&self, date: NaiveDate, event: TimeEvent) -> NaiveTime {
        self.0.event_time(date, event)
    }
}

/// The binding's own locale for a context with a zone (`PyLocation::Aware` in
/// opening-hours-py/src/types/location.rs, mirrored line for line): a NAIVE value is a wall-clock time of the
/// context zone, results are aware.  Since the generic `iter_range` compares `naive(datetime(start))` with
/// the end of each range (spans skipped by a clock change are dropped, fix dfe1ade), the core context
/// equivalent to the binding's is this one, not "evaluate on the wall clock, attach the zone afterwards".
#[derive(Clone)]
struct PyLoc(TzLocation<Tz>);

#[derive(Clone)]
enum MaybeAware {
    Naive(NaiveDateTime),
    Aware(DateTime<Tz>),
}

impl std::ops::Add<Duration> for MaybeAware {
    type Output = MaybeAware;
    fn add(self, rhs: Duration) -> MaybeAware {
        match self {
            MaybeAware::Naive(d) => MaybeAware::Naive(d + rhs),
            MaybeAware::Aware(d) => MaybeAware::Aware(d + rhs),
        }
    }
}

impl Localize for PyLoc {
    type DateTime = MaybeAware;
    fn naive(&self, dt: MaybeAware) -> NaiveDateTime {
        match dt {
            MaybeAware::Naive(d) => d,
            MaybeAware::Aware(d) => self.0.naive(d),
        }
    }
    fn datetime(&self, naive: NaiveDateTime) -> MaybeAware {
        MaybeAware::Aware(self.0.datetime(naive))
    }
    fn event_time(&self, date: NaiveDate, event: TimeEvent) -> NaiveTime {
        self.0.event_time(date, event)
    }
}

fn aware_of(m: MaybeAware, l: &TzLocation<Tz>) -> DateTime<Tz> {
    match m {
        MaybeAware::Aware(d) => d,
        MaybeAware::Naive(d) => l.datetime(d),
    }
}

// ------------------------------------------------------------------------------------------
// arguments

#[derive(Clone, Copy, PartialEq)]
enum Flag {
    Omitted,
    None,
    True,
    False,
}

impl Flag {
    fn parse(s: &str) -> Option<Flag> {
        Some(match s {
            "d" => Flag::Omitted,
            "-" => Flag::None,
            "1" => Flag::True,
            "0" => Flag::False,
            _ => return None,
        })
    }
    /// the documented meaning: only an explicit `False` switches the inference off
    fn off(self) -> bool {
        self == Flag::False
    }
}

enum TzArg {
    None,
    Zone(Tz),
    /// not a `zoneinfo.ZoneInfo` chrono-tz knows: PyO3 refuses the argument (TypeError)
    Bad,
}

struct Ctor {
    oh: String,
    tz: TzArg,
    country: Option<String>,
    coords: Option<(f64, f64)>,
    ac: Flag,
    at: Flag,
}

fn parse_bits(s: &str) -> Option<f64> {
    Some(f64::from_bits(u64::from_str_radix(s, 16).ok()?))
}

fn parse_ctor(a: &[&str]) -> Option<Ctor> {
    if a.len() < 6 {
        return None;
    }
    let oh = ev::dec(a[0])?;
    let tz = match a[1] {
        "-" => TzArg::None,
        "U" => TzArg::Bad,
        s if s.starts_with("F:") || s.starts_with("S:") => TzArg::Bad,
        s => match s.strip_prefix("Z:")?.parse::<Tz>() {
            Ok(z) => TzArg::Zone(z),
            Err(_) => TzArg::Bad,
        },
    };
    let country = match a[2] {
        "-" => None,
        s => Some(ev::dec(s.strip_prefix('=')?)?),
    };
    let coords = match a[3] {
        "-" => None,
        s => {
            if let Some(b) = s.strip_prefix("b:") {
                let (x, y) = b.split_once(',')?;
                Some((parse_bits(x)?, parse_bits(y)?))
            } else {
                let (x, y) = s.strip_prefix("i:")?.split_once(',')?;
                Some((x.parse::<i64>().ok()? as f64, y.parse::<i64>().ok()? as f64))
            }
        }
    };
    Some(Ctor { oh, tz, country, coords, ac: Flag::parse(a[4])?, at: Flag::parse(a[5])? })
}

/// a date-time argument as chrono receives it
#[derive(Clone)]
enum In {
    Naive(NaiveDateTime),
    Aware(DateTime<Tz>),
    /// PyO3 refuses it (no `key` on the tzinfo, unknown zone, wall-clock time in a gap): TypeError
    Conv,
    Now(NaiveDateTime),
}

fn parse_dt(s: &str) -> Option<In> {
    if s == "-" {
        return Some(In::Now(chrono::Local::now().naive_local()));
    }
    let (k, rest) = s.split_once(':')?;
    match k {
        "N" => Some(In::Naive(ast::parse_instant(rest)?)),
        "U" => {
            ast::parse_instant(rest)?;
            Some(In::Conv)
        }
        "F" => {
            let (_, r) = rest.split_once(':')?;
            ast::parse_instant(r)?;
            Some(In::Conv)
        }
        "A" => {
            let mut it = rest.splitn(3, ':');
            let zone = it.next()?;
            let fold: u8 = it.next()?.parse().ok()?;
            let n = ast::parse_instant(it.next()?)?;
            let Ok(tz) = zone.parse::<Tz>() else { return Some(In::Conv) };
            // the reading of PEP 495 on chrono's `LocalResult`
            Some(match tz.from_local_datetime(&n) {
                LocalResult::Single(x) => In::Aware(x),
                LocalResult::Ambiguous(e, l) => In::Aware(if fold > 0 { l } else { e }),
                LocalResult::None => In::Conv,
            })
        }
        _ => None,
    }
}

impl In {
    fn zone(&self) -> Option<Tz> {
        match self {
            In::Aware(a) => Some(a.timezone()),
            _ => None,
        }
    }
    fn fact(&self) -> String {
        match self {
            In::Naive(n) => format!("N:{}", ast::instant(*n)),
            In::Aware(a) => format!("A:{}:{}", a.timezone().name(), ast::instant(a.naive_utc())),
            In::Conv => "conv".into(),
            In::Now(n) => format!("now:{}", ast::instant(*n)),
        }
    }
}

// ------------------------------------------------------------------------------------------
// results

enum Out {
    Naive(NaiveDateTime),
    Aware(DateTime<Tz>),
}

fn show_out(o: &Out) -> String {
    match o {
        Out::Naive(n) => format!("N:{}", ast::instant(*n)),
        Out::Aware(a) => format!("A:{}:{}:{}", a.timezone().name(), ast::instant(a.naive_local()), a.offset().fix().local_minus_utc()),
    }
}

fn show_opt(o: &Option<Out>) -> String {
    match o {
        None => "none".into(),
        Some(o) => show_out(o),
    }
}

fn show_iv(r: &DateTimeRange<NaiveDateTime>) -> String {
    let mut out = vec![ast::instant(r.range.start), ast::instant(r.range.end), ast::kind_tok(r.kind).to_string(), r.comments.len().to_string()];
    out.extend(r.comments.iter().map(|c| enc(c)));
    out.join(" ")
}

fn state_toks(k: RuleKind) -> String {
    // state, then is_open / is_closed / is_unknown
    format!("{} {}{}{}", ast::kind_tok(k), (k == RuleKind::Open) as u8, (k == RuleKind::Closed) as u8, (k == RuleKind::Unknown) as u8)
}

// ------------------------------------------------------------------------------------------
// facts: every conversion chrono-tz is asked for is recorded

struct Facts {
    head: Vec<String>,
    seen: HashSet<String>,
    tail: Option<String>,
}

impl Facts {
    fn new() -> Self {
        Facts { head: vec![], seen: HashSet::new(), tail: None }
    }
    fn push(&mut self, s: String) {
        if self.seen.insert(s.clone()) {
            self.head.push(s);
        }
    }
    /// `dt.with_timezone(&z).naive_local()` of the absolute instant `u` (UTC reading)
    fn tn(&mut self, z: Tz, u: NaiveDateTime) -> NaiveDateTime {
        let n = z.from_utc_datetime(&u).naive_local();
        self.push(format!("Tn:{}:{}:{}", z.name(), ast::instant(u), ast::instant(n)));
        n
    }
    /// `TzLocation::new(z).datetime(n)`
    fn td(&mut self, z: Tz, n: NaiveDateTime) -> Option<DateTime<Tz>> {
        match catch(|| TzLocation::new(z).datetime(n)) {
            Ok(d) => {
                self.push(format!("Td:{}:{}:{}", z.name(), ast::instant(n), ast::instant(d.naive_utc())));
                self.tn(z, d.naive_utc());
                Some(d)
            }
            Err(p) => {
                self.push(format!("Td:{}:{}:{}", z.name(), ast::instant(n), p));
                None
            }
        }
    }
    fn finish(self) -> String {
        let mut s = self.head.join(" ");
        if let Some(t) = self.tail {
            if !s.is_empty() {
                s.push(' ');
            }
            s.push_str(&t);
        }
        s
    }
}

// ------------------------------------------------------------------------------------------
// the equivalent context (the property's description, written against the core's public API)

struct Built {
    oh: OpeningHours,
    hol: ContextHolidays,
    loc: Option<TzLocation<Tz>>,
    kdesc: String,
}

enum CtorOut {
    Ok(Built),
    /// exception class (or `panic:<site>`)
    Err(String),
}

fn build(c: &Ctor, f: &mut Facts) -> CtorOut {
    // facts first: each stage on its own, whatever the others say
    let coords_chk: Option<Option<Coordinates>> = c.coords.map(|(la, lo)| Coordinates::new(la, lo));
    f.push(format!("X:{}", match coords_chk { None => "-", Some(None) => "0", Some(Some(_)) => "1" }));
    let parsed = catch(|| OpeningHours::parse(&c.oh));
    f.push(format!("P:{}", match &parsed { Err(p) => p.clone(), Ok(Err(_)) => "0".into(), Ok(Ok(_)) => "1".into() }));
    let country: Option<Result<Country, _>> = c.country.as_ref().map(|s| s.parse::<Country>());
    f.push(format!("C:{}", match &country { None => "-", Some(Err(_)) => "0", Some(Ok(_)) => "1" }));
    if matches!(c.tz, TzArg::Bad) {
        // PyO3 refuses the argument before the constructor body runs
        return CtorOut::Err("TypeError".into());
    }
    // "Invalid expressions, country codes and coordinates raise ParserError, UnknownCountryError and
    //  InvalidCoordinatesError": coordinates are looked at first, then the expression, then the country
    let coords = match coords_chk {
        Some(None) => return CtorOut::Err("InvalidCoordinatesError".into()),
        Some(Some(x)) => Some(x),
        None => None,
    };
    if let Some(x) = coords {
        let az = catch(|| *TzLocation::from_coords(x).get_timezone());
        f.push(format!("AZ:{}", match &az { Ok(z) => z.name().to_string(), Err(p) => p.clone() }));
    } else {
        f.push("AZ:-".into());
    }
    let oh = match parsed {
        Err(p) => return CtorOut::Err(p),
        Ok(Err(_)) => return CtorOut::Err("ParserError".into()),
        Ok(Ok(x)) => x,
    };
    f.push(format!("D:{}", enc(&oh.to_string())));
    let country = match country {
        Some(Err(_)) => return CtorOut::Err("UnknownCountryError".into()),
        Some(Ok(x)) => Some(x),
        None => None,
    };
    // holidays: the given country's; else those of the country at the coordinates unless auto_country=False
    let (hol, hdesc) = match (country, coords) {
        (Some(cc), _) => (cc.holidays(), format!("country:{}", c.country.as_ref().unwrap())),
        (None, Some(x)) if !c.ac.off() => match catch(|| Context::from_coords(x).holidays) {
            Ok(h) => (h, "coords".to_string()),
            Err(p) => return CtorOut::Err(p),
        },
        _ => (ContextHolidays::default(), "none".to_string()),
    };
    // locale: the given zone (with the coordinates unless auto_timezone=False); else the zone at the
    // coordinates unless auto_timezone=False; else none
    let (loc, ldesc) = match (&c.tz, coords) {
        (TzArg::Zone(z), Some(x)) if !c.at.off() => (Some(TzLocation::new(*z).with_coords(x)), format!("tzc:{}", z.name())),
        (TzArg::Zone(z), _) => (Some(TzLocation::new(*z)), format!("tz:{}", z.name())),
        (_, Some(x)) if !c.at.off() => match catch(|| TzLocation::from_coords(x)) {
            Ok(l) => {
                let d = format!("auto:{}", l.get_timezone().name());
                (Some(l), d)
            }
            Err(p) => return CtorOut::Err(p),
        },
        _ => (None, "naive".to_string()),
    };
    let kdesc = format!("{hdesc};{ldesc}");
    CtorOut::Ok(Built { oh, hol, loc, kdesc })
}

impl Built {
    fn zone(&self) -> Option<Tz> {
        self.loc.as_ref().map(|l| *l.get_timezone())
    }
    fn nl(&self) -> OpeningHours<NoLocation> {
        self.oh.clone().with_context(Context::default().with_holidays(self.hol.clone()))
    }
    fn tz(&self, l: &TzLocation<Tz>) -> OpeningHours<TzLocation<Tz>> {
        self.oh.clone().with_context(Context::default().with_holidays(self.hol.clone()).with_locale(l.clone()))
    }
    fn pyloc(&self, l: &TzLocation<Tz>) -> OpeningHours<PyLoc> {
        self.oh.clone().with_context(Context::default().with_holidays(self.hol.clone()).with_locale(PyLoc(l.clone())))
    }
    fn wall(&self, l: &TzLocation<Tz>) -> OpeningHours<Wall<TzLocation<Tz>>> {
        self.oh.clone().with_context(Context::default().with_holidays(self.hol.clone()).with_locale(Wall(l.clone())))
    }
    /// `iter_range_naive(from, to)` of this context (through the public `iter_range` of a wall-clock locale)
    fn naive_iter(&self, from: NaiveDateTime, to: NaiveDateTime) -> Box<dyn Iterator<Item = DateTimeRange<NaiveDateTime>>> {
        match &self.loc {
            None => Box::new(self.nl().iter_range(from, to)),
            Some(l) => Box::new(self.wall(l).iter_range(from, to)),
        }
    }
    fn normalized(&self) -> Built {
        Built { oh: self.oh.normalize(), hol: self.hol.clone(), loc: self.loc.clone(), kdesc: self.kdesc.clone() }
    }
}

/// the wall-clock time that is evaluated (and the `Tn` facts the model asks for)
fn wall_of(b: &Built, i: &In, f: &mut Facts) -> Option<NaiveDateTime> {
    match i {
        In::Naive(n) | In::Now(n) => Some(*n),
        In::Aware(a) => Some(match b.zone() {
            Some(z) => f.tn(z, a.naive_utc()),
            None => f.tn(a.timezone(), a.naive_utc()),
        }),
        In::Conv => None,
    }
}

/// attach the zone a result carries: the context's, else `other`, else none
fn attach(b: &Built, other: Option<Tz>, n: NaiveDateTime, f: &mut Facts) -> Result<Out, String> {
    match b.zone().or(other) {
        None => Ok(Out::Naive(n)),
        Some(z) => f.td(z, n).map(Out::Aware).ok_or_else(|| "panic:localize.rs".to_string()),
    }
}

fn min_end(n: NaiveDateTime) -> NaiveDateTime {
    std::cmp::min(DATE_END, n)
}

/// upper bound of an open-ended window as the generic code computes it:
/// `locale.naive(locale.datetime(DATE_END))`, clamped
fn open_end(b: &Built, f: &mut Facts) -> NaiveDateTime {
    match b.zone() {
        None => DATE_END,
        Some(z) => match f.td(z, DATE_END) {
            Some(d) => min_end(f.tn(z, d.naive_utc())),
            None => DATE_END,
        },
    }
}

fn show_stream(tag: &str, from: NaiveDateTime, to: NaiveDateTime, items: &[DateTimeRange<NaiveDateTime>], end: &str) -> String {
    let mut t = format!("{tag} {} {} {end} {}", ast::instant(from), ast::instant(to), items.len());
    for iv in items {
        t.push(' ');
        t.push_str(&show_iv(iv));
    }
    t
}

/// the `filter` closure of the generic `iter_range` for this context (`locale.naive(locale.datetime(start)) < end`),
/// recording the conversions it asks for; `None` = `datetime` panicked.  `extra` = a zone the binding attaches
/// afterwards (naive context, aware input): only its `Td` facts are recorded.
fn keeps(b: &Built, extra: Option<Tz>, iv: &DateTimeRange<NaiveDateTime>, f: &mut Facts) -> Option<bool> {
    match b.zone() {
        Some(z) => {
            let d = f.td(z, iv.range.start)?;
            f.td(z, iv.range.end);
            Some(f.tn(z, d.naive_utc()) < iv.range.end)
        }
        None => {
            if let Some(z) = extra {
                f.td(z, iv.range.start);
                f.td(z, iv.range.end);
            }
            Some(iv.range.start < iv.range.end)
        }
    }
}

/// Pull `iter_range_naive(from, to)` exactly as far as the first `want` items of the generic `iter_range` need
/// it (filter, merge with `next_if`'s peek).  Returns the pulled items, how the pulling ended (`all` / `cut` /
/// `panic:…`) and whether a `want + 1`-th localized range exists.  With `keep_terminator` the peeked item that
/// ends the last merge is part of the result (what `next_change` pulls), otherwise it is left out.
fn pull_stream(b: &Built, extra: Option<Tz>, from: NaiveDateTime, to: NaiveDateTime, want: usize, keep_terminator: bool, f: &mut Facts) -> (Vec<DateTimeRange<NaiveDateTime>>, String) {
    let mut items: Vec<DateTimeRange<NaiveDateTime>> = vec![];
    let mut end = "all".to_string();
    let r = catch(|| {
        let mut it = b.naive_iter(from, to);
        // the range in hand (kind, end) and the number of localized ranges started so far
        let mut curr: Option<(RuleKind, NaiveDateTime)> = None;
        let mut started = 0usize;
        loop {
            let Some(iv) = it.next() else { break };
            let Some(k) = keeps(b, extra, &iv, f) else {
                // `datetime` panicked inside the filter: the model meets the same `Td` fact
                items.push(iv);
                end = "cut".into();
                break;
            };
            if k {
                match curr {
                    Some((kind, stop)) if kind == iv.kind && stop <= iv.range.start => curr = Some((kind, iv.range.end)),
                    _ => {
                        if started == want {
                            // first kept item of the range after the last wanted one
                            if keep_terminator {
                                items.push(iv);
                            }
                            end = "cut".into();
                            break;
                        }
                        started += 1;
                        curr = Some((iv.kind, iv.range.end));
                    }
                }
            }
            items.push(iv);
        }
    });
    if let Err(p) = r {
        end = p;
    }
    (items, end)
}

fn op_state(b: &Built, i: &In, f: &mut Facts) -> String {
    let Some(w) = wall_of(b, i, f) else { return "E call TypeError".into() };
    if w < DATE_END {
        let to = w + Duration::minutes(1);
        // `state` looks at the first item of the wall-clock stream only (no filter, no `datetime`)
        let first = catch(|| b.naive_iter(w, to).next());
        f.tail = Some(match &first {
            Ok(None) => show_stream("F", w, to, &[], "all"),
            Ok(Some(iv)) => show_stream("F", w, to, std::slice::from_ref(iv), "cut"),
            Err(p) => show_stream("F", w, to, &[], p),
        });
    }
    // the core's own typed API
    let r = catch(|| match (&b.loc, i) {
        (None, _) => b.nl().state(w),
        (Some(l), In::Aware(a)) => b.tz(l).state(a.clone()),
        (Some(l), _) => b.wall(l).state(w),
    });
    match r {
        Ok(k) => format!("R {}", state_toks(k)),
        Err(p) => format!("E call {p}"),
    }
}

fn op_next(b: &Built, i: &In, f: &mut Facts) -> String {
    let Some(w) = wall_of(b, i, f) else { return "E call TypeError".into() };
    // facts along the generic code's path
    let to = open_end(b, f);
    let from = min_end(w);
    // what `iter_from(t).next()` pulls: up to the first kept range that is not merged into the head
    let (items, end) = pull_stream(b, i.zone(), from, to, 1, true, f);
    f.tail = Some(show_stream("F", from, to, &items, &end));
    // the core's own typed API
    let r: Result<Result<Option<Out>, String>, String> = catch(|| match (&b.loc, i) {
        (None, _) => match b.nl().next_change(w) {
            None => Ok(None),
            Some(n) => attach(b, i.zone(), n, &mut Facts::new()).map(Some),
        },
        (Some(l), In::Aware(a)) => Ok(b.tz(l).next_change(a.clone()).map(Out::Aware)),
        // a naive (or absent) argument is a wall-clock time of the context zone
        (Some(l), _) => Ok(b.pyloc(l).next_change(MaybeAware::Naive(w)).map(|m| Out::Aware(aware_of(m, l)))),
    });
    match r {
        Ok(Ok(o)) => format!("R {}", show_opt(&o)),
        Ok(Err(p)) | Err(p) => format!("E call {p}"),
    }
}

fn op_intervals(b: &Built, start: &In, end: Option<&In>, cap: usize, f: &mut Facts) -> String {
    let Some(ws) = wall_of(b, start, f) else { return "E call TypeError".into() };
    let we = match end {
        Some(e) => match wall_of(b, e, f) {
            Some(w) => Some(w),
            None => return "E call TypeError".into(),
        },
        None => None,
    };
    let prefer = start.zone().or_else(|| end.and_then(|e| e.zone()));
    let from = min_end(ws);
    let to = match we {
        Some(w) => min_end(w),
        None => open_end(b, f),
    };
    // facts: the items of the naive iteration that make up the first `cap` localized ranges
    let (items, how) = pull_stream(b, prefer, from, to, cap, false, f);
    f.tail = Some(show_stream("L", from, to, &items, &how));
    // the core's own typed API; an end reading DATE_END is reported as None
    type Item = (Out, Option<Out>, RuleKind, Vec<String>);
    let comments = |r: &[std::sync::Arc<str>]| r.iter().map(|c| c.to_string()).collect::<Vec<_>>();
    let r: Result<Result<(Vec<Item>, bool), String>, String> = catch(|| {
        let mut out: Vec<Item> = vec![];
        let mut cut = false;
        match (&b.loc, start, end) {
            (Some(l), In::Aware(a), None) | (Some(l), In::Aware(a), Some(In::Aware(_))) => {
                let oh = b.tz(l);
                let it: Box<dyn Iterator<Item = DateTimeRange<DateTime<Tz>>>> = match end {
                    Some(In::Aware(e)) => Box::new(oh.iter_range(a.clone(), e.clone())),
                    _ => Box::new(oh.iter_from(a.clone())),
                };
                for r in it {
                    if out.len() == cap {
                        cut = true;
                        break;
                    }
                    let e = if r.range.end.naive_local() == DATE_END { None } else { Some(Out::Aware(r.range.end.clone())) };
                    out.push((Out::Aware(r.range.start.clone()), e, r.kind, comments(&r.comments)));
                }
            }
            (Some(l), _, _) => {
                // naive bounds are wall-clock times of the context zone (the binding's own locale)
                let oh = b.pyloc(l);
                let it: Box<dyn Iterator<Item = DateTimeRange<MaybeAware>>> = match we {
                    Some(w) => Box::new(oh.iter_range(MaybeAware::Naive(ws), MaybeAware::Naive(w))),
                    None => Box::new(oh.iter_from(MaybeAware::Naive(ws))),
                };
                for r in it {
                    if out.len() == cap {
                        cut = true;
                        break;
                    }
                    let s = aware_of(r.range.start.clone(), l);
                    let e = aware_of(r.range.end.clone(), l);
                    let e = if e.naive_local() == DATE_END { None } else { Some(Out::Aware(e)) };
                    out.push((Out::Aware(s), e, r.kind, comments(&r.comments)));
                }
            }
            _ => {
                // no zone in the context: wall-clock evaluation, the input's zone attached afterwards
                let it: Box<dyn Iterator<Item = DateTimeRange<NaiveDateTime>>> = match (&b.loc, we) {
                    (None, Some(w)) => Box::new(b.nl().iter_range(ws, w)),
                    (None, None) => Box::new(b.nl().iter_from(ws)),
                    (Some(l), Some(w)) => Box::new(b.wall(l).iter_range(ws, w)),
                    (Some(l), None) => Box::new(b.wall(l).iter_from(ws)),
                };
                for r in it {
                    if out.len() == cap {
                        cut = true;
                        break;
                    }
                    let s = attach(b, prefer, r.range.start, &mut Facts::new())?;
                    let e = if r.range.end == DATE_END { None } else { Some(attach(b, prefer, r.range.end, &mut Facts::new())?) };
                    out.push((s, e, r.kind, comments(&r.comments)));
                }
            }
        }
        Ok((out, cut))
    });
    match r {
        Ok(Ok((v, cut))) => {
            let mut t = format!("R {} {}", if cut { "cut" } else { "all" }, v.len());
            for (s, e, k, cs) in &v {
                t.push_str(&format!(" {} {} {} {}", show_out(s), show_opt(e), ast::kind_tok(*k), cs.len()));
                for c in cs {
                    t.push(' ');
                    t.push_str(&enc(c));
                }
            }
            t
        }
        Ok(Err(p)) | Err(p) => format!("E iter {p}"),
    }
}

pub fn exec(op: &str, a: &[&str]) -> Option<String> {
    let mut f = Facts::new();
    if op == "py.validate" {
        if a.len() != 1 {
            return None;
        }
        let s = ev::dec(a[0])?;
        let r = catch(|| OpeningHours::parse(&s).is_ok());
        f.push(format!("P:{}", match &r { Err(p) => p.clone(), Ok(false) => "0".into(), Ok(true) => "1".into() }));
        let res = match r {
            Ok(b) => format!("R {}", b as u8),
            Err(p) => format!("E call {p}"),
        };
        return Some(format!("{res} ## {}", f.finish()));
    }
    if op == "py.enum" {
        // the State class against the core's RuleKind: names and order
        let ks = [RuleKind::Open, RuleKind::Closed, RuleKind::Unknown];
        let ord = ks[0] < ks[1] && ks[1] < ks[2];
        return Some(format!("R {} {} {} {}11 ## ", ks[0].as_str(), ks[1].as_str(), ks[2].as_str(), ord as u8));
    }
    if op == "py.valctor" {
        // validate(s) next to OpeningHours(s): "validate(s) is true iff the constructor accepts s"
        if a.len() != 1 {
            return None;
        }
        let s = ev::dec(a[0])?;
        let r = catch(|| OpeningHours::parse(&s).is_ok());
        f.push(format!("P:{}", match &r { Err(p) => p.clone(), Ok(false) => "0".into(), Ok(true) => "1".into() }));
        let res = match r {
            Ok(true) => "R 1 ok".to_string(),
            Ok(false) => "R 0 ParserError".to_string(),
            Err(p) => format!("E call {p}"),
        };
        return Some(format!("{res} ## {}", f.finish()));
    }
    let c = parse_ctor(a)?;
    let rest = &a[6..];
    // the inputs are parsed first so that a malformed line is refused as a whole
    let ins: Vec<In> = match (op, rest.len()) {
        ("py.ctor", 0) | ("py.str", 0) | ("py.repr", 0) | ("py.eq", 0) => vec![],
        ("py.state", 1) | ("py.next", 1) | ("py.normalize", 1) => vec![parse_dt(rest[0])?],
        ("py.intervals", 3) => {
            rest[2].parse::<usize>().ok()?;
            let mut v = vec![parse_dt(rest[0])?];
            if rest[1] != "-" {
                v.push(parse_dt(rest[1])?);
            }
            v
        }
        _ => return None,
    };
    let b = match build(&c, &mut f) {
        CtorOut::Err(e) => {
            f.push("K:-".into());
            return Some(format!("E ctor {e} ## {}", f.finish()));
        }
        CtorOut::Ok(b) => b,
    };
    f.push(format!("K:{}", b.kdesc));
    for (k, i) in ins.iter().enumerate() {
        f.push(format!("in{k}={}", i.fact()));
    }
    let res = match op {
        "py.ctor" => "R ok".to_string(),
        "py.str" => format!("R {}", enc(&b.oh.to_string())),
        "py.repr" => {
            // `format!("OpeningHours({:?})", self.inner.to_string())` is the binding's; the core has no repr.
            // What the core determines is the string a faithful repr must evaluate back to.
            f.push(format!("DQ:{}", enc(&python_quoted(&b.oh.to_string()))));
            format!("R {}", enc(&b.oh.to_string()))
        }
        "py.eq" => {
            let same = match build(&c, &mut Facts::new()) {
                CtorOut::Ok(b2) => b2.nl() == b.nl() && b2.loc == b.loc,
                CtorOut::Err(_) => false,
            };
            format!("R {}", same as u8)
        }
        "py.state" => op_state(&b, &ins[0], &mut f),
        "py.next" => op_next(&b, &ins[0], &mut f),
        "py.normalize" => {
            let nb = match catch(|| b.normalized()) {
                Ok(x) => x,
                Err(p) => return Some(format!("E call {p} ## {}", f.finish())),
            };
            f.push(format!("ND:{}", enc(&nb.oh.to_string())));
            let r = op_next(&nb, &ins[0], &mut f);
            match r.strip_prefix("R ") {
                Some(x) => format!("R {} {}", enc(&nb.oh.to_string()), x),
                None => r,
            }
        }
        "py.intervals" => {
            let cap: usize = rest[2].parse().ok()?;
            op_intervals(&b, &ins[0], ins.get(1), cap, &mut f)
        }
        _ => return None,
    };
    Some(format!("{res} ## {}", f.finish()))
}

// ------------------------------------------------------------------------------------------
// generators

fn bits(x: f64) -> String {
    format!("{:016x}", x.to_bits())
}

fn coords_tok(lat: f64, lon: f64) -> String {
    format!("b:{},{}", bits(lat), bits(lon))
}

const ZONES: [&str; 14] = [
    "Europe/Paris",
    "UTC",
    "America/New_York",
    "Asia/Tokyo",
    "Australia/Lord_Howe",
    "Pacific/Apia",
    "Asia/Kathmandu",
    "America/St_Johns",
    "Europe/London",
    "Africa/Casablanca",
    "America/Sao_Paulo",
    "Pacific/Kiritimati",
    "Pacific/Pago_Pago",
    "Etc/GMT+5",
];

/// places with a known country and zone (lat, lon)
const PLACES: [(f64, f64); 10] = [
    (48.8535, 2.34839),    // Paris
    (52.52, 13.405),       // Berlin
    (40.7128, -74.006),    // New York
    (35.6762, 139.6503),   // Tokyo
    (-33.8688, 151.2093),  // Sydney
    (-23.5505, -46.6333),  // São Paulo
    (64.1466, -21.9426),   // Reykjavik
    (27.7172, 85.324),     // Kathmandu
    (78.2232, 15.6267),    // Longyearbyen (polar day / night)
    (0.0, 0.0),            // gulf of Guinea: no country, Etc/GMT
];

fn valid_coords(rng: &mut Rng) -> (f64, f64) {
    match rng.below(12) {
        0 => (90.0, 0.0),
        1 => (-90.0, 180.0),
        2 => (0.0, -180.0),
        3 => (-0.0, 180.0),
        4 => (89.99999999999999, 179.99999999999997),
        5 => (rng.range(-90, 90) as f64, rng.range(-180, 180) as f64),
        6 => (rng.range(-9000, 9000) as f64 / 100.0, rng.range(-18000, 18000) as f64 / 100.0),
        7 => (5e-324, -5e-324),
        _ => *rng.pick(&PLACES),
    }
}

fn invalid_coords(rng: &mut Rng) -> (f64, f64) {
    let ok = rng.range(-90, 90) as f64;
    match rng.below(12) {
        0 => (f64::NAN, ok),
        1 => (ok, f64::NAN),
        2 => (f64::INFINITY, ok),
        3 => (ok, f64::NEG_INFINITY),
        4 => (90.00000000000001, 0.0),
        5 => (-90.00000000000001, 0.0),
        6 => (0.0, 180.00000000000003),
        7 => (0.0, -180.00000000000003),
        8 => (91.0, 181.0),
        9 => (f64::NAN, f64::NAN),
        10 => (ok * 2.0 + 200.0, ok),
        _ => (1e308, -1e308),
    }
}

fn countries() -> Vec<&'static str> {
    Country::ALL.iter().map(|c| c.iso_code()).collect()
}

const BAD_COUNTRIES: [&str; 10] = ["ZZ", "fr", "Fr", "FRA", "", " FR", "FR ", "F", "france", "\u{e9}\u{e9}"];

fn flag(rng: &mut Rng) -> &'static str {
    *rng.pick(&["d", "d", "-", "1", "0", "0"])
}

/// a random constructor: mostly valid, every argument present about half of the time
fn gen_ctor(rng: &mut Rng, oh: &str) -> String {
    let tz = match rng.below(8) {
        0..=2 => "-".to_string(),
        _ => format!("Z:{}", rng.pick(&ZONES)),
    };
    let cs = countries();
    let country = match rng.below(10) {
        0..=4 => "-".to_string(),
        5 => format!("={}", enc(*rng.pick(&BAD_COUNTRIES))),
        _ => format!("={}", if rng.chance(1, 2) { *rng.pick(&["FR", "DE", "US", "GB", "JP", "BR"]) } else { *rng.pick(&cs) }),
    };
    let coords = match rng.below(10) {
        0..=4 => "-".to_string(),
        5 => {
            let (a, b) = invalid_coords(rng);
            coords_tok(a, b)
        }
        6 => format!("i:{},{}", rng.range(-90, 90), rng.range(-180, 180)),
        _ => {
            let (a, b) = valid_coords(rng);
            coords_tok(a, b)
        }
    };
    format!("{} {tz} {country} {coords} {} {}", enc(oh), flag(rng), flag(rng))
}

fn ns_of(h: i64, m: i64, s: i64, us: i64) -> i64 {
    ((h * 3600 + m * 60 + s) * 1_000_000 + us) * 1000
}

fn inst(day: i64, ns: i64) -> String {
    format!("{day}:{ns}")
}

/// a wall-clock reading (day, ns) biased to interesting places
fn gen_wall(rng: &mut Rng) -> (i64, i64) {
    let day = match rng.below(24) {
        0 => 1,                                         // datetime.min
        1 => 3_652_059,                                 // 9999-12-31
        2 => ev::ymd(1900, 1, 1) + rng.range(-1, 1),
        3 => ev::ymd(9999, 12, 30),
        4 => ev::ymd(rng.range(2, 1899) as i32, rng.range(1, 12) as u32, rng.range(1, 28) as u32),
        5 => ev::ymd(rng.range(2101, 9998) as i32, rng.range(1, 12) as u32, rng.range(1, 28) as u32),
        6 | 7 => ev::gen_day(rng).clamp(1, 3_652_059),
        _ => ev::ymd(2018, 1, 1) + rng.range(0, 15 * 365),
    };
    let ns = match rng.below(8) {
        0 => 0,
        1 => ns_of(23, 59, 59, 999_999),
        2 => ns_of(rng.range(0, 23), rng.range(0, 59), rng.range(0, 59), rng.range(0, 999_999)),
        _ => ns_of(rng.range(0, 23), rng.range(0, 59), 0, 0),
    };
    (day, ns)
}

fn gen_dt(rng: &mut Rng) -> String {
    let (d, ns) = gen_wall(rng);
    match rng.below(12) {
        0..=4 => format!("N:{}", inst(d, ns)),
        5 => format!("U:{}", inst(d, ns)),
        6 if rng.chance(1, 2) => format!("F:{}:{}", rng.range(-14, 14) * 3600, inst(d, ns)),
        _ => format!("A:{}:{}:{}", rng.pick(&ZONES), rng.below(2), inst(d, ns)),
    }
}

struct Tr {
    t: i64,
    p: i64,
    o: i64,
}

fn transitions(tz: Tz, from: i64, to: i64) -> Vec<Tr> {
    let tb = tztable::table(tz);
    (0..tb.trans.len()).filter(|&i| tb.trans[i].0 >= from && tb.trans[i].0 < to).map(|i| Tr { t: tb.trans[i].0, p: tb.prev_offset(i), o: tb.trans[i].1 }).collect()
}

/// local reading `s` seconds since the epoch → (day, ns)
fn wall_of_secs(s: i64) -> (i64, i64) {
    let dt = DateTime::from_timestamp(s, 0).unwrap().naive_utc();
    let t = ast::instant(dt);
    let (d, n) = t.split_once(':').unwrap();
    (d.parse().unwrap(), n.parse().unwrap())
}

/// Is this call cheap enough to be repeated on the unoptimised extension module?  An unbounded
/// `next_change` / open-ended `intervals` on an expression whose state never changes again walks day by
/// day to year 9999 (seconds in release, minutes in a debug build): such calls are only emitted when the
/// answer is found within 400 days (checked here on a BOUNDED window, so the check itself is cheap).
fn quick_enough(line: &str, budget_ms: u128) -> bool {
    let toks: Vec<&str> = line.split(' ').collect();
    let (op, a) = (toks[0], &toks[1..]);
    if matches!(op, "py.next" | "py.normalize" | "py.intervals") {
        let Some(c) = parse_ctor(a) else { return false };
        if let CtorOut::Ok(b) = build(&c, &mut Facts::new()) {
            let b = if op == "py.normalize" { b.normalized() } else { b };
            let Some(i) = parse_dt(a[6]) else { return false };
            if let Some(w) = wall_of(&b, &i, &mut Facts::new()) {
                let open_ended = op != "py.intervals" || a[7] == "-";
                if open_ended && w < DATE_END {
                    let need = if op == "py.intervals" { a[8].parse::<usize>().unwrap_or(1) + 1 } else { 1 };
                    let lim = min_end(w.checked_add_signed(Duration::days(400)).unwrap_or(DATE_END));
                    let t0 = std::time::Instant::now();
                    let v = catch(|| b.naive_iter(w, lim).take(need).collect::<Vec<_>>());
                    if t0.elapsed().as_millis() > 20 * budget_ms {
                        return false;
                    }
                    match v {
                        // the wanted items all end inside the window (or the window reaches DATE_END)
                        Ok(v) => {
                            if !(lim == DATE_END || (v.len() == need && v.last().is_some_and(|r| r.range.end < lim))) {
                                return false;
                            }
                        }
                        Err(_) => return false,
                    }
                }
            }
        }
    }
    let t0 = std::time::Instant::now();
    let r = exec(op, a);
    r.is_some() && t0.elapsed().as_millis() <= budget_ms
}

const CONST_EXPRS: [&str; 4] = ["24/7", "24/7 off", "24/7 unknown \"x\"", "00:00-24:00"];

const CTX_EXPR: &str = "sunrise-sunset; PH off; SH 10:00-12:00 unknown \"sh\"";

const FIXED_EXPRS: [&str; 12] = [
    "Mo-Fr 10:00-18:00",
    "sunrise-sunset; PH off",
    "Mo-Su 02:00-03:00",
    "02:30-02:45",
    "22:00-26:00",
    "Mo-Fr 09:00-12:00,14:00-18:00; Sa 09:00-12:00 \"only mornings\"; PH off",
    "dawn-dusk unknown \"maybe\"",
    "2024 Mar 31 01:30-03:30",
    "Jan-Mar 08:00-12:00; Apr-Dec 10:00-12:00 open \"summer\"",
    "week 1-53/2 Mo 10:00-12:00",
    "SH off; Mo-Fr 08:00-16:00",
    "9999 Dec 31 22:00-24:00",
];

/// comments that stress `repr` (Rust `{:?}` vs Python literal syntax)
const REPR_EXPRS: [&str; 10] = [
    "Mo 10:00-12:00 \"plain\"",
    "Mo 10:00-12:00 \"back\\slash\"",
    "Mo 10:00-12:00 \"it's\"",
    "Mo 10:00-12:00 \"tab\there\"",
    "Mo 10:00-12:00 \"caf\u{e9} \u{1f600}\"",
    "Mo 10:00-12:00 \"ctl\u{1}\"",
    "Mo 10:00-12:00 \"del\u{7f}\"",
    "Mo 10:00-12:00 \"zw\u{200b}sp\"",
    "Mo 10:00-12:00 \"nl\nx\"",
    "Mo 10:00-12:00 \"{braces} %s\"",
];

fn corrupt(rng: &mut Rng, s: &str) -> String {
    let cs: Vec<char> = s.chars().collect();
    if cs.is_empty() {
        return "x".into();
    }
    let i = rng.below(cs.len() as u64) as usize;
    match rng.below(6) {
        0 => cs[..i].iter().collect(),
        1 => {
            let mut v = cs.clone();
            v[i] = *rng.pick(&['x', ';', ':', '-', '/', '"', '2', ' ', '\u{e9}', ',', '+']);
            v.into_iter().collect()
        }
        2 => {
            let mut v = cs.clone();
            v.insert(i, *rng.pick(&['/', ':', '-', '"', '(', ']', '9', '\u{0}']));
            v.into_iter().collect()
        }
        3 => format!("{s}/30"),
        4 => {
            let mut v = cs.clone();
            v.remove(i);
            v.into_iter().collect()
        }
        _ => format!("{s} {s}"),
    }
}

pub fn gen(tier: &str, rng: &mut Rng, emit: &mut dyn FnMut(String)) {
    let thorough = tier == "thorough";
    let scale: usize = if thorough { 25 } else { 1 };
    let budget_ms: u128 = 4;
    let mut skipped = 0u64;
    let paris = coords_tok(48.8535, 2.34839);
    let bad = coords_tok(91.0, 0.0);
    let nan = coords_tok(f64::NAN, 0.0);

    // ---- witnesses, always first -------------------------------------------------------------
    for l in [
        // D1: the parser's unwrap, through the constructor and through validate
        format!("py.ctor {} - - - d d", enc("10:00-12:00/30")),
        format!("py.validate {}", enc("10:00-12:00/30")),
        format!("py.validate {}", enc("10:00-12:00/01:30")),
        // … but invalid coordinates are reported before the parser runs
        format!("py.ctor {} - - {bad} d d", enc("10:00-12:00/30")),
        // order of the errors: coordinates, expression, country
        format!("py.ctor {} Z:Europe/Paris =ZZ {bad} d d", enc("xx")),
        format!("py.ctor {} Z:Europe/Paris =ZZ {nan} d d", enc("xx")),
        format!("py.ctor {} Z:Europe/Paris =ZZ {paris} d d", enc("xx")),
        format!("py.ctor {} Z:Europe/Paris =ZZ {paris} d d", enc("24/7")),
        format!("py.ctor {} Z:Europe/Paris =FR {paris} d d", enc("24/7")),
        // the doc example
        format!("py.next {} - =FR {paris} d d N:{}", enc("sunrise-sunset ; PH off"), inst(ev::ymd(2024, 7, 14), ns_of(15, 0, 0, 0))),
        // aware date-times whose tzinfo is not a ZoneInfo are refused
        format!("py.state {} - - - d d U:{}", enc("24/7"), inst(ev::ymd(2024, 1, 1), 0)),
        format!("py.state {} - - - d d F:7200:{}", enc("24/7"), inst(ev::ymd(2024, 1, 1), 0)),
        // a wall-clock time inside a gap is refused, a repeated one is told apart by `fold`
        format!("py.next {} Z:Europe/Paris - - d d A:Europe/Paris:0:{}", enc("Mo 10:00-12:00"), inst(ev::ymd(2024, 3, 31), ns_of(2, 30, 0, 0))),
        format!("py.next {} Z:UTC - - d d A:Europe/Paris:0:{}", enc("02:00-02:45"), inst(ev::ymd(2024, 10, 27), ns_of(2, 30, 0, 0))),
        format!("py.next {} Z:UTC - - d d A:Europe/Paris:1:{}", enc("02:00-02:45"), inst(ev::ymd(2024, 10, 27), ns_of(2, 30, 0, 0))),
        // a naive input inside the gap of the context zone is evaluated as it is
        format!("py.state {} Z:Europe/Paris - - d d N:{}", enc("02:00-03:00"), inst(ev::ymd(2024, 3, 31), ns_of(2, 30, 0, 0))),
        format!("py.next {} Z:Europe/Paris - - d d N:{}", enc("02:00-03:00"), inst(ev::ymd(2024, 3, 31), ns_of(2, 30, 0, 0))),
        // a span the clock skips is no interval and no change (D16, /repo dfe1ade): dropped, its neighbours merged —
        // also when the merged range is the last one asked for (cap 1) and for aware bounds
        format!("py.next {} Z:Europe/Paris - - d d N:{}", enc("02:30-02:45"), inst(ev::ymd(2024, 3, 31), ns_of(1, 0, 0, 0))),
        format!("py.intervals {} Z:Europe/Paris - - d d N:{} N:{} 5", enc("02:30-02:45"), inst(ev::ymd(2024, 3, 31), ns_of(1, 0, 0, 0)), inst(ev::ymd(2024, 3, 31), ns_of(4, 0, 0, 0))),
        format!("py.intervals {} Z:Europe/Paris - - d d N:{} - 1", enc("02:30-02:45"), inst(ev::ymd(2024, 3, 31), ns_of(1, 0, 0, 0))),
        format!("py.intervals {} Z:Europe/Paris - - d d N:{} - 2", enc("02:30-02:45 \"a\"; 02:45-03:00 unknown \"b\""), inst(ev::ymd(2024, 3, 30), ns_of(1, 0, 0, 0))),
        format!("py.intervals {} Z:Europe/Paris - - d d A:UTC:0:{} A:Asia/Tokyo:0:{} 5", enc("02:00-03:00"), inst(ev::ymd(2024, 3, 30), ns_of(23, 0, 0, 0)), inst(ev::ymd(2024, 4, 1), ns_of(12, 0, 0, 0))),
        format!("py.intervals {} Z:Europe/Paris - - d d N:{} N:{} 5", enc("02:00-03:00"), inst(ev::ymd(2024, 3, 31), ns_of(2, 30, 0, 0)), inst(ev::ymd(2024, 3, 31), ns_of(2, 50, 0, 0))),
        // … while without a zone (and for a zone attached afterwards) the wall clock is all there is
        format!("py.intervals {} - - - d d A:Europe/Paris:0:{} N:{} 5", enc("02:30-02:45"), inst(ev::ymd(2024, 3, 31), ns_of(1, 0, 0, 0)), inst(ev::ymd(2024, 3, 31), ns_of(4, 0, 0, 0))),
        // the ends of Python's range
        format!("py.state {} - - - d d N:{}", enc("24/7"), inst(3_652_059, ns_of(23, 59, 59, 999_999))),
        format!("py.next {} - - - d d N:{}", enc("24/7"), inst(3_652_059, ns_of(23, 59, 59, 999_999))),
        format!("py.next {} - - - d d N:{}", enc("Mo-Su 10:00-12:00"), inst(3_652_059, ns_of(11, 0, 0, 0))),
        format!("py.next {} - - - d d N:{}", enc("Mo-Su 10:00-12:00"), inst(3_652_059, ns_of(13, 0, 0, 0))),
        format!("py.state {} - - - d d N:1:0", enc("24/7")),
        format!("py.next {} - - - d d N:1:0", enc("24/7")),
        format!("py.next {} Z:Pacific/Kiritimati - - d d A:Pacific/Pago_Pago:0:{}", enc("Mo-Su 10:00-12:00"), inst(3_652_059, ns_of(23, 0, 0, 0))),
        format!("py.state {} Z:Pacific/Kiritimati - - d d A:Pacific/Pago_Pago:0:{}", enc("24/7"), inst(3_652_059, ns_of(23, 0, 0, 0))),
        format!("py.next {} Z:Pacific/Pago_Pago - - d d A:Pacific/Kiritimati:0:1:0", enc("24/7")),
        format!("py.intervals {} - - - d d N:{} - 5", enc("Mo-Su 10:00-12:00"), inst(3_652_059, ns_of(9, 0, 0, 0))),
        format!("py.intervals {} Z:Europe/Paris - - d d N:{} - 5", enc("Mo-Su 10:00-12:00"), inst(3_652_059, ns_of(9, 0, 0, 0))),
        format!("py.intervals {} - - - d d A:Asia/Tokyo:0:{} - 5", enc("Mo-Su 10:00-12:00"), inst(3_652_059, ns_of(9, 0, 0, 0))),
        // chrono-tz stops applying daylight-saving rules in 2100, CPython's zoneinfo does not
        format!("py.next {} Z:Europe/Paris - - d d A:UTC:0:{}", enc("Mo-Su 10:00-12:00"), inst(ev::ymd(2100, 7, 1), ns_of(6, 0, 0, 0))),
        format!("py.next {} Z:UTC - - d d A:Europe/Paris:0:{}", enc("Mo-Su 10:00-12:00"), inst(ev::ymd(2100, 7, 1), ns_of(6, 0, 0, 0))),
        // now
        format!("py.state {} - - - d d -", enc("24/7")),
        format!("py.next {} Z:Asia/Tokyo - - d d -", enc("24/7 off")),
        format!("py.intervals {} - - - d d - - 3", enc("24/7 unknown")),
        // a zone CPython knows and chrono-tz does not
        format!("py.ctor {} Z:America/Coyhaique - - d d", enc("24/7")),
    ] {
        emit(l);
    }

    // ---- what the flags DO: a country / a zone inferred from the coordinates shows only through
    // evaluation — a holiday rule on a public holiday of the place (hard-coded dates, not looked up
    // through the code under test), a local-time rule asked at an instant given in UTC; every value
    // of each flag (omitted = default, None, True, False), with and without an explicit country / zone
    let places = [
        (coords_tok(48.8535, 2.34839), "FR", "Europe/Paris", ev::ymd(2024, 7, 14)),
        (coords_tok(40.7128, -74.006), "US", "America/New_York", ev::ymd(2024, 7, 4)),
        (coords_tok(35.6762, 139.6503), "JP", "Asia/Tokyo", ev::ymd(2024, 1, 1)),
    ];
    for (co, cc, zone, hol) in places.iter() {
        for ac in ["d", "-", "1", "0"] {
            for at in ["d", "-", "1", "0"] {
                for country in ["-".to_string(), format!("={cc}"), "=ZW".to_string()] {
                    for tz in ["-".to_string(), format!("Z:{zone}"), "Z:UTC".to_string()] {
                        if (ac != "d" && at != "d" && ac != at) && !thorough {
                            continue;
                        }
                        let noon = inst(*hol, ns_of(12, 0, 0, 0));
                        emit(format!("py.state {} {tz} {country} {co} {ac} {at} N:{noon}", enc("24/7; PH off")));
                        emit(format!("py.next {} {tz} {country} {co} {ac} {at} A:UTC:0:{noon}", enc("PH 10:00-12:00; 08:00-09:00")));
                        emit(format!("py.state {} {tz} {country} - {ac} {at} N:{noon}", enc("24/7; PH off")));
                    }
                }
            }
        }
    }

    emit("py.enum".to_string());

    // ---- the constructor's decision table ----------------------------------------------------
    // every combination of timezone {none, given} × country {none, valid, invalid} × coords {none, valid,
    // invalid} × auto_country × auto_timezone {omitted, None, True, False} × expression {valid, invalid},
    // observed through next_change on an expression that shows holidays, sun events and the zone
    let t_obs = format!("N:{}", inst(ev::ymd(2024, 7, 13), ns_of(12, 0, 0, 0)));
    let flags: &[&str] = if thorough { &["d", "-", "1", "0"] } else { &["d", "-", "0"] };
    for tz in ["-", "Z:America/New_York"] {
        for country in ["-", "=FR", "=ZZ"] {
            for coords in ["-", paris.as_str(), bad.as_str()] {
                for ac in flags {
                    for at in flags {
                        for oh in [CTX_EXPR, "Mo-Fr 10:00-"] {
                            if !thorough && oh != CTX_EXPR && (*ac != "d" || *at != "d") {
                                continue;
                            }
                            emit(format!("py.next {} {tz} {country} {coords} {ac} {at} {t_obs}", enc(oh)));
                        }
                    }
                }
            }
        }
    }
    // bad argument types
    for tz in ["U", "F:3600", "S:Europe/Paris"] {
        emit(format!("py.ctor {} {tz} - - d d", enc("24/7")));
        emit(format!("py.ctor {} {tz} =ZZ {bad} d d", enc("xx")));
    }

    // ---- countries, coordinates --------------------------------------------------------------
    let cs = countries();
    let ncountry = if thorough { cs.len() } else { 12 };
    for k in 0..ncountry {
        let cc = if thorough { cs[k] } else { *rng.pick(&cs) };
        emit(format!("py.next {} - ={cc} - d d N:{}", enc("PH off; SH 10:00-12:00"), inst(ev::ymd(2024, 1, 1) + rng.range(0, 365), ns_of(9, 0, 0, 0))));
    }
    for bc in BAD_COUNTRIES {
        emit(format!("py.ctor {} - ={} - d d", enc("24/7"), enc(bc)));
    }
    for _ in 0..(30 * scale) {
        let (la, lo) = if rng.chance(1, 2) { valid_coords(rng) } else { invalid_coords(rng) };
        let l = format!("py.next {} {} - {} {} {} N:{}", enc(CTX_EXPR), if rng.chance(1, 3) { "Z:Asia/Tokyo" } else { "-" }, coords_tok(la, lo), flag(rng), flag(rng), inst(ev::ymd(2024, 6, 20) + rng.range(0, 200), ns_of(rng.range(0, 23), 0, 0, 0)));
        if quick_enough(&l, 400) {
            emit(l);
        } else {
            skipped += 1;
        }
    }
    for (la, lo) in [(90i64, 180i64), (-90, -180), (0, 0), (91, 0), (48, 2), (-91, 500)] {
        let l = format!("py.next {} - - i:{la},{lo} d d {t_obs}", enc(CTX_EXPR));
        if quick_enough(&l, 400) {
            emit(l);
        } else {
            emit(format!("py.state {} - - i:{la},{lo} d d {t_obs}", enc(CTX_EXPR)));
        }
    }

    // ---- str / repr / normalize / eq / validate ----------------------------------------------
    for e in REPR_EXPRS {
        emit(format!("py.repr {} - - - d d", enc(e)));
        emit(format!("py.str {} - - - d d", enc(e)));
    }
    for e in CONST_EXPRS.iter().chain(FIXED_EXPRS.iter()) {
        emit(format!("py.eq {} Z:Europe/Paris =FR {paris} d d", enc(e)));
        emit(format!("py.str {} - - - d d", enc(e)));
    }
    let cfg = gen_expr::DEFAULT;
    let samples = gen_expr::sample_lines();
    for k in 0..(150 * scale) {
        let e = if k % 5 == 0 && !samples.is_empty() { rng.pick(&samples).clone() } else { gen_expr::expr(rng, &cfg) };
        emit(format!("py.validate {}", enc(&e)));
        emit(format!("py.validate {}", enc(&corrupt(rng, &e))));
        emit(format!("py.valctor {}", enc(&if rng.chance(1, 2) { corrupt(rng, &e) } else { e.clone() })));
        let c = gen_ctor(rng, &e);
        match rng.below(4) {
            0 => emit(format!("py.str {c}")),
            1 => emit(format!("py.repr {c}")),
            2 => {
                let l = format!("py.normalize {c} {}", gen_dt(rng));
                if quick_enough(&l, budget_ms) {
                    emit(l);
                } else {
                    skipped += 1;
                }
            }
            _ => emit(format!("py.ctor {} {}", enc(&corrupt(rng, &e)), c.split_once(' ').unwrap().1)),
        }
    }
    for s in ["", " ", "\u{0}", "24/7\u{0}", "\u{feff}24/7", "Mo-Fr 10:00-18:00\n", "\"", "\"\"", "24/24", "off", "closed", "unknown \"?\""] {
        emit(format!("py.validate {}", enc(s)));
        emit(format!("py.ctor {} - - - d d", enc(s)));
    }

    // ---- evaluation: random expressions, contexts and date-times -----------------------------
    for k in 0..(220 * scale) {
        let e = match k % 6 {
            0 => rng.pick(&FIXED_EXPRS).to_string(),
            1 if !samples.is_empty() => rng.pick(&samples).clone(),
            _ => gen_expr::expr(rng, &cfg),
        };
        let c = gen_ctor(rng, &e);
        let mut lines = vec![format!("py.state {c} {}", gen_dt(rng)), format!("py.state {c} {}", gen_dt(rng)), format!("py.next {c} {}", gen_dt(rng))];
        // windows
        let (d, ns) = gen_wall(rng);
        let d = d.min(3_652_059 - 800);
        let s = match rng.below(3) {
            0 => format!("N:{}", inst(d, ns)),
            _ => format!("A:{}:0:{}", rng.pick(&ZONES), inst(d, ns)),
        };
        let (d2, ns2) = (d + *rng.pick(&[0, 1, 2, 7, 30, 400]), if rng.chance(1, 2) { ns } else { ns_of(rng.range(0, 23), rng.range(0, 59), 0, 0) });
        let en = match rng.below(4) {
            0 => "-".to_string(),
            1 => format!("N:{}", inst(d2, ns2)),
            _ => format!("A:{}:0:{}", rng.pick(&ZONES), inst(d2, ns2)),
        };
        lines.push(format!("py.intervals {c} {s} {en} {}", *rng.pick(&[1, 3, 10, 50])));
        for l in lines {
            if quick_enough(&l, budget_ms) {
                emit(l);
            } else {
                skipped += 1;
            }
        }
    }

    // ---- around time-zone transitions --------------------------------------------------------
    // gaps and folds of the context zone and of the input zone, both values of `fold`, naive readings
    let nzones = if thorough { ZONES.len() } else { 6 };
    for z in &ZONES[..nzones] {
        let tz: Tz = z.parse().unwrap();
        let trs = transitions(tz, tztable::ts(2019, 1, 1), tztable::ts(2027, 1, 1));
        let pick: Vec<&Tr> = if thorough { trs.iter().collect() } else { trs.iter().skip(8).take(4).collect() };
        for tr in pick {
            let (lo, hi) = (tr.t + tr.p.min(tr.o), tr.t + tr.p.max(tr.o));
            let mid = wall_of_secs((lo + hi) / 2 / 60 * 60);
            let before = wall_of_secs(lo - 1800);
            let after = wall_of_secs(hi + 1800);
            let m = mid.1 / 60_000_000_000;
            let hm = |x: i64| format!("{:02}:{:02}", x.rem_euclid(1440) / 60, x.rem_euclid(1440) % 60);
            // the second span lies entirely inside a gap (of ≥ 30 min): the localized stream drops it and merges
            // its neighbours (/repo dfe1ade)
            let exprs = [
                format!("{}-{}", hm(m - 45), hm(m + 5)),
                format!("{}-{} \"in\"", hm(m - 10), hm(m + 5)),
                "Mo-Su 00:00-02:30 unknown; Mo-Su 02:30-24:00 open \"x\"".to_string(),
                "24/7".to_string(),
            ];
            for e in &exprs {
                for (ctz, at) in [(format!("Z:{z}"), "d"), ("-".to_string(), "d"), ("Z:Asia/Tokyo".to_string(), "d")] {
                    let c = format!("{} {ctz} - - d {at}", enc(e));
                    for w in [before, mid, after] {
                        for i in [format!("N:{}", inst(w.0, w.1)), format!("A:{z}:0:{}", inst(w.0, w.1)), format!("A:{z}:1:{}", inst(w.0, w.1))] {
                            emit(format!("py.state {c} {i}"));
                            let l = format!("py.next {c} {i}");
                            if e != "24/7" && quick_enough(&l, budget_ms) {
                                emit(l);
                            }
                        }
                    }
                    let l = format!("py.intervals {c} A:{z}:0:{} A:UTC:0:{} 20", inst(before.0, before.1), inst(after.0 + 1, after.1));
                    if quick_enough(&l, budget_ms) {
                        emit(l);
                    }
                    let l = format!("py.intervals {c} N:{} A:{z}:1:{} 20", inst(before.0 - 1, before.1), inst(mid.0, mid.1));
                    if quick_enough(&l, budget_ms) {
                        emit(l);
                    }
                }
            }
        }
    }
    // ---- now ----------------------------------------------------------------------------------
    for e in CONST_EXPRS {
        let c = gen_ctor(rng, e);
        emit(format!("py.state {c} -"));
        emit(format!("py.next {c} -"));
        emit(format!("py.intervals {c} - - 2"));
    }
    emit(format!("#note py ops not emitted because the core needed more than the budget: {skipped}"));
}

/// Mirror of `python_quoted` in opening-hours-py/src/lib.rs (private there): the string as a double
/// quoted Python literal.  The binding model takes this as the abstract "quote" operation of the core.
fn python_quoted(value: &str) -> String {
    let mut res = String::with_capacity(value.len() + 2);
    res.push('"');
    for c in value.chars() {
        match c {
            '"' => res.push_str("\\\""),
            '\\' => res.push_str("\\\\"),
            '\n' => res.push_str("\\n"),
            '\r' => res.push_str("\\r"),
            '\t' => res.push_str("\\t"),
            c if c.is_control() || matches!(c, '\u{85}' | '\u{200b}' | '\u{2028}' | '\u{2029}') => {
                res.push_str(&format!("\\U{:08x}", u32::from(c)))
            }
            c => res.push(c),
        }
    }
    res.push('"');
    res
}
