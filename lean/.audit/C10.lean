import OH.Props.C10
#print axioms OH.Props.C10.fromStr_isoCode
#print axioms OH.Props.C10.fromStr_only_isoCodes
#print axioms OH.Props.C10.fromStr_iff
#print axioms OH.Props.C10.fromStr_injective
#print axioms OH.Props.C10.all_complete_nodup
#print axioms OH.Props.C10.isoCodes_nodup
#print axioms OH.Props.C10.isoCode_injective
#print axioms OH.Props.C10.isoCode_total
#print axioms OH.Props.C10.names_nodup
#print axioms OH.Props.C10.fromStr_arms
#print axioms OH.Props.C10.decode_encode
#print axioms OH.Props.C10.decode_encode_lookup
#print axioms OH.Props.C10.group_ok
#print axioms OH.Props.C10.embedded_contains
#print axioms OH.Props.C10.embedded_file
#print axioms OH.Props.C10.embedded_iter
#print axioms OH.Props.C10.selectors_see
