import OH.Props.C08
#print axioms OH.Props.C08.C08_intervals_inside_window
#print axioms OH.Props.C08.C08_next_change_lt_end
#print axioms OH.Props.C08.C08_schedule_outside
#print axioms OH.Props.C08.C08_state_after_end
