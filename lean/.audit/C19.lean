import OH.Props.C19
import OH.Props.TablesC19
#print axioms OH.Props.C19.new_some_iff
#print axioms OH.Props.C19.new_eq
#print axioms OH.Props.C19.fromMins_some_iff
#print axioms OH.Props.C19.mins_fromMins
#print axioms OH.Props.C19.fromMins_mins
#print axioms OH.Props.C19.mins_le
#print axioms OH.Props.C19.lt_iff_mins_lt
#print axioms OH.Props.C19.mins_inj
#print axioms OH.Props.C19.addMinutes_spec
#print axioms OH.Props.C19.addMinutes_mins
#print axioms OH.Props.C19.addMinutes_none_iff
#print axioms OH.Props.C19.addHours_spec
#print axioms OH.Props.C19.digitChar_zero
#print axioms OH.Props.C19.display_spec
#print axioms OH.Props.C19.toNaiveTime_some_iff
#print axioms OH.Props.C19.toNaiveTime_fromNaiveTime
#print axioms OH.Props.TablesC19.C19_midnights
