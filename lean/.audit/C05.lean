import OH.Props.C05
import OH.Props.TablesC05
#print axioms OH.Props.C05.C05_grammar_repetitions_progress
#print axioms OH.Props.C05.C05_engine_consumes_prefix
#print axioms OH.Props.C05.C05_lookahead_matches_same_text
#print axioms OH.Props.C05.C05_number_denotes
#print axioms OH.Props.C05.C05_hour_minutes_denotes
#print axioms OH.Props.C05.C05_day_offset_denotes
#print axioms OH.Props.C05.C05_accepted_fields_in_range
#print axioms OH.Props.C05.C05_empty_rejected
#print axioms OH.Props.C05.C05_every_sentence_parses_to_its_denotation
#print axioms OH.Props.C05.C05_every_sentence_parses_string
#print axioms OH.Props.TablesC05.C05_separator_arms
#print axioms OH.Props.TablesC05.C05_modifier_arms
#print axioms OH.Props.TablesC05.C05_event_arms
#print axioms OH.Props.TablesC05.C05_wday_arms
#print axioms OH.Props.TablesC05.C05_month_arms
#print axioms OH.Props.TablesC05.C05_holiday_arms
#print axioms OH.Props.TablesC05.C05_sign_arms
