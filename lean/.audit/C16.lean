import OH.Props.C16
#print axioms OH.Props.C16.envOf_unbounded
#print axioms OH.Props.C16.C16_state_unchanged_partial
#print axioms OH.Props.C16.C16_next_change_partial
#print axioms OH.Props.C16.C16_negative_bound_partial
