import OH.Props.C03
#print axioms OH.Props.C03.C03_state_partial
#print axioms OH.Props.C03.C03_state_after_end_partial
#print axioms OH.Props.C03.C03_next_change_some_partial
#print axioms OH.Props.C03.C03_next_change_none_partial
#print axioms OH.Props.C03.C03_next_change_exact_partial
