import OH.Props.C01
import OH.Props.C01E
import OH.Props.ArithC01
import OH.Props.ArithC01Range
import OH.Props.ArithC14
import OH.Props.ArithC07Month
import OH.Props.ArithC01Time
import OH.Props.ArithC01Spill
import OH.Props.ArithC01Step
import OH.Props.ArithC14Union
import OH.Props.ArithC01Offset
import OH.Props.ArithC01MonthSel
import OH.Props.ArithC02Hint
import OH.Props.ArithC01Dated
import OH.Props.ArithC02Dated2
import OH.Props.ArithC02Dated3
import OH.Props.ArithC02Dated3Tie
import OH.Props.ArithC02Dated3Bounds
import OH.Props.ArithC14Sched
import OH.Props.ArithC14SchedFrom
import OH.Props.ArithC14SchedIter
import OH.Props.ArithC01Eval
import OH.Props.ArithC02Eval
import OH.Props.ArithC02EvalDay
import OH.Props.ArithC02EvalLink
import OH.Props.ArithC02IterState
import OH.Props.ArithC02IterNext
import OH.Props.ArithC02IterNew
import OH.Props.ArithC01Week
import OH.Props.ArithC01WeekDays
import OH.Props.ArithC01WeekDay
import OH.Props.ArithC01WeekDayHint
import OH.Props.ArithC01TimeSel
import OH.Props.ArithC01TimeSelLink
#print axioms OH.Props.C01.C01_spec_outside
#print axioms OH.Props.C01.C01_model_outside
#print axioms OH.Props.C01.C01_bound_irrelevant
#print axioms OH.Props.C01.C01_holidays_only_from_ctx
#print axioms OH.Props.C01.C01_spec_holiday
#print axioms OH.Props.C01.C01_spec_holiday_plain
#print axioms OH.Props.C01.C01_spec_month
#print axioms OH.Props.C01.C01_spec_no_selector
#print axioms OH.Props.C01.exprOK_of
#print axioms OH.Props.C01.C01_schedule_refines_spec_partial
#print axioms OH.Props.C01.c01Holds_iff
#print axioms OH.Props.C01.C01_holds_partial
#print axioms OH.Props.C01.DatedAgree_of_noDated
#print axioms OH.Props.C01.C01_schedule_refines_spec_nodated
#print axioms OH.Props.C01.wf_of_parserWF
#print axioms OH.Props.C01.DatedAgree_of_safe
#print axioms OH.Props.C01.exprDefined_of_safe
#print axioms OH.Props.C01.exprDatedSafe_of_plain
#print axioms OH.Props.C01.exprDatedSafe_iff_plain
#print axioms OH.Props.C01.C01_schedule_refines_spec_window
#print axioms OH.Props.C01.C01_schedule_refines_spec_window'
#print axioms OH.Props.C01.C01_schedule_refines_spec_inyear
#print axioms OH.Props.C01.C01_schedule_refines_spec_plain
#print axioms OH.Props.C01.C04_schedule_total
#print axioms OH.Props.C01E.C01_every_parsed_expression_nodated
#print axioms OH.Props.C01E.C01_every_parsed_expression_plain
#print axioms OH.Props.C01E.C01_every_parsed_expression_window
#print axioms OH.Props.ArithC01.easter_eq_model
#print axioms OH.Props.ArithC01.easter_total
#print axioms OH.Props.ArithC01.easter_model_of_generated
#print axioms OH.Props.ArithC01.easter_year
#print axioms OH.Props.ArithC01.gen_easter_spec
#print axioms OH.Props.ArithC01.gen_easter_window
#print axioms OH.Props.ArithC01.gen_easter_none_outside
#print axioms OH.Props.ArithC01Range.wrappingContains_eq_model
#print axioms OH.Props.ArithC01Range.wrappingContains_total
#print axioms OH.Props.ArithC01Range.gen_wrappingContains_plain
#print axioms OH.Props.ArithC01Range.gen_wrappingContains_wrapping
#print axioms OH.Props.ArithC01Range.gen_wrappingContains_int
#print axioms OH.Props.ArithC14.cmpMax_nat
#print axioms OH.Props.ArithC14.cmpMin_nat
#print axioms OH.Props.ArithC14.cmpMax_int
#print axioms OH.Props.ArithC14.cmpMin_int
#print axioms OH.Props.ArithC14.rangeIntersection_eq_model
#print axioms OH.Props.ArithC14.rangeIntersection_total
#print axioms OH.Props.ArithC14.gen_rangeIntersection_some
#print axioms OH.Props.ArithC14.gen_rangeIntersection_none
#print axioms OH.Props.ArithC14.gen_rangeIntersection_int
#print axioms OH.Props.ArithC07Month.discr_range
#print axioms OH.Props.ArithC07Month.discr_injective
#print axioms OH.Props.ArithC07Month.discr_surjective
#print axioms OH.Props.ArithC07Month.tryFrom_of_discr
#print axioms OH.Props.ArithC07Month.tryFrom_none
#print axioms OH.Props.ArithC07Month.tryFrom_spec
#print axioms OH.Props.ArithC07Month.tryFrom_total
#print axioms OH.Props.ArithC07Month.next_spec
#print axioms OH.Props.ArithC07Month.prev_spec
#print axioms OH.Props.ArithC07Month.month_succ_agree
#print axioms OH.Props.ArithC07Month.month_pred_agree
#print axioms OH.Props.ArithC07Month.month_succ_in_frame
#print axioms OH.Props.ArithC07Month.month_pred_in_frame
#print axioms OH.Props.ArithC07Month.next_eq_eval_model
#print axioms OH.Props.ArithC07Month.prev_next
#print axioms OH.Props.ArithC07Month.next_prev
#print axioms OH.Props.ArithC01Time.midnight00
#print axioms OH.Props.ArithC01Time.midnight24
#print axioms OH.Props.ArithC01Time.midnight48
#print axioms OH.Props.ArithC01Time.emb_lt_iff
#print axioms OH.Props.ArithC01Time.fromMins_wf
#print axioms OH.Props.ArithC01Time.variableTime_asNaive
#print axioms OH.Props.ArithC01Time.variableTime_asNaive_eq_model
#print axioms OH.Props.ArithC01Time.timeSpan_asNaive
#print axioms OH.Props.ArithC01Time.timeSpan_asNaive_eq_model
#print axioms OH.Props.ArithC01Spill.wf00
#print axioms OH.Props.ArithC01Spill.wf24
#print axioms OH.Props.ArithC01Spill.wf48
#print axioms OH.Props.ArithC01Spill.cmpMax_emb
#print axioms OH.Props.ArithC01Spill.cmpMin_emb
#print axioms OH.Props.ArithC01Spill.rangeIntersection_time
#print axioms OH.Props.ArithC01Spill.clip_eq_model
#print axioms OH.Props.ArithC01Spill.clip_next_day_eq_model
#print axioms OH.Props.ArithC01Spill.addHours_minus24
#print axioms OH.Props.ArithC01Spill.shift_eq_model
#print axioms OH.Props.ArithC01Spill.next_day_clip_then_shift
#print axioms OH.Props.ArithC01Step.wrappingContains_cast
#print axioms OH.Props.ArithC01Step.decide_cast_zero
#print axioms OH.Props.ArithC01Step.decide_zero_cast
#print axioms OH.Props.ArithC01Step.rem_u16
#print axioms OH.Props.ArithC01Step.rem_u8
#print axioms OH.Props.ArithC01Step.yearRange_filter_agree
#print axioms OH.Props.ArithC01Step.weekRange_filter_agree
#print axioms OH.Props.ArithC01Step.yearRange_filter_total
#print axioms OH.Props.ArithC14Union.toRange_toPair
#print axioms OH.Props.ArithC14Union.toPair_toRange
#print axioms OH.Props.ArithC14Union.next_none
#print axioms OH.Props.ArithC14Union.next_nil
#print axioms OH.Props.ArithC14Union.next_merge
#print axioms OH.Props.ArithC14Union.next_gap
#print axioms OH.Props.ArithC14Union.collect_eq
#print axioms OH.Props.ArithC14Union.rangesUnion_gen
#print axioms OH.Props.ArithC14Union.rangesUnion_total
#print axioms OH.Props.ArithC14Union.rangesUnion_fuel
#print axioms OH.Props.ArithC14Union.sortPairInsert_perm
#print axioms OH.Props.ArithC14Union.sortPairs_perm
#print axioms OH.Props.ArithC14Union.sortedP_iff
#print axioms OH.Props.ArithC14Union.sortPairs_meets_contract
#print axioms OH.Props.ArithC14Union.rangesUnion_eq_model
#print axioms OH.Props.ArithC14Union.sortedP_of_contract
#print axioms OH.Props.ArithC14Union.gen_rangesUnion_covers
#print axioms OH.Props.ArithC14Union.gen_rangesUnion_wf
#print axioms OH.Props.ArithC01Offset.addDaysSat_eq_model
#print axioms OH.Props.ArithC01Offset.addDaysSat_total
#print axioms OH.Props.ArithC01Offset.weekday_lt
#print axioms OH.Props.ArithC01Offset.weekday_eq
#print axioms OH.Props.ArithC01Offset.days_since_mon
#print axioms OH.Props.ArithC01Offset.beq_decide_cast
#print axioms OH.Props.ArithC01Offset.beq_decide_int
#print axioms OH.Props.ArithC01Offset.cond_eq
#print axioms OH.Props.ArithC01Offset.agree_ite
#print axioms OH.Props.ArithC01Offset.apply_agree
#print axioms OH.Props.ArithC01Offset.gen_apply_total
#print axioms OH.Props.ArithC01MonthSel.num_range
#print axioms OH.Props.ArithC01MonthSel.discr_num
#print axioms OH.Props.ArithC01MonthSel.fromDate_spec
#print axioms OH.Props.ArithC01MonthSel.le_iff_num
#print axioms OH.Props.ArithC01MonthSel.wc_month
#print axioms OH.Props.ArithC01MonthSel.year_wrap
#print axioms OH.Props.ArithC01MonthSel.monthFilter_eq_model
#print axioms OH.Props.ArithC01MonthSel.num_injective
#print axioms OH.Props.ArithC01MonthSel.next_num
#print axioms OH.Props.ArithC01MonthSel.wrap_num
#print axioms OH.Props.ArithC01MonthSel.monthHint_eq_model
#print axioms OH.Props.ArithC01MonthSel.monthHintYear_eq_model
#print axioms OH.Props.ArithC02Hint.AgreeDZ.of_eq
#print axioms OH.Props.ArithC02Hint.rem_i32_nat
#print axioms OH.Props.ArithC02Hint.div_i32_nat
#print axioms OH.Props.ArithC02Hint.mul_i32_nat
#print axioms OH.Props.ArithC02Hint.decide_gt_year
#print axioms OH.Props.ArithC02Hint.yearRange_hint_agree
#print axioms OH.Props.ArithC02Hint.yearRange_hint_total
#print axioms OH.Props.ArithC01Dated.before_closure
#print axioms OH.Props.ArithC01Dated.after_closure
#print axioms OH.Props.ArithC01Dated.validYmdBefore_eq_model
#print axioms OH.Props.ArithC01Dated.validYmdAfter_eq_model
#print axioms OH.Props.ArithC01Dated.validYmd_panics
#print axioms OH.Props.ArithC01Dated.validYmd_total
#print axioms OH.Props.ArithC01Dated.yearBeforeOffset_eq_model
#print axioms OH.Props.ArithC01Dated.yearBeforeOffset_total
#print axioms OH.Props.ArithC01Dated.map_toNat_cast
#print axioms OH.Props.ArithC01Dated.dateYear_eq_model
#print axioms OH.Props.ArithC01Dated.easter_chrono
#print axioms OH.Props.ArithC01Dated.dateOnYear_agree
#print axioms OH.Props.ArithC01Dated.dateOnYear_value
#print axioms OH.Props.ArithC01Dated.dateOnYear_bad_day
#print axioms OH.Props.ArithC02Dated2.find_map_pairOf
#print axioms OH.Props.ArithC02Dated2.isOpenFromIntervals_eq_model
#print axioms OH.Props.ArithC02Dated2.nextChangeFromIntervals_eq_model
#print axioms OH.Props.ArithC02Dated2.isOpen_total
#print axioms OH.Props.ArithC02Dated2.nextChange_total
#print axioms OH.Props.ArithC02Dated2.nextChange_single
#print axioms OH.Props.ArithC02Dated2.nextChange_single_on_end
#print axioms OH.Props.ArithC02Dated2.nextChange_single_eq_model
#print axioms OH.Props.ArithC02Dated2.map_pairOf_modelIntervals
#print axioms OH.Props.ArithC02Dated2.nextChangeFromBounds_eq_model
#print axioms OH.Props.ArithC02Dated2.isOpenFromBounds_eq_model
#print axioms OH.Props.ArithC02Dated2.fromBounds_total
#print axioms OH.Props.ArithC02Dated3.hintDate_single_interval
#print axioms OH.Props.ArithC02Dated3.hintDate_single_interval_on_end
#print axioms OH.Props.ArithC02Dated3.hintDate_single_day_year
#print axioms OH.Props.ArithC02Dated3.hintDate_single_day
#print axioms OH.Props.ArithC02Dated3.filterDate_single_interval
#print axioms OH.Props.ArithC02Dated3.filterDate_single_day
#print axioms OH.Props.ArithC02Dated3.filterDate_single_day_year
#print axioms OH.Props.ArithC02Dated3.singleInterval_no_start_year
#print axioms OH.Props.ArithC02Dated3.singleInterval_no_start
#print axioms OH.Props.ArithC02Dated3.singleInterval_end_year
#print axioms OH.Props.ArithC02Dated3.singleInterval_end_year_none
#print axioms OH.Props.ArithC02Dated3.singleInterval_no_end_year
#print axioms OH.Props.ArithC02Dated3Tie.yearBeforeOffset_yearOk
#print axioms OH.Props.ArithC02Dated3Tie.builder_false
#print axioms OH.Props.ArithC02Dated3Tie.builder_true
#print axioms OH.Props.ArithC02Dated3Tie.firstEnd_agree
#print axioms OH.Props.ArithC02Dated3Tie.dateYear_bounds
#print axioms OH.Props.ArithC02Dated3Tie.singleInterval_agree
#print axioms OH.Props.ArithC02Dated3Tie.boundsOn_agree
#print axioms OH.Props.ArithC02Dated3Tie.agree_map_inv
#print axioms OH.Props.ArithC02Dated3Tie.specOf_inj
#print axioms OH.Props.ArithC02Dated3Tie.hintDate_agree
#print axioms OH.Props.ArithC02Dated3Tie.filterDate_agree
#print axioms OH.Props.ArithC02Dated3Tie.singleDayIntervals_eq
#print axioms OH.Props.ArithC02Dated3Tie.singleDayFind_eq
#print axioms OH.Props.ArithC02Dated3Tie.map_pairOf_mk
#print axioms OH.Props.ArithC02Dated3Tie.hintDate_single_day_eq
#print axioms OH.Props.ArithC02Dated3Tie.filterDate_single_day_eq
#print axioms OH.Props.ArithC02Dated3Tie.wdOk_of_wf
#print axioms OH.Props.ArithC02Dated3Tie.hintDate_tie
#print axioms OH.Props.ArithC02Dated3Tie.filterDate_tie
#print axioms OH.Props.ArithC02Dated3Bounds.ensureIncreasing_eq_model
#print axioms OH.Props.ArithC02Dated3Bounds.intervalsGo_eq_model
#print axioms OH.Props.ArithC02Dated3Bounds.intervalsFromBounds_eq_model
#print axioms OH.Props.ArithC02Dated3Bounds.nextChangeFromBounds_closed
#print axioms OH.Props.ArithC02Dated3Bounds.isOpenFromBounds_closed
#print axioms OH.Props.ArithC14Sched.timeRangeNew_eq
#print axioms OH.Props.ArithC14Sched.isEmpty_eq_model
#print axioms OH.Props.ArithC14Sched.isAlwaysClosed_eq_model
#print axioms OH.Props.ArithC14Sched.cmpMin_eq
#print axioms OH.Props.ArithC14Sched.cmpMax_eq
#print axioms OH.Props.ArithC14Sched.pass_before
#print axioms OH.Props.ArithC14Sched.pass_after
#print axioms OH.Props.ArithC14Sched.insert_loop1_rev
#print axioms OH.Props.ArithC14Sched.insert_loop1
#print axioms OH.Props.ArithC14Sched.insert_loop2
#print axioms OH.Props.ArithC14Sched.before_length
#print axioms OH.Props.ArithC14Sched.after_length
#print axioms OH.Props.ArithC14Sched.insert_eq_model
#print axioms OH.Props.ArithC14Sched.insert_total
#print axioms OH.Props.ArithC14Sched.coalesceBeforeRev_length
#print axioms OH.Props.ArithC14Sched.coalesceAfter_length
#print axioms OH.Props.ArithC14Sched.insert_length
#print axioms OH.Props.ArithC14Sched.addition_rev
#print axioms OH.Props.ArithC14Sched.addition_eq_model
#print axioms OH.Props.ArithC14Sched.addition_total
#print axioms OH.Props.ArithC14SchedFrom.fromRanges_loop_gen
#print axioms OH.Props.ArithC14SchedFrom.fromRanges_loop
#print axioms OH.Props.ArithC14SchedFrom.fromRanges_gen
#print axioms OH.Props.ArithC14SchedFrom.gmk_map_toM
#print axioms OH.Props.ArithC14SchedFrom.gmk_length_le
#print axioms OH.Props.ArithC14SchedFrom.fromRanges_eq_model
#print axioms OH.Props.ArithC14SchedFrom.fromRanges_total
#print axioms OH.Props.ArithC14SchedFrom.fromRanges_total_any_union
#print axioms OH.Props.ArithC14SchedIter.iterNew_eq_model
#print axioms OH.Props.ArithC14SchedIter.preYield_spec
#print axioms OH.Props.ArithC14SchedIter.nextLoop_eq
#print axioms OH.Props.ArithC14SchedIter.loop_eq
#print axioms OH.Props.ArithC14SchedIter.next_loop
#print axioms OH.Props.ArithC14SchedIter.toM_mk
#print axioms OH.Props.ArithC14SchedIter.next_agree
#print axioms OH.Props.ArithC14SchedIter.next_total_of_model
#print axioms OH.Props.ArithC01Eval.fromRanges_eq
#print axioms OH.Props.ArithC01Eval.addition_eq
#print axioms OH.Props.ArithC01Eval.rule_eq_model
#print axioms OH.Props.ArithC01Eval.isAlwaysClosed_eq
#print axioms OH.Props.ArithC01Eval.loop_eq_model
#print axioms OH.Props.ArithC01Eval.scheduleAt_eq_model
#print axioms OH.Props.ArithC02Eval.model_unfold
#print axioms OH.Props.ArithC02Eval.closure_core
#print axioms OH.Props.ArithC02Eval.ruleHint_eq_model
#print axioms OH.Props.ArithC02Eval.hintMap_eq_model
#print axioms OH.Props.ArithC02Eval.ruleIsConstant_eq_model
#print axioms OH.Props.ArithC02Eval.find_eq_model
#print axioms OH.Props.ArithC02Eval.isConstant_eq_model
#print axioms OH.Props.ArithC02Eval.nextChangeHint_eq_model_at
#print axioms OH.Props.ArithC02Eval.nextChangeHint_eq_model
#print axioms OH.Props.ArithC02EvalDay.any_eq_model
#print axioms OH.Props.ArithC02EvalDay.sliceFilter_eq_model
#print axioms OH.Props.ArithC02EvalDay.map_eq_model
#print axioms OH.Props.ArithC02EvalDay.sliceHint_eq_model
#print axioms OH.Props.ArithC02EvalDay.isEmpty_eq_model
#print axioms OH.Props.ArithC02EvalDay.dayFilter_eq_model
#print axioms OH.Props.ArithC02EvalDay.dayHint_eq_model
#print axioms OH.Props.ArithC02EvalLink.nextChangeHint_linked
#print axioms OH.Props.ArithC02EvalLink.isConstant_linked
#print axioms OH.Props.ArithC02IterState.state_eq_model
#print axioms OH.Props.ArithC02IterState.state_eq_model_expr
#print axioms OH.Props.ArithC02IterState.isOpen_eq_model
#print axioms OH.Props.ArithC02IterState.isClosed_eq_model
#print axioms OH.Props.ArithC02IterState.isUnknown_eq_model
#print axioms OH.Props.ArithC02IterNext.next_eq_model
#print axioms OH.Props.ArithC02IterNew.new_eq_model
#print axioms OH.Props.ArithC01Week.loop_agree_model
#print axioms OH.Props.ArithC01Week.tail_agree
#print axioms OH.Props.ArithC01Week.weekRange_hint_agree
#print axioms OH.Props.ArithC01Week.weekRange_hint_total
#print axioms OH.Props.ArithC01WeekDays.countDaysInMonth_agree
#print axioms OH.Props.ArithC01WeekDays.countDaysInMonth_panic
#print axioms OH.Props.ArithC01WeekDay.weekDayRange_fixed_agree
#print axioms OH.Props.ArithC01WeekDay.weekDayRange_simple_agree
#print axioms OH.Props.ArithC01WeekDay.weekDayRange_holiday_agree
#print axioms OH.Props.ArithC01WeekDay.weekDayRange_fuel_zero
#print axioms OH.Props.ArithC01WeekDay.weekDayRange_fuel_one_wrapping
#print axioms OH.Props.ArithC01WeekDayHint.weekDayRange_hint_holiday_agree
#print axioms OH.Props.ArithC01WeekDayHint.weekDayRange_hint_fixed_agree
#print axioms OH.Props.ArithC01TimeSel.fixedRange_full
#print axioms OH.Props.ArithC01TimeSel.spanImmutable_eq_decide
#print axioms OH.Props.ArithC01TimeSel.spanImmutable_eq_model
#print axioms OH.Props.ArithC01TimeSel.all_eq_decide
#print axioms OH.Props.ArithC01TimeSel.selImmutable_eq_model
#print axioms OH.Props.ArithC01TimeSel.is0024_eq_decide
#print axioms OH.Props.ArithC01TimeSel.is0024_eq_model
#print axioms OH.Props.ArithC01TimeSel.ruleIsConstant_linked
#print axioms OH.Props.ArithC01TimeSelLink.hintMap_linked
