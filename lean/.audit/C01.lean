import OH.Props.C01
#print axioms OH.Props.C01.C01_spec_outside
#print axioms OH.Props.C01.C01_model_outside
#print axioms OH.Props.C01.C01_bound_irrelevant
#print axioms OH.Props.C01.C01_holidays_only_from_ctx
#print axioms OH.Props.C01.C01_spec_holiday
#print axioms OH.Props.C01.C01_spec_month
#print axioms OH.Props.C01.C01_spec_no_selector
