import OH.Props.C01
import OH.Props.C01E
import OH.Props.ArithC01
#print axioms OH.Props.C01.C01_spec_outside
#print axioms OH.Props.C01.C01_model_outside
#print axioms OH.Props.C01.C01_bound_irrelevant
#print axioms OH.Props.C01.C01_holidays_only_from_ctx
#print axioms OH.Props.C01.C01_spec_holiday
#print axioms OH.Props.C01.C01_spec_holiday_plain
#print axioms OH.Props.C01.C01_spec_month
#print axioms OH.Props.C01.C01_spec_no_selector
#print axioms OH.Props.C01.exprOK_of
#print axioms OH.Props.C01.C01_schedule_refines_spec_partial
#print axioms OH.Props.C01.c01Holds_iff
#print axioms OH.Props.C01.C01_holds_partial
#print axioms OH.Props.C01.DatedAgree_of_noDated
#print axioms OH.Props.C01.C01_schedule_refines_spec_nodated
#print axioms OH.Props.C01.wf_of_parserWF
#print axioms OH.Props.C01.DatedAgree_of_safe
#print axioms OH.Props.C01.exprDefined_of_safe
#print axioms OH.Props.C01.exprDatedSafe_of_plain
#print axioms OH.Props.C01.exprDatedSafe_iff_plain
#print axioms OH.Props.C01.C01_schedule_refines_spec_window
#print axioms OH.Props.C01.C01_schedule_refines_spec_window'
#print axioms OH.Props.C01.C01_schedule_refines_spec_inyear
#print axioms OH.Props.C01.C01_schedule_refines_spec_plain
#print axioms OH.Props.C01.C04_schedule_total
#print axioms OH.Props.C01E.C01_every_parsed_expression_nodated
#print axioms OH.Props.C01E.C01_every_parsed_expression_plain
#print axioms OH.Props.C01E.C01_every_parsed_expression_window
#print axioms OH.Props.ArithC01.easter_eq_model
#print axioms OH.Props.ArithC01.easter_total
#print axioms OH.Props.ArithC01.easter_model_of_generated
#print axioms OH.Props.ArithC01.easter_year
#print axioms OH.Props.ArithC01.gen_easter_spec
#print axioms OH.Props.ArithC01.gen_easter_window
#print axioms OH.Props.ArithC01.gen_easter_none_outside
