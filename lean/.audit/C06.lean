import OH.Props.C06
import OH.Props.TablesC06
#print axioms OH.Props.C06.C06_printed_number_shape
#print axioms OH.Props.C06.C06_printed_number_reparses
#print axioms OH.Props.C06.C06_day_offset_roundtrip
#print axioms OH.Props.C06.C06_time_of_day_roundtrip
#print axioms OH.Props.C06.C06_printableOut_is_the_hypothesis
#print axioms OH.Props.C06.C06_parse_print_roundtrip
#print axioms OH.Props.C06.C06_toString_parse_roundtrip
#print axioms OH.Props.C06.C06_roundtrip_identity
#print axioms OH.Props.C06.C06_roundtrip_idempotent
#print axioms OH.Props.C06.C06_print_never_panics
#print axioms OH.Props.C06.C06_reparsed_evaluates_identically
#print axioms OH.Props.C06.C06_states_do_not_depend_on_comments
#print axioms OH.Props.C06.C06_parsed_is_printable
#print axioms OH.Props.C06.C06_every_parsed_expression_round_trips
#print axioms OH.Props.C06.C06_every_parsed_expression_reparses_equivalent
#print axioms OH.Props.C06.C06_print_never_panics_on_parsed
#print axioms OH.Props.TablesC06.C06_wday_names
#print axioms OH.Props.TablesC06.C06_wday_names_complete
#print axioms OH.Props.TablesC06.C06_month_names
#print axioms OH.Props.TablesC06.C06_month_names_complete
#print axioms OH.Props.TablesC06.C06_holiday_names
#print axioms OH.Props.TablesC06.C06_kind_names
#print axioms OH.Props.TablesC06.C06_event_names
#print axioms OH.Props.TablesC06.C06_separators
#print axioms OH.Props.TablesC06.C06_tables_complete
