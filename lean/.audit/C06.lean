import OH.Props.C06
#print axioms OH.Props.C06.C06_printed_number_shape
#print axioms OH.Props.C06.C06_printed_number_reparses
#print axioms OH.Props.C06.C06_day_offset_roundtrip
#print axioms OH.Props.C06.C06_time_of_day_roundtrip
