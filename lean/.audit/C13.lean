import OH.Props.C13
import OH.Props.C07E
import OH.Props.TablesC07
import OH.Props.ArithC07
import OH.Props.ArithC07Month
#print axioms OH.Props.C13.normalizeM_eq
#print axioms OH.Props.C13.C13_no_panic
#print axioms OH.Props.C13.normalize_eq_of_ok
#print axioms OH.Props.C13.C13_normal_form_in_range
#print axioms OH.Props.C13.C13_idempotent
#print axioms OH.Props.C13.C13_deterministic
#print axioms OH.Props.C13.C13_idempotent_M
#print axioms OH.Props.C13.d13Witness_normalizes
#print axioms OH.Props.C13.C13_idempotent_before_repair_fails
#print axioms OH.Props.C07E.parsed_exprOK
#print axioms OH.Props.C07E.C07_every_parsed_expression
#print axioms OH.Props.C07E.C13_every_parsed_expression
#print axioms OH.Props.C07E.C13_every_normal_form_prints_and_reparses
#print axioms OH.Props.TablesC07.C07_frames
#print axioms OH.Props.ArithC07.year_succ_agree
#print axioms OH.Props.ArithC07.year_pred_agree
#print axioms OH.Props.ArithC07.week_succ_agree
#print axioms OH.Props.ArithC07.week_pred_agree
#print axioms OH.Props.ArithC07.year_succ_in_frame
#print axioms OH.Props.ArithC07.year_pred_in_frame
#print axioms OH.Props.ArithC07.week_succ_in_frame
#print axioms OH.Props.ArithC07.week_pred_in_frame
#print axioms OH.Props.ArithC07Month.discr_range
#print axioms OH.Props.ArithC07Month.discr_injective
#print axioms OH.Props.ArithC07Month.discr_surjective
#print axioms OH.Props.ArithC07Month.tryFrom_of_discr
#print axioms OH.Props.ArithC07Month.tryFrom_none
#print axioms OH.Props.ArithC07Month.tryFrom_spec
#print axioms OH.Props.ArithC07Month.tryFrom_total
#print axioms OH.Props.ArithC07Month.next_spec
#print axioms OH.Props.ArithC07Month.prev_spec
#print axioms OH.Props.ArithC07Month.month_succ_agree
#print axioms OH.Props.ArithC07Month.month_pred_agree
#print axioms OH.Props.ArithC07Month.month_succ_in_frame
#print axioms OH.Props.ArithC07Month.month_pred_in_frame
#print axioms OH.Props.ArithC07Month.next_eq_eval_model
#print axioms OH.Props.ArithC07Month.prev_next
#print axioms OH.Props.ArithC07Month.next_prev
