import OH.Props.C04
import OH.Props.C04P
import OH.Props.C04E
import OH.Props.C02B
import OH.Props.ArithC09Tz
#print axioms OH.Props.C04.C04_iter_total_partial
#print axioms OH.Props.C04.C04_state_total_partial
#print axioms OH.Props.C04.C04_easter_no_panic
#print axioms OH.Props.C04.C04_count_days_no_panic
#print axioms OH.Props.C04.C04_state_far_future
#print axioms OH.Props.C04.C04_offset_total
#print axioms OH.Props.C04.C04_span_total
#print axioms OH.Props.C04P.C04_pairs_conform_to_grammar
#print axioms OH.Props.C04P.C04_parse_never_panics
#print axioms OH.Props.C04P.C04_parseChars_never_panics
#print axioms OH.Props.C04P.C04_parse_ok_or_err
#print axioms OH.Props.C04E.C04_parsed_schedule_total
#print axioms OH.Props.C04E.C04_parsed_print_total
#print axioms OH.Props.C04E.C04_parsed_normalize_total
#print axioms OH.Props.C04E.C04_parsed_iteration_total
#print axioms OH.Props.C02B.schedOf_of_scheduleAt
#print axioms OH.Props.C02B.kinds_of_dayKind
#print axioms OH.Props.C02B.outside_closed
#print axioms OH.Props.C02B.envOK_of_datedOK
#print axioms OH.Props.C02B.exprDatedOK_of_noDated
#print axioms OH.Props.C02B.envOK_partial
#print axioms OH.Props.C02B.exprHintSafe_of_noDated
#print axioms OH.Props.C02B.exprDatedOK_of_safe
#print axioms OH.Props.C02B.envOK_of_parserWF
#print axioms OH.Props.C02B.C02_total_partial
#print axioms OH.Props.C02B.C02_iter_range_exact_partial
#print axioms OH.Props.C02B.C02_pointwise_partial
#print axioms OH.Props.C02B.C02_no_change_skipped_partial
#print axioms OH.Props.C02B.C02_adjacent_kinds_differ_partial
#print axioms OH.Props.C02B.C03_state_partial
#print axioms OH.Props.C02B.C03_next_change_some_partial
#print axioms OH.Props.C02B.C03_next_change_none_partial
#print axioms OH.Props.C02B.C03_next_change_exact_partial
#print axioms OH.Props.C02B.C16_state_unchanged_partial
#print axioms OH.Props.C02B.C16_next_change_partial
#print axioms OH.Props.C02B.C16_negative_bound_partial
#print axioms OH.Props.C02B.envOK_shifted
#print axioms OH.Props.C02B.shifted_witness_values
#print axioms OH.Props.ArithC09Tz.noLocation_naive
#print axioms OH.Props.ArithC09Tz.noLocation_datetime
#print axioms OH.Props.ArithC09Tz.naive_eq_model
#print axioms OH.Props.ArithC09Tz.walk_eq_model
#print axioms OH.Props.ArithC09Tz.minute_eq_model
#print axioms OH.Props.ArithC09Tz.datetime_eq_model
#print axioms OH.Props.ArithC09Tz.tzFuel_le
#print axioms OH.Props.ArithC09Tz.datetime_total
#print axioms OH.Props.ArithC09Tz.eventTime_default
#print axioms OH.Props.ArithC09Tz.eventTime_no_coords
#print axioms OH.Props.ArithC09Tz.eventTime_coords
