import OH.Props.C04
#print axioms OH.Props.C04.C04_iter_total_partial
#print axioms OH.Props.C04.C04_state_total_partial
#print axioms OH.Props.C04.C04_easter_no_panic
#print axioms OH.Props.C04.C04_count_days_no_panic
#print axioms OH.Props.C04.C04_state_far_future
#print axioms OH.Props.C04.C04_offset_total
#print axioms OH.Props.C04.C04_span_total
