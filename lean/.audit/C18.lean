import OH.Props.C18
#print axioms OH.Props.C18.reachable_states
#print axioms OH.Props.C18.pure_under_interleaving
#print axioms OH.Props.C18.pureRun_is_allInit
#print axioms OH.Props.C18.pureRun_is_first_call
#print axioms OH.Props.C18.pure_under_racing_interleaving
#print axioms OH.Props.C18.racing_threads_finish
#print axioms OH.Props.C18.repeated_call_eq
#print axioms OH.Props.C18.other_evaluations_irrelevant
#print axioms OH.Props.C18.clone_eval_eq
#print axioms OH.Props.C18.equal_value_eval_eq
#print axioms OH.Props.C18.first_use_order_irrelevant
#print axioms OH.Props.C18.first_use_order_irrelevant_evals
#print axioms OH.Props.C18.inventory_matches
#print axioms OH.Props.C18.cells_are_the_statics
#print axioms OH.Props.C18.no_other_shared_state
#print axioms OH.Props.C18.one_hash_container
#print axioms OH.Props.C18.api_cells_in_scope
