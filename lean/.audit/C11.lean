import OH.Props.C11
import OH.Props.TablesC11
import OH.Props.ArithC01Time
#print axioms OH.Props.C11.default_events
#print axioms OH.Props.C11.default_ctx_events
#print axioms OH.Props.C11.default_events_ordered
#print axioms OH.Props.C11.event_offset_arith
#print axioms OH.Props.C11.event_offset_inside
#print axioms OH.Props.C11.fixed_time
#print axioms OH.Props.C11.coords_valid_iff
#print axioms OH.Props.C11.coords_valid_iff_le
#print axioms OH.Props.C11.coords_nan_rejected
#print axioms OH.Props.C11.coords_value
#print axioms OH.Props.C11.sun_schedule
#print axioms OH.Props.C11.sun_consequence
#print axioms OH.Props.C11.sun_open_at_noon
#print axioms OH.Props.C11.sun_closed_at_midnight
#print axioms OH.Props.C11.sun_default
#print axioms OH.Props.C11.sun_schedule_general
#print axioms OH.Props.C11.sun_general
#print axioms OH.Props.C11.sun_wrapped
#print axioms OH.Props.TablesC11.C11_default_events
#print axioms OH.Props.TablesC11.C11_default_events_complete
#print axioms OH.Props.ArithC01Time.midnight00
#print axioms OH.Props.ArithC01Time.midnight24
#print axioms OH.Props.ArithC01Time.midnight48
#print axioms OH.Props.ArithC01Time.emb_lt_iff
#print axioms OH.Props.ArithC01Time.fromMins_wf
#print axioms OH.Props.ArithC01Time.variableTime_asNaive
#print axioms OH.Props.ArithC01Time.variableTime_asNaive_eq_model
#print axioms OH.Props.ArithC01Time.timeSpan_asNaive
#print axioms OH.Props.ArithC01Time.timeSpan_asNaive_eq_model
