import OH.Props.C17
import OH.Props.C17E
#print axioms OH.Props.C17.C17_first_interval_comments_partial
#print axioms OH.Props.C17.C17_interval_comments_partial
#print axioms OH.Props.C17.C17_empty_outside
#print axioms OH.Props.C17.C17_union_sorted
#print axioms OH.Props.C17E.C17_parser_comments_sorted
#print axioms OH.Props.C17E.C17_comments_sorted_and_from_applying_rule
#print axioms OH.Props.C17E.C17_schedule_comments_sorted_and_from_applying_rule
#print axioms OH.Props.C17E.C17_no_contribution_no_comments
#print axioms OH.Props.C17E.C17_no_match_no_comments
#print axioms OH.Props.C17E.C17_single_rule_exact
#print axioms OH.Props.C17E.C17_isolated_period_carries_its_rule_comments
