import OH.Props.C17
#print axioms OH.Props.C17.C17_first_interval_comments_partial
#print axioms OH.Props.C17.C17_interval_comments_partial
#print axioms OH.Props.C17.C17_empty_outside
#print axioms OH.Props.C17.C17_union_sorted
