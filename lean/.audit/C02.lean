import OH.Props.C02
import OH.Props.C02A
import OH.Props.C02B
import OH.Props.C02E
import OH.Props.C02H
import OH.Props.ArithC02Hint
import OH.Props.ArithC01MonthSel
import OH.Props.ArithC01Offset
import OH.Props.ArithC01Dated
import OH.Props.ArithC02Dated2
import OH.Props.ArithC02Dated3
import OH.Props.ArithC02Dated3Tie
import OH.Props.ArithC02Dated3Bounds
import OH.Props.ArithC01Eval
import OH.Props.ArithC02Eval
import OH.Props.ArithC02EvalDay
import OH.Props.ArithC02EvalLink
import OH.Props.ArithC02IterState
import OH.Props.ArithC02IterNext
import OH.Props.ArithC02IterNew
import OH.Props.ArithC01Week
import OH.Props.ArithC01WeekDays
import OH.Props.ArithC01WeekDay
import OH.Props.ArithC01WeekDayHint
import OH.Props.ArithC01TimeSel
import OH.Props.ArithC01TimeSelLink
#print axioms OH.Props.C02.C02_total_partial
#print axioms OH.Props.C02.C02_iter_range_exact_partial
#print axioms OH.Props.C02.C02_pointwise_partial
#print axioms OH.Props.C02.C02_no_change_skipped_partial
#print axioms OH.Props.C02.C02_adjacent_kinds_differ_partial
#print axioms OH.Props.C02A.iter_total
#print axioms OH.Props.C02A.iter_runs
#print axioms OH.Props.C02A.iter_complete
#print axioms OH.Props.C02A.iter_empty_iff
#print axioms OH.Props.C02A.iter_first_start
#print axioms OH.Props.C02A.iter_last_stop
#print axioms OH.Props.C02A.iter_contiguous
#print axioms OH.Props.C02A.iter_adjacent_kinds_differ
#print axioms OH.Props.C02A.iter_intervals_nonempty
#print axioms OH.Props.C02A.iter_increasing
#print axioms OH.Props.C02A.iter_cover
#print axioms OH.Props.C02A.iter_kind_pointwise
#print axioms OH.Props.C02A.iter_no_change_skipped
#print axioms OH.Props.C02A.iter_boundary_is_change
#print axioms OH.Props.C02A.iter_comments
#print axioms OH.Props.C02A.iter_first_comments
#print axioms OH.Props.C02A.first_is_head
#print axioms OH.Props.C02A.first_interval_exact
#print axioms OH.Props.C02A.first_interval_none
#print axioms OH.Props.C02A.iter_inside_window
#print axioms OH.Props.C02A.iter_before_end
#print axioms OH.Props.C02A.nextChange_lt_end
#print axioms OH.Props.C02A.state_eq_pointKind
#print axioms OH.Props.C02A.state_after_end
#print axioms OH.Props.C02A.state_total
#print axioms OH.Props.C02A.nextChange_exact
#print axioms OH.Props.C02A.nextChange_after_end
#print axioms OH.Props.C02A.nextChange_some
#print axioms OH.Props.C02A.nextChange_none
#print axioms OH.Props.C02A.nextChange_complete
#print axioms OH.Props.C02A.nextChange_same_interval_some
#print axioms OH.Props.C02A.nextChange_same_interval_none
#print axioms OH.Props.C02A.state_nextChange_consistent
#print axioms OH.Props.C02A.pointKind_unbounded
#print axioms OH.Props.C02A.envOK_unbounded
#print axioms OH.Props.C02A.bounded_state_unchanged
#print axioms OH.Props.C02A.bounded_iter_total
#print axioms OH.Props.C02A.bounded_nextChange
#print axioms OH.Props.C02A.negative_bound_nextChange
#print axioms OH.Props.C02A.negative_bound_first_interval
#print axioms OH.Props.C02A.iterRangeNaive_eq
#print axioms OH.Props.C02A.state_eq
#print axioms OH.Props.C02A.nextChange_eq
#print axioms OH.Props.C02A.envOf_bound
#print axioms OH.Props.C02B.schedOf_of_scheduleAt
#print axioms OH.Props.C02B.kinds_of_dayKind
#print axioms OH.Props.C02B.outside_closed
#print axioms OH.Props.C02B.envOK_of_datedOK
#print axioms OH.Props.C02B.exprDatedOK_of_noDated
#print axioms OH.Props.C02B.envOK_partial
#print axioms OH.Props.C02B.exprHintSafe_of_noDated
#print axioms OH.Props.C02B.exprDatedOK_of_safe
#print axioms OH.Props.C02B.envOK_of_parserWF
#print axioms OH.Props.C02B.C02_total_partial
#print axioms OH.Props.C02B.C02_iter_range_exact_partial
#print axioms OH.Props.C02B.C02_pointwise_partial
#print axioms OH.Props.C02B.C02_no_change_skipped_partial
#print axioms OH.Props.C02B.C02_adjacent_kinds_differ_partial
#print axioms OH.Props.C02B.C03_state_partial
#print axioms OH.Props.C02B.C03_next_change_some_partial
#print axioms OH.Props.C02B.C03_next_change_none_partial
#print axioms OH.Props.C02B.C03_next_change_exact_partial
#print axioms OH.Props.C02B.C16_state_unchanged_partial
#print axioms OH.Props.C02B.C16_next_change_partial
#print axioms OH.Props.C02B.C16_negative_bound_partial
#print axioms OH.Props.C02B.envOK_shifted
#print axioms OH.Props.C02B.shifted_witness_values
#print axioms OH.Props.C02E.C02_every_parsed_expression
#print axioms OH.Props.C02E.C02_no_change_skipped
#print axioms OH.Props.C02E.C03_every_parsed_expression
#print axioms OH.Props.C02E.C16_every_parsed_expression
#print axioms OH.Props.C02H.lastKindOf_eq
#print axioms OH.Props.C02H.c02Hint_of_envOK
#print axioms OH.Props.C02H.c02Hint_model
#print axioms OH.Props.C02H.c02Hint_mono
#print axioms OH.Props.C02H.c02Hint_detects
#print axioms OH.Props.ArithC02Hint.AgreeDZ.of_eq
#print axioms OH.Props.ArithC02Hint.rem_i32_nat
#print axioms OH.Props.ArithC02Hint.div_i32_nat
#print axioms OH.Props.ArithC02Hint.mul_i32_nat
#print axioms OH.Props.ArithC02Hint.decide_gt_year
#print axioms OH.Props.ArithC02Hint.yearRange_hint_agree
#print axioms OH.Props.ArithC02Hint.yearRange_hint_total
#print axioms OH.Props.ArithC01MonthSel.num_range
#print axioms OH.Props.ArithC01MonthSel.discr_num
#print axioms OH.Props.ArithC01MonthSel.fromDate_spec
#print axioms OH.Props.ArithC01MonthSel.le_iff_num
#print axioms OH.Props.ArithC01MonthSel.wc_month
#print axioms OH.Props.ArithC01MonthSel.year_wrap
#print axioms OH.Props.ArithC01MonthSel.monthFilter_eq_model
#print axioms OH.Props.ArithC01MonthSel.num_injective
#print axioms OH.Props.ArithC01MonthSel.next_num
#print axioms OH.Props.ArithC01MonthSel.wrap_num
#print axioms OH.Props.ArithC01MonthSel.monthHint_eq_model
#print axioms OH.Props.ArithC01MonthSel.monthHintYear_eq_model
#print axioms OH.Props.ArithC01Offset.addDaysSat_eq_model
#print axioms OH.Props.ArithC01Offset.addDaysSat_total
#print axioms OH.Props.ArithC01Offset.weekday_lt
#print axioms OH.Props.ArithC01Offset.weekday_eq
#print axioms OH.Props.ArithC01Offset.days_since_mon
#print axioms OH.Props.ArithC01Offset.beq_decide_cast
#print axioms OH.Props.ArithC01Offset.beq_decide_int
#print axioms OH.Props.ArithC01Offset.cond_eq
#print axioms OH.Props.ArithC01Offset.agree_ite
#print axioms OH.Props.ArithC01Offset.apply_agree
#print axioms OH.Props.ArithC01Offset.gen_apply_total
#print axioms OH.Props.ArithC01Dated.before_closure
#print axioms OH.Props.ArithC01Dated.after_closure
#print axioms OH.Props.ArithC01Dated.validYmdBefore_eq_model
#print axioms OH.Props.ArithC01Dated.validYmdAfter_eq_model
#print axioms OH.Props.ArithC01Dated.validYmd_panics
#print axioms OH.Props.ArithC01Dated.validYmd_total
#print axioms OH.Props.ArithC01Dated.yearBeforeOffset_eq_model
#print axioms OH.Props.ArithC01Dated.yearBeforeOffset_total
#print axioms OH.Props.ArithC01Dated.map_toNat_cast
#print axioms OH.Props.ArithC01Dated.dateYear_eq_model
#print axioms OH.Props.ArithC01Dated.easter_chrono
#print axioms OH.Props.ArithC01Dated.dateOnYear_agree
#print axioms OH.Props.ArithC01Dated.dateOnYear_value
#print axioms OH.Props.ArithC01Dated.dateOnYear_bad_day
#print axioms OH.Props.ArithC02Dated2.find_map_pairOf
#print axioms OH.Props.ArithC02Dated2.isOpenFromIntervals_eq_model
#print axioms OH.Props.ArithC02Dated2.nextChangeFromIntervals_eq_model
#print axioms OH.Props.ArithC02Dated2.isOpen_total
#print axioms OH.Props.ArithC02Dated2.nextChange_total
#print axioms OH.Props.ArithC02Dated2.nextChange_single
#print axioms OH.Props.ArithC02Dated2.nextChange_single_on_end
#print axioms OH.Props.ArithC02Dated2.nextChange_single_eq_model
#print axioms OH.Props.ArithC02Dated2.map_pairOf_modelIntervals
#print axioms OH.Props.ArithC02Dated2.nextChangeFromBounds_eq_model
#print axioms OH.Props.ArithC02Dated2.isOpenFromBounds_eq_model
#print axioms OH.Props.ArithC02Dated2.fromBounds_total
#print axioms OH.Props.ArithC02Dated3.hintDate_single_interval
#print axioms OH.Props.ArithC02Dated3.hintDate_single_interval_on_end
#print axioms OH.Props.ArithC02Dated3.hintDate_single_day_year
#print axioms OH.Props.ArithC02Dated3.hintDate_single_day
#print axioms OH.Props.ArithC02Dated3.filterDate_single_interval
#print axioms OH.Props.ArithC02Dated3.filterDate_single_day
#print axioms OH.Props.ArithC02Dated3.filterDate_single_day_year
#print axioms OH.Props.ArithC02Dated3.singleInterval_no_start_year
#print axioms OH.Props.ArithC02Dated3.singleInterval_no_start
#print axioms OH.Props.ArithC02Dated3.singleInterval_end_year
#print axioms OH.Props.ArithC02Dated3.singleInterval_end_year_none
#print axioms OH.Props.ArithC02Dated3.singleInterval_no_end_year
#print axioms OH.Props.ArithC02Dated3Tie.yearBeforeOffset_yearOk
#print axioms OH.Props.ArithC02Dated3Tie.builder_false
#print axioms OH.Props.ArithC02Dated3Tie.builder_true
#print axioms OH.Props.ArithC02Dated3Tie.firstEnd_agree
#print axioms OH.Props.ArithC02Dated3Tie.dateYear_bounds
#print axioms OH.Props.ArithC02Dated3Tie.singleInterval_agree
#print axioms OH.Props.ArithC02Dated3Tie.boundsOn_agree
#print axioms OH.Props.ArithC02Dated3Tie.agree_map_inv
#print axioms OH.Props.ArithC02Dated3Tie.specOf_inj
#print axioms OH.Props.ArithC02Dated3Tie.hintDate_agree
#print axioms OH.Props.ArithC02Dated3Tie.filterDate_agree
#print axioms OH.Props.ArithC02Dated3Tie.singleDayIntervals_eq
#print axioms OH.Props.ArithC02Dated3Tie.singleDayFind_eq
#print axioms OH.Props.ArithC02Dated3Tie.map_pairOf_mk
#print axioms OH.Props.ArithC02Dated3Tie.hintDate_single_day_eq
#print axioms OH.Props.ArithC02Dated3Tie.filterDate_single_day_eq
#print axioms OH.Props.ArithC02Dated3Tie.wdOk_of_wf
#print axioms OH.Props.ArithC02Dated3Tie.hintDate_tie
#print axioms OH.Props.ArithC02Dated3Tie.filterDate_tie
#print axioms OH.Props.ArithC02Dated3Bounds.ensureIncreasing_eq_model
#print axioms OH.Props.ArithC02Dated3Bounds.intervalsGo_eq_model
#print axioms OH.Props.ArithC02Dated3Bounds.intervalsFromBounds_eq_model
#print axioms OH.Props.ArithC02Dated3Bounds.nextChangeFromBounds_closed
#print axioms OH.Props.ArithC02Dated3Bounds.isOpenFromBounds_closed
#print axioms OH.Props.ArithC01Eval.fromRanges_eq
#print axioms OH.Props.ArithC01Eval.addition_eq
#print axioms OH.Props.ArithC01Eval.rule_eq_model
#print axioms OH.Props.ArithC01Eval.isAlwaysClosed_eq
#print axioms OH.Props.ArithC01Eval.loop_eq_model
#print axioms OH.Props.ArithC01Eval.scheduleAt_eq_model
#print axioms OH.Props.ArithC02Eval.model_unfold
#print axioms OH.Props.ArithC02Eval.closure_core
#print axioms OH.Props.ArithC02Eval.ruleHint_eq_model
#print axioms OH.Props.ArithC02Eval.hintMap_eq_model
#print axioms OH.Props.ArithC02Eval.ruleIsConstant_eq_model
#print axioms OH.Props.ArithC02Eval.find_eq_model
#print axioms OH.Props.ArithC02Eval.isConstant_eq_model
#print axioms OH.Props.ArithC02Eval.nextChangeHint_eq_model_at
#print axioms OH.Props.ArithC02Eval.nextChangeHint_eq_model
#print axioms OH.Props.ArithC02EvalDay.any_eq_model
#print axioms OH.Props.ArithC02EvalDay.sliceFilter_eq_model
#print axioms OH.Props.ArithC02EvalDay.map_eq_model
#print axioms OH.Props.ArithC02EvalDay.sliceHint_eq_model
#print axioms OH.Props.ArithC02EvalDay.isEmpty_eq_model
#print axioms OH.Props.ArithC02EvalDay.dayFilter_eq_model
#print axioms OH.Props.ArithC02EvalDay.dayHint_eq_model
#print axioms OH.Props.ArithC02EvalLink.nextChangeHint_linked
#print axioms OH.Props.ArithC02EvalLink.isConstant_linked
#print axioms OH.Props.ArithC02IterState.state_eq_model
#print axioms OH.Props.ArithC02IterState.state_eq_model_expr
#print axioms OH.Props.ArithC02IterState.isOpen_eq_model
#print axioms OH.Props.ArithC02IterState.isClosed_eq_model
#print axioms OH.Props.ArithC02IterState.isUnknown_eq_model
#print axioms OH.Props.ArithC02IterNext.next_eq_model
#print axioms OH.Props.ArithC02IterNew.new_eq_model
#print axioms OH.Props.ArithC01Week.loop_agree_model
#print axioms OH.Props.ArithC01Week.tail_agree
#print axioms OH.Props.ArithC01Week.weekRange_hint_agree
#print axioms OH.Props.ArithC01Week.weekRange_hint_total
#print axioms OH.Props.ArithC01WeekDays.countDaysInMonth_agree
#print axioms OH.Props.ArithC01WeekDays.countDaysInMonth_panic
#print axioms OH.Props.ArithC01WeekDay.weekDayRange_fixed_agree
#print axioms OH.Props.ArithC01WeekDay.weekDayRange_simple_agree
#print axioms OH.Props.ArithC01WeekDay.weekDayRange_holiday_agree
#print axioms OH.Props.ArithC01WeekDay.weekDayRange_fuel_zero
#print axioms OH.Props.ArithC01WeekDay.weekDayRange_fuel_one_wrapping
#print axioms OH.Props.ArithC01WeekDayHint.weekDayRange_hint_holiday_agree
#print axioms OH.Props.ArithC01WeekDayHint.weekDayRange_hint_fixed_agree
#print axioms OH.Props.ArithC01TimeSel.fixedRange_full
#print axioms OH.Props.ArithC01TimeSel.spanImmutable_eq_decide
#print axioms OH.Props.ArithC01TimeSel.spanImmutable_eq_model
#print axioms OH.Props.ArithC01TimeSel.all_eq_decide
#print axioms OH.Props.ArithC01TimeSel.selImmutable_eq_model
#print axioms OH.Props.ArithC01TimeSel.is0024_eq_decide
#print axioms OH.Props.ArithC01TimeSel.is0024_eq_model
#print axioms OH.Props.ArithC01TimeSel.ruleIsConstant_linked
#print axioms OH.Props.ArithC01TimeSelLink.hintMap_linked
