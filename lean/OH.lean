import OH.Model.ExtendedTime
import OH.Props.C19
