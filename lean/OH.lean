import OH.Model.ExtendedTime
import OH.Props.C19
import OH.Model.SortedVec
