import OH.Model.ExtendedTime
import OH.Props.C19
import OH.Model.SortedVec
import OH.Model.Calendar
import OH.Model.Syntax
import OH.Model.Schedule
import OH.Model.Eval
import OH.Model.Iter
