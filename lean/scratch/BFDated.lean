import OH.Spec.Rules
/- Brute force (experiment, not part of the library, not imported by OH.lean).  To run it: copy this file to
   lean/BFDated.lean, add `[[lean_exe]] name = "bfdated" root = "BFDated"` to lakefile.toml, `lake build bfdated`,
   then `.lake/build/bin/bfdated <shard> <nshards> <first day> <last day> <offsets…>` (e.g. 16 shards,
   days 736330 739982, offsets 0 1 -1 30 -30 300 -300 365 -365 366 -366 400 -400 770 -770 1500 -1500 3000 -3000
   100000 -100000: 44 100 ranges x 3652 days, 0 mismatch with the specification, 0 unsound hint).
   Offsets beyond the calendar (since /repo 5cdd92e; env STRIDE=n evaluates the specification on every n-th day only —
   it looks at every year of the calendar there, about 0.2 s per day): STRIDE=97, days 738900 739300, offsets 0 5
   100000000 -100000000 -95700000 95700000 200000000 -200000000: 6400 ranges, 0 mismatch, 0 unsound hint, 0 error;
   STRIDE=61, offsets 0 -95006399 -95006100 -95004000 96485129 96484800 96487000 (where d - offset crosses
   NaiveDate::MAX / MIN): 4900 ranges, 0 / 0 / 0.
   For dated ranges with offsets of any size,
   (1) MonthdayRange.filter d = Spec.datedOk d on every day of a window,
   (2) HintOK: hint d > d and the filter is constant on [d, hint d). -/
open OH.Model OH.Model.Cal OH.Spec

def shapes : Array (String × DateSpec × DateSpec) := #[
  ("Jan01-Jan10", .fixed none 1 1, .fixed none 1 10),
  ("Jan01-Dec31", .fixed none 1 1, .fixed none 12 31),
  ("Dec24-Jan02", .fixed none 12 24, .fixed none 1 2),
  ("Feb29-Mar01", .fixed none 2 29, .fixed none 3 1),
  ("Feb28-Feb29", .fixed none 2 28, .fixed none 2 29),
  ("Mar01-Feb29", .fixed none 3 1, .fixed none 2 29),
  ("Jun15-Jun20", .fixed none 6 15, .fixed none 6 20),
  ("Dec31-Jan01", .fixed none 12 31, .fixed none 1 1),
  ("Apr31-May05", .fixed none 4 31, .fixed none 5 5),
  ("Jan02-Jan01", .fixed none 1 2, .fixed none 1 1),
  ("easter-easter", .easter none, .easter none),
  ("easter-Apr10", .easter none, .fixed none 4 10),
  ("Mar20-easter", .fixed none 3 20, .easter none),
  ("Jan01", .fixed none 1 1, .fixed none 1 1),
  ("Feb29", .fixed none 2 29, .fixed none 2 29),
  ("Dec31", .fixed none 12 31, .fixed none 12 31),
  ("Jun15", .fixed none 6 15, .fixed none 6 15),
  ("Apr31", .fixed none 4 31, .fixed none 4 31),
  ("2020Jan01-Feb01", .fixed (some 2020) 1 1, .fixed none 2 1),
  ("2020Dec31-Jan01", .fixed (some 2020) 12 31, .fixed none 1 1),
  ("2020Feb29-Feb29", .fixed (some 2020) 2 29, .fixed none 2 29),
  ("2021Feb29-Feb29", .fixed (some 2021) 2 29, .fixed none 2 29),
  ("2020easter-easter", .easter (some 2020), .easter none),
  ("2021Jun01-2023Jan01", .fixed (some 2021) 6 1, .fixed (some 2023) 1 1),
  ("2022Jun15", .fixed (some 2022) 6 15, .fixed (some 2022) 6 15)
]

def wds : Array (WdayOffset × WdayOffset) := #[(.none, .none), (.prev 0, .none), (.none, .next 6), (.next 4, .prev 1)]

def showOff (o : DateOffset) : String :=
  (match o.wday with | .none => "" | .prev t => s!" -wd{t}" | .next t => s!" +wd{t}") ++ (if o.days == 0 then "" else s!" {o.days}d")

def runOne (name : String) (s : DateSpec) (so : DateOffset) (e : DateSpec) (eo : DateOffset) (lo hi : Int)
    (checkSpec : Bool) (stride : Nat := 1) : IO (Nat × Nat × Nat) := do
  let r := MonthdayRange.date s so e eo
  let n := (hi - lo).toNat
  -- filter over [lo, hi + margin)
  let margin : Nat := 800
  let mut F : Array Bool := Array.mkEmpty (n + margin)
  let mut errs := 0
  let mut specBad := 0
  let mut hintBad := 0
  for i in [0:n + margin] do
    let d := lo + i
    match r.filter d with
    | .ok b =>
      F := F.push b
      if checkSpec && i < n && i % stride == 0 then
        if datedOk s so e eo d != b then
          specBad := specBad + 1
          if specBad ≤ 2 then IO.println s!"SPEC {name}{showOff so} /{showOff eo} d={d} impl={b}"
    | .error m =>
      F := F.push false
      errs := errs + 1
      if errs ≤ 2 then IO.println s!"ERR {name}{showOff so} /{showOff eo} d={d} {m}"
  -- nc[i] = least j > i with F[j] ≠ F[i] (or n+margin)
  let tot := n + margin
  let mut nc : Array Nat := Array.replicate tot tot
  for k in [1:tot] do
    let i := tot - 1 - k
    if F[i]! != F[i+1]! then nc := nc.set! i (i+1) else nc := nc.set! i (nc[i+1]!)
  for i in [0:n] do
    let d := lo + i
    match r.hint d with
    | .ok (some h) =>
      let bad := h ≤ d || (h - lo > nc[i]! && nc[i]! < tot)
      if bad then
        hintBad := hintBad + 1
        if hintBad ≤ 2 then IO.println s!"HINT {name}{showOff so} /{showOff eo} d={d} hint={h} change={lo + nc[i]!}"
    | .ok none => pure ()
    | .error m =>
      errs := errs + 1
      if errs ≤ 2 then IO.println s!"ERRH {name}{showOff so} /{showOff eo} d={d} {m}"
  return (specBad, hintBad, errs)

def main (args : List String) : IO Unit := do
  -- args: shard nshards lo hi offsets...
  match args with
  | sh :: nsh :: lo :: hi :: offs =>
    let sh := sh.toNat!; let nsh := nsh.toNat!
    let lo := lo.toInt!; let hi := hi.toInt!
    let offs := offs.map String.toInt!
    let stride := ((← IO.getEnv "STRIDE").getD "1").toNat!
    let mut idx := 0
    let mut ranges := 0
    let mut tS := 0; let mut tH := 0; let mut tE := 0; let mut badRanges := 0
    for (name, s, e) in shapes do
      for a in offs do
        for b in offs do
          for (wa, wb) in wds do
            idx := idx + 1
            if idx % nsh == sh then
              let so : DateOffset := ⟨wa, a⟩
              let eo : DateOffset := ⟨wb, b⟩
              -- the documented semantics give no meaning to yearless-start / year-end ranges
              let (x, y, z) ← runOne name s so e eo lo hi (datedDefined s e) stride
              ranges := ranges + 1
              tS := tS + x; tH := tH + y; tE := tE + z
              if x + y + z > 0 then badRanges := badRanges + 1
    IO.println s!"shard {sh}: ranges={ranges} days={hi - lo} specBad={tS} hintBad={tH} errors={tE} badRanges={badRanges}"
  | _ => IO.println "usage: bfdated shard nshards lo hi offsets..."
