/-
GENERATED FILE — do not edit.  Written by translators/countries2lean.py from
  <checkout>/opening-hours/src/localization/country/generated.rs
(the tables of `enum Country`: variants, `ALL`, `name`, `iso_code`, `Display`, `FromStr`), verbatim and
in source order; no consistency check is made by the translator: `OH.Props.C10` decides them.
Core-only (linked into the driver).
-/
namespace OH.Generated.Countries

/-- the variants of `pub enum Country`, in declaration order -/
def variants : List String := [
  "AD", "AL", "AM", "AR", "AT", "AU", "AX", "BA", "BB", "BE", "BG", "BJ",
  "BO", "BR", "BS", "BW", "BY", "BZ", "CA", "CH", "CL", "CN", "CO", "CR",
  "CU", "CY", "CZ", "DE", "DK", "DO", "EC", "EE", "EG", "ES", "FI", "FO",
  "FR", "GA", "GB", "GD", "GE", "GG", "GI", "GL", "GM", "GR", "GT", "GY",
  "HK", "HN", "HR", "HT", "HU", "ID", "IE", "IM", "IS", "IT", "JE", "JM",
  "JP", "KR", "KZ", "LI", "LS", "LT", "LU", "LV", "MA", "MC", "MD", "ME",
  "MG", "MK", "MN", "MS", "MT", "MX", "MZ", "NA", "NE", "NG", "NI", "NL",
  "NO", "NZ", "PA", "PE", "PG", "PH", "PL", "PR", "PT", "PY", "RO", "RS",
  "RU", "SE", "SG", "SI", "SJ", "SK", "SM", "SR", "SV", "TN", "TR", "UA",
  "US", "UY", "VA", "VE", "VN", "ZA", "ZW"]

/-- the `/// …` doc line of each variant, in declaration order -/
def variantDocs : List (String × String) := [
  ("AD", "Andorra"), ("AL", "Albania"), ("AM", "Armenia"),
  ("AR", "Argentina"), ("AT", "Austria"), ("AU", "Australia"),
  ("AX", "Åland Islands"), ("BA", "Bosnia and Herzegovina"), ("BB", "Barbados"),
  ("BE", "Belgium"), ("BG", "Bulgaria"), ("BJ", "Benin"),
  ("BO", "Bolivia"), ("BR", "Brazil"), ("BS", "Bahamas"),
  ("BW", "Botswana"), ("BY", "Belarus"), ("BZ", "Belize"),
  ("CA", "Canada"), ("CH", "Switzerland"), ("CL", "Chile"),
  ("CN", "China"), ("CO", "Colombia"), ("CR", "Costa Rica"),
  ("CU", "Cuba"), ("CY", "Cyprus"), ("CZ", "Czechia"),
  ("DE", "Germany"), ("DK", "Denmark"), ("DO", "Dominican Republic"),
  ("EC", "Ecuador"), ("EE", "Estonia"), ("EG", "Egypt"),
  ("ES", "Spain"), ("FI", "Finland"), ("FO", "Faroe Islands"),
  ("FR", "France"), ("GA", "Gabon"), ("GB", "United Kingdom"),
  ("GD", "Grenada"), ("GE", "Georgia"), ("GG", "Guernsey"),
  ("GI", "Gibraltar"), ("GL", "Greenland"), ("GM", "Gambia"),
  ("GR", "Greece"), ("GT", "Guatemala"), ("GY", "Guyana"),
  ("HK", "Hong Kong"), ("HN", "Honduras"), ("HR", "Croatia"),
  ("HT", "Haiti"), ("HU", "Hungary"), ("ID", "Indonesia"),
  ("IE", "Ireland"), ("IM", "Isle of Man"), ("IS", "Iceland"),
  ("IT", "Italy"), ("JE", "Jersey"), ("JM", "Jamaica"),
  ("JP", "Japan"), ("KR", "South Korea"), ("KZ", "Kazakhstan"),
  ("LI", "Liechtenstein"), ("LS", "Lesotho"), ("LT", "Lithuania"),
  ("LU", "Luxembourg"), ("LV", "Latvia"), ("MA", "Morocco"),
  ("MC", "Monaco"), ("MD", "Moldova"), ("ME", "Montenegro"),
  ("MG", "Madagascar"), ("MK", "North Macedonia"), ("MN", "Mongolia"),
  ("MS", "Montserrat"), ("MT", "Malta"), ("MX", "Mexico"),
  ("MZ", "Mozambique"), ("NA", "Namibia"), ("NE", "Niger"),
  ("NG", "Nigeria"), ("NI", "Nicaragua"), ("NL", "Netherlands"),
  ("NO", "Norway"), ("NZ", "New Zealand"), ("PA", "Panama"),
  ("PE", "Peru"), ("PG", "Papua New Guinea"), ("PH", "Philippines"),
  ("PL", "Poland"), ("PR", "Puerto Rico"), ("PT", "Portugal"),
  ("PY", "Paraguay"), ("RO", "Romania"), ("RS", "Serbia"),
  ("RU", "Russia"), ("SE", "Sweden"), ("SG", "Singapore"),
  ("SI", "Slovenia"), ("SJ", "Svalbard and Jan Mayen"), ("SK", "Slovakia"),
  ("SM", "San Marino"), ("SR", "Suriname"), ("SV", "El Salvador"),
  ("TN", "Tunisia"), ("TR", "Turkey"), ("UA", "Ukraine"),
  ("US", "United States"), ("UY", "Uruguay"), ("VA", "Vatican City"),
  ("VE", "Venezuela"), ("VN", "Vietnam"), ("ZA", "South Africa"),
  ("ZW", "Zimbabwe")]

/-- `N` of `pub const ALL: [Self; N]` -/
def allLen : Nat := 115

/-- the elements of `Country::ALL` (`Self::<variant>`), in order -/
def all : List String := [
  "AD", "AL", "AM", "AR", "AT", "AU", "AX", "BA", "BB", "BE", "BG", "BJ",
  "BO", "BR", "BS", "BW", "BY", "BZ", "CA", "CH", "CL", "CN", "CO", "CR",
  "CU", "CY", "CZ", "DE", "DK", "DO", "EC", "EE", "EG", "ES", "FI", "FO",
  "FR", "GA", "GB", "GD", "GE", "GG", "GI", "GL", "GM", "GR", "GT", "GY",
  "HK", "HN", "HR", "HT", "HU", "ID", "IE", "IM", "IS", "IT", "JE", "JM",
  "JP", "KR", "KZ", "LI", "LS", "LT", "LU", "LV", "MA", "MC", "MD", "ME",
  "MG", "MK", "MN", "MS", "MT", "MX", "MZ", "NA", "NE", "NG", "NI", "NL",
  "NO", "NZ", "PA", "PE", "PG", "PH", "PL", "PR", "PT", "PY", "RO", "RS",
  "RU", "SE", "SG", "SI", "SJ", "SK", "SM", "SR", "SV", "TN", "TR", "UA",
  "US", "UY", "VA", "VE", "VN", "ZA", "ZW"]

/-- the arms `Self::<variant> => "<name>"` of `Country::name`, in order -/
def nameArms : List (String × String) := [
  ("AD", "Andorra"), ("AL", "Albania"), ("AM", "Armenia"),
  ("AR", "Argentina"), ("AT", "Austria"), ("AU", "Australia"),
  ("AX", "Åland Islands"), ("BA", "Bosnia and Herzegovina"), ("BB", "Barbados"),
  ("BE", "Belgium"), ("BG", "Bulgaria"), ("BJ", "Benin"),
  ("BO", "Bolivia"), ("BR", "Brazil"), ("BS", "Bahamas"),
  ("BW", "Botswana"), ("BY", "Belarus"), ("BZ", "Belize"),
  ("CA", "Canada"), ("CH", "Switzerland"), ("CL", "Chile"),
  ("CN", "China"), ("CO", "Colombia"), ("CR", "Costa Rica"),
  ("CU", "Cuba"), ("CY", "Cyprus"), ("CZ", "Czechia"),
  ("DE", "Germany"), ("DK", "Denmark"), ("DO", "Dominican Republic"),
  ("EC", "Ecuador"), ("EE", "Estonia"), ("EG", "Egypt"),
  ("ES", "Spain"), ("FI", "Finland"), ("FO", "Faroe Islands"),
  ("FR", "France"), ("GA", "Gabon"), ("GB", "United Kingdom"),
  ("GD", "Grenada"), ("GE", "Georgia"), ("GG", "Guernsey"),
  ("GI", "Gibraltar"), ("GL", "Greenland"), ("GM", "Gambia"),
  ("GR", "Greece"), ("GT", "Guatemala"), ("GY", "Guyana"),
  ("HK", "Hong Kong"), ("HN", "Honduras"), ("HR", "Croatia"),
  ("HT", "Haiti"), ("HU", "Hungary"), ("ID", "Indonesia"),
  ("IE", "Ireland"), ("IM", "Isle of Man"), ("IS", "Iceland"),
  ("IT", "Italy"), ("JE", "Jersey"), ("JM", "Jamaica"),
  ("JP", "Japan"), ("KR", "South Korea"), ("KZ", "Kazakhstan"),
  ("LI", "Liechtenstein"), ("LS", "Lesotho"), ("LT", "Lithuania"),
  ("LU", "Luxembourg"), ("LV", "Latvia"), ("MA", "Morocco"),
  ("MC", "Monaco"), ("MD", "Moldova"), ("ME", "Montenegro"),
  ("MG", "Madagascar"), ("MK", "North Macedonia"), ("MN", "Mongolia"),
  ("MS", "Montserrat"), ("MT", "Malta"), ("MX", "Mexico"),
  ("MZ", "Mozambique"), ("NA", "Namibia"), ("NE", "Niger"),
  ("NG", "Nigeria"), ("NI", "Nicaragua"), ("NL", "Netherlands"),
  ("NO", "Norway"), ("NZ", "New Zealand"), ("PA", "Panama"),
  ("PE", "Peru"), ("PG", "Papua New Guinea"), ("PH", "Philippines"),
  ("PL", "Poland"), ("PR", "Puerto Rico"), ("PT", "Portugal"),
  ("PY", "Paraguay"), ("RO", "Romania"), ("RS", "Serbia"),
  ("RU", "Russia"), ("SE", "Sweden"), ("SG", "Singapore"),
  ("SI", "Slovenia"), ("SJ", "Svalbard and Jan Mayen"), ("SK", "Slovakia"),
  ("SM", "San Marino"), ("SR", "Suriname"), ("SV", "El Salvador"),
  ("TN", "Tunisia"), ("TR", "Turkey"), ("UA", "Ukraine"),
  ("US", "United States"), ("UY", "Uruguay"), ("VA", "Vatican City"),
  ("VE", "Venezuela"), ("VN", "Vietnam"), ("ZA", "South Africa"),
  ("ZW", "Zimbabwe")]

/-- the arms `Self::<variant> => "<code>"` of `Country::iso_code`, in order -/
def isoCodeArms : List (String × String) := [
  ("AD", "AD"), ("AL", "AL"), ("AM", "AM"), ("AR", "AR"), ("AT", "AT"), ("AU", "AU"),
  ("AX", "AX"), ("BA", "BA"), ("BB", "BB"), ("BE", "BE"), ("BG", "BG"), ("BJ", "BJ"),
  ("BO", "BO"), ("BR", "BR"), ("BS", "BS"), ("BW", "BW"), ("BY", "BY"), ("BZ", "BZ"),
  ("CA", "CA"), ("CH", "CH"), ("CL", "CL"), ("CN", "CN"), ("CO", "CO"), ("CR", "CR"),
  ("CU", "CU"), ("CY", "CY"), ("CZ", "CZ"), ("DE", "DE"), ("DK", "DK"), ("DO", "DO"),
  ("EC", "EC"), ("EE", "EE"), ("EG", "EG"), ("ES", "ES"), ("FI", "FI"), ("FO", "FO"),
  ("FR", "FR"), ("GA", "GA"), ("GB", "GB"), ("GD", "GD"), ("GE", "GE"), ("GG", "GG"),
  ("GI", "GI"), ("GL", "GL"), ("GM", "GM"), ("GR", "GR"), ("GT", "GT"), ("GY", "GY"),
  ("HK", "HK"), ("HN", "HN"), ("HR", "HR"), ("HT", "HT"), ("HU", "HU"), ("ID", "ID"),
  ("IE", "IE"), ("IM", "IM"), ("IS", "IS"), ("IT", "IT"), ("JE", "JE"), ("JM", "JM"),
  ("JP", "JP"), ("KR", "KR"), ("KZ", "KZ"), ("LI", "LI"), ("LS", "LS"), ("LT", "LT"),
  ("LU", "LU"), ("LV", "LV"), ("MA", "MA"), ("MC", "MC"), ("MD", "MD"), ("ME", "ME"),
  ("MG", "MG"), ("MK", "MK"), ("MN", "MN"), ("MS", "MS"), ("MT", "MT"), ("MX", "MX"),
  ("MZ", "MZ"), ("NA", "NA"), ("NE", "NE"), ("NG", "NG"), ("NI", "NI"), ("NL", "NL"),
  ("NO", "NO"), ("NZ", "NZ"), ("PA", "PA"), ("PE", "PE"), ("PG", "PG"), ("PH", "PH"),
  ("PL", "PL"), ("PR", "PR"), ("PT", "PT"), ("PY", "PY"), ("RO", "RO"), ("RS", "RS"),
  ("RU", "RU"), ("SE", "SE"), ("SG", "SG"), ("SI", "SI"), ("SJ", "SJ"), ("SK", "SK"),
  ("SM", "SM"), ("SR", "SR"), ("SV", "SV"), ("TN", "TN"), ("TR", "TR"), ("UA", "UA"),
  ("US", "US"), ("UY", "UY"), ("VA", "VA"), ("VE", "VE"), ("VN", "VN"), ("ZA", "ZA"),
  ("ZW", "ZW")]

/-- the arms `"<pattern>" => Ok(Self::<variant>)` of `FromStr::from_str`, in order; the last arm of
the `match` is `_ => Err(UnknownCountryCode(s.to_string()))` -/
def fromStrArms : List (String × String) := [
  ("AD", "AD"), ("AL", "AL"), ("AM", "AM"), ("AR", "AR"), ("AT", "AT"), ("AU", "AU"),
  ("AX", "AX"), ("BA", "BA"), ("BB", "BB"), ("BE", "BE"), ("BG", "BG"), ("BJ", "BJ"),
  ("BO", "BO"), ("BR", "BR"), ("BS", "BS"), ("BW", "BW"), ("BY", "BY"), ("BZ", "BZ"),
  ("CA", "CA"), ("CH", "CH"), ("CL", "CL"), ("CN", "CN"), ("CO", "CO"), ("CR", "CR"),
  ("CU", "CU"), ("CY", "CY"), ("CZ", "CZ"), ("DE", "DE"), ("DK", "DK"), ("DO", "DO"),
  ("EC", "EC"), ("EE", "EE"), ("EG", "EG"), ("ES", "ES"), ("FI", "FI"), ("FO", "FO"),
  ("FR", "FR"), ("GA", "GA"), ("GB", "GB"), ("GD", "GD"), ("GE", "GE"), ("GG", "GG"),
  ("GI", "GI"), ("GL", "GL"), ("GM", "GM"), ("GR", "GR"), ("GT", "GT"), ("GY", "GY"),
  ("HK", "HK"), ("HN", "HN"), ("HR", "HR"), ("HT", "HT"), ("HU", "HU"), ("ID", "ID"),
  ("IE", "IE"), ("IM", "IM"), ("IS", "IS"), ("IT", "IT"), ("JE", "JE"), ("JM", "JM"),
  ("JP", "JP"), ("KR", "KR"), ("KZ", "KZ"), ("LI", "LI"), ("LS", "LS"), ("LT", "LT"),
  ("LU", "LU"), ("LV", "LV"), ("MA", "MA"), ("MC", "MC"), ("MD", "MD"), ("ME", "ME"),
  ("MG", "MG"), ("MK", "MK"), ("MN", "MN"), ("MS", "MS"), ("MT", "MT"), ("MX", "MX"),
  ("MZ", "MZ"), ("NA", "NA"), ("NE", "NE"), ("NG", "NG"), ("NI", "NI"), ("NL", "NL"),
  ("NO", "NO"), ("NZ", "NZ"), ("PA", "PA"), ("PE", "PE"), ("PG", "PG"), ("PH", "PH"),
  ("PL", "PL"), ("PR", "PR"), ("PT", "PT"), ("PY", "PY"), ("RO", "RO"), ("RS", "RS"),
  ("RU", "RU"), ("SE", "SE"), ("SG", "SG"), ("SI", "SI"), ("SJ", "SJ"), ("SK", "SK"),
  ("SM", "SM"), ("SR", "SR"), ("SV", "SV"), ("TN", "TN"), ("TR", "TR"), ("UA", "UA"),
  ("US", "US"), ("UY", "UY"), ("VA", "VA"), ("VE", "VE"), ("VN", "VN"), ("ZA", "ZA"),
  ("ZW", "ZW")]

/-- `impl Display for Country` is `write!(f, "{}", self.name())` (recognised literally) -/
def displayIsName : Bool := true

end OH.Generated.Countries
