import OH.Model.Syntax
import OH.Model.SortedVec
/-
C05 — the SENTENCES of the supported grammar as data, how each is WRITTEN (`render`) and which
expression it DENOTES (`denote`).

A sentence is a concrete syntax tree of the OSM opening_hours grammar with the relaxations the library
documents: optional spaces around `-` and `/` in time spans and around `-` in date ranges,
single-digit hours / days / weeks, `off` for `closed`, an explicit `open`, `:` / `: ` / a space after
the wide-range selectors, `day` or `days` after any number, numbers with leading zeros, `[1-3]`
position ranges, `Jan 5-10` (end given by a bare day number), `2020+`, `Jan 5+`, `week1`, weekdays and
holidays in either order joined by `,` or a space, a comment before (`"c":`) and/or after the
selectors, the spellings `;`, `; `, ` ; `, `, `, ` || `, `|| ` of the rule separators.
Constructs the library reports as unsupported (points in time, Easter followed by a bare day number)
have no constructor.

`render` and `denote` are two structural recursions over the same tree, a line or two per
constructor, written against the OSM specification and WITHOUT any parser.  They are used twice:
 * the driver draws random sentences (OH/Spec/SentGen.lean) and prints `render s` with `denote s`; the
   real parser must return exactly `denote s` (`c05.den` lines);
 * the theorem `parse (render s) = ok (denote s)` for every well-formed sentence `s` (OH/Props/C05).
Core-only imports (linked into the driver).
-/
namespace OH.Spec.Sent
open OH.Model

abbrev Txt := List Char

def t (s : String) : Txt := s.toList
def digit (n : Nat) : Char := Char.ofNat (48 + n % 10)
def pad2 (n : Nat) : Txt := [digit (n / 10), digit n]

/-- decimal digits, most significant first -/
def decAux : Nat → Nat → Txt → Txt
  | 0, _, acc => acc
  | fuel + 1, n, acc => if n < 10 then digit n :: acc else decAux fuel (n / 10) (digit n :: acc)
def dec (n : Nat) : Txt := decAux (n + 1) n []

/-- an optional single space -/
def sp (b : Bool) : Txt := if b then [' '] else []

/-- a number written with `zeros` leading zeros -/
structure Num where
  val : Nat
  zeros : Nat
  deriving Repr
def Num.render (n : Num) : Txt := List.replicate n.zeros '0' ++ dec n.val

-- ------------------------------------------------------------------------------------------
-- times

/-- `HH:MM`; `short`: a one-digit hour is written without its leading zero -/
structure Clock where
  h : Nat
  m : Nat
  short : Bool
  deriving Repr
def Clock.render (c : Clock) : Txt :=
  (if c.short && c.h < 10 then [digit c.h] else pad2 c.h) ++ [':'] ++ pad2 c.m
def Clock.mins (c : Clock) : Nat := c.h * 60 + c.m

/-- the offset of an event: a clock time up to 23:59, or `24:00` -/
inductive EvOff where
  | clock (c : Clock)
  | h24
  deriving Repr
def EvOff.render : EvOff → Txt
  | .clock c => c.render
  | .h24 => t "24:00"
def EvOff.mins : EvOff → Nat
  | .clock c => c.mins
  | .h24 => 1440

def eventName : TimeEvent → Txt
  | .dawn => t "dawn" | .sunrise => t "sunrise" | .sunset => t "sunset" | .dusk => t "dusk"

/-- `sunrise`, `(sunrise+01:30)`, `(dusk-24:00)` -/
inductive Var where
  | plain (ev : TimeEvent)
  | shifted (ev : TimeEvent) (neg : Bool) (off : EvOff)
  deriving Repr
def Var.render : Var → Txt
  | .plain ev => eventName ev
  | .shifted ev neg off => ['('] ++ eventName ev ++ [if neg then '-' else '+'] ++ off.render ++ [')']
def Var.denote : Var → Time
  | .plain ev => .variable ev 0
  | .shifted ev neg off => .variable ev (if neg then -(off.mins : Int) else off.mins)

/-- start of a span: a clock time up to 23:59, `24:00`, or an event -/
inductive Start where
  | clock (c : Clock)
  | h24
  | var (v : Var)
  deriving Repr
def Start.render : Start → Txt
  | .clock c => c.render
  | .h24 => t "24:00"
  | .var v => v.render
def Start.denote : Start → Time
  | .clock c => .fixed c.mins
  | .h24 => .fixed 1440
  | .var v => v.denote

/-- end of a span: an extended clock time up to 48:00, or an event -/
inductive Stop where
  | clock (c : Clock)
  | var (v : Var)
  deriving Repr
def Stop.render : Stop → Txt
  | .clock c => c.render
  | .var v => v.render
def Stop.denote : Stop → Time
  | .clock c => .fixed c.mins
  | .var v => v.denote

/-- the period of a repetition: minutes `MM`, or `HH:MM` up to `24:00` -/
inductive Period where
  | minutes (m : Nat)
  | clock (c : EvOff)
  deriving Repr
def Period.render : Period → Txt
  | .minutes m => pad2 m
  | .clock c => c.render
def Period.mins : Period → Int
  | .minutes m => m
  | .clock c => c.mins

inductive Span where
  /-- `a+` : open end, until midnight -/
  | from_ (a : Start)
  /-- `a - b`, `a-b+` -/
  | range (a : Start) (s1 s2 : Bool) (b : Stop) (plus : Bool)
  /-- `a -b / MM`, `a-b/HH:MM` (no space between `-` and `b` in this form) -/
  | repeated (a : Start) (s1 : Bool) (b : Stop) (s2 s3 : Bool) (p : Period)
  deriving Repr
def Span.render : Span → Txt
  | .from_ a => a.render ++ ['+']
  | .range a s1 s2 b plus => a.render ++ sp s1 ++ ['-'] ++ sp s2 ++ b.render ++ (if plus then ['+'] else [])
  | .repeated a s1 b s2 s3 p => a.render ++ sp s1 ++ ['-'] ++ b.render ++ sp s2 ++ ['/'] ++ sp s3 ++ p.render
def Span.denote : Span → TimeSpan
  | .from_ a => ⟨a.denote, .fixed 1440, true, none⟩
  | .range a _ _ b plus => ⟨a.denote, b.denote, plus, none⟩
  | .repeated a _ b _ _ p => ⟨a.denote, b.denote, false, some p.mins⟩

/-- `x,y,z` -/
def commaList {α} (f : α → Txt) : List α → Txt
  | [] => []
  | [x] => f x
  | x :: y :: rest => f x ++ [','] ++ commaList f (y :: rest)

-- ------------------------------------------------------------------------------------------
-- day offsets

/-- ` +N day(s)` -/
structure DayOff where
  n : Num
  neg : Bool
  plural : Bool
  deriving Repr
def DayOff.render (o : DayOff) : Txt :=
  [' ', if o.neg then '-' else '+'] ++ o.n.render ++ t " day" ++ (if o.plural then ['s'] else [])
def DayOff.denote (o : DayOff) : Int := if o.neg then -(o.n.val : Int) else o.n.val

def optOff : Option DayOff → Txt × Int
  | none => ([], 0)
  | some o => (o.render, o.denote)

-- ------------------------------------------------------------------------------------------
-- weekdays

def wdayName : Nat → Txt
  | 0 => t "Mo" | 1 => t "Tu" | 2 => t "We" | 3 => t "Th" | 4 => t "Fr" | 5 => t "Sa" | _ => t "Su"

/-- one entry between brackets: `a`, `a-b` (from the start of the month), `-a` (from its end) -/
inductive NthEntry where
  | one (a : Nat)
  | range (a b : Nat)
  | last (a : Nat)
  deriving Repr
def NthEntry.render : NthEntry → Txt
  | .one a => [digit a]
  | .range a b => [digit a, '-', digit b]
  | .last a => ['-', digit a]

def setRange (arr : List Bool) (a b : Nat) : List Bool :=
  (List.range 5).map fun i => arr.getD i false || (a ≤ i + 1 && i + 1 ≤ b)

def allFalse : List Bool := [false, false, false, false, false]
def allTrue : List Bool := [true, true, true, true, true]

/-- the positions selected by a list of entries: (from the start, from the end) -/
def nthArrays : List NthEntry → List Bool × List Bool
  | [] => (allFalse, allFalse)
  | e :: rest =>
    let (ns, ne) := nthArrays rest
    match e with
    | .one a => (setRange ns a a, ne)
    | .range a b => (setRange ns a b, ne)
    | .last a => (ns, setRange ne a a)

inductive WdRange where
  /-- `Mo` -/
  | single (a : Nat)
  /-- `Mo-Fr` -/
  | span (a b : Nat)
  /-- `Mo[1,3-4,-1] +2 days` -/
  | nth (a : Nat) (es : List NthEntry) (off : Option DayOff)
  deriving Repr
def WdRange.render : WdRange → Txt
  | .single a => wdayName a
  | .span a b => wdayName a ++ ['-'] ++ wdayName b
  | .nth a es off => wdayName a ++ ['['] ++ commaList NthEntry.render es ++ [']'] ++ (optOff off).1
def WdRange.denote : WdRange → WeekDayRange
  | .single a => .fixed a a 0 allTrue allTrue
  | .span a b => .fixed a b 0 allTrue allTrue
  | .nth a es off => .fixed a a (optOff off).2 (nthArrays es).1 (nthArrays es).2

/-- `PH`, `PH +1 day`, `SH` -/
inductive Hol where
  | pub (off : Option DayOff)
  | school
  deriving Repr
def Hol.render : Hol → Txt
  | .pub off => t "PH" ++ (optOff off).1
  | .school => t "SH"
def Hol.denote : Hol → WeekDayRange
  | .pub off => .holiday .pub (optOff off).2
  | .school => .holiday .school 0

/-- weekdays, holidays, or both in either order; `spaceSep`: the two groups are joined by a space
instead of a comma -/
inductive WdSel where
  | days (ws : List WdRange)
  | hols (hs : List Hol)
  | holsDays (hs : List Hol) (spaceSep : Bool) (ws : List WdRange)
  | daysHols (ws : List WdRange) (spaceSep : Bool) (hs : List Hol)
  deriving Repr
def WdSel.render : WdSel → Txt
  | .days ws => commaList WdRange.render ws
  | .hols hs => commaList Hol.render hs
  | .holsDays hs s ws => commaList Hol.render hs ++ [if s then ' ' else ','] ++ commaList WdRange.render ws
  | .daysHols ws s hs => commaList WdRange.render ws ++ [if s then ' ' else ','] ++ commaList Hol.render hs
def WdSel.denote : WdSel → List WeekDayRange
  | .days ws => ws.map WdRange.denote
  | .hols hs => hs.map Hol.denote
  | .holsDays hs _ ws => hs.map Hol.denote ++ ws.map WdRange.denote
  | .daysHols ws _ hs => ws.map WdRange.denote ++ hs.map Hol.denote

-- ------------------------------------------------------------------------------------------
-- years, weeks

inductive YearR where
  /-- `2020` -/
  | single (a : Nat)
  /-- `2020+` -/
  | plus (a : Nat)
  /-- `2020-2025` -/
  | range (a b : Nat)
  /-- `2020-2030/2` -/
  | step (a b : Nat) (s : Num)
  deriving Repr
def YearR.render : YearR → Txt
  | .single a => dec a
  | .plus a => dec a ++ ['+']
  | .range a b => dec a ++ ['-'] ++ dec b
  | .step a b s => dec a ++ ['-'] ++ dec b ++ ['/'] ++ s.render
def YearR.denote : YearR → YearRange
  | .single a => ⟨a, a, 1⟩
  | .plus a => ⟨a, 9999, 1⟩
  | .range a b => ⟨a, b, 1⟩
  | .step a b s => ⟨a, b, s.val⟩

/-- a week or day number: `short` drops the leading zero of a one-digit value -/
structure Small where
  val : Nat
  short : Bool
  deriving Repr
def Small.render (w : Small) : Txt := if w.short && w.val < 10 then [digit w.val] else pad2 w.val

inductive WeekR where
  | single (a : Small)
  | range (a b : Small)
  | step (a b : Small) (s : Num)
  deriving Repr
def WeekR.render : WeekR → Txt
  | .single a => a.render
  | .range a b => a.render ++ ['-'] ++ b.render
  | .step a b s => a.render ++ ['-'] ++ b.render ++ ['/'] ++ s.render
def WeekR.denote : WeekR → WeekRange
  | .single a => ⟨a.val, a.val, 1⟩
  | .range a b => ⟨a.val, b.val, 1⟩
  | .step a b s => ⟨a.val, b.val, s.val⟩

/-- `week 1-10/2,20` / `week1` -/
structure WeekSel where
  space : Bool
  weeks : List WeekR
  deriving Repr
def WeekSel.render (w : WeekSel) : Txt := t "week" ++ sp w.space ++ commaList WeekR.render w.weeks
def WeekSel.denote (w : WeekSel) : List WeekRange := w.weeks.map WeekR.denote

-- ------------------------------------------------------------------------------------------
-- month days

def monthName : Nat → Txt
  | 1 => t "Jan" | 2 => t "Feb" | 3 => t "Mar" | 4 => t "Apr" | 5 => t "May" | 6 => t "Jun"
  | 7 => t "Jul" | 8 => t "Aug" | 9 => t "Sep" | 10 => t "Oct" | 11 => t "Nov" | _ => t "Dec"

/-- an optional year in front of a date: the year and whether a space follows it -/
def yearPrefix : Option (Nat × Bool) → Txt × Option Nat
  | none => ([], none)
  | some (y, s) => (dec y ++ sp s, some y)

/-- `Jan 5`, `2020 Jan 05`, `2020Jan5`, `easter`, `2021 easter` -/
inductive SDate where
  | fixed (year : Option (Nat × Bool)) (month : Nat) (space : Bool) (day : Small)
  | easter (year : Option (Nat × Bool))
  deriving Repr
def SDate.render : SDate → Txt
  | .fixed y m s d => (yearPrefix y).1 ++ monthName m ++ sp s ++ d.render
  | .easter y => (yearPrefix y).1 ++ t "easter"
def SDate.denote : SDate → DateSpec
  | .fixed y m _ d => .fixed (yearPrefix y).2 m d.val
  | .easter y => .easter (yearPrefix y).2
def SDate.hasYear : SDate → Bool
  | .fixed y _ _ _ => y.isSome
  | .easter y => y.isSome

/-- `+Mo`, `-Fr +2 days`, ` -1 day` -/
inductive SOffset where
  | none
  | days (o : DayOff)
  | wday (neg : Bool) (w : Nat) (o : Option DayOff)
  deriving Repr
def SOffset.render : SOffset → Txt
  | .none => []
  | .days o => o.render
  | .wday neg w o => [if neg then '-' else '+'] ++ wdayName w ++ (optOff o).1
def SOffset.denote : SOffset → DateOffset
  | .none => ⟨.none, 0⟩
  | .days o => ⟨.none, o.denote⟩
  | .wday neg w o => ⟨if neg then .prev w else .next w, (optOff o).2⟩

inductive MdRange where
  /-- `Jan`, `2020Jan` (the year of a month range is written without space) -/
  | month (year : Option Nat) (a : Nat)
  /-- `Jan-Mar`, `2020Jan-Mar` -/
  | months (year : Option Nat) (a b : Nat)
  /-- a single date, possibly shifted -/
  | date (d : SDate) (o : SOffset)
  /-- `Jan 5+`: until the end of the year; `2020 Jan 5+`: until the end of time -/
  | openEnd (d : SDate) (o : SOffset)
  /-- `Jan 5-Feb 10` -/
  | range (d1 : SDate) (o1 : SOffset) (s1 s2 : Bool) (d2 : SDate) (o2 : SOffset)
  /-- `Jan 5-10`: the end is a bare day number: in the same month, or in the next one when it is
  smaller than the start day (with a year: the year of the following January) -/
  | toDay (year : Option (Nat × Bool)) (month : Nat) (space : Bool) (day : Small) (o1 : SOffset)
      (s1 s2 : Bool) (day2 : Small) (o2 : SOffset)
  deriving Repr
def MdRange.render : MdRange → Txt
  | .month y a => (match y with | some y => dec y | none => []) ++ monthName a
  | .months y a b => (match y with | some y => dec y | none => []) ++ monthName a ++ ['-'] ++ monthName b
  | .date d o => d.render ++ o.render
  | .openEnd d o => d.render ++ o.render ++ ['+']
  | .range d1 o1 s1 s2 d2 o2 => d1.render ++ o1.render ++ sp s1 ++ ['-'] ++ sp s2 ++ d2.render ++ o2.render
  | .toDay y m s d o1 s1 s2 d2 o2 =>
    (yearPrefix y).1 ++ monthName m ++ sp s ++ d.render ++ o1.render ++ sp s1 ++ ['-'] ++ sp s2 ++ d2.render ++ o2.render
def MdRange.denote : MdRange → MonthdayRange
  | .month y a => .month a a y
  | .months y a b => .month a b y
  | .date d o => .date d.denote o.denote d.denote o.denote
  | .openEnd d o => .date d.denote o.denote (.fixed (if d.hasYear then some 9999 else none) 12 31) ⟨.none, 0⟩
  | .range d1 o1 _ _ d2 o2 => .date d1.denote o1.denote d2.denote o2.denote
  | .toDay y m _ d o1 _ _ d2 o2 =>
    let yv := (yearPrefix y).2
    let m2 := if d.val > d2.val then m % 12 + 1 else m
    let y2 := if d.val > d2.val && m2 == 1 then yv.map (· + 1) else yv
    .date (.fixed yv m d.val) o1.denote (.fixed y2 m2 d2.val) o2.denote

-- ------------------------------------------------------------------------------------------
-- rules

def quote (c : String) : Txt := ['"'] ++ c.toList ++ ['"']

/-- what separates the wide-range selectors from what follows -/
inductive WideSep where
  | none | space | colon | colonSpace
  deriving Repr, DecidableEq
def WideSep.render : WideSep → Txt
  | .none => [] | .space => [' '] | .colon => [':'] | .colonSpace => [':', ' ']

/-- the wide-range part of a rule -/
inductive Wide where
  /-- nothing -/
  | empty
  /-- a comment followed by `:` (no other wide-range selector may accompany it) -/
  | comment (c : String)
  /-- years, month days, weeks (each possibly absent, not all) and the separator that follows -/
  | sel (ys : List YearR) (ms : List MdRange) (ws : Option WeekSel) (sep : WideSep)
  deriving Repr
def Wide.render : Wide → Txt
  | .empty => []
  | .comment c => quote c ++ [':']
  | .sel ys ms ws sep =>
    commaList YearR.render ys ++ commaList MdRange.render ms
      ++ (match ws with
          | none => []
          | some w => (if ys.isEmpty && ms.isEmpty then [] else [' ']) ++ w.render)
      ++ sep.render

/-- the selectors of a rule -/
inductive Sel where
  | always                                          -- `24/7`
  | sel (w : Wide) (wd : Option WdSel) (ts : List Span)
  deriving Repr
def Sel.render : Sel → Txt
  | .always => t "24/7"
  | .sel w wd ts =>
    w.render ++ (match wd with | some x => x.render | none => [])
      ++ (if wd.isSome && !ts.isEmpty then [' '] else []) ++ commaList Span.render ts
def Sel.denote : Sel → DaySelector × List TimeSpan × Option String
  | .always => (⟨[], [], [], []⟩, [TimeSpan.fullDay], none)
  | .sel w wd ts =>
    let time := if ts.isEmpty then [TimeSpan.fullDay] else ts.map Span.denote
    let wds := match wd with | some x => x.denote | none => []
    match w with
    | .empty => (⟨[], [], [], wds⟩, time, none)
    | .comment c => (⟨[], [], [], wds⟩, time, some c)
    | .sel ys ms ws _ =>
      (⟨ys.map YearR.denote, ms.map MdRange.denote, (match ws with | some x => x.denote | none => []), wds⟩,
        time, none)

/-- how the kind is written -/
inductive KindWord where
  | none | open_ | closed | off | unknown
  deriving Repr, DecidableEq
def KindWord.render : KindWord → Txt
  | .none => [] | .open_ => t "open" | .closed => t "closed" | .off => t "off" | .unknown => t "unknown"
def KindWord.denote : KindWord → Kind
  | .none => .open | .open_ => .open | .closed => .closed | .off => .closed | .unknown => .unknown

/-- modifier: a kind word and/or a comment -/
structure Modifier where
  word : KindWord
  comment : Option String
  deriving Repr
def Modifier.render (m : Modifier) : Txt :=
  m.word.render
    ++ (match m.comment with
        | none => []
        | some c => (if m.word == .none then [] else [' ']) ++ quote c)

structure SRule where
  sel : Sel
  mod : Modifier
  deriving Repr
def SRule.render (r : SRule) : Txt :=
  let m := r.mod.render
  r.sel.render ++ (if m.isEmpty then [] else [' ']) ++ m
def SRule.denote (r : SRule) (op : RuleOp) : Rule :=
  let (day, time, extra) := r.sel.denote
  ⟨day, time, r.mod.word.denote, op, SortedVec.fromVec (r.mod.comment.toList ++ extra.toList)⟩

/-- the spellings of the three rule separators -/
inductive SepWord where
  | semiSpace | semi | spaceSemiSpace | commaSpace | spaceBarsSpace | barsSpace
  deriving Repr, DecidableEq
def SepWord.render : SepWord → Txt
  | .semiSpace => t "; " | .semi => t ";" | .spaceSemiSpace => t " ; " | .commaSpace => t ", "
  | .spaceBarsSpace => t " || " | .barsSpace => t "|| "
def SepWord.denote : SepWord → RuleOp
  | .semiSpace | .semi | .spaceSemiSpace => .normal
  | .commaSpace => .additional
  | .spaceBarsSpace | .barsSpace => .fallback

/-- a sentence: a first rule, then separator + rule pairs -/
structure Sentence where
  first : SRule
  rest : List (SepWord × SRule)
  deriving Repr
def renderRest : List (SepWord × SRule) → Txt
  | [] => []
  | (s, r) :: more => s.render ++ r.render ++ renderRest more
def Sentence.render (s : Sentence) : Txt := s.first.render ++ renderRest s.rest
def Sentence.denote (s : Sentence) : Expr :=
  s.first.denote .normal :: s.rest.map fun (w, r) => r.denote w.denote

-- ------------------------------------------------------------------------------------------
-- well-formed sentences: the value ranges of the grammar and the few context conditions under
-- which a spelling is a sentence of the supported grammar with the stated denotation

def i64Bound : Nat := 9223372036854775808

def Clock.wf (maxH : Nat) (c : Clock) : Bool := decide (c.h ≤ maxH) && decide (c.m ≤ 59)
def EvOff.wf : EvOff → Bool
  | .clock c => c.wf 23
  | .h24 => true
def Var.wf : Var → Bool
  | .plain _ => true
  | .shifted _ _ off => off.wf
def Start.wf : Start → Bool
  | .clock c => c.wf 23
  | .h24 => true
  | .var v => v.wf
/-- up to `47:59`, or `48:00` -/
def Stop.wf : Stop → Bool
  | .clock c => c.wf 47 || (decide (c.h = 48) && decide (c.m = 0))
  | .var v => v.wf
def Period.wf : Period → Bool
  | .minutes m => decide (m ≤ 59)
  | .clock c => c.wf
def Span.wf : Span → Bool
  | .from_ a => a.wf
  | .range a _ _ b _ => a.wf && b.wf
  | .repeated a _ b _ _ p => a.wf && b.wf && p.wf

def Num.wf (bound : Nat) (n : Num) : Bool := decide (1 ≤ n.val) && decide (n.val < bound)
def DayOff.wf (o : DayOff) : Bool := o.n.wf i64Bound
def optOffWf : Option DayOff → Bool
  | none => true
  | some o => o.wf

def NthEntry.wf : NthEntry → Bool
  | .one a => decide (1 ≤ a ∧ a ≤ 5)
  | .range a b => decide (1 ≤ a ∧ a ≤ b ∧ b ≤ 5)
  | .last a => decide (1 ≤ a ∧ a ≤ 5)
def WdRange.wf : WdRange → Bool
  | .single a => decide (a ≤ 6)
  | .span a b => decide (a ≤ 6) && decide (b ≤ 6)
  | .nth a es off => decide (a ≤ 6) && !es.isEmpty && es.all NthEntry.wf && optOffWf off
def Hol.wf : Hol → Bool
  | .pub off => optOffWf off
  | .school => true
def WdSel.wf : WdSel → Bool
  | .days ws => !ws.isEmpty && ws.all WdRange.wf
  | .hols hs => !hs.isEmpty && hs.all Hol.wf
  | .holsDays hs _ ws => !hs.isEmpty && hs.all Hol.wf && !ws.isEmpty && ws.all WdRange.wf
  | .daysHols ws _ hs => !ws.isEmpty && ws.all WdRange.wf && !hs.isEmpty && hs.all Hol.wf

def yearWf (y : Nat) : Bool := decide (1900 ≤ y ∧ y ≤ 9999)
def YearR.wf : YearR → Bool
  | .single a => yearWf a
  | .plus a => yearWf a
  | .range a b => yearWf a && yearWf b
  | .step a b s => yearWf a && yearWf b && s.wf 65536
def Small.wf (hi : Nat) (w : Small) : Bool := decide (1 ≤ w.val ∧ w.val ≤ hi)
def WeekR.wf : WeekR → Bool
  | .single a => a.wf 53
  | .range a b => a.wf 53 && b.wf 53
  | .step a b s => a.wf 53 && b.wf 53 && s.wf 256
def WeekSel.wf (w : WeekSel) : Bool := !w.weeks.isEmpty && w.weeks.all WeekR.wf

def yearPrefixWf : Option (Nat × Bool) → Bool
  | none => true
  | some (y, _) => yearWf y
def monthWf (m : Nat) : Bool := decide (1 ≤ m ∧ m ≤ 12)
def SDate.wf : SDate → Bool
  | .fixed y m _ d => yearPrefixWf y && monthWf m && d.wf 31
  | .easter y => yearPrefixWf y
def SOffset.wf : SOffset → Bool
  | .none => true
  | .days o => o.wf
  | .wday _ w o => decide (w ≤ 6) && optOffWf o
def optYearWf : Option Nat → Bool
  | none => true
  | some y => yearWf y
def MdRange.wf : MdRange → Bool
  | .month y a => optYearWf y && monthWf a
  | .months y a b => optYearWf y && monthWf a && monthWf b
  | .date d o => d.wf && o.wf
  | .openEnd d o => d.wf && o.wf
  | .range d1 o1 _ _ d2 o2 => d1.wf && o1.wf && d2.wf && o2.wf
  | .toDay y m _ d o1 _ _ d2 o2 =>
    yearPrefixWf y && monthWf m && d.wf 31 && o1.wf && d2.wf 31 && o2.wf
      -- the end may not roll over past the last supported year
      && !(decide (d.val > d2.val) && decide (m = 12) && (match y with | some (v, _) => decide (v ≥ 9999) | none => false))

/-- the text of this month-day range starts with a year -/
def MdRange.startsWithYear : MdRange → Bool
  | .month y _ => y.isSome
  | .months y _ _ => y.isSome
  | .date d _ => d.hasYear
  | .openEnd d _ => d.hasYear
  | .range d _ _ _ _ _ => d.hasYear
  | .toDay y .. => y.isSome

def commentWf (c : String) : Bool := !c.toList.isEmpty && !c.toList.contains '"'

def Wide.wf : Wide → Bool
  | .empty => true
  | .comment c => commentWf c
  | .sel ys ms ws _ =>
    !(ys.isEmpty && ms.isEmpty && ws.isNone)
      && ys.all YearR.wf && ms.all MdRange.wf && (match ws with | some w => w.wf | none => true)
      -- years directly followed by month days: the year text must not be readable as the year of the
      -- first month-day range (a single plain year), nor run into its digits
      && (ys.isEmpty || ms.isEmpty ||
            (!(match ys with | [.single _] => true | _ => false)
              && !((ms.head?.map MdRange.startsWithYear).getD false)))

def Sel.wf : Sel → Bool
  | .always => true
  | .sel w wd ts =>
    w.wf && (match wd with | some x => x.wf | none => true) && ts.all Span.wf
      && (match w with
          -- without wide-range selectors there must be a weekday or a time selector
          | .empty => wd.isSome || !ts.isEmpty
          | .comment _ => true
          -- a separator is written exactly when something follows in the same rule (`:` may also
          -- close the selectors)
          | .sel _ _ _ sep =>
            if wd.isSome || !ts.isEmpty then sep != .none else (sep == .none || sep == .colon))

def Modifier.wf (m : Modifier) : Bool :=
  match m.comment with
  | some c => commentWf c
  | none => true

def SRule.wf (r : SRule) : Bool := r.sel.wf && r.mod.wf

def Sentence.wf (s : Sentence) : Bool := s.first.wf && s.rest.all fun (_, r) => r.wf

end OH.Spec.Sent
