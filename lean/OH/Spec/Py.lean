import OH.Model.Py
/-
Specification vocabulary of property C12 (`OH.Props.C12`): the declarative description of "the
equivalent context" and of "what the Rust core returns" that the theorems compare the binding model
(`OH.Model.Py`) with: `specHolidays` / `specLocale` / `table` (the constructor), `wall` (which
wall-clock time is evaluated), `resultZone` / `attach` (a context WITHOUT a zone: the wall-clock
result with the input's zone attached), `zoneRanges` / `zoneNextChange` (a context WITH a zone: the
localized stream of /repo dfe1ade — skipped spans dropped, neighbours merged, bounds converted),
`CoreTotal`.  Definitions only.  Core-only imports (the correspondence driver links it).
-/
namespace OH.Spec.Py
open OH.Model OH.Model.Py

/-! ## coordinates -/

/-- `x` is a finite number with `-b ≤ x ≤ b` (`num/den` compared by cross-multiplication) -/
def Within (x : Fl) (b : Int) : Prop :=
  ∃ n d, x = .fin n d ∧ -b * (d : Int) ≤ n ∧ n ≤ b * (d : Int)


/-! ## the equivalent context -/

variable (C : Core)

/-- holidays of the equivalent context -/
def specHolidays (country : Option String) (coords : Option Coords) (autoCountry : Option Bool) : HolidaySource :=
  match country, coords with
  | some iso, _ => .country iso
  | none, some c => if autoCountry = some false then .none else .fromCoords c
  | none, none => .none

/-- locale of the equivalent context -/
def specLocale {Z : Type} (timezone : Option Z) (coords : Option Coords) (autoTimezone : Option Bool) : LocaleKind Z :=
  match timezone, coords with
  | some tz, some c => if autoTimezone = some false then .awareTz tz else .awareTzCoords tz c
  | some tz, none => .awareTz tz
  | none, some c => if autoTimezone = some false then .naive else .awareFromCoords c
  | none, none => .naive

/-- the country code is absent or known -/
def CountryOK (country : Option String) : Prop := ∀ iso, country = some iso → ∃ h, C.countryHolidays iso = some h


/-! ### the same as a finite decision table -/

/-- an optional argument: not given, given and acceptable, given and not acceptable -/
inductive Given | absent | valid | invalid
  deriving DecidableEq, Repr

inductive ParseKind | ok | err | panic
  deriving DecidableEq, Repr

inductive HolKind | none | country | fromCoords
  deriving DecidableEq, Repr

inductive LocKind | naive | awareTz | awareTzCoords | awareFromCoords
  deriving DecidableEq, Repr

inductive Outcome
  | invalidCoordinatesError | parserError | unknownCountryError | panicException
  | built (h : HolKind) (l : LocKind)
  deriving DecidableEq, Repr

/-- the constructor's decision table: 2 × 3 × 3 × 3 × 3 argument combinations (× 3 parser outcomes) -/
def table (timezone : Bool) (country coords : Given) (autoCountry autoTimezone : Option Bool) (p : ParseKind) : Outcome :=
  if coords = .invalid then .invalidCoordinatesError
  else match p with
    | .panic => .panicException
    | .err => .parserError
    | .ok =>
      if country = .invalid then .unknownCountryError
      else .built
        (if country = .valid then .country
         else if coords = .valid ∧ autoCountry ≠ some false then .fromCoords else .none)
        (if timezone then (if coords = .valid ∧ autoTimezone ≠ some false then .awareTzCoords else .awareTz)
         else if coords = .valid ∧ autoTimezone ≠ some false then .awareFromCoords else .naive)

def givenCoords (c : Option (Fl × Fl)) : Given :=
  match c with
  | none => .absent
  | some (lat, lon) => if (coordsNew lat lon).isSome then .valid else .invalid

def givenCountry (c : Option String) : Given :=
  match c with
  | none => .absent
  | some iso => if (C.countryHolidays iso).isSome then .valid else .invalid

def parseKind (s : String) : ParseKind :=
  match C.parse s with
  | .ok _ => .ok
  | .err => .err
  | .panic _ => .panic

def HolidaySource.kind : HolidaySource → HolKind
  | .none => .none
  | .country _ => .country
  | .fromCoords _ => .fromCoords

def LocaleKind.kind {Z : Type} : LocaleKind Z → LocKind
  | .naive => .naive
  | .awareTz _ => .awareTz
  | .awareTzCoords _ _ => .awareTzCoords
  | .awareFromCoords _ => .awareFromCoords

def outcomeOf (r : Except PyErr (PyCtx C)) : Outcome :=
  match r with
  | .error .invalidCoordinates => .invalidCoordinatesError
  | .error .parserError => .parserError
  | .error .unknownCountry => .unknownCountryError
  | .error (.panic _) => .panicException
  | .ok c => .built (HolidaySource.kind c.holidays) (LocaleKind.kind c.locale)

/-! ## what is evaluated, and what a result carries -/

/-- the core context a Python locale is equivalent to, read on its wall clock (this is what `state`
is evaluated on; `next_change` / `intervals` of a context with a zone go through the localized stream,
`zoneRanges` below) -/
def coreWall (l : PyLocation C.Zone) : Localize C Int :=
  match l with
  | .naive => noLocation C
  | .aware loc => wallClock C loc

/-- the wall-clock time that is evaluated for an input: a naive input as it is; an aware input
converted to the context zone, or read on its OWN zone's clock when the context is naive -/
def wall (l : PyLocation C.Zone) (t : DateTimeMaybeAware C.Zone) : Int :=
  match l, t with
  | _, .naive n => n
  | .naive, .aware a => C.tzNaive a.zone a.utc
  | .aware loc, .aware a => C.tzNaive loc.tz a.utc

/-- the zone a result carries: the context's, else the input's, else none -/
def resultZone (l : PyLocation C.Zone) (input : Option C.Zone) : Option C.Zone :=
  match l with
  | .aware loc => some loc.tz
  | .naive => input

/-- attach a zone to a naive result: `TzLocation::new(z).datetime(n)` -/
def attach (z : Option C.Zone) (n : Int) : M (DateTimeMaybeAware C.Zone) :=
  match z with
  | none => .ok (.naive n)
  | some z =>
    match C.tzDatetime z n with
    | .error p => .error p
    | .ok u => .ok (.aware ⟨u, z⟩)

def attachOpt (z : Option C.Zone) (r : Option Int) : M (Option (DateTimeMaybeAware C.Zone)) :=
  match r with
  | none => .ok none
  | some n =>
    match attach C z n with
    | .error p => .error p
    | .ok d => .ok (some d)


/-! ## intervals -/

/-- an item built from a naive range of the core, the zone `z` attached (`RangeIterator::__next__`
when the locale is naive): the end is `None` iff it reads 10000-01-01 -/
def itemOfNaive (z : Option C.Zone) (r : Range Int) : M (PyOH.Item C.Zone) :=
  match attach C z r.start with
  | .error p => .error p
  | .ok s =>
    match attach C z r.stop with
    | .error p => .error p
    | .ok t => .ok ⟨s, DateTimeMaybeAware.mapDateLimit C t, r.kind, r.comments⟩

def itemsOfNaive (z : Option C.Zone) : List (Range Int) → M (List (PyOH.Item C.Zone))
  | [] => .ok []
  | r :: rest =>
    match itemOfNaive C z r with
    | .error p => .error p
    | .ok x =>
      match itemsOfNaive z rest with
      | .error p => .error p
      | .ok xs => .ok (x :: xs)

/-- an item built from an aware range of the core -/
def itemOfAware (r : Range (Aware C.Zone)) : PyOH.Item C.Zone :=
  ⟨.aware r.start, DateTimeMaybeAware.mapDateLimit C (.aware r.stop), r.kind, r.comments⟩

/-- the core's naive ranges for the window of a call: `iter_range` / `iter_from` of `NoLocation` at
the inputs' own wall-clock times -/
def coreRangesNaive (e : C.Expr) (h : C.Hol) (start : DateTimeMaybeAware C.Zone)
    (stop : Option (DateTimeMaybeAware C.Zone)) : M (List (Range Int)) :=
  match stop with
  | some s => iterRange C (noLocation C) e h (DateTimeMaybeAware.asNaiveLocal C start) (DateTimeMaybeAware.asNaiveLocal C s)
  | none => iterFrom C (noLocation C) e h (DateTimeMaybeAware.asNaiveLocal C start)


/-! ## a context with a zone: the localized stream

What `OpeningHours<TzLocation>::iter_range` makes of the wall-clock stream of the evaluator since
/repo dfe1ade, written with the two zone conversions only (no `Localize` record): this is what a
Python context with a zone returns for EVERY input, naive or aware, existing on the zone's clock or
inside one of its gaps (`py_intervals_eq_core_zone_*`, `py_next_change_eq_core_zone`). -/

/-- where the wall-clock reading `n` lands on the clock of `z`: `naive(datetime(n))` — `n` itself when
that local time exists, the first valid local time after the gap when the clock skips it -/
def landing (z : C.Zone) (n : Int) : M Int :=
  match C.tzDatetime z n with
  | .error p => .error p
  | .ok u => .ok (C.tzNaive z u)

/-- drop the local spans the clock of `z` skips entirely: `landing start ≥ end` (the span would be
localized to an empty interval) -/
def dropSkipped (z : C.Zone) : List Interval → M (List Interval)
  | [] => .ok []
  | iv :: rest =>
    match landing C z iv.start with
    | .error p => .error p
    | .ok n =>
      match dropSkipped z rest with
      | .error p => .error p
      | .ok xs => .ok (if n < iv.stop then iv :: xs else xs)

/-- a wall-clock range as a range of instants of `z`: both bounds through `TzLocation::datetime` -/
def awareRange (z : C.Zone) (iv : Interval) : M (Range (Aware C.Zone)) :=
  match C.tzDatetime z iv.start with
  | .error p => .error p
  | .ok s =>
    match C.tzDatetime z iv.stop with
    | .error p => .error p
    | .ok t => .ok ⟨⟨s, z⟩, ⟨t, z⟩, iv.kind, iv.comments⟩

def awareRanges (z : C.Zone) : List Interval → M (List (Range (Aware C.Zone)))
  | [] => .ok []
  | iv :: rest =>
    match awareRange C z iv with
    | .error p => .error p
    | .ok x =>
      match awareRanges z rest with
      | .error p => .error p
      | .ok xs => .ok (x :: xs)

/-- the core's ranges for a context in zone `z`, from the wall-clock stream `l` of the window: skipped
spans dropped, the same-kind neighbours they separated merged (`OH.Model.Tz.mergeRanges`: kinds
equal and `curr.end ≤ next.start`; comments of the first), bounds converted -/
def zoneRanges (z : C.Zone) (l : List Interval) : M (List (Range (Aware C.Zone))) :=
  match dropSkipped C z l with
  | .error p => .error p
  | .ok kept => awareRanges C z (Tz.mergeRanges kept)

/-- `next_change` read off the first range: its end, `None` when that end reads `DATE_END` or later
on the clock of `z` (or when there is no range) -/
def zoneNextChange (z : C.Zone) (rs : List (Range (Aware C.Zone))) : Option (DateTimeMaybeAware C.Zone) :=
  match rs with
  | [] => none
  | r :: _ => if C.tzNaive z r.stop.utc ≥ instEnd then none else some (.aware r.stop)


/-! ## totality of the core -/

/-- every core operation the binding reaches returns normally (`streamNaive`: no `next()` of the
naive iteration panics, however far it is pulled) -/
structure CoreTotal : Prop where
  tzDatetime : ∀ z n, ∃ u, C.tzDatetime z n = .ok u
  streamNaive : ∀ e h ev a b, ∃ l, (C.streamNaive e h ev a b).collect = .ok l


end OH.Spec.Py
