import OH.Model.Schedule
/-
Specification vocabulary for C14 (Schedule algebra), shared by the theorems (`OH.Props.C14`) and
by the run-time oracle of the correspondence driver (`OH.Driver.C14`): every predicate here is
decidable and is evaluated by the driver on the IMPLEMENTATION's output.
Core-only imports (linked into the driver).
-/
namespace OH.Spec.Schedule
open OH.Model

/-- minute `m` lies in the half-open range of `t` -/
abbrev Covers (t : TimeRange) (m : Nat) : Prop := t.s ≤ m ∧ m < t.e

/-- state of a schedule at minute `m`: the kind of the (first) range covering `m`, if any -/
def stateAt : Schedule → Nat → Option Kind
  | [], _ => none
  | t :: ts, m => if t.s ≤ m ∧ m < t.e then some t.kind else stateAt ts m

/-- "disjoint, increasing, non-empty ranges" -/
def WF : Schedule → Prop
  | [] => True
  | t :: ts => t.s < t.e ∧ (∀ u ∈ ts, t.e ≤ u.s) ∧ WF ts

instance decWF : (l : Schedule) → Decidable (WF l)
  | [] => isTrue trivial
  | t :: ts =>
    have : Decidable (WF ts) := decWF ts
    inferInstanceAs (Decidable (t.s < t.e ∧ (∀ u ∈ ts, t.e ≤ u.s) ∧ WF ts))

/-- all ranges end at or before `lim` (24:00 = 1440 for the schedules of one day) -/
def Within (lim : Nat) (l : Schedule) : Prop := ∀ t ∈ l, t.e ≤ lim

instance (lim : Nat) (l : Schedule) : Decidable (Within lim l) :=
  inferInstanceAs (Decidable (∀ t ∈ l, t.e ≤ lim))

/-- no two ranges of the same kind touch (for a `WF` schedule: no two *adjacent* ranges of the
same kind touch, i.e. the schedule is fully coalesced) -/
def Coalesced (l : Schedule) : Prop := ∀ t ∈ l, ∀ u ∈ l, t.e = u.s → t.kind ≠ u.kind

instance (l : Schedule) : Decidable (Coalesced l) :=
  inferInstanceAs (Decidable (∀ t ∈ l, ∀ u ∈ l, t.e = u.s → t.kind ≠ u.kind))

/-- minute `m` lies in one of the plain input ranges -/
def InRanges (rs : List (Nat × Nat)) (m : Nat) : Prop := ∃ r ∈ rs, r.1 ≤ m ∧ m < r.2

instance (rs : List (Nat × Nat)) (m : Nat) : Decidable (InRanges rs m) :=
  inferInstanceAs (Decidable (∃ r ∈ rs, r.1 ≤ m ∧ m < r.2))

/-- specification of `from_ranges`: the union of the input ranges, all of kind `k` -/
def fromSpec (rs : List (Nat × Nat)) (k : Kind) (m : Nat) : Option Kind :=
  if InRanges rs m then some k else none

/-- the ranges of `l` tile `[a, b)`: non-empty, the first starts at `a`, consecutive ones are
contiguous, the last ends at `b` -/
def Tiles : List TimeRange → Nat → Nat → Prop
  | [], a, b => a = b
  | t :: ts, a, b => t.s = a ∧ t.s < t.e ∧ Tiles ts t.e b

instance decTiles : (l : List TimeRange) → (a b : Nat) → Decidable (Tiles l a b)
  | [], a, b => inferInstanceAs (Decidable (a = b))
  | t :: ts, a, b =>
    have : Decidable (Tiles ts t.e b) := decTiles ts t.e b
    inferInstanceAs (Decidable (t.s = a ∧ t.s < t.e ∧ Tiles ts t.e b))

/-- consecutive ranges have different kinds -/
def Alternates : List TimeRange → Prop
  | [] => True
  | [_] => True
  | t :: u :: rest => t.kind ≠ u.kind ∧ Alternates (u :: rest)

instance decAlternates : (l : List TimeRange) → Decidable (Alternates l)
  | [] => isTrue trivial
  | [_] => isTrue trivial
  | t :: u :: rest =>
    have : Decidable (Alternates (u :: rest)) := decAlternates (u :: rest)
    inferInstanceAs (Decidable (t.kind ≠ u.kind ∧ Alternates (u :: rest)))

/-- the state shown by iteration: `closed` fills the holes -/
def dayState (s : Schedule) (m : Nat) : Kind := (stateAt s m).getD Kind.closed

/-! ### the class of inputs hit by defect D6 (`from_ranges`, schedule.rs:95) -/

/-- Follows the merge loop of `from_ranges` as written (on the plain `(start, end)` pairs, sorted by
start) and checks that every execution of line 95 (`inner[i].range.end = inner[i + 1].range.end`)
assigns the maximum of the two ends, i.e. that the right-hand range does not end before the
accumulated one. -/
def mergeOKLoop (cur : Nat × Nat) : List (Nat × Nat) → Bool
  | [] => true
  | b :: rest =>
    if cur.2 ≥ b.1 then decide (cur.2 ≤ b.2) && mergeOKLoop (cur.1, b.2) rest
    else mergeOKLoop b rest

def mergeOK : List (Nat × Nat) → Bool
  | [] => true
  | a :: rest => mergeOKLoop a rest

/-- The precise hypothesis under which `from_ranges` as written is right: taking the non-empty input
ranges in the order of increasing start (input order among equal starts), no range that is merged
into the accumulated range ends before it — "no range is nested inside the union of its
predecessors and ends strictly earlier".  The inputs violating it form the class
`D6-fromranges-nested`. -/
def FromRangesOK (rs : List (Nat × Nat)) : Prop :=
  mergeOK (sortPairs (rs.filter fun r => r.1 < r.2)) = true

instance (rs : List (Nat × Nat)) : Decidable (FromRangesOK rs) :=
  inferInstanceAs (Decidable (_ = true))

/-- a simple sufficient condition for `FromRangesOK`, independent of any order: among the
non-empty input ranges, a range that starts no later than another does not end after it -/
def NoNesting (rs : List (Nat × Nat)) : Prop :=
  ∀ a ∈ rs, ∀ b ∈ rs, a.1 < a.2 → b.1 < b.2 → a.1 ≤ b.1 → a.2 ≤ b.2

end OH.Spec.Schedule
