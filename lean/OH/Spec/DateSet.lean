/-
Specification side of C15: a plain set of dates, kept as a strictly increasing list.
This is the oracle the driver runs next to the model, and the object the theorems of
`OH.Props.C15` compare the model with.  It shares only the `Date` triple with the model.
Core-only imports (linked into the driver).
-/
import OH.Model.CompactCalendar
namespace OH.Spec.DateSet
open OH.Model.CompactCalendar (Date)

/-- chronological order = lexicographic order on (year, month, day) -/
def lt (a b : Date) : Bool :=
  decide (a.year < b.year ∨ (a.year = b.year ∧ (a.month < b.month ∨ (a.month = b.month ∧ a.day < b.day))))

/-- insertion into a strictly increasing list, no duplicates -/
def insert (d : Date) : List Date → List Date
  | [] => [d]
  | x :: xs => if lt d x then d :: x :: xs else if d = x then x :: xs else x :: insert d xs

/-- the set of the dates of a history -/
def ofList (ds : List Date) : List Date := ds.foldl (fun s d => insert d s) []

def contains (s : List Date) (d : Date) : Bool := s.contains d

def count (s : List Date) : Nat := s.length

/-- the strictly next member -/
def firstAfter (s : List Date) (q : Date) : Option Date := s.find? (fun x => lt q x)

end OH.Spec.DateSet
