import OH.Spec.Sent
/-
Random sentences (OH/Spec/Sent.lean) for the `c05.den` lines: every constructor and every spelling
choice is drawn, with a bias to boundary values.  All choices come from one xorshift state, so a seed
replays exactly.  The generator only produces well-formed sentences (`Sentence.wf`, checked by the
driver on every sentence it prints).
Core-only imports (linked into the driver).
-/
namespace OH.Spec.SentGen
open OH.Model OH.Spec.Sent

abbrev Gen := StateM UInt64

def next : Gen UInt64 := do
  let x ← get
  let x := x ^^^ (x >>> 12)
  let x := x ^^^ (x <<< 25)
  let x := x ^^^ (x >>> 27)
  set x
  pure (x * 0x2545F4914F6CDD1D)

def below (n : Nat) : Gen Nat := do
  let x ← next
  pure ((x >>> 11).toNat % (max n 1))

def chance (num den : Nat) : Gen Bool := do
  let k ← below den
  pure (k < num)

def pick {α} [Inhabited α] (xs : List α) : Gen α := do
  let k ← below xs.length
  pure (xs.getD k default)

def range (lo hi : Nat) : Gen Nat := do
  let k ← below (hi - lo + 1)
  pure (lo + k)

instance : Inhabited TimeEvent := ⟨.dawn⟩
instance : Inhabited WideSep := ⟨.none⟩
instance : Inhabited KindWord := ⟨.none⟩
instance : Inhabited SepWord := ⟨.semiSpace⟩

def genNum (n : Nat) : Gen Num := do
  if ← chance 1 6 then pure ⟨n, ← range 1 3⟩ else pure ⟨n, 0⟩

def genClock (maxH : Nat) : Gen Clock := do
  let h ← (do if ← chance 1 5 then pick [0, 9, 10, 19, 20, 23, maxH] else range 0 maxH)
  let m ← (do if ← chance 1 3 then pick [0, 1, 15, 30, 45, 59] else range 0 59)
  pure ⟨min h maxH, m, ← chance 1 3⟩

def genEvOff : Gen EvOff := do
  if ← chance 1 10 then pure .h24 else pure (.clock (← genClock 23))

def genVar : Gen Var := do
  let ev ← pick [TimeEvent.dawn, .sunrise, .sunset, .dusk]
  if ← chance 1 2 then pure (.plain ev) else pure (.shifted ev (← chance 1 2) (← genEvOff))

def genStart : Gen Start := do
  match ← below 10 with
  | 0 => pure .h24
  | 1 | 2 => pure (.var (← genVar))
  | _ => pure (.clock (← genClock 23))

def genStop : Gen Stop := do
  match ← below 10 with
  | 0 => pure (.clock ⟨48, 0, false⟩)
  | 1 => pure (.clock ⟨24, 0, false⟩)
  | 2 | 3 => pure (.var (← genVar))
  | _ => pure (.clock (← genClock 47))

def optSpace : Gen Bool := chance 1 4

def genSpan : Gen Span := do
  let a ← genStart
  match ← below 12 with
  | 0 => pure (.from_ a)
  | 1 | 2 =>
    let b ← genStop
    let p ← (do if ← chance 1 2 then pure (Period.minutes (← range 0 59)) else pure (Period.clock (← genEvOff)))
    pure (.repeated a (← optSpace) b (← optSpace) (← optSpace) p)
  | k => pure (.range a (← optSpace) (← optSpace) (← genStop) (k == 3))

def genList {α} (g : Gen α) (maxLen : Nat) : Gen (List α) := do
  let n ← (do if ← chance 3 5 then pure 1 else range 1 maxLen)
  let mut xs : List α := []
  for _ in [0:n] do
    xs := xs ++ [← g]
  pure xs

def genDayOff : Gen DayOff := do
  let n ← (do
    match ← below 8 with
    | 0 => pure 1
    | 1 => pick [2, 7, 365, 400, 9223372036854775807]
    | _ => range 1 30)
  let plural ← (do if ← chance 1 5 then chance 1 2 else pure (n > 1))
  pure ⟨← genNum n, ← chance 1 2, plural⟩

def genOptDayOff (num den : Nat) : Gen (Option DayOff) := do
  if ← chance num den then pure (some (← genDayOff)) else pure none

def genNthEntry : Gen NthEntry := do
  let a ← range 1 5
  match ← below 3 with
  | 0 => pure (.range a (← range a 5))
  | 1 => pure (.last a)
  | _ => pure (.one a)

def genWdRange : Gen WdRange := do
  let a ← range 0 6
  match ← below 4 with
  | 0 => pure (.span a (← range 0 6))
  | 1 => pure (.nth a (← genList genNthEntry 3) (← genOptDayOff 1 2))
  | _ => pure (.single a)

def genHol : Gen Hol := do
  if ← chance 1 3 then pure .school
  else pure (.pub (← genOptDayOff 1 3))

def genWdSel : Gen WdSel := do
  match ← below 6 with
  | 0 => pure (.hols (← genList genHol 2))
  | 1 => pure (.holsDays (← genList genHol 2) (← chance 1 2) (← genList genWdRange 3))
  | 2 => pure (.daysHols (← genList genWdRange 3) (← chance 1 2) (← genList genHol 2))
  | _ => pure (.days (← genList genWdRange 3))

def genYearNum : Gen Nat := do
  match ← below 6 with
  | 0 => pick [1900, 1901, 1999, 2000, 9998, 9999]
  | _ => range 2015 2035

def genYearR : Gen YearR := do
  let a ← genYearNum
  match ← below 5 with
  | 0 => pure (.plus a)
  | 1 => pure (.range a (← genYearNum))
  | 2 =>
    let s ← (do if ← chance 1 5 then pick [1, 65535, 100] else range 2 5)
    pure (.step a (← genYearNum) (← genNum s))
  | _ => pure (.single a)

def genSmall (lo hi : Nat) (edge : List Nat) : Gen Small := do
  let v ← (do if ← chance 1 4 then pick edge else range lo hi)
  pure ⟨v, ← chance 1 2⟩

def genWeekNum : Gen Small := genSmall 1 53 [1, 9, 10, 52, 53]
def genDayNum : Gen Small := genSmall 1 31 [1, 9, 10, 28, 29, 30, 31]

def genWeekR : Gen WeekR := do
  let a ← genWeekNum
  match ← below 4 with
  | 0 => pure (.range a (← genWeekNum))
  | 1 =>
    let s ← (do if ← chance 1 5 then pick [1, 255, 53] else range 2 4)
    pure (.step a (← genWeekNum) (← genNum s))
  | _ => pure (.single a)

def genWeekSel : Gen WeekSel := do
  let ws ← genList genWeekR 3
  pure ⟨!(← chance 1 4), ws⟩

def genYearPrefix (withYear : Bool) : Gen (Option (Nat × Bool)) := do
  if withYear then pure (some (← genYearNum, !(← chance 1 5))) else pure none

def genSDate (withYear : Bool) : Gen SDate := do
  let y ← genYearPrefix withYear
  if ← chance 1 6 then pure (.easter y)
  else pure (.fixed y (← range 1 12) (!(← chance 1 6)) (← genDayNum))

def genSOffset : Gen SOffset := do
  if !(← chance 1 4) then pure .none
  else
    match ← below 3 with
    | 0 => pure (.days (← genDayOff))
    | 1 => pure (.wday (← chance 1 2) (← range 0 6) none)
    | _ => pure (.wday (← chance 1 2) (← range 0 6) (some (← genDayOff)))

def genMdRange : Gen MdRange := do
  match ← below 10 with
  | 0 | 1 | 2 =>
    let y ← (do if ← chance 1 4 then pure (some (← genYearNum)) else pure none)
    if ← chance 1 2 then pure (.months y (← range 1 12) (← range 1 12)) else pure (.month y (← range 1 12))
  | 3 => pure (.date (← genSDate (← chance 1 4)) (← genSOffset))
  | 4 => pure (.openEnd (← genSDate (← chance 1 3)) (← genSOffset))
  | 5 | 6 =>
    let y ← genYearPrefix (← chance 1 3)
    -- the end may roll over into January of the next year: keep that year within 9999
    let y := y.map fun (v, s) => (if v ≥ 9999 then 9998 else v, s)
    pure (.toDay y (← range 1 12) (!(← chance 1 6)) (← genDayNum) (← genSOffset) (← optSpace) (← optSpace)
      (← genDayNum) (← genSOffset))
  | _ =>
    let wy ← chance 1 3
    let d1 ← genSDate wy
    let d2 ← genSDate (wy && (← chance 3 4))
    pure (.range d1 (← genSOffset) (← optSpace) (← optSpace) d2 (← genSOffset))

def commentPool : List String := ["a", "b", "on appointment", "zz top", "é", "x, y", "by phone: 555", "Z"]
def genComment : Gen String := pick commentPool

def mdStartsWithDigit : MdRange → Bool
  | .month y _ => y.isSome
  | .months y _ _ => y.isSome
  | .date d _ => d.hasYear
  | .openEnd d _ => d.hasYear
  | .range d _ _ _ _ _ => d.hasYear
  | .toDay y .. => y.isSome

def genSel : Gen Sel := do
  if ← chance 1 12 then pure .always
  else
    let wd ← (do if ← chance 1 2 then pure (some (← genWdSel)) else pure none)
    let wantTs ← chance 3 5
    -- the wide part
    match ← below 12 with
    | 0 =>
      let ts ← (do if wantTs then genList genSpan 3 else pure [])
      pure (.sel (.comment (← genComment)) wd ts)
    | 1 | 2 | 3 | 4 | 5 =>
      -- no wide part: there must be a weekday or a time selector
      let ts ← (do if wantTs || wd.isNone then genList genSpan 3 else pure [])
      pure (.sel .empty wd ts)
    | _ =>
      let hasY ← chance 1 3
      let hasM ← chance 2 3
      let hasW ← chance 1 4
      let ys ← (do if hasY then genList genYearR 2 else pure [])
      let ms ← (do if hasM then genList genMdRange 3 else pure [])
      -- a year selector directly followed by month days: only when the year text cannot be taken for the
      -- year of the first month range (the documented grammar gives that reading priority)
      let plainSingle := match ys with | [.single _] => true | _ => false
      let ms := if hasY && hasM && (plainSingle || (ms.head?.map mdStartsWithDigit).getD false) then [] else ms
      let ws ← (do if hasW then pure (some (← genWeekSel)) else pure none)
      if ys.isEmpty && ms.isEmpty && ws.isNone then
        let ts ← (do if wantTs || wd.isNone then genList genSpan 3 else pure [])
        pure (.sel .empty wd ts)
      else
        let ts ← (do if wantTs then genList genSpan 3 else pure [])
        let sep ← (do
          if wd.isNone && ts.isEmpty then pick [WideSep.none, .colon]
          else pick [WideSep.space, .space, .colonSpace, .colon])
        pure (.sel (.sel ys ms ws sep) wd ts)

def genModifier : Gen Modifier := do
  let c ← (do if ← chance 1 4 then pure (some (← genComment)) else pure none)
  let w ← (do
    match ← below 8 with
    | 0 | 1 | 2 | 3 => pure KindWord.none
    | 4 => pure .open_
    | 5 => pure .closed
    | 6 => pure .off
    | _ => pure .unknown)
  pure ⟨w, c⟩

def genRule : Gen SRule := do pure ⟨← genSel, ← genModifier⟩

def genSepWord : Gen SepWord := do
  match ← below 10 with
  | 0 | 1 | 2 => pure .semiSpace
  | 3 => pure .semi
  | 4 => pure .spaceSemiSpace
  | 5 | 6 => pure .commaSpace
  | 7 => pure .spaceBarsSpace
  | _ => pure .barsSpace

def genSentence : Gen Sentence := do
  let n ← (do if ← chance 1 2 then pure 0 else range 0 3)
  let first ← genRule
  let mut rest : List (SepWord × SRule) := []
  for _ in [0:n] do
    rest := rest ++ [(← genSepWord, ← genRule)]
  pure ⟨first, rest⟩

def seedState (seed : Nat) : UInt64 :=
  let z : UInt64 := UInt64.ofNat seed + 0x9E3779B97F4A7C15
  let z := (z ^^^ (z >>> 30)) * 0xBF58476D1CE4E5B9
  let z := (z ^^^ (z >>> 27)) * 0x94D049BB133111EB
  (z ^^^ (z >>> 31)) ||| 1

end OH.Spec.SentGen
