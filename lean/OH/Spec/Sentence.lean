import OH.Model.Syntax
import OH.Model.SortedVec
/-
C05 — sentences of the supported grammar together with the expression they DENOTE.

Each generator below picks a piece of an expression and, at the same time, one of the ways the
supported grammar lets it be written (the OSM grammar with the documented relaxations: optional
spaces, single-digit hours and days, `off` for `closed`, `:`/space after wide-range selectors,
`day`/`days`, leading zeros, `[1-3]` for `[1,2,3]`, `Jan 5-10` for `Jan 5-Jan 10`, `2020+`,
`Jan 5+`, comments before or after the selectors …).  No parser is involved: the pair
(text, denoted expression) is built bottom-up, a few lines per construct, so that it can be read
against the OSM specification.  The driver prints these pairs as `c05.den` lines; the real parser's
result on the text must be exactly the denoted expression (predicate `fail denotation` otherwise).

All random choices come from one xorshift state (`Gen`), so a seed replays exactly.
Core-only imports (linked into the driver).
-/
namespace OH.Spec.Sentence
open OH.Model

abbrev Gen := StateM UInt64

instance : Inhabited TimeEvent := ⟨.dawn⟩

def next : Gen UInt64 := do
  let x ← get
  let x := x ^^^ (x >>> 12)
  let x := x ^^^ (x <<< 25)
  let x := x ^^^ (x >>> 27)
  set x
  pure (x * 0x2545F4914F6CDD1D)

/-- uniform in `0..n-1` (`n > 0`) -/
def below (n : Nat) : Gen Nat := do
  let x ← next
  pure ((x >>> 11).toNat % (max n 1))

def chance (num den : Nat) : Gen Bool := do
  let k ← below den
  pure (k < num)

def pick {α} [Inhabited α] (xs : List α) : Gen α := do
  let k ← below xs.length
  pure (xs.getD k default)

def range (lo hi : Nat) : Gen Nat := do
  let k ← below (hi - lo + 1)
  pure (lo + k)

abbrev Txt := List Char

def t (s : String) : Txt := s.toList

def digit (n : Nat) : Char := Char.ofNat (48 + n % 10)

def pad2 (n : Nat) : Txt := [digit (n / 10), digit n]

def dec (n : Nat) : Txt := (toString n).toList

/-- a number, possibly written with leading zeros -/
def genNumText (n : Nat) : Gen Txt := do
  if ← chance 1 6 then
    let z ← range 1 3
    pure (List.replicate z '0' ++ dec n)
  else pure (dec n)

/-- one optional space (relaxation) -/
def optSpace : Gen Txt := do
  if ← chance 1 4 then pure [' '] else pure []

-- ------------------------------------------------------------------------------------------
-- times

/-- `HH:MM` up to `maxH:59` (one-digit hours may drop the leading zero); returns minutes -/
def genClock (maxH : Nat) : Gen (Nat × Txt) := do
  let h ← (do if ← chance 1 5 then pick [0, 9, 10, 19, 20, 23, maxH] else range 0 maxH)
  let h := min h maxH
  let m ← (do if ← chance 1 3 then pick [0, 1, 15, 30, 45, 59] else range 0 59)
  let short ← chance 1 3
  let hs := if short && h < 10 then [digit h] else pad2 h
  pure (h * 60 + m, hs ++ [':'] ++ pad2 m)

def eventName : TimeEvent → Txt
  | .dawn => t "dawn" | .sunrise => t "sunrise" | .sunset => t "sunset" | .dusk => t "dusk"

def genEvent : Gen TimeEvent := pick [.dawn, .sunrise, .sunset, .dusk]

/-- `sunrise`, `(sunrise+01:30)`, `(dusk-24:00)` -/
def genVariable : Gen (Time × Txt) := do
  let ev ← genEvent
  if ← chance 1 2 then pure (.variable ev 0, eventName ev)
  else
    let (m, txt) ← (do if ← chance 1 10 then pure (1440, t "24:00") else genClock 23)
    let neg ← chance 1 2
    pure (.variable ev (if neg then -(m : Int) else m), ['('] ++ eventName ev ++ [if neg then '-' else '+'] ++ txt ++ [')'])

/-- start of a span: a clock time up to 23:59, `24:00`, or an event -/
def genStart : Gen (Time × Txt) := do
  match ← below 10 with
  | 0 => pure (.fixed 1440, t "24:00")
  | 1 | 2 => genVariable
  | _ => do let (m, txt) ← genClock 23; pure (.fixed m, txt)

/-- end of a span: an extended clock time up to 48:00 or an event -/
def genStop : Gen (Time × Txt) := do
  match ← below 10 with
  | 0 => pure (.fixed 2880, t "48:00")
  | 1 => pure (.fixed 1440, t "24:00")
  | 2 | 3 => genVariable
  | _ => do let (m, txt) ← genClock 47; pure (.fixed m, txt)

def genSpan : Gen (TimeSpan × Txt) := do
  let (a, ta) ← genStart
  match ← below 12 with
  | 0 =>
    -- `10:00+`: open end, the end is 24:00
    pure (⟨a, .fixed 1440, true, none⟩, ta ++ ['+'])
  | 1 | 2 =>
    -- repetition: `a-b/MM` or `a-b/HH:MM` (no space between `-` and `b` in this form)
    let (b, tb) ← genStop
    let s1 ← optSpace
    let s2 ← optSpace
    let s3 ← optSpace
    if ← chance 1 2 then
      let m ← range 0 59
      pure (⟨a, b, false, some m⟩, ta ++ s1 ++ ['-'] ++ tb ++ s2 ++ ['/'] ++ s3 ++ pad2 m)
    else
      let (m, txt) ← (do if ← chance 1 8 then pure (1440, t "24:00") else genClock 23)
      pure (⟨a, b, false, some m⟩, ta ++ s1 ++ ['-'] ++ tb ++ s2 ++ ['/'] ++ s3 ++ txt)
  | k =>
    let (b, tb) ← genStop
    let s1 ← optSpace
    let s2 ← optSpace
    let open_ := k == 3
    pure (⟨a, b, open_, none⟩, ta ++ s1 ++ ['-'] ++ s2 ++ tb ++ (if open_ then ['+'] else []))

def genList {α} (g : Gen (α × Txt)) (sep : Txt) (maxLen : Nat) : Gen (List α × Txt) := do
  let n ← (do if ← chance 3 5 then pure 1 else range 1 maxLen)
  let mut xs : List α := []
  let mut txt : Txt := []
  for i in [0:n] do
    let (x, tx) ← g
    xs := xs ++ [x]
    txt := if i == 0 then tx else txt ++ sep ++ tx
  pure (xs, txt)

def genTimeSelector : Gen (List TimeSpan × Txt) := genList genSpan [','] 3

-- ------------------------------------------------------------------------------------------
-- day offsets

/-- ` +N day(s)`: both `day` and `days` are accepted after any number -/
def genDayOffset : Gen (Int × Txt) := do
  let n ← (do
    match ← below 8 with
    | 0 => pure 1
    | 1 => pick [2, 7, 365, 400, 9223372036854775807]
    | _ => range 1 30)
  let neg ← chance 1 2
  let num ← genNumText n
  let plural ← (do if ← chance 1 5 then chance 1 2 else pure (n > 1))
  pure (if neg then -(n : Int) else n, [' ', if neg then '-' else '+'] ++ num ++ t " day" ++ (if plural then ['s'] else []))

-- ------------------------------------------------------------------------------------------
-- weekdays

def wdayName : Nat → Txt
  | 0 => t "Mo" | 1 => t "Tu" | 2 => t "We" | 3 => t "Th" | 4 => t "Fr" | 5 => t "Sa" | _ => t "Su"

def setRange (arr : List Bool) (a b : Nat) : List Bool :=
  (List.range 5).map fun i => arr.getD i false || (a ≤ i + 1 && i + 1 ≤ b)

def allFalse : List Bool := [false, false, false, false, false]
def allTrue : List Bool := [true, true, true, true, true]

/-- `[1,3]`, `[1-3,-1]`, `[-2]` …: positions counted from the start and from the end of the month -/
def genNth : Gen ((List Bool × List Bool) × Txt) := do
  let n ← range 1 3
  let mut ns := allFalse
  let mut ne := allFalse
  let mut txt : Txt := []
  for i in [0:n] do
    let a ← range 1 5
    let sep : Txt := if i == 0 then [] else [',']
    match ← below 3 with
    | 0 =>
      let b ← range a 5
      ns := setRange ns a b
      txt := txt ++ sep ++ [digit a, '-', digit b]
    | 1 =>
      ne := setRange ne a a
      txt := txt ++ sep ++ ['-', digit a]
    | _ =>
      ns := setRange ns a a
      txt := txt ++ sep ++ [digit a]
  pure ((ns, ne), ['['] ++ txt ++ [']'])

def genWeekdayRange : Gen (WeekDayRange × Txt) := do
  let a ← range 0 6
  match ← below 4 with
  | 0 =>
    let b ← range 0 6
    pure (.fixed a b 0 allTrue allTrue, wdayName a ++ ['-'] ++ wdayName b)
  | 1 =>
    let ((ns, ne), tn) ← genNth
    if ← chance 1 2 then
      let (off, to) ← genDayOffset
      pure (.fixed a a off ns ne, wdayName a ++ tn ++ to)
    else pure (.fixed a a 0 ns ne, wdayName a ++ tn)
  | _ => pure (.fixed a a 0 allTrue allTrue, wdayName a)

def genHoliday : Gen (WeekDayRange × Txt) := do
  if ← chance 1 3 then pure (.holiday .school 0, t "SH")
  else if ← chance 1 3 then
    let (off, to) ← genDayOffset
    pure (.holiday .pub off, t "PH" ++ to)
  else pure (.holiday .pub 0, t "PH")

/-- weekdays, holidays, or both in either order, joined by `,` or a space -/
def genWeekdaySelector : Gen (List WeekDayRange × Txt) := do
  match ← below 6 with
  | 0 => genList genHoliday [','] 2
  | 1 =>
    let (hs, th) ← genList genHoliday [','] 2
    let (ws, tw) ← genList genWeekdayRange [','] 3
    let sep ← pick [[','], [' ']]
    pure (hs ++ ws, th ++ sep ++ tw)
  | 2 =>
    let (hs, th) ← genList genHoliday [','] 2
    let (ws, tw) ← genList genWeekdayRange [','] 3
    let sep ← pick [[','], [' ']]
    pure (ws ++ hs, tw ++ sep ++ th)
  | _ => genList genWeekdayRange [','] 3

-- ------------------------------------------------------------------------------------------
-- years, weeks

def genYearNum : Gen Nat := do
  match ← below 6 with
  | 0 => pick [1900, 1901, 1999, 2000, 9998, 9999]
  | _ => range 2015 2035

def genYearRange : Gen (YearRange × Txt) := do
  let a ← genYearNum
  match ← below 5 with
  | 0 => pure (⟨a, 9999, 1⟩, dec a ++ ['+'])
  | 1 =>
    let b ← genYearNum
    pure (⟨a, b, 1⟩, dec a ++ ['-'] ++ dec b)
  | 2 =>
    let b ← genYearNum
    let s ← (do if ← chance 1 5 then pick [1, 65535, 100] else range 2 5)
    let ts ← genNumText s
    pure (⟨a, b, s⟩, dec a ++ ['-'] ++ dec b ++ ['/'] ++ ts)
  | _ => pure (⟨a, a, 1⟩, dec a)

def genWeekNum : Gen (Nat × Txt) := do
  let w ← (do if ← chance 1 4 then pick [1, 9, 10, 52, 53] else range 1 53)
  let short ← chance 1 2
  pure (w, if short && w < 10 then [digit w] else pad2 w)

def genWeekRange : Gen (WeekRange × Txt) := do
  let (a, ta) ← genWeekNum
  match ← below 4 with
  | 0 =>
    let (b, tb) ← genWeekNum
    pure (⟨a, b, 1⟩, ta ++ ['-'] ++ tb)
  | 1 =>
    let (b, tb) ← genWeekNum
    let s ← (do if ← chance 1 5 then pick [1, 255, 53] else range 2 4)
    let ts ← genNumText s
    pure (⟨a, b, s⟩, ta ++ ['-'] ++ tb ++ ['/'] ++ ts)
  | _ => pure (⟨a, a, 1⟩, ta)

/-- `week 1-10/2,20` (the space after `week` is optional) -/
def genWeekSelector : Gen (List WeekRange × Txt) := do
  let (ws, tw) ← genList genWeekRange [','] 3
  let sp ← (do if ← chance 1 4 then pure [] else pure [' '])
  pure (ws, t "week" ++ sp ++ tw)

-- ------------------------------------------------------------------------------------------
-- month days

def monthName : Nat → Txt
  | 1 => t "Jan" | 2 => t "Feb" | 3 => t "Mar" | 4 => t "Apr" | 5 => t "May" | 6 => t "Jun"
  | 7 => t "Jul" | 8 => t "Aug" | 9 => t "Sep" | 10 => t "Oct" | 11 => t "Nov" | _ => t "Dec"

def genDayNum : Gen (Nat × Txt) := do
  let d ← (do if ← chance 1 4 then pick [1, 9, 10, 28, 29, 30, 31] else range 1 31)
  let short ← chance 1 2
  pure (d, if short && d < 10 then [digit d] else pad2 d)

/-- `Jan 5`, `2020 Jan 05`, `2020Jan5`, `easter`, `2021 easter` (the spaces are optional) -/
def genDate (withYear : Bool) : Gen (DateSpec × Txt) := do
  let y ← genYearNum
  let ysp ← (do if ← chance 1 5 then pure [] else pure [' '])
  let ytxt : Txt := if withYear then dec y ++ ysp else []
  let yv : Option Nat := if withYear then some y else none
  if ← chance 1 6 then pure (.easter yv, ytxt ++ t "easter")
  else
    let m ← range 1 12
    let (d, td) ← genDayNum
    let sp ← (do if ← chance 1 6 then pure [] else pure [' '])
    pure (.fixed yv m d, ytxt ++ monthName m ++ sp ++ td)

/-- `+Mo`, `-Fr +2 days`, ` -1 day` -/
def genDateOffset : Gen (DateOffset × Txt) := do
  match ← below 3 with
  | 0 =>
    let (off, to) ← genDayOffset
    pure (⟨.none, off⟩, to)
  | 1 =>
    let w ← range 0 6
    let neg ← chance 1 2
    pure (⟨if neg then .prev w else .next w, 0⟩, [if neg then '-' else '+'] ++ wdayName w)
  | _ =>
    let w ← range 0 6
    let neg ← chance 1 2
    let (off, to) ← genDayOffset
    pure (⟨if neg then .prev w else .next w, off⟩, [if neg then '-' else '+'] ++ wdayName w ++ to)

def noOff : DateOffset := ⟨.none, 0⟩

def genOptOffset : Gen (DateOffset × Txt) := do
  if ← chance 1 4 then genDateOffset else pure (noOff, [])

def genMonthdayRange : Gen (MonthdayRange × Txt) := do
  match ← below 10 with
  | 0 | 1 | 2 =>
    -- months, possibly with a year: `Jan`, `Jan-Mar`, `2020Jan-Mar`, `2020 Jan`?? no: the year of a month
    -- range is written without space in the supported grammar (`year? ~ month`)
    let a ← range 1 12
    let wy ← chance 1 4
    let y ← genYearNum
    let ytxt : Txt := if wy then dec y else []
    let yv : Option Nat := if wy then some y else none
    if ← chance 1 2 then
      let b ← range 1 12
      pure (.month a b yv, ytxt ++ monthName a ++ ['-'] ++ monthName b)
    else pure (.month a a yv, ytxt ++ monthName a)
  | 3 =>
    -- a single date, possibly shifted
    let (d, td) ← genDate (← chance 1 4)
    let (o, to) ← genOptOffset
    pure (.date d o d o, td ++ to)
  | 4 =>
    -- open-ended: `Jan 5+`, `2020 Jan 5+`: until the end of the year / of time
    let wy ← chance 1 3
    let (d, td) ← genDate wy
    let (o, to) ← genOptOffset
    pure (.date d o (.fixed (if wy then some 9999 else none) 12 31) noOff, td ++ to ++ ['+'])
  | 5 | 6 =>
    -- `Jan 5-10`: the end is a bare day number in the same month, or in the next one when it is
    -- smaller than the start day (with a year: the year of the following January)
    let wy ← chance 1 3
    let y ← genYearNum
    let y := if y ≥ 9999 then 9998 else y
    let ysp ← (do if ← chance 1 5 then pure [] else pure [' '])
    let m ← range 1 12
    let (d1, t1) ← genDayNum
    let (d2, t2) ← genDayNum
    let sp ← (do if ← chance 1 6 then pure [] else pure [' '])
    let (o1, to1) ← genOptOffset
    let (o2, to2) ← genOptOffset
    let s1 ← optSpace
    let s2 ← optSpace
    let yv : Option Nat := if wy then some y else none
    let m2 := if d1 > d2 then m % 12 + 1 else m
    let y2 : Option Nat := if d1 > d2 && m2 == 1 then yv.map (· + 1) else yv
    pure (.date (.fixed yv m d1) o1 (.fixed y2 m2 d2) o2,
      (if wy then dec y ++ ysp else []) ++ monthName m ++ sp ++ t1 ++ to1 ++ s1 ++ ['-'] ++ s2 ++ t2 ++ to2)
  | _ =>
    let wy ← chance 1 3
    let (d1, t1) ← genDate wy
    let (d2, t2) ← genDate (wy && (← chance 3 4))
    let (o1, to1) ← genOptOffset
    let (o2, to2) ← genOptOffset
    let s1 ← optSpace
    let s2 ← optSpace
    pure (.date d1 o1 d2 o2, t1 ++ to1 ++ s1 ++ ['-'] ++ s2 ++ t2 ++ to2)

def genMonthdaySelector : Gen (List MonthdayRange × Txt) := genList genMonthdayRange [','] 3

-- ------------------------------------------------------------------------------------------
-- rules

def commentPool : List String := ["a", "b", "on appointment", "zz top", "é", "x, y", "by phone: 555", "Z"]

def genComment : Gen String := pick commentPool

def quote (c : String) : Txt := ['"'] ++ c.toList ++ ['"']

/-- `MonthdayRange` text starts with a year (then a preceding year selector needs no care) -/
def startsWithDigit (x : Txt) : Bool :=
  match x with
  | c :: _ => '0' ≤ c && c ≤ '9'
  | [] => false

/-- the selectors of a rule: `24/7`, or wide-range selectors (a comment with `:`, or years / month
days / weeks) followed by a separator (space, `:` or `: `) and the small-range selectors -/
def genSelectors : Gen ((DaySelector × List TimeSpan × Option String) × Txt) := do
  if ← chance 1 12 then
    pure ((⟨[], [], [], []⟩, [TimeSpan.fullDay], none), t "24/7")
  else
    -- wide part
    let (wide, twide, extra) : (List YearRange × List MonthdayRange × List WeekRange) × Txt × Option String ← (do
      match ← below 12 with
      | 0 =>
        let c ← genComment
        pure (([], [], []), quote c ++ [':'], some c)
      | 1 | 2 | 3 | 4 | 5 => pure (([], [], []), [], none)
      | _ =>
        let hasY ← chance 1 3
        let hasM ← chance 2 3
        let hasW ← chance 1 4
        let (ys, ty) ← (do if hasY then genList genYearRange [','] 2 else pure ([], []))
        let (ms, tm) ← (do if hasM then genMonthdaySelector else pure ([], []))
        -- a year selector directly followed by month days is only unambiguous when a single plain year
        -- is not involved: write years and month days side by side only when the year text cannot be
        -- taken for the year of the first month range (the documented grammar gives that reading
        -- priority) — otherwise drop the month days
        let plainSingle := match ys with | [y] => y.lo == y.hi && y.step == 1 | _ => false
        let (ms, tm) := if hasY && hasM && (plainSingle || startsWithDigit tm) then (([] : List MonthdayRange), ([] : Txt)) else (ms, tm)
        let (ws, tw) ← (do if hasW then genWeekSelector else pure ([], []))
        let wsp : Txt := if ws.isEmpty then [] else (if ys.isEmpty && ms.isEmpty then [] else [' '])
        pure ((ys, ms, ws), ty ++ tm ++ wsp ++ tw, none))
    let (ys, ms, ws) := wide
    let hasWide := !(ys.isEmpty && ms.isEmpty && ws.isEmpty)
    -- small part
    let (wd, twd) ← (do if ← chance 1 2 then genWeekdaySelector else pure ([], []))
    let needTime := !hasWide && wd.isEmpty && extra.isNone
    let (ts, tts) ← (do if needTime || (← chance 3 5) then genTimeSelector else pure ([], []))
    let sep : Txt ← (do
      if extra.isSome then pure []          -- `"c":Mo`: no separator after the `:` of a comment
      else if !hasWide then pure []
      else if wd.isEmpty && ts.isEmpty then pick [[], [':']]
      else pick [[' '], [' '], [':', ' '], [':']])
    let small : Txt := twd ++ (if !wd.isEmpty && !ts.isEmpty then [' '] else []) ++ tts
    pure ((⟨ys, ms, ws, wd⟩, if ts.isEmpty then [TimeSpan.fullDay] else ts, extra), twide ++ sep ++ small)

/-- modifier: nothing (open), `open`, `closed`/`off`, `unknown`, each possibly with a comment -/
def genModifier (mustHave : Bool) : Gen ((Kind × Option String) × Txt) := do
  let c ← genComment
  let wc ← chance 1 4
  let ctxt : Txt := if wc then quote c else []
  let cv : Option String := if wc then some c else none
  match ← below 8 with
  | 0 | 1 | 2 | 3 =>
    if mustHave && !wc then pure ((.open, none), t "open")
    else pure ((.open, cv), ctxt)
  | 4 => pure ((.open, cv), t "open" ++ (if wc then [' '] else []) ++ ctxt)
  | 5 => pure ((.closed, cv), t "closed" ++ (if wc then [' '] else []) ++ ctxt)
  | 6 => pure ((.closed, cv), t "off" ++ (if wc then [' '] else []) ++ ctxt)
  | _ => pure ((.unknown, cv), t "unknown" ++ (if wc then [' '] else []) ++ ctxt)

def genRule (op : RuleOp) : Gen (Rule × Txt) := do
  let ((day, time, extra), tsel) ← genSelectors
  let ((kind, comment), tmod) ← genModifier false
  let sp : Txt := if tmod.isEmpty then [] else [' ']
  let comments := SortedVec.fromVec (comment.toList ++ extra.toList)
  pure (⟨day, time, kind, op, comments⟩, tsel ++ sp ++ tmod)

def genSeparator : Gen (RuleOp × Txt) := do
  match ← below 10 with
  | 0 | 1 | 2 => pure (.normal, t "; ")
  | 3 => pure (.normal, t ";")
  | 4 => pure (.normal, t " ; ")
  | 5 | 6 => pure (.additional, t ", ")
  | 7 => pure (.fallback, t " || ")
  | _ => pure (.fallback, t "|| ")

/-- one sentence and the expression it denotes -/
def genSentence : Gen (Expr × Txt) := do
  let n ← (do if ← chance 1 2 then pure 1 else range 1 4)
  let (r, tr) ← genRule .normal
  let mut rules := [r]
  let mut txt := tr
  for _ in [1:n] do
    let (op, ts) ← genSeparator
    let (r, tr) ← genRule op
    rules := rules ++ [r]
    txt := txt ++ ts ++ tr
  pure (rules, txt)

def seedState (seed : Nat) : UInt64 :=
  let z : UInt64 := UInt64.ofNat seed + 0x9E3779B97F4A7C15
  let z := (z ^^^ (z >>> 30)) * 0xBF58476D1CE4E5B9
  let z := (z ^^^ (z >>> 27)) * 0x94D049BB133111EB
  (z ^^^ (z >>> 31)) ||| 1

end OH.Spec.Sentence
