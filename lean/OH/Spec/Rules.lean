import OH.Model.Eval
/-
The documented day-level semantics of an opening_hours expression, written declaratively and
pointwise (DESIGN §2.1, §5 C01).  Nothing here mentions range lists, hints, search windows over
interval iterators or schedules: a rule *applies* on a day iff the day satisfies its four selectors,
a minute is *covered* by a rule iff one of its time spans, resolved on the day (or on the previous
day for the part beyond 24:00), contains it, and the state of a minute is obtained by folding the
rules with pointwise overlays.

The only things shared with the model are the calendar (`OH.Model.Cal`), the AST, the context
record, the resolution of one time bound (`Time.asNaive`: fixed minute, or event + offset with
the documented fall-back to 00:00 outside 00:00–48:00) and the saturating day shift
(`addDaysSat`/`satNeg`: plain addition, pinned at chrono's extreme dates — see `shift`, `weekdayOk`).
Core-only imports (the driver evaluates this specification on the implementation's output).
-/
namespace OH.Spec
open OH.Model OH.Model.Cal

/-! ### selectors -/

/-- membership in an inclusive range that may wrap (`Nov-Feb`, `Sa-Tu`, `week 50-05`) -/
def inWrap (lo hi x : Nat) : Bool := if lo ≤ hi then lo ≤ x && x ≤ hi else lo ≤ x || x ≤ hi

def absDiff (a b : Nat) : Nat := if a ≥ b then a - b else b - a

/-- year range with step; a wrapping year range (`2030-2020`) selects both sides, the step being
counted from the written start on either side (the code's behaviour, adopted: the property text is silent) -/
def yearOk (r : YearRange) (d : Int) : Bool :=
  let y := year d
  0 ≤ y && inWrap r.lo r.hi y.toNat && (r.step ≠ 0 && absDiff y.toNat r.lo % r.step == 0)

/-- instance of a date on year `y`: a fixed date whose day does not exist is moved forward to the
next existing day when it opens a range (`after`) and backward to the last existing day when it
closes one; a date with a year has an instance on that year only.  Instances exist on the years chrono
can represent (`minYear … maxYear`, about ±262 000) and on no other: the property text is silent about
dates outside of the calendar of the library, and the evaluated days are those of 1900–9999. -/
def dateInstance (ds : DateSpec) (y : Int) (after : Bool) : Option Int :=
  match ds with
  | .easter yr =>
    (if yr.isNone ∨ yr = some y.toNat then (match easter y with | .ok r => r | .error _ => none) else none)
  | .fixed yr m dd =>
    if yr.isNone ∨ (yr.map (fun (n : Nat) => (n : Int))) = some y then
      match ofYmd? y m dd with
      | some r => some r
      | none =>
        -- clamp inside 28..31: forward = first day of the next month, backward = last day of the month
        if minYear ≤ y ∧ y ≤ maxYear ∧ dd > daysInMonth y m ∧ 1 ≤ m ∧ m ≤ 12 ∧ dd ≤ 31 then
          (if after then some (ymdRaw y m (daysInMonth y m) + 1) else some (ymdRaw y m (daysInMonth y m)))
        else none
    else none

/-- `+Su` / `-Mo` then `± n days`.  The property text is silent about shifted days that chrono cannot
represent (beyond ±262 000 years); the specification adopts the code's reading there: every day shift
SATURATES at `NaiveDate::MIN` / `NaiveDate::MAX` (`OH.Model.addDaysSat`, the repaired
`add_days_saturating`), for the day offset and for the weekday shift alike — exactly as `DateOffset::apply`
does.  Whenever the shifted day is representable this is the plain sum.  For the days the library evaluates
(1900–9999, far inside the calendar) a start pinned at the first date reads "started before every day that
can be asked about" and an end pinned at the last date "ends after every such day"; a start pinned at the
last date lies after, and an end pinned at the first date before, every evaluated day. -/
def shift (o : DateOffset) (d : Int) : Int :=
  let d1 := addDaysSat d o.days
  match o.wday with
  | .none => d1
  | .prev t => addDaysSat d1 (-(((7 + weekday d1 - t) % 7 : Nat) : Int))
  | .next t => addDaysSat d1 (((7 + t - weekday d1) % 7 : Nat) : Int)

/-- how many years around the evaluated day the instances of a shifted bound have to be looked for: as many
as the day offsets can move a bound, and never more than the whole calendar (272 200 years on either side of
any day of 1899–9999 cover every year chrono can represent, and no other year carries an instance) -/
def yearSpan (so eo : DateOffset) : Nat := min (3 + (so.days.natAbs + eo.days.natAbs) / 365) 272200

def yearsNear (y : Int) (w : Nat) : List Int := (List.range (2 * w + 1)).map (fun (i : Nat) => y - (w : Int) + (i : Int))

/-- a date that exists as written on year `y` (used for single-day ranges: `Apr 31` never matches,
`Feb 29` only in leap years) -/
def exactInstance (ds : DateSpec) (y : Int) : Option Int :=
  match ds with
  | .easter _ => dateInstance ds y true
  | .fixed yr m dd => if yr.isNone ∨ (yr.map (fun (n : Nat) => (n : Int))) = some y then ofYmd? y m dd else none

def isFixedDate : DateSpec → Bool
  | .fixed .. => true
  | .easter _ => false

def specYear : DateSpec → Option Int
  | .fixed y _ _ => y.map (fun (n : Nat) => (n : Int))
  | .easter y => y.map (fun (n : Nat) => (n : Int))

/-- years on which instances of the bounds are looked for: around the evaluated day and around the
years the bounds carry -/
def candidateYears (s e : DateSpec) (w : Nat) (d : Int) : List Int :=
  yearsNear (year d) w ++ (match specYear s with | some y => yearsNear y w | none => [])
    ++ (match specYear e with | some y => yearsNear y w | none => [])

def maxOpt (l : List Int) : Option Int :=
  l.foldl (fun (acc : Option Int) x => match acc with | none => some x | some a => some (max a x)) none

/-- dated range `start-end`: `d` lies at or after a start instance and no end instance lies between
the most recent start instance and `d` (each start pairs with the first end at or after it; a start
without a later end stays open; an end without a start before it selects nothing).  An end that
carries a year closes the range there (nothing is selected if that is before the start).
A single fixed date (start = end) selects its exact instances only. -/
def datedOk (s : DateSpec) (so : DateOffset) (e : DateSpec) (eo : DateOffset) (d : Int) : Bool :=
  let ys := candidateYears s e (yearSpan so eo) d
  if s = e ∧ isFixedDate s then
    ys.any (fun y => match exactInstance s y with
      | some i => shift so i ≤ d && d ≤ shift eo i
      | none => false)
  else
    let starts := ys.filterMap (fun y => (dateInstance s y true).map (shift so))
    let ends := ys.filterMap (fun y => (dateInstance e y false).map (shift eo))
    match maxOpt (starts.filter (· ≤ d)) with
    | none => false
    | some s0 =>
      !(ends.any (fun x => s0 ≤ x && x < d)) &&
        (match specYear e with | some _ => ends.any (fun x => d ≤ x) | none => true)

/-- the documented semantics give no meaning to a range from a date without a year to a date with
one (`Oct 15-2021 easter`): such rules are outside the scope of C01 -/
def datedDefined (s e : DateSpec) : Bool := !(specYear s).isNone || (specYear e).isNone

def monthdayOk (r : MonthdayRange) (d : Int) : Bool :=
  match r with
  | .month lo hi yr => (match yr with | none => true | some y => (y : Int) = year d) && inWrap lo hi (Cal.month d)
  | .date s so e eo => datedOk s so e eo d

/-- ISO week range with step; for a wrapping range the step is counted from the written start with
saturation (the code's behaviour, adopted) -/
def weekOk (r : WeekRange) (d : Int) : Bool :=
  let w := isoWeek d
  inWrap r.lo r.hi w && (r.step ≠ 0 && (w - r.lo) % r.step == 0)

/-- weekday range, evaluated on the day shifted back by the offset; nth positions count from the
start and from the end of the month of the shifted day.  The shift saturates at chrono's extreme dates
like the code's (`add_days_saturating(date, offset.saturating_neg())`): "the weekday of a day chrono
cannot represent" has no documented meaning, the code's reading is adopted. -/
def weekdayOk (ctx : Ctx) (r : WeekDayRange) (d : Int) : Bool :=
  match r with
  | .fixed lo hi off ns ne =>
    let d' := addDaysSat d (satNeg off)
    let dom := dayOfMonth d'
    let len := daysInMonth (year d') (Cal.month d')
    inWrap lo hi (weekday d') && (ns.getD ((dom - 1) / 7) false || ne.getD ((len - dom) / 7) false)
  | .holiday k off =>
    (match k with | .pub => ctx.pub | .school => ctx.school).contains (addDaysSat d (satNeg off))

def anyOrEmpty {α} (l : List α) (p : α → Bool) : Bool := l.isEmpty || l.any p

/-- a rule applies on a day iff the day satisfies all of its selectors -/
def applies (ctx : Ctx) (r : Rule) (d : Int) : Bool :=
  anyOrEmpty r.day.year (yearOk · d) && anyOrEmpty r.day.monthday (monthdayOk · d)
    && anyOrEmpty r.day.week (weekOk · d) && anyOrEmpty r.day.weekday (weekdayOk ctx · d)

/-! ### time spans -/

/-- a time span resolved on day `d`: `[s, e)` in minutes from 00:00 of `d`, `e ≤ s` meaning that it
ends on the next day; cut at 48:00 -/
def spanOn (ctx : Ctx) (d : Int) (t : TimeSpan) : Nat × Nat :=
  let s := t.start.asNaive ctx d
  let e := t.stop.asNaive ctx d
  if s < e then (s, e) else (s, max s (min (e + 1440) 2880))

/-- minute `m` of day `d` is inside a span started on `d` (`spans` = the rule's spans resolved on `d`) -/
def inToday (spans : List (Nat × Nat)) (m : Nat) : Bool := spans.any (fun se => se.1 ≤ m && m < se.2 && m < 1440)

/-- minute `m` of day `d` is inside the part beyond 24:00 of a span started on `d - 1`
(`spans` = the rule's spans resolved on `d - 1`) -/
def inSpill (spans : List (Nat × Nat)) (m : Nat) : Bool := spans.any (fun se => se.1 ≤ m + 1440 && m + 1440 < se.2)

/-- minute `m` of day `d` is covered by rule `r`: by a span started today if the rule applies today,
or by a span continued from yesterday if it applied yesterday -/
def coversToday (ctx : Ctx) (r : Rule) (d : Int) (m : Nat) : Bool :=
  applies ctx r d && inToday (r.time.map (spanOn ctx d)) m

def coversSpill (ctx : Ctx) (r : Rule) (d : Int) (m : Nat) : Bool :=
  applies ctx r (d - 1) && inSpill (r.time.map (spanOn ctx (d - 1))) m

/-! ### rule combination

The state of a day is a table with one entry per minute (`none` = no rule says anything, which
reads as closed).  Every entry is given by a pointwise formula (`tab`); the table form only
records that day-level facts (does the rule apply today? is anything non-closed so far?) are
facts about the whole day. -/

abbrev DayTab := Array (Option Kind)

def tab (f : Nat → Option Kind) : DayTab := Array.ofFn (n := 1440) (fun i => f i.val)

def DayTab.at (t : DayTab) (m : Nat) : Option Kind := (t[m]?).getD none

def emptyDay : DayTab := tab (fun _ => none)

/-- what rule `r` says about each minute of day `d`: its spans started today, with its spans
continued from yesterday laid over -/
def ruleDay (ctx : Ctx) (r : Rule) (d : Int) : DayTab :=
  let a := applies ctx r d
  let today := r.time.map (spanOn ctx d)
  let a1 := applies ctx r (d - 1)
  let yesterday := r.time.map (spanOn ctx (d - 1))
  tab (fun m => if (a1 && inSpill yesterday m) || (a && inToday today m) then some r.kind else none)

/-- the part of `ruleDay` continued from yesterday only -/
def ruleSpill (ctx : Ctx) (r : Rule) (d : Int) : DayTab :=
  let a1 := applies ctx r (d - 1)
  let yesterday := r.time.map (spanOn ctx (d - 1))
  tab (fun m => if a1 && inSpill yesterday m then some r.kind else none)

def overlay (base top : DayTab) : DayTab :=
  tab (fun m => match top.at m with | some k => some k | none => base.at m)

/-- some minute of the day is open or unknown -/
def hasNonClosed (t : DayTab) : Bool := t.any (fun k => k == some .open || k == some .unknown)

/-- one rule on top of what the previous ones produced:
 * a normal open/unknown rule replaces everything on the days it applies; elsewhere only its span
   continued from yesterday (if any) is laid over;
 * additional rules and closed rules are laid over;
 * a fallback rule is used only on days nothing non-closed covers. -/
def step (ctx : Ctx) (d : Int) (acc : DayTab) (r : Rule) : DayTab :=
  match r.op, r.kind with
  | .normal, .open | .normal, .unknown =>
    if applies ctx r d then ruleDay ctx r d else overlay acc (ruleSpill ctx r d)
  | .additional, _ | .normal, .closed => overlay acc (ruleDay ctx r d)
  | .fallback, _ => if hasNonClosed acc then acc else ruleDay ctx r d

/-- the table of day `d` -/
def dayTable (ctx : Ctx) (e : Expr) (d : Int) : DayTab :=
  if dateStart ≤ d ∧ d < dateEnd then e.foldl (step ctx d) emptyDay else emptyDay

/-- the state of minute `m` of day `d` -/
def dayState (ctx : Ctx) (e : Expr) (d : Int) (m : Nat) : Kind := ((dayTable ctx e d).at m).getD .closed

/-- FORMER known finding D20 (class `D20-dated-window`; repaired in /repo by pairing on the years y-2..y+2,
after which no case of the class fails any more — the predicate is kept for the record only and is no
longer consulted by any check): the implementation pairs the bounds of a dated
range without years by projecting them on the years `y-1..y+1` around the evaluated day; an
occurrence that is about one year long, or whose bounds are shifted by about a year or more, starts
or ends outside that window.  The class is decided on the rule alone: some yearless dated range has
a day offset of 330 days or more, or its nominal length (first end at or after the start on the
reference year 2024, weekday shifts left out) is 340 days or more, or it is at most 12 days with a
weekday shift (the shifts can then reorder the bounds and make the occurrence a year long). -/
def datedWindowRisk (s : DateSpec) (so : DateOffset) (e : DateSpec) (eo : DateOffset) : Bool :=
  let noWd (o : DateOffset) : DateOffset := ⟨.none, o.days⟩
  let hasWd := so.wday != .none || eo.wday != .none
  (specYear s).isNone && (specYear e).isNone &&
    (so.days.natAbs ≥ 330 || eo.days.natAbs ≥ 330 ||
      (match dateInstance s 2024 true with
       | none => false
       | some s0 =>
         -- nominal length, weekday shifts (up to 6 days each way) left out
         let st := shift (noWd so) s0
         let ends := ([2023, 2024, 2025, 2026] : List Int).filterMap (fun y => (dateInstance e y false).map (shift (noWd eo)))
         match (ends.filter (· ≥ st)).foldl (fun (acc : Option Int) x => match acc with | none => some x | some a => some (min a x)) none with
         | none => true
         | some en => en - st ≥ 340 || (hasWd && en - st ≤ 12 && !(s == e && isFixedDate s))))

def exprWindowRisk (e : Expr) : Bool :=
  e.any (fun r => r.day.monthday.any (fun m => match m with | .date s so e eo => datedWindowRisk s so e eo | _ => false))

/-! FORMER known findings of dated ranges, both closed (no class is left; the oracle judges every dated range
whose meaning is defined):
 * `dated-shift-over-a-year` (a bound moved by more than a year left the fixed search windows around the
   evaluated day's year: `Jan 01 +400 days-Jan 10 +770 days`): closed by centring the windows on the year of
   `d - day offset` (`OH.Model.yearBeforeOffset`, /repo 04e05fd);
 * `dated-offset-beyond-calendar` (a day offset beyond about ±92 000 000 days, so that `d - offset` or a year of
   the search window around it is not one chrono can represent: `2020 Jan 1 -100000000 days-Feb 1`,
   `Jan 01 -95700000 days-Jan 10`): closed by /repo 5cdd92e — a bound has no occurrence on a year that cannot be
   represented (`valid_ymd_before/after` answered `DATE_END` for such a year) and the ends that are left after the
   last start close nothing (`intervals_from_bounds` made `(DATE_START, end)` intervals of them).  The code now
   computes the reading documented at `shift`/`dateInstance`: occurrences exist on the years chrono can
   represent, shifted days are pinned at its extreme dates.
Refinement is PROVED for EVERY offset between two fixed dates without a year and between two bounds with a year,
for a start offset within ±92 000 000 days from a start with a year to a fixed yearless end (any end offset) and
within ±300 000 days when a bound is a yearless Easter; hint
soundness within ±92 000 000 days for two fixed yearless dates (±300 000 with Easter; no condition after a start
with a year) (OH/Props/C01.lean
`exprDatedPlain`, OH/Props/C02B.lean `exprHintSafe`); beyond that the model is compared with this specification
by brute force (lean/scratch/BFDated.lean) and by the oracle on generated offsets up to ±10⁹ days. -/

/-- every dated range of the expression has a defined meaning -/
def exprDefined (e : Expr) : Bool :=
  e.all (fun r => r.day.monthday.all (fun m => match m with | .date s _ e _ => datedDefined s e | _ => true))

end OH.Spec
