import OH.Spec.Rules
import OH.Model.Iter
/-
The executable property predicates (`P.holds`, DESIGN §2.4): the same Boolean functions are
(1) what the theorems of OH/Props state about the model's output and (2) what the driver evaluates
on the implementation's output at run time.
Core-only imports.
-/
namespace OH.Spec
open OH.Model OH.Model.Cal

/-- kind of the range covering minute `m` in a list of day ranges (none if no range covers it) -/
def kindAt (rs : List TimeRange) (m : Nat) : Option Kind :=
  (rs.find? (fun r => r.s ≤ m && m < r.e)).map (·.kind)

/-- first minute of the day on which the iterated day schedule `rs` disagrees with the specification -/
def c01Mismatch (ctx : Ctx) (e : Expr) (d : Int) (rs : List TimeRange) : Option Nat :=
  let t := dayTable ctx e d
  (List.range 1440).find? (fun m => kindAt rs m != some ((t.at m).getD .closed))

/-- C01: the iterated schedule of day `d` gives every minute the state the documented semantics define -/
def c01Holds (ctx : Ctx) (e : Expr) (d : Int) (rs : List TimeRange) : Bool :=
  (c01Mismatch ctx e d rs).isNone

/-- a list of day ranges tiles 00:00–24:00: starts at 0, contiguous, non-empty, ends at 1440 -/
def tilesFrom : Nat → List TimeRange → Bool
  | s, [] => s == 1440
  | s, r :: rest => r.s == s && r.s < r.e && tilesFrom r.e rest

def adjacentKindsDiffer : List TimeRange → Bool
  | a :: b :: rest => a.kind != b.kind && adjacentKindsDiffer (b :: rest)
  | _ => true

end OH.Spec
