import OH.Spec.Rules
import OH.Model.Iter
/-
The executable property predicates (`P.holds`, DESIGN §2.4): the same Boolean functions are
(1) what the theorems of OH/Props state about the model's output and (2) what the driver evaluates
on the implementation's output at run time.
Core-only imports.
-/
namespace OH.Spec
open OH.Model OH.Model.Cal

/-- kind of the range covering minute `m` in a list of day ranges (none if no range covers it) -/
def kindAt (rs : List TimeRange) (m : Nat) : Option Kind :=
  (rs.find? (fun r => r.s ≤ m && m < r.e)).map (·.kind)

/-- first minute of the day on which the iterated day schedule `rs` disagrees with the specification -/
def c01Mismatch (ctx : Ctx) (e : Expr) (d : Int) (rs : List TimeRange) : Option Nat :=
  let t := dayTable ctx e d
  (List.range 1440).find? (fun m => kindAt rs m != some ((t.at m).getD .closed))

/-- C01: the iterated schedule of day `d` gives every minute the state the documented semantics define -/
def c01Holds (ctx : Ctx) (e : Expr) (d : Int) (rs : List TimeRange) : Bool :=
  (c01Mismatch ctx e d rs).isNone

/-- a list of day ranges tiles 00:00–24:00: starts at 0, contiguous, non-empty, ends at 1440 -/
def tilesFrom : Nat → List TimeRange → Bool
  | s, [] => s == 1440
  | s, r :: rest => r.s == s && r.s < r.e && tilesFrom r.e rest

def adjacentKindsDiffer : List TimeRange → Bool
  | a :: b :: rest => a.kind != b.kind && adjacentKindsDiffer (b :: rest)
  | _ => true

end OH.Spec

namespace OH.Spec
open OH.Model OH.Model.Cal

/-! ### C02 / C03 / C08: the interval stream against the daily schedules -/

/-- the days on which an interval `[a, b)` (instants) is checked against the daily schedules: all
of them when there are at most `dense`, otherwise the first and last three and `spread` evenly
spaced ones (the choice is deterministic, so a replay checks the same days) -/
def daysToCheck (a b : Int) (dense spread : Nat) : List Int :=
  let d0 := instDay a
  let d1 := instDay (b - 1)
  let n := (d1 - d0 + 1).toNat
  if n ≤ dense then (List.range n).map (fun (i : Nat) => d0 + (i : Int))
  else
    ([0, 1, 2] : List Int).map (d0 + ·) ++ ([0, 1, 2] : List Int).map (d1 - ·) ++
      (List.range spread).map (fun (i : Nat) => d0 + 3 + ((n - 6 : Nat) : Int) * (i : Int) / (spread : Int))

/-- every range of day `d`'s schedule `rs` that meets the instant interval `[a, b)` has kind `k` -/
def dayAgrees (d : Int) (rs : List TimeRange) (a b : Int) (k : Kind) : Bool :=
  rs.all (fun r =>
    let rs' := mkInstant d r.s
    let re := mkInstant d r.e
    -- ranges disjoint from [a, b) are irrelevant
    (re ≤ a || b ≤ rs') || r.kind == k)

/-- first day of `days` whose schedule (given by `sched`) contradicts kind `k` on `[a, b)` -/
def firstBadDay (sched : Int → Option (List TimeRange)) (a b : Int) (k : Kind) (days : List Int) : Option Int :=
  days.find? (fun d => match sched d with | some rs => !(dayAgrees d rs a b k) | none => false)

/-- structural clauses of C02 for the stream `out` of the window `[frm, to)`; returns the name of the
first clause that fails -/
def c02Structure (frm to : Int) (out : List Interval) : Option String :=
  let f := min frm instEnd
  let l := min to instEnd
  if f ≥ l then (if out.isEmpty then none else some "nonempty-for-empty-window")
  else match out with
    | [] => some "empty-for-nonempty-window"
    | i0 :: _ =>
      if i0.start != f then some "first-start"
      else if (out.getLast?.map (·.stop)) != some l then some "last-stop"
      else if out.any (fun i => !(i.start < i.stop)) then some "empty-interval"
      else
        let rec chk : List Interval → Option String
          | a :: b :: rest =>
            if a.stop != b.start then some "gap-or-overlap"
            else if a.kind == b.kind then some "adjacent-same-kind"
            else chk (b :: rest)
          | _ => none
        chk out

/-- pointwise clause of C02: every interval has the kind the daily schedules give inside it -/
def c02Pointwise (sched : Int → Option (List TimeRange)) (out : List Interval) : Option (Int × Interval) :=
  out.findSome? (fun i =>
    (firstBadDay sched i.start i.stop i.kind (daysToCheck i.start i.stop 45 12)).map (·, i))

/-- kind of the last range of a day schedule: the one kind the iterator is extending when it asks for
the hint (`OH.Model.lastKind`, restated here so that the oracle needs no proof module) -/
def lastKindOf (rs : List TimeRange) : Kind :=
  match rs.getLast? with
  | some r => r.kind
  | none => .closed

/-- C02, the day-skipping hint (`EnvOK.hint_gt`, `EnvOK.hint_sound` as a test on a GIVEN answer): `h` is
the day the iterator jumps to from day `d` (`next_change_hint(d)`, or `d + 1` when there is none).  It must
lie after `d`, and every day strictly between `d` and `h` (before 10000-01-01) must consist of ranges of
the kind of the last range of day `d`; `days` are the days looked at.  Returns the first day that breaks
this (`d` itself when `h` is not after `d`). -/
def c02HintBad (sched : Int → Option (List TimeRange)) (d h : Int) (days : List Int) : Option Int :=
  if !(d < h) then some d else
  match sched d with
  | none => none
  | some sd =>
    days.find? (fun d' => decide (d < d') && decide (d' < h) && decide (d' < dateEnd) &&
      (match sched d' with
       | some rs => !(rs.all (fun r => r.kind == lastKindOf sd))
       | none => false))

/-- the days `c02HintBad` looks at for a jump from `d` to `h`: all of them when there are at most `2 * near`,
else the `near` days after `d`, the `near` days before `h`, and `spread` days in between -/
def hintDaysToCheck (d h : Int) (near spread : Nat) : List Int :=
  let n := (h - d - 1).toNat
  if n ≤ 2 * near + spread then (List.range n).map (fun (i : Nat) => d + 1 + Int.ofNat i)
  else
    (List.range near).map (fun (i : Nat) => d + 1 + Int.ofNat i) ++
    (List.range spread).map (fun (i : Nat) => d + 1 + Int.ofNat near + (Int.ofNat i + 1) * (Int.ofNat n - 2 * Int.ofNat near) / (Int.ofNat spread + 1)) ++
    (List.range near).map (fun (i : Nat) => h - 1 - Int.ofNat i)

/-- kind the daily schedule `rs` of `t`'s day gives to instant `t` -/
def kindAtInstant (rs : List TimeRange) (t : Int) : Option Kind := kindAt rs (instMinuteOfDay t)

/-! ### C17: comments -/

def strictlySorted : List String → Bool
  | a :: b :: rest => a < b && strictlySorted (b :: rest)
  | _ => true

/-- periods (minute ranges of day `d`) that rule `r` contributes according to the specification -/
def rulePeriods (ctx : Ctx) (r : Rule) (d : Int) : List (Nat × Nat) :=
  (if applies ctx r d then (r.time.map (spanOn ctx d)).filterMap (fun se => if se.1 < min se.2 1440 then some (se.1, min se.2 1440) else none) else []) ++
  (if applies ctx r (d - 1) then (r.time.map (spanOn ctx (d - 1))).filterMap (fun se => if max se.1 1440 < se.2 then some (max se.1 1440 - 1440, se.2 - 1440) else none) else [])

/-- the comment clauses of C17 for the iterated schedule `rs` of day `d`; name of the first failing clause -/
def c17Day (ctx : Ctx) (e : Expr) (d : Int) (rs : List TimeRange) : Option String :=
  let inRange := dateStart ≤ d ∧ d < dateEnd
  let contributing := e.filter (fun r => applies ctx r d || applies ctx r (d - 1))
  let all := e.flatMap (·.comments)
  if rs.any (fun r => !(strictlySorted r.comments)) then some "sorted-unique"
  else if rs.any (fun r => r.comments.any (fun c => !(all.contains c))) then some "from-expression"
  -- the remaining clauses speak about which rules apply: they need every dated range of the
  -- expression to have a defined meaning (`exprDefined`)
  else if !(exprDefined e) then none
  else if rs.any (fun r => r.comments.any (fun c => !(contributing.any (fun ru => ru.comments.contains c)))) then some "provenance"
  else if (!inRange || contributing.isEmpty) && rs.any (fun r => !r.comments.isEmpty) then some "empty-outside"
  else if !inRange then none
  else
    -- a non-closed period touched or overlapped by the periods of exactly one rule carries exactly its comments
    let per := e.map (fun r => (r, rulePeriods ctx r d))
    if rs.any (fun r =>
        r.kind != .closed &&
        (match per.filter (fun rp => rp.2.any (fun p => p.1 ≤ r.e && r.s ≤ p.2)) with
         | [(ru, _)] => r.comments != ru.comments
         | _ => false)) then some "single-rule-exact"
    else none

end OH.Spec
