import OH.Model.SortedVec
import OH.Driver.Util
/-
Suite `usv.*` (C20, `UniqueSortedVec`).  Vectors travel as space-separated element tokens, the
empty vector as the single token `-`; operands are separated by the token `|`.
  usv.from <v…>                 => <r…>            `UniqueSortedVec::from(v)`
  usv.union <a…> | <b…>         => <r…>            `from(a).union(from(b))`
  usv.chain <v1…> | … | <vn…>   => <r…>            left fold of `union` over `from(vi)`
  usv.contains <x> | <v…>       => true|false      `from(v).contains(&x)`
  usv.fff <x> | <v…>            => some <y>|none   `from(v).find_first_following(&x)`
Elements are unsigned integers; the ops `usv.sfrom`, `usv.sunion`, `usv.schain`, `usv.scontains`,
`usv.sfff` are the same on strings (`UniqueSortedVec<String>` / `Arc<str>`), elements percent-encoded
(`%` alone = empty string; `|`, `-`, `=`, `%`, space, control and non-ASCII bytes as `%XX`).

Verdict: the *spec* is the statement proved in `OH.Props.C20`, evaluated on the implementation's
output with plain list predicates (strictly increasing = `List.Pairwise (compare · · = .lt)`,
membership = `∈`), never with the model; then model == implementation.
-/
namespace OH.Driver.C20
open OH.Model.SortedVec OH.Driver

/-! ### element codecs -/

structure Codec (α : Type) where
  parse : String → Option α
  render : α → String

def natCodec : Codec Nat := ⟨String.toNat?, toString⟩

def hexVal (c : Char) : Option Nat :=
  if '0' ≤ c ∧ c ≤ '9' then some (c.toNat - '0'.toNat)
  else if 'A' ≤ c ∧ c ≤ 'F' then some (c.toNat - 'A'.toNat + 10)
  else if 'a' ≤ c ∧ c ≤ 'f' then some (c.toNat - 'a'.toNat + 10)
  else none

def decodeBytes : List Char → ByteArray → Option ByteArray
  | [], acc => some acc
  | '%' :: a :: b :: rest, acc =>
    match hexVal a, hexVal b with
    | some x, some y => decodeBytes rest (acc.push (x * 16 + y).toUInt8)
    | _, _ => none
  | c :: rest, acc =>
    if c != '%' ∧ c.toNat < 128 then decodeBytes rest (acc.push c.toNat.toUInt8) else none

/-- inverse of the harness' percent-encoding; the bytes must be valid UTF-8 (Rust `String`) -/
def decodeTok (s : String) : Option String :=
  if s == "%" then some ""
  else (decodeBytes s.toList ByteArray.empty).bind String.fromUTF8?

def hexDigit (n : Nat) : Char :=
  if n < 10 then Char.ofNat ('0'.toNat + n) else Char.ofNat ('A'.toNat + (n - 10))

def encodeTok (s : String) : String :=
  if s.isEmpty then "%"
  else String.ofList <| s.toUTF8.toList.flatMap fun b =>
    let n := b.toNat
    if 0x20 < n ∧ n < 0x7f ∧ n ≠ '%'.toNat ∧ n ≠ '|'.toNat ∧ n ≠ '-'.toNat ∧ n ≠ '='.toNat then [Char.ofNat n]
    else ['%', hexDigit (n / 16), hexDigit (n % 16)]

def strCodec : Codec String := ⟨decodeTok, encodeTok⟩

/-! ### vectors -/

variable {α : Type}

def parseVec (c : Codec α) : List String → Option (List α)
  | ["-"] => some []
  | [] => none
  | toks => toks.mapM c.parse

def renderVec (c : Codec α) : List α → List String
  | [] => ["-"]
  | l => l.map c.render

/-- split at the `|` tokens -/
def splitBar (toks : List String) : List (List String) :=
  let rec go (cur : List String) : List String → List (List String)
    | [] => [cur.reverse]
    | "|" :: rest => cur.reverse :: go [] rest
    | t :: rest => go (t :: cur) rest
  go [] toks

/-! ### the specification, as plain predicates on the implementation's output -/

variable [Ord α] [DecidableEq α]

/-- strictly increasing: the definition of `OH.Proofs.SortedVec.Sorted` -/
def sortedB (l : List α) : Bool := decide (l.Pairwise (fun a b => compare a b = .lt))

/-- `r` and `v` have the same members -/
def sameMembersB (r v : List α) : Bool := r.all (fun x => decide (x ∈ v)) && v.all (fun x => decide (x ∈ r))

/-- first failing clause of "`r` is the sorted-unique vector of the members of `v`" -/
def setClause (r v : List α) : Option String :=
  if !sortedB r then some "sorted"
  else if !sameMembersB r v then some "members"
  else none

/-- first failing clause of "`r` is the least element of `v` not smaller than `x`" -/
def fffClause (v : List α) (x : α) : Option α → Option String
  | some y =>
    if !decide (y ∈ v) then some "member"
    else if compare y x == .lt then some "notbelow"
    else if !v.all (fun z => compare z x == .lt || compare y z != .gt) then some "least"
    else none
  | none => if v.all (fun z => compare z x == .lt) then none else some "none"

def verdict (clause : Option String) (model impl : List String) (tag : String) : String :=
  match impl with
  | t :: _ =>
    if t.startsWith "panic:" then s!"fail panic model={joinSp model}"
    else match clause with
      | some c => s!"fail {c} model={joinSp model}"
      | none => if model != impl then s!"disagree model={joinSp model}" else s!"ok {tag}"
  | [] => s!"fail parse model={joinSp model}"

def fromTag (v : List α) : String :=
  let r := fromVec v
  if v.isEmpty then "empty" else if r == v then "sorted" else if r.length < v.length then "dups" else "perm"

/-- which arm of `union` the (non-recursive part of the) call takes -/
def unionTag (a b : List α) : String :=
  match a.getLast?, b.getLast?, a.head?, b.head? with
  | some tx, some ty, some hx, some hy =>
    if compare tx hy == .lt || compare ty hx == .lt then "concat"
    else if a.any (fun x => decide (x ∈ b)) then "overlap" else "merge"
  | _, _, _, _ => "empty"

def showOpt (c : Codec α) : Option α → List String
  | none => ["none"]
  | some y => ["some", c.render y]

def parseOpt (c : Codec α) : List String → Option (Option α)
  | ["none"] => some none
  | ["some", t] => (c.parse t).map some
  | _ => none

/-- a panic token is not a parse error: it goes to `verdict` -/
def isPanic : List String → Bool
  | t :: _ => t.startsWith "panic:"
  | [] => false

def handleG (c : Codec α) (pre : String) (op : String) (args impl : List String) : Option String :=
  match op, splitBar args with
  | "from", [vt] => do
    let v ← parseVec c vt
    let model := renderVec c (fromVec v)
    if isPanic impl then return verdict none model impl ""
    match parseVec c impl with
    | none => return s!"fail parse model={joinSp model}"
    | some r => return verdict (setClause r v) model impl (pre ++ fromTag v)
  | "union", [at_, bt] => do
    let a ← parseVec c at_
    let b ← parseVec c bt
    let model := renderVec c (union (fromVec a) (fromVec b))
    if isPanic impl then return verdict none model impl ""
    match parseVec c impl with
    | none => return s!"fail parse model={joinSp model}"
    | some r => return verdict (setClause r (a ++ b)) model impl (pre ++ unionTag (fromVec a) (fromVec b))
  | "chain", vts => do
    let vs ← vts.mapM (parseVec c)
    let model := renderVec c (vs.foldl (fun acc v => union acc (fromVec v)) [])
    if isPanic impl then return verdict none model impl ""
    match parseVec c impl with
    | none => return s!"fail parse model={joinSp model}"
    | some r => return verdict (setClause r vs.flatten) model impl (pre ++ "chain")
  | "contains", [[xt], vt] => do
    let x ← c.parse xt
    let v ← parseVec c vt
    let m := contains (fromVec v) x
    let model := [toString m]
    if isPanic impl then return verdict none model impl ""
    let spec := decide (x ∈ v)
    let clause := if impl == [toString spec] then none else some "mem"
    return verdict clause model impl (pre ++ (if v.isEmpty then "empty" else if spec then "hit" else "miss"))
  | "fff", [[xt], vt] => do
    let x ← c.parse xt
    let v ← parseVec c vt
    let m := findFirstFollowing (fromVec v) x
    let model := showOpt c m
    if isPanic impl then return verdict none model impl ""
    match parseOpt c impl with
    | none => return s!"fail parse model={joinSp model}"
    | some r =>
      let tag := if v.isEmpty then "empty" else match r with
        | none => "none"
        | some y => if y == x then "exact" else "next"
      return verdict (fffClause v x r) model impl (pre ++ tag)
  | _, _ => none

def handle (op : String) (args impl : List String) : Option String :=
  if op.startsWith "usv.s" then handleG strCodec "s-" (op.drop 5).toString args impl
  else if op.startsWith "usv." then handleG natCodec "" (op.drop 4).toString args impl
  else none

end OH.Driver.C20
