/-
Line protocol shared by all suites (DESIGN §2.3):
  `<op> <arg tokens…> => <implementation's output tokens…>`
one line in, one verdict line out:
  `ok <tag>`        model and implementation agree and the property predicate holds on the
                    implementation's output; `<tag>` classifies the case (distribution + non-triviality)
  `fail <clause> model=<…>`   the property predicate is false on the implementation's output
  `disagree model=<…>`        predicate holds (or is not applicable) but model ≠ implementation
  `bad <why>`       the line is not in the protocol (a harness bug, never a verdict on the code)
Core-only imports.
-/
namespace OH.Driver

def splitArrow (toks : List String) : List String × List String :=
  let rec go (acc : List String) : List String → List String × List String
    | [] => (acc.reverse, [])
    | "=>" :: rest => (acc.reverse, rest)
    | t :: rest => go (t :: acc) rest
  go [] toks

def joinSp (l : List String) : String := " ".intercalate l

def optNatTok (s : String) : Option Nat := s.toNat?
def optIntTok (s : String) : Option Int := s.toInt?

/-- verdict from comparing model output and implementation output, both already canonical tokens -/
def verdictEq (tag : String) (model impl : List String) : String :=
  if model == impl then s!"ok {tag}" else s!"fail eq model={joinSp model}"

end OH.Driver
