import OH.Model.CompactCalendar
import OH.Spec.DateSet
import OH.Driver.Util
/-
Suite `cal.*` (C15).  Every line is one replay.  The driver
  (1) runs the plain sorted-set oracle `OH.Spec.DateSet` (the object the theorems of `OH.Props.C15`
      compare the model with) next to the history and checks every token the IMPLEMENTATION printed
      against it  → `fail <clause>@<step> …`,
  (2) replays the history on the model and compares every token → `disagree@<step> …`.
The oracle knows nothing of year windows or bit masks: it is a strictly increasing `List Date`.
Histories that load arbitrary bytes (`de:`) build values insertions cannot build; the property does
not speak about them, they are compared with the model only (tag `raw`), panics included.
-/
namespace OH.Driver.C15
open OH.Model.CompactCalendar OH.Driver OH.Spec

/-! ### tokens -/

def parseDate (s : String) : Option Date :=
  match s.splitOn "/" with
  | [y, m, d] =>
    match y.toInt?, m.toNat?, d.toNat? with
    | some y, some m, some d => some ⟨y, m, d⟩
    | _, _, _ => none
  | _ => none

def showDate (d : Date) : String := s!"{d.year}/{d.month}/{d.day}"

def hexDigit (n : Nat) : Char := Char.ofNat (if n < 10 then 48 + n else 87 + n)

def toHex (bs : List Nat) : String :=
  "x" ++ String.ofList (bs.flatMap fun b => [hexDigit (b / 16), hexDigit (b % 16)])

def hexVal (c : Char) : Option Nat :=
  if '0' ≤ c ∧ c ≤ '9' then some (c.toNat - 48)
  else if 'a' ≤ c ∧ c ≤ 'f' then some (c.toNat - 87)
  else none

def ofHexChars : List Char → Option (List Nat)
  | [] => some []
  | a :: b :: rest =>
    match hexVal a, hexVal b, ofHexChars rest with
    | some x, some y, some r => some ((16 * x + y) :: r)
    | _, _, _ => none
  | _ => none

def ofHex (s : String) : Option (List Nat) :=
  match s.toList with
  | 'x' :: cs => ofHexChars cs
  | _ => none

def fnv (bs : List Nat) : UInt64 :=
  bs.foldl (fun h b => (h ^^^ b.toUInt64) * 1099511628211) 14695981039346656037

def hex16 (h : UInt64) : String :=
  String.ofList ((List.range 16).map fun i => hexDigit ((h.toNat >>> (4 * (15 - i))) % 16))

def tf (b : Bool) : String := if b then "t" else "f"

def optDate : Option Date → String
  | none => "none"
  | some d => showDate d

def showList (l : List String) : String := "[" ++ ",".intercalate l ++ "]"

/-- a model outcome as a token -/
def outTok {α : Type} (f : α → String) : Except String α → String
  | .ok a => f a
  | .error e => "panic:" ++ e

def splitStep (s : String) : String × String :=
  match s.splitOn ":" with
  | [n] => (n, "")
  | [n, a] => (n, a)
  | _ => ("?", "")

/-- first position where two token lists differ -/
def firstDiff (a b : List String) : Option (Nat × String × String) :=
  let rec go (i : Nat) : List String → List String → Option (Nat × String × String)
    | [], [] => none
    | x :: xs, y :: ys => if x == y then go (i + 1) xs ys else some (i, x, y)
    | x :: _, [] => some (i, x, "<missing>")
    | [], y :: _ => some (i, "<missing>", y)
  go 0 a b

/-- spec tokens are optional (`none` = the oracle does not speak about this step) -/
def firstSpecDiff (spec : List (Option String)) (impl : List String) : Option (Nat × String × String) :=
  let rec go (i : Nat) : List (Option String) → List String → Option (Nat × String × String)
    | [], _ => none
    | _, [] => none
    | none :: xs, _ :: ys => go (i + 1) xs ys
    | some x :: xs, y :: ys => if x == y then go (i + 1) xs ys else some (i, x, y)
  go 0 spec impl

def verdict (tag : String) (names : List String) (model : List String) (spec : List (Option String))
    (impl : List String) : String :=
  if model.length != impl.length then s!"bad arity model={model.length} impl={impl.length}"
  else
    match firstSpecDiff spec impl with
    | some (i, s, y) => s!"fail {names.getD i "?"}@{i} spec={s} impl={y} model={model.getD i "?"}"
    | none =>
      match firstDiff model impl with
      | some (i, m, y) => s!"disagree {names.getD i "?"}@{i} model={m} impl={y}"
      | none => s!"ok {tag}"

/-! ### histories -/

structure St where
  cal : CompactCalendar
  spec : List Date
  raw : Bool          -- the oracle is switched off (value loaded from arbitrary bytes)
  panicked : Bool

/-- the year record the oracle expects for calendar year `Y` (written out as the 48 bytes) -/
def specYearBytes (s : List Date) (Y : Int) : List Nat :=
  (List.range 12).flatMap fun j =>
    let mask := (s.filter fun x => x.year == Y && x.month == j + 1).foldl (fun acc x => acc + 2 ^ (x.day - 1)) 0
    [mask % 256, mask / 256 % 256, mask / 65536 % 256, mask / 16777216 % 256]

def specYearFor (s : List Date) (Y : Int) : String :=
  match s.head?, s.getLast? with
  | some a, some b => if Y < a.year ∨ Y > b.year then "none" else toHex (specYearBytes s Y)
  | _, _ => "none"

/-- one step: (model token, oracle token, new state) -/
def step (st : St) (s : String) : Option (String × Option String × St) :=
  let (name, arg) := splitStep s
  let sp (x : String) : Option String := if st.raw then none else some x
  match name with
  | "ins" =>
    match parseDate arg with
    | none => none
    | some d =>
      let specTok := sp (tf (!DateSet.contains st.spec d))
      let spec' := DateSet.insert d st.spec
      match CompactCalendar.insert st.cal d with
      | .ok (c', b) => some (tf b, specTok, { st with cal := c', spec := spec' })
      | .error e => some ("panic:" ++ e, specTok, { st with spec := spec', panicked := true })
  | "has" =>
    (parseDate arg).map fun d =>
      (outTok tf (CompactCalendar.contains st.cal d), sp (tf (DateSet.contains st.spec d)), st)
  | "after" =>
    (parseDate arg).map fun d =>
      (outTok optDate (CompactCalendar.firstAfter st.cal d), sp (optDate (DateSet.firstAfter st.spec d)), st)
  | "yf" =>
    (parseDate arg).map fun d =>
      (outTok (fun o => match o with
          | none => "none"
          | some y => toHex (Year.serialize y)) (CompactCalendar.yearFor st.cal d),
        sp (specYearFor st.spec d.year), st)
  | "count" =>
    some (outTok toString (CompactCalendar.count st.cal), sp (toString (DateSet.count st.spec)), st)
  | "iter" =>
    some (outTok (fun l => showList (l.map showDate)) (CompactCalendar.collect (CompactCalendar.iter st.cal)),
      sp (showList (st.spec.map showDate)), st)
  | "ser" => some (toHex (CompactCalendar.serialize st.cal), none, st)
  | "serh" =>
    let b := CompactCalendar.serialize st.cal
    some (s!"{b.length}:{hex16 (fnv b)}", none, st)
  | "rt" =>
    (ofHex arg).map fun rest =>
      let tok := match CompactCalendar.deserialize (CompactCalendar.serialize st.cal ++ rest) with
        | none => "err"
        | some (c2, r) => s!"{tf (decide (c2 = st.cal))}:{toHex r}"
      -- the round trip clause holds for every value, also for raw ones
      (tok, some s!"t:{toHex rest}", st)
  | "de" =>
    (ofHex arg).map fun bytes =>
      match CompactCalendar.deserialize bytes with
      | none => ("err", none, st)
      | some (c, r) => (s!"ok:{toHex r}", none, { st with cal := c, raw := true })
  | _ => none

def runHist (steps : List String) : Option (List String × List (Option String) × St) :=
  let rec go (st : St) (accM : List String) (accS : List (Option String)) :
      List String → Option (List String × List (Option String) × St)
    | [] => some (accM.reverse, accS.reverse, st)
    | s :: rest =>
      match step st s with
      | none => none
      | some (m, sp, st') => go st' (m :: accM) (sp :: accS) rest
  go ⟨CompactCalendar.default, [], false, false⟩ [] [] steps

def histTag (steps : List String) (st : St) (model : List String) : String :=
  if steps.any (fun s => s.startsWith "de:") then
    if model.any (fun t => t.startsWith "panic:") then "raw-panic" else "raw"
  else
    match st.spec.head?, st.spec.getLast? with
    | some a, some b =>
      let span := b.year - a.year
      if span == 0 then "hist-1y" else if span ≤ 40 then "hist-le40y" else "hist-gt40y"
    | _, _ => "hist-empty"

/-! ### date lists -/

def parseDates (toks : List String) : Option (List Date) :=
  (toks.filter (· != "-")).mapM parseDate

def splitBar (toks : List String) : List (List String) :=
  let rec go (cur : List String) (acc : List (List String)) : List String → List (List String)
    | [] => (cur.reverse :: acc).reverse
    | "|" :: rest => go [] (cur.reverse :: acc) rest
    | t :: rest => go (t :: cur) acc rest
  go [] [] toks

/-! ### months and years -/

def natLt (a b : Nat) : Bool := a < b
def pairLt (a b : Nat × Nat) : Bool := a.1 < b.1 || (a.1 == b.1 && a.2 < b.2)

/-- insertion into a strictly increasing list (generic oracle for days and (month, day) pairs) -/
def sortedInsert {α : Type} [BEq α] (lt : α → α → Bool) (x : α) : List α → List α
  | [] => [x]
  | y :: ys => if lt x y then x :: y :: ys else if x == y then y :: ys else y :: sortedInsert lt x ys

def optNat : Option Nat → String
  | none => "none"
  | some d => toString d

def showMd (p : Nat × Nat) : String := s!"{p.1}/{p.2}"

def optMd : Option (Nat × Nat) → String
  | none => "none"
  | some p => showMd p

def parseMd (s : String) : Option (Nat × Nat) :=
  match s.splitOn "/" with
  | [m, d] =>
    match m.toNat?, d.toNat? with
    | some m, some d => some (m, d)
    | _, _ => none
  | _ => none

def maskDays (mask : Nat) : List Nat := ((List.range 32).filter mask.testBit).map (· + 1)

def stepMonth (st : Nat × List Nat) (s : String) : Option (String × Option String × (Nat × List Nat)) :=
  let (mask, spec) := st
  let (name, arg) := splitStep s
  let dom (d : Nat) (x : String) : Option String := if 1 ≤ d ∧ d ≤ 31 then some x else none
  match name with
  | "first" => some (optNat (Month.first mask), some (optNat spec.head?), st)
  | "after" =>
    arg.toNat?.map fun d =>
      (outTok optNat (Month.firstAfter mask d), dom d (optNat (spec.find? (fun x => d < x))), st)
  | "has" =>
    arg.toNat?.map fun d => (outTok tf (Month.contains mask d), dom d (tf (spec.contains d)), st)
  | "ins" =>
    arg.toNat?.map fun d =>
      match Month.insert mask d with
      | .ok (m', b) => (tf b, dom d (tf (!spec.contains d)), (m', sortedInsert natLt d spec))
      | .error e => ("panic:" ++ e, dom d (tf (!spec.contains d)), st)
  | "count" => some (toString (Month.count mask), some (toString spec.length), st)
  | "iter" => some (showList ((Month.iter mask).map toString), some (showList (spec.map toString)), st)
  | "ser" => some (toHex (Month.serialize mask), none, st)
  | _ => none

def yearPairs (y : Year) : List (Nat × Nat) :=
  (List.range 12).flatMap fun j => (maskDays (y.toList.getD j 0)).map fun d => (j + 1, d)

def stepYear (st : Year × List (Nat × Nat)) (s : String) :
    Option (String × Option String × (Year × List (Nat × Nat))) :=
  let (y, spec) := st
  let (name, arg) := splitStep s
  let dom (p : Nat × Nat) (x : String) : Option String :=
    if 1 ≤ p.1 ∧ p.1 ≤ 12 ∧ 1 ≤ p.2 ∧ p.2 ≤ 31 then some x else none
  match name with
  | "first" => some (optMd (Year.first y), some (optMd spec.head?), st)
  | "after" =>
    (parseMd arg).map fun p =>
      (outTok optMd (Year.firstAfter y p.1 p.2), dom p (optMd (spec.find? (fun x => pairLt p x))), st)
  | "has" =>
    (parseMd arg).map fun p => (outTok tf (Year.contains y p.1 p.2), dom p (tf (spec.contains p)), st)
  | "ins" =>
    (parseMd arg).map fun p =>
      match Year.insert y p.1 p.2 with
      | .ok (y', b) => (tf b, dom p (tf (!spec.contains p)), (y', sortedInsert pairLt p spec))
      | .error e => ("panic:" ++ e, dom p (tf (!spec.contains p)), st)
  | "count" => some (toString (Year.count y), some (toString spec.length), st)
  | "iter" => some (showList ((Year.iter y).map showMd), some (showList (spec.map showMd)), st)
  | "ser" => some (toHex (Year.serialize y), none, st)
  | _ => none

def runSteps {σ : Type} (f : σ → String → Option (String × Option String × σ)) (init : σ)
    (steps : List String) : Option (List String × List (Option String)) :=
  let rec go (st : σ) (accM : List String) (accS : List (Option String)) :
      List String → Option (List String × List (Option String))
    | [] => some (accM.reverse, accS.reverse)
    | s :: rest =>
      match f st s with
      | none => none
      | some (m, sp, st') => go st' (m :: accM) (sp :: accS) rest
  go init [] [] steps

def stepNames (steps : List String) : List String := steps.map fun s => (splitStep s).1

/-! ### dispatch -/

def handle (op : String) (args impl : List String) : Option String :=
  match op with
  | "cal.hist" =>
    (runHist args).map fun (model, spec, st) =>
      verdict (histTag args st model) (stepNames args) model spec impl
  | "cal.month" =>
    match args with
    | m :: steps =>
      match m.toNat? with
      | none => none
      | some mask =>
        (runSteps stepMonth (mask, maskDays mask) steps).map fun (model, spec) =>
          verdict "month" (stepNames steps) model spec impl
    | [] => none
  | "cal.year" =>
    match args with
    | h :: steps =>
      match (ofHex h).bind Year.deserialize with
      | some (y, []) =>
        (runSteps stepYear (y, yearPairs y) steps).map fun (model, spec) =>
          verdict "year" (stepNames steps) model spec impl
      | _ => none
    | [] => none
  | "cal.eq" =>
    match (splitBar args).map parseDates with
    | [some d1, some d2] =>
      let model := match CompactCalendar.fromList d1, CompactCalendar.fromList d2 with
        | .ok c1, .ok c2 => tf (decide (c1 = c2))
        | .error e, _ => "panic:" ++ e
        | _, .error e => "panic:" ++ e
      -- the oracle: equality of calendars is equality of the date sets
      let spec := tf (DateSet.ofList d1 == DateSet.ofList d2)
      some (verdict (if spec == "t" then "eq-t" else "eq-f") ["eq"] [model] [some spec] impl)
    | _ => none
  | "cal.stream" =>
    match args.getLast?, (splitBar args.dropLast).map parseDates with
    | some restTok, parts =>
      match (restTok.dropPrefix? "rest:").bind (fun s => ofHex s.toString), parts.mapM id with
      | some rest, some lists =>
        match lists.mapM (fun ds => match CompactCalendar.fromList ds with
            | .ok c => some c
            | .error _ => none) with
        | none => some "disagree model=panic"
        | some cals =>
          let buf := cals.flatMap CompactCalendar.serialize ++ rest
          let (toks, remaining) := cals.foldl (fun (acc : List String × List Nat) c =>
            match CompactCalendar.deserialize acc.2 with
            | none => (acc.1 ++ ["err"], acc.2)
            | some (c2, r) => (acc.1 ++ [tf (decide (c2 = c))], r)) ([], buf)
          let model := toks ++ [toHex remaining]
          -- the oracle: every calendar comes back equal, exactly the trailing bytes are left
          let spec := cals.map (fun _ => some "t") ++ [some (toHex rest)]
          some (verdict "stream" (cals.map (fun _ => "de") ++ ["rest"]) model spec impl)
      | _, _ => none
    | _, _ => none
  | "cal.trunc" =>
    match args.getLast?, parseDates args.dropLast with
    | some cutTok, some ds =>
      match (cutTok.dropPrefix? "cut:").bind (fun s => s.toString.toNat?), CompactCalendar.fromList ds with
      | some cut, .ok c =>
        let buf := CompactCalendar.serialize c
        let model := match CompactCalendar.deserialize (buf.take (buf.length - cut)) with
          | none => "err"
          | some (_, r) => s!"ok:{r.length}"
        -- the oracle: a proper prefix of a serialization is not a serialization
        some (verdict "trunc" ["trunc"] [model] [if cut ≥ 1 then some "err" else none] impl)
      | _, _ => none
    | _, _ => none
  | "cal.de" =>
    match args with
    | [h] =>
      (ofHex h).map fun bytes =>
        let model := match CompactCalendar.deserialize bytes with
          | none => ["err"]
          | some (c, r) => ["ok", toHex (CompactCalendar.serialize c), toHex r]
        -- the oracle: no panic, and an accepted stream is the re-serialization plus the unread rest
        let specOk := match impl with
          | ["err"] => true
          | ["ok", a, b] =>
            match ofHex a, ofHex b with
            | some a, some b => a ++ b == bytes
            | _, _ => false
          | _ => false
        if !specOk then s!"fail de impl={joinSp impl} model={joinSp model}"
        else if model != impl then s!"disagree de model={joinSp model} impl={joinSp impl}"
        else s!"ok {if impl == ["err"] then "de-err" else "de-ok"}"
    | _ => none
  | _ => none

end OH.Driver.C15
