import OH.Model.Parser
import OH.Model.Print
import OH.Model.ParserWF
import OH.Model.PrintableOut
import OH.Driver.Nz
/-
Suites `c05`, `c06`, `c04p` (C05, C06, parser part of C04).  Lines (see harness/src/syn.rs):

  c05.parse  <src>             => A <AST> | err <class> | panic:<loc>
  c05.den    <src> <expected…> => (the same)        expected = `A <AST>` or `X` (any error)
  c05.rej    <src>             => (the same)        a sentence with one out-of-range field
  c06.print  <src>             => <AST e> | <enc printed> | <A <AST> | err <class> | panic:…>
  c06.printn <src>             => (the same for the normal form)

Verdicts, in this order:
 * `fail panic`                 the implementation panicked (parser part of C04; also `parse-panic`,
                                `norm-panic`, `print-panic`)
 * `fail parser-wf`             a successfully parsed expression is outside `ParserWF` (a field out of
                                its documented range was accepted: the rejection clause of C05)
 * `fail hypothesis-PrintableOut`  a successfully parsed expression is outside `printableOut`, the
                                (decidable) hypothesis of the round-trip theorem `C06_parse_print_roundtrip`
 * `fail denotation`            `c05.den`: the parsed expression differs from what the sentence denotes
                                (or a sentence that must be rejected parses / a valid one is rejected)
 * `fail accepted`              `c05.rej`: a sentence with an out-of-range field parsed
 * `fail reparse-error`         C06: the printed form does not parse (`err`/`panic`)
 * `fail reparse-meaning day=d` C06: the reparsed expression is not the expected one AND its day
                                schedule differs (kinds or comments, after joining comments) on day d
 * `disagree …`                 model ≠ implementation: the parser model's result (AST or error class),
                                the printer model's string, or a reparsed AST that is not the one the
                                round-trip theorem predicts (`joinComments e`) although no sampled day
                                tells them apart
 * `ok <tag>`
-/
namespace OH.Driver.Syn
open OH.Model OH.Model.Parser OH.Driver

def errClass : PErr → String
  | .parser => "err parser"
  | .unsupported _ => "err unsupported"
  | .overflow => "err overflow"
  | .exttime => "err exttime"
  | .panic site => "panic:" ++ site.replace " " "_"

def showPM (r : PM Expr) : String :=
  match r with
  | .ok e => "A " ++ joinSp (Nz.showExpr e)
  | .error p => errClass p

/-- `[a, b]` → `["a, b"]`: what the comments of a rule become after printing and parsing -/
def joinRuleComments (r : Rule) : Rule :=
  if r.comments.length ≥ 2 then { r with comments := [String.ofList (Print.joinComments r.comments)] } else r

/-- the expression the round-trip theorem predicts for `parse (print e)` -/
def joinComments (e : Expr) : Expr :=
  match e.map joinRuleComments with
  | [] => [⟨⟨[], [], [], []⟩, [TimeSpan.fullDay], .closed, .normal, []⟩]   -- printed `closed`
  | r :: rest => { r with op := .normal } :: rest

def implIsPanic (impl : List String) : Bool :=
  match impl with
  | [t] => t.startsWith "panic:"
  | _ => false

/-- shape tag of a parsed expression (distribution in the evidence) -/
def shapeTag (e : Expr) : String :=
  let has (f : Rule → Bool) : Bool := e.any f
  String.ofList (
    (if e.length > 1 then ['n'] else [])
    ++ (if has (fun r => !r.day.year.isEmpty) then ['y'] else [])
    ++ (if has (fun r => !r.day.monthday.isEmpty) then ['m'] else [])
    ++ (if has (fun r => !r.day.week.isEmpty) then ['w'] else [])
    ++ (if has (fun r => !r.day.weekday.isEmpty) then ['d'] else [])
    ++ (if has (fun r => !is0024 r.time) then ['t'] else [])
    ++ (if has (fun r => !r.comments.isEmpty) then ['c'] else []))

def handleParse (op : String) (args impl : List String) : Option String :=
  match args with
  | [] => none
  | srcTok :: expected =>
    -- a sentence of the generator outside `Sentence.wf` is a bug of the generator, not a verdict
    if expected == ["NOT-WF"] then none else
    let src := dec srcTok
    let m := parse src
    let ms := showPM m
    let is := joinSp impl
    if implIsPanic impl then some s!"fail panic model={ms}" else
    -- the implementation's result, decoded
    let implAst : Option Expr :=
      match impl with
      | "A" :: toks => (match pExpr toks with | some (e, []) => some e | _ => none)
      | _ => none
    match impl with
    | "A" :: _ =>
      match implAst with
      | none => none
      | some e =>
        if !ParserWF e then some s!"fail parser-wf model={ms}"
        else if !OH.Model.Printable.printableOut e then some s!"fail hypothesis-PrintableOut model={ms}"
        else if op == "c05.rej" then some s!"fail accepted model={ms}"
        else if op == "c05.den" && joinSp expected != is then some s!"fail denotation expected={joinSp expected} model={ms}"
        else if ms != is then some s!"disagree model={ms}"
        else some s!"ok A:{shapeTag e}"
    | "err" :: _ =>
      if op == "c05.den" && expected != ["X"] then some s!"fail denotation expected={joinSp expected} model={ms}"
      else if ms != is then some s!"disagree model={ms}"
      else some s!"ok {is.replace " " "-"}"
    | _ => none

def handlePrint (op : String) (args impl : List String) : Option String :=
  match impl with
  | "parse-error" :: _ => some "ok parse-error"
  | _ =>
  if (impl.head?.map (fun t => t.startsWith "parse-panic" || t.startsWith "norm-panic")).getD false then
    some "fail panic"
  else
  match Nz.splitBars impl with
  | [a0, printed, rp] =>
    match pExpr a0 with
    | some (e, []) =>
      match printed with
      | [p] =>
        if p.startsWith "panic:" then
          some s!"fail panic print-panic model-agrees={if Print.printPanics e then "yes" else "no"}"
        else
        -- `c06.print`: `e` came out of the real parser: it must be within the round-trip theorem's class
        if op == "c06.print" && !OH.Model.Printable.printableOut e then some "fail hypothesis-PrintableOut" else
        let s := dec p
        let mprint := Print.toString? e
        let printAgrees := mprint == some s
        if implIsPanic rp then some s!"fail reparse-error panic" else
        match rp with
        | "err" :: _ => some s!"fail reparse-error {joinSp rp} print-model-agrees={printAgrees}"
        | "A" :: toks =>
          match pExpr toks with
          | some (r, []) =>
            let want := joinComments e
            if r == want then
              if !printAgrees then some s!"disagree print model={(mprint.map enc).getD "panic"}"
              else
                -- the parser model on the printed form (the round-trip theorem's left-hand side)
                let mr := parse s
                if showPM mr != joinSp rp then some s!"disagree reparse model={showPM mr}"
                else some s!"ok rt:{shapeTag e}{if r == e then "" else "+j"}"
            else
              -- not the predicted AST: do the schedules differ on a sample day?
              let days := Nz.sampleDays e ((args.drop 1).filterMap String.toInt?)
              match days.find? (fun d => Nz.cmpDay (Nz.evalDay want d) (Nz.evalDay r d) != .same) with
              | some d => some s!"fail reparse-meaning day={d} reparsed={joinSp rp}"
              | none => some s!"disagree reparse-ast expected={joinSp (Nz.showExpr want)}"
          | _ => none
        | _ => none
      | _ => none
    | _ => none
  | _ => none

/-- `c04.parse`: the parser part of C04 only — a panic is the failure; whether the model predicts a
panic where the implementation returns (or the converse) is the correspondence -/
def handleTotal (args impl : List String) : Option String :=
  match args with
  | [] => none
  | srcTok :: _ =>
    let m := parse (dec srcTok)
    let modelPanics := match m with | .error (.panic _) => true | _ => false
    if implIsPanic impl then some s!"fail panic model={showPM m}"
    else if modelPanics then some s!"disagree model={showPM m}"
    else
      match Nz.splitBars impl with
      | [pr, "T" :: stages] =>
        -- a parsed expression: printing, Debug, normalizing and printing the normal form return normally
        let names := ["print", "debug", "normalize", "print-normal-form"]
        match (names.zip stages).find? (fun p => p.2.startsWith "panic:") with
        | some (nm, loc) =>
          let agrees := match m with
            | .ok e => (nm == "print" && Print.printPanics e) || (nm == "normalize" && (match OH.Model.Norm.normalizeM e with | .error _ => true | .ok _ => false))
            | _ => false
          some s!"fail panic-{nm} at={loc} model-agrees={if agrees then "yes" else "no"}"
        | none =>
          if showPM m != joinSp pr then some s!"disagree model={showPM m}"
          else
            match m with
            | .ok e =>
              if Print.printPanics e then some "disagree model=print-panics"
              else (match OH.Model.Norm.normalizeM e with
                    | .error _ => some "disagree model=normalize-panics"
                    | .ok _ => some "ok parsed")
            | _ => some "ok parsed"
      | [pr] =>
        match pr with
        | "err" :: c :: _ => if showPM m != joinSp pr then some s!"disagree model={showPM m}" else some s!"ok err-{c}"
        | _ => none
      | _ => none

def handle (op : String) (args impl : List String) : Option String :=
  match op with
  | "c04.parse" => handleTotal args impl
  | "c05.parse" | "c05.den" | "c05.rej" => handleParse op args impl
  | "c06.print" | "c06.printn" => handlePrint op args impl
  | _ => none

end OH.Driver.Syn
