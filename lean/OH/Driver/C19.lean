import OH.Model.ExtendedTime
import OH.Driver.Util
/-
Suite `et.*` (C19).  For every op the verdict compares the implementation's output with the
closed form that `OH.Props.C19` proves the model equal to *and* with the model itself.
-/
namespace OH.Driver.C19
open OH.Model OH.Model.ExtendedTime OH.Driver

def showOpt : Option ExtendedTime → List String
  | none => ["none"]
  | some t => ["some", toString t.hour, toString t.minute]

/-- closed form of C19: the value with `n` minutes, if `0 ≤ n ≤ 2880` -/
def specOfMins (n : Int) : Option ExtendedTime :=
  if 0 ≤ n ∧ n ≤ 2880 then some ⟨n.toNat / 60, n.toNat % 60⟩ else none

def cmpTok (a b : ExtendedTime) : String :=
  if lt a b then "lt" else if lt b a then "gt" else "eq"

def specCmpTok (a b : ExtendedTime) : String :=
  if a.mins < b.mins then "lt" else if b.mins < a.mins then "gt" else "eq"

def two (model spec : List String) (tag : String) (impl : List String) : String :=
  if spec != impl then s!"fail spec model={joinSp model} spec={joinSp spec}"
  else if model != impl then s!"disagree model={joinSp model}"
  else s!"ok {tag}"

def handle (op : String) (args impl : List String) : Option String :=
  match op, args.map String.toInt? with
  | "et.new", [some h, some m] =>
    let r := new h.toNat m.toNat
    let spec := if 60 * h + m ≤ 2880 ∧ m < 60 then some (⟨h.toNat, m.toNat⟩ : ExtendedTime) else none
    some (two (showOpt r) (showOpt spec) (if r.isSome then "some" else "none") impl)
  | "et.frommins", [some n] =>
    let r := fromMins n.toNat
    some (two (showOpt r) (showOpt (specOfMins n)) (if r.isSome then "some" else "none") impl)
  | "et.mins", [some h, some m] =>
    let t : ExtendedTime := ⟨h.toNat, m.toNat⟩
    some (two [toString t.mins] [toString (60 * h + m)] "mins" impl)
  | "et.cmp", [some h1, some m1, some h2, some m2] =>
    let a : ExtendedTime := ⟨h1.toNat, m1.toNat⟩
    let b : ExtendedTime := ⟨h2.toNat, m2.toNat⟩
    some (two [cmpTok a b] [specCmpTok a b] (cmpTok a b) impl)
  | "et.addm", [some h, some m, some d] =>
    let t : ExtendedTime := ⟨h.toNat, m.toNat⟩
    let r := addMinutes t d
    some (two (showOpt r) (showOpt (specOfMins (t.mins + d))) (if r.isSome then "some" else "none") impl)
  | "et.addh", [some h, some m, some d] =>
    let t : ExtendedTime := ⟨h.toNat, m.toNat⟩
    let r := addHours t d
    some (two (showOpt r) (showOpt (specOfMins (t.mins + 60 * d))) (if r.isSome then "some" else "none") impl)
  | "et.disp", [some h, some m] =>
    let t : ExtendedTime := ⟨h.toNat, m.toNat⟩
    let spec := String.ofList [digitChar (t.hour / 10), digitChar (t.hour % 10), ':',
                              digitChar (t.minute / 10), digitChar (t.minute % 10)]
    some (two [String.ofList (display t)] [spec] "disp" impl)
  | "et.naive", [some h, some m] =>
    let t : ExtendedTime := ⟨h.toNat, m.toNat⟩
    let sh : Option Nat → List String
      | none => ["none"] | some s => ["some", toString s]
    let spec := if t.mins < 1440 then some (t.mins * 60) else none
    some (two (sh (toNaiveTime t)) (sh spec) (if t.mins < 1440 then "some" else "none") impl)
  | "et.fromnaive", [some s] =>
    let t := fromNaiveTime s.toNat
    some (two [toString t.hour, toString t.minute] [toString (s.toNat / 3600), toString (s.toNat / 60 % 60)] "fromnaive" impl)
  | _, _ => none

end OH.Driver.C19
