import OH.Model.Iter
import OH.Driver.Util
/-
Token-level decoding of the AST and of the evaluation context as the harness dumps them
(prefix encoding, arities known, lists prefixed by their length):

  EXPR := E n RULE*
  RULE := R <n|a|f> <o|c|u> k COMMENT* DS TS           (comments percent-encoded)
  DS   := Y n (lo hi step)*  M n MDR*  W n (lo hi step)*  D n WDR*
  MDR  := m lo hi <year|->  |  d DATE OFF DATE OFF
  DATE := f <year|-> month day  |  e <year|->
  OFF  := <n | +wd | -wd> days
  WDR  := f lo hi offset nthStart nthEnd   (nth as 5 chars of 0/1)  |  h <p|s> offset
  TS   := T n SPAN* ;  SPAN := TIME TIME <0|1> <minutes|->
  TIME := x mins  |  v <dawn|sunrise|sunset|dusk> offset
  CTX  := C np day* ns day* <bound ns|-> V n (day dawn sunrise sunset dusk)*
-/
namespace OH.Driver
open OH.Model

abbrev P (α : Type) := List String → Option (α × List String)

def pTok : P String
  | [] => none
  | t :: ts => some (t, ts)

def pNat : P Nat
  | [] => none
  | t :: ts => t.toNat?.map (·, ts)

def pInt : P Int
  | [] => none
  | t :: ts => t.toInt?.map (·, ts)

def pOptNat : P (Option Nat)
  | [] => none
  | "-" :: ts => some (none, ts)
  | t :: ts => t.toNat?.map (fun n => (some n, ts))

def pOptInt : P (Option Int)
  | [] => none
  | "-" :: ts => some (none, ts)
  | t :: ts => t.toInt?.map (fun n => (some n, ts))

def pExpect (s : String) : P Unit
  | t :: ts => if t == s then some ((), ts) else none
  | [] => none

def pMany {α} (p : P α) : Nat → P (List α)
  | 0, ts => some ([], ts)
  | n + 1, ts =>
    match p ts with
    | none => none
    | some (x, ts') =>
      match pMany p n ts' with
      | none => none
      | some (xs, ts'') => some (x :: xs, ts'')

def pList {α} (p : P α) : P (List α) := fun ts =>
  match pNat ts with
  | none => none
  | some (n, ts') => pMany p n ts'

def hexVal (c : Char) : Option Nat :=
  if '0' ≤ c ∧ c ≤ '9' then some (c.toNat - 48)
  else if 'A' ≤ c ∧ c ≤ 'F' then some (c.toNat - 55)
  else if 'a' ≤ c ∧ c ≤ 'f' then some (c.toNat - 87)
  else none

/-- inverse of the harness' `enc`: `%XX` bytes, `%` alone = empty string -/
def decBytes : List Char → List UInt8
  | [] => []
  | '%' :: a :: b :: rest =>
    match hexVal a, hexVal b with
    | some x, some y => UInt8.ofNat (16 * x + y) :: decBytes rest
    | _, _ => 37 :: decBytes (a :: b :: rest)
  | c :: rest => UInt8.ofNat c.toNat :: decBytes rest

def dec (s : String) : String :=
  if s == "%" then "" else
  match String.fromUTF8? (ByteArray.mk (decBytes s.toList).toArray) with
  | some r => r
  | none => s

/-- percent-encoding as the harness does it (`util::enc`) -/
def hexDigit (n : Nat) : Char := if n < 10 then Char.ofNat (48 + n) else Char.ofNat (55 + n)

def enc (s : String) : String :=
  if s.isEmpty then "%" else
  String.ofList (s.toUTF8.toList.flatMap (fun b =>
    let n := b.toNat
    if n > 0x20 ∧ n < 0x7f ∧ n != 37 ∧ n != 124 ∧ n != 61 then [Char.ofNat n] else ['%', hexDigit (n / 16), hexDigit (n % 16)]))

def pKind : P Kind
  | "o" :: ts => some (.open, ts)
  | "c" :: ts => some (.closed, ts)
  | "u" :: ts => some (.unknown, ts)
  | _ => none

def pOp : P RuleOp
  | "n" :: ts => some (.normal, ts)
  | "a" :: ts => some (.additional, ts)
  | "f" :: ts => some (.fallback, ts)
  | _ => none

def p3 : P (Nat × Nat × Nat) := fun ts =>
  match ts with
  | a :: b :: c :: rest =>
    match a.toNat?, b.toNat?, c.toNat? with
    | some a, some b, some c => some ((a, b, c), rest)
    | _, _, _ => none
  | _ => none

def pDate : P DateSpec
  | "f" :: y :: m :: d :: ts =>
    match (if y == "-" then some none else y.toNat?.map some), m.toNat?, d.toNat? with
    | some y, some m, some d => some (.fixed y m d, ts)
    | _, _, _ => none
  | "e" :: y :: ts =>
    match (if y == "-" then some none else y.toNat?.map some) with
    | some y => some (.easter y, ts)
    | none => none
  | _ => none

def pOff : P DateOffset
  | w :: d :: ts =>
    let wd : Option WdayOffset :=
      if w == "n" then some .none
      else if w.startsWith "+" then (w.drop 1).toString.toNat?.map .next
      else if w.startsWith "-" then (w.drop 1).toString.toNat?.map .prev
      else none
    match wd, d.toInt? with
    | some wd, some d => some (⟨wd, d⟩, ts)
    | _, _ => none
  | _ => none

def pMdr : P MonthdayRange
  | "m" :: lo :: hi :: y :: ts =>
    match lo.toNat?, hi.toNat?, (if y == "-" then some none else y.toNat?.map some) with
    | some lo, some hi, some y => some (.month lo hi y, ts)
    | _, _, _ => none
  | "d" :: ts =>
    match pDate ts with
    | none => none
    | some (s, ts) =>
      match pOff ts with
      | none => none
      | some (so, ts) =>
        match pDate ts with
        | none => none
        | some (e, ts) =>
          match pOff ts with
          | none => none
          | some (eo, ts) => some (.date s so e eo, ts)
  | _ => none

def bits (s : String) : List Bool := s.toList.map (· == '1')

def pWdr : P WeekDayRange
  | "f" :: lo :: hi :: off :: ns :: ne :: ts =>
    match lo.toNat?, hi.toNat?, off.toInt? with
    | some lo, some hi, some off => some (.fixed lo hi off (bits ns) (bits ne), ts)
    | _, _, _ => none
  | "h" :: k :: off :: ts =>
    match (if k == "p" then some HolidayKind.pub else if k == "s" then some HolidayKind.school else none), off.toInt? with
    | some k, some off => some (.holiday k off, ts)
    | _, _ => none
  | _ => none

def pEvent : P TimeEvent
  | "dawn" :: ts => some (.dawn, ts)
  | "sunrise" :: ts => some (.sunrise, ts)
  | "sunset" :: ts => some (.sunset, ts)
  | "dusk" :: ts => some (.dusk, ts)
  | _ => none

def pTime : P Time
  | "x" :: m :: ts => m.toNat?.map (fun m => (.fixed m, ts))
  | "v" :: ts =>
    match pEvent ts with
    | none => none
    | some (ev, ts) =>
      match pInt ts with
      | none => none
      | some (off, ts) => some (.variable ev off, ts)
  | _ => none

def pSpan : P TimeSpan := fun ts =>
  match pTime ts with
  | none => none
  | some (a, ts) =>
    match pTime ts with
    | none => none
    | some (b, ts) =>
      match ts with
      | oe :: rp :: ts =>
        match (if rp == "-" then some none else rp.toInt?.map some) with
        | some rp => some (⟨a, b, oe == "1", rp⟩, ts)
        | none => none
      | _ => none

def pDaySel : P DaySelector := fun ts =>
  match pExpect "Y" ts with
  | none => none
  | some (_, ts) =>
    match pList p3 ts with
    | none => none
    | some (ys, ts) =>
      match pExpect "M" ts with
      | none => none
      | some (_, ts) =>
        match pList pMdr ts with
        | none => none
        | some (ms, ts) =>
          match pExpect "W" ts with
          | none => none
          | some (_, ts) =>
            match pList p3 ts with
            | none => none
            | some (ws, ts) =>
              match pExpect "D" ts with
              | none => none
              | some (_, ts) =>
                match pList pWdr ts with
                | none => none
                | some (ds, ts) =>
                  some (⟨ys.map (fun (a, b, c) => ⟨a, b, c⟩), ms, ws.map (fun (a, b, c) => ⟨a, b, c⟩), ds⟩, ts)

def pRule : P Rule := fun ts =>
  match pExpect "R" ts with
  | none => none
  | some (_, ts) =>
    match pOp ts with
    | none => none
    | some (op, ts) =>
      match pKind ts with
      | none => none
      | some (k, ts) =>
        match pList pTok ts with
        | none => none
        | some (cs, ts) =>
          match pDaySel ts with
          | none => none
          | some (ds, ts) =>
            match pExpect "T" ts with
            | none => none
            | some (_, ts) =>
              match pList pSpan ts with
              | none => none
              | some (sp, ts) => some (⟨ds, sp, k, op, cs.map dec⟩, ts)

def pExpr : P Expr := fun ts =>
  match pExpect "E" ts with
  | none => none
  | some (_, ts) => pList pRule ts

def pEvRow : P (Int × Nat × Nat × Nat × Nat)
  | d :: a :: b :: c :: e :: ts =>
    match d.toInt?, a.toNat?, b.toNat?, c.toNat?, e.toNat? with
    | some d, some a, some b, some c, some e => some ((d, a, b, c, e), ts)
    | _, _, _, _, _ => none
  | _ => none

def eventFromTable (tbl : List (Int × Nat × Nat × Nat × Nat)) (d : Int) (ev : TimeEvent) : Nat :=
  match tbl.find? (·.1 == d) with
  | none => defaultEvent d ev
  | some (_, a, b, c, e) => match ev with | .dawn => a | .sunrise => b | .sunset => c | .dusk => e

def pCtx : P Ctx := fun ts =>
  match pExpect "C" ts with
  | none => none
  | some (_, ts) =>
    match pList pInt ts with
    | none => none
    | some (pub, ts) =>
      match pList pInt ts with
      | none => none
      | some (sch, ts) =>
        match pOptInt ts with
        | none => none
        | some (b, ts) =>
          match pExpect "V" ts with
          | none => none
          | some (_, ts) =>
            match pList pEvRow ts with
            | none => none
            | some (tbl, ts) => some (⟨pub, sch, eventFromTable tbl, b⟩, ts)

def kindTok : Kind → String
  | .open => "o" | .closed => "c" | .unknown => "u"

def showRange (r : TimeRange) : List String :=
  [toString r.s, toString r.e, kindTok r.kind, toString r.comments.length] ++ r.comments.map enc

def showRanges (rs : List TimeRange) : List String :=
  toString rs.length :: rs.flatMap showRange

def showInstant (t : Int) : String := s!"{t / nsPerDay}:{t % nsPerDay}"

def parseInstant (s : String) : Option Int :=
  match s.splitOn ":" with
  | [d, n] => match d.toInt?, n.toInt? with
    | some d, some n => some (d * nsPerDay + n)
    | _, _ => none
  | _ => none

def showInterval (i : Interval) : List String :=
  [showInstant i.start, showInstant i.stop, kindTok i.kind, toString i.comments.length] ++ i.comments.map enc

def showIntervals (is : List Interval) : List String :=
  toString is.length :: is.flatMap showInterval

end OH.Driver
