import OH.Model.Sun
import OH.Model.Iter
import OH.Spec.Schedule
import OH.Driver.Ast
import OH.Driver.Util
/-
Suite `sun.*` (C11) — a SEARCH over coordinates × days (a test, not a proof), plus exact checks of
the provable parts.  Ops and outputs: see harness/src/c11.rs.

Clauses (each evaluated on the IMPLEMENTATION's output):
  ast                 the parser's AST of `sunrise-sunset` is the one `sun_consequence` is about
  default-events      06:00 07:00 19:00 20:00 without coordinates
  accept-iff-valid    accepted ⇔ −90 ≤ lat ≤ 90 ∧ −180 ≤ lon ≤ 180 as IEEE comparisons (false on NaN)
  stored-values       an accepted pair is stored unchanged
  ordered-instants    UTC instants dawn < sunrise < sunset < dusk
  ordered-local       local times of day dawn < sunrise < sunset < dusk
  noon-open           `sunrise-sunset` is open at solar noon
  midnight-closed     … and closed at solar midnight
  accepted-evaluates  every accepted pair yields a zone and evaluates without panic
Several violated clauses are reported together, joined by `+`.  Classes, decided from the data on the line:
  class=no-event-epoch          the instants are not ordered and one of them is on 1970-01-01: the `sunrise`
                                crate's answer when an event does not occur (`acos` of a value outside
                                [−1, 1] is NaN, `NaN as i64` is 0)
  class=D17-event-date-dropped  the UTC instants ARE ordered but the local times of day are not: the events
                                fall on different local dates and `TzLocation::event_time` keeps only the
                                time of day (localize.rs:164-165)
  class=clock-change-between-events  the instants are ordered but some gap between two local times of day
                                differs from the gap between the instants — decided on the zone data: the UTC offset of the zone is not the same at the four event instants; the zone changed its offset between
                                two events of that day (then local times of day may be unordered or equal, and
                                even noon-open can fail: the local clock runs through the same hours twice)
  class=tod-unordered           local times of day unordered for no reason visible on the line
  class=consequence-fails       noon-open / midnight-closed fails although instants and local times are ordered
                                and no clock change is visible (would contradict `sun_consequence`: never seen)
`disagree`: the evaluator model, given the event times on the line, computes another state at noon or at
midnight than the implementation.
-/
namespace OH.Driver.C11
open OH.Model OH.Model.Sun OH.Driver OH.Spec.Schedule

def nats (l : List String) : Option (List Nat) := l.mapM String.toNat?
def ints (l : List String) : Option (List Int) := l.mapM String.toInt?

def ordered4 {α : Type} (lt : α → α → Bool) : List α → Bool
  | [a, b, c, d] => lt a b && lt b c && lt c d
  | _ => false

def evOf (t : List Nat) (e : TimeEvent) : Nat :=
  match e with
  | .dawn => t.getD 0 0 | .sunrise => t.getD 1 0 | .sunset => t.getD 2 0 | .dusk => t.getD 3 0

/-- the model's state of `sunrise-sunset` on local day `d` at `minute`, the events of `d - 1` and `d` given -/
def modelState (d : Int) (minute : Nat) (prev cur : List Nat) : String :=
  let ev : Int → TimeEvent → Nat := fun x e => if x == d then evOf cur e else evOf prev e
  match daySchedule (sunCtx ev) sunriseSunset d with
  | .error p => "panic:" ++ p
  | .ok rs => kindTok ((stateAt rs minute).getD .closed)

/-- one `N`/`M` group: `<day> <minute> <4 events of day-1> <4 events of day> <state>` -/
def pSide (ts : List String) : Option ((Int × Nat × List Nat × List Nat × String) × List String) :=
  match ts with
  | d :: m :: a1 :: a2 :: a3 :: a4 :: b1 :: b2 :: b3 :: b4 :: st :: rest =>
    match d.toInt?, m.toNat?, nats [a1, a2, a3, a4], nats [b1, b2, b3, b4] with
    | some d, some m, some p, some c => some ((d, m, p, c, st), rest)
    | _, _, _, _ => none
  | _ => none

def isPanic (impl : List String) : Bool := (impl.head?.map (·.startsWith "panic")).getD false

def bandTag (lat : String) : String :=
  let s := if lat.startsWith "-" then (lat.drop 1).toString else lat
  match (s.splitOn ".").head? >>= String.toNat? with
  | none => "lat?"
  | some n => if n < 45 then "lat<45" else if n < 55 then "lat45-55" else "lat55-60"

def validLe (lat lon : F64) : Bool :=
  F64.le (.finite (-90)) lat && F64.le lat (.finite 90) && F64.le (.finite (-180)) lon && F64.le lon (.finite 180)

def failLine (clauses classes : List String) (model : String) : String :=
  let cl := "+".intercalate clauses
  let cs := if classes.isEmpty then "" else " class=" ++ "+".intercalate classes.eraseDups
  s!"fail {cl}{cs} model={model}"

/-- `|s| ≤ bound` for a decimal literal `[-]digits[.digits]` (the coordinates the generator writes) -/
def decWithin (s : String) (bound : Nat) : Bool :=
  let u := if s.startsWith "-" then (s.drop 1).toString else s
  match u.splitOn "." with
  | [i] => (match i.toNat? with | some n => n ≤ bound | none => false)
  | [i, f] =>
    (match i.toNat? with
     | some n => n < bound || (n == bound && f.toList.all (· == '0'))
     | none => false)
  | _ => false

def handle (op : String) (args impl : List String) : Option String :=
  if isPanic impl && op != "sun.accept" then some s!"fail no-panic class=panic model=-" else
  -- the suites only write coordinates within the documented ranges: a refusal is a failure of the
  -- acceptance clause
  if impl == ["rejected"] && (op == "sun.events" || op == "sun.scan") then
    (match args with
     | lat :: lon :: _ =>
       if decWithin lat 90 && decWithin lon 180 then some "fail accept-iff-valid class=none model=accepted"
       else some "bad coordinates-out-of-range-in-suite"
     | _ => none) else
  match op, args with
  | "sun.ast", [] =>
    match pExpr impl with
    | some (e, []) => if e == sunriseSunset then some "ok ast" else some "disagree model=sunriseSunset"
    | _ => none
  | "sun.default", [d] =>
    match d.toInt? with
    | none => none
    | some d =>
      let m := [TimeEvent.dawn, .sunrise, .sunset, .dusk].map (fun e => toString (defaultEvent d e))
      let spec := ["360", "420", "1140", "1200"]
      if impl != spec ++ spec then some s!"fail default-events model={joinSp (m ++ m)}"
      else if m ++ m != impl then some s!"disagree model={joinSp (m ++ m)}"
      else some "ok default"
  | "sun.off", [_place, day, ev, off] =>
    -- "the four events and their offsets": the start of `(event±HH:MM)-48:00` as the real evaluator
    -- resolves it must be the event's minute plus the offset, 00:00 when that sum leaves 00:00..48:00
    match day.toInt?, ev.toNat?, off.toInt?, impl with
    | some d, some ev, some off, [evm, start] =>
      match evm.toNat? with
      | none => none
      | some evm =>
        let e : TimeEvent := match ev with | 0 => .dawn | 1 => .sunrise | 2 => .sunset | _ => .dusk
        let ctx := sunCtx (fun _ _ => evm)
        let want := (Time.variable e off).asNaive ctx d
        -- a start at 48:00 leaves nothing to see
        let wantTok := if want ≥ 2880 then "-" else toString want
        if start != wantTok then some s!"fail offset-arithmetic model={wantTok}"
        else some s!"ok off{if off < 0 then "-" else if off > 0 then "+" else "0"}{if (evm : Int) + off < 0 then "lo" else if (evm : Int) + off ≥ 1440 then "hi" else ""}"
    | _, _, _, _ => none
  | "sun.coords", [la, lo] =>
    match la.toNat?, lo.toNat? with
    | some la, some lo =>
      let (lat, lon) := (F64.ofBits la, F64.ofBits lo)
      let model := coordsNew lat lon
      let modelTok := if model.isSome then ["1", toString la, toString lo] else ["0"]
      let accepted := impl.head? == some "1"
      if accepted != validLe lat lon then some s!"fail accept-iff-valid model={joinSp modelTok}"
      else if accepted && impl != ["1", toString la, toString lo] then some s!"fail stored-values model={joinSp modelTok}"
      else if modelTok != impl then some s!"disagree model={joinSp modelTok}"
      else some (if accepted then "ok accepted"
                 else if lat.isNan || lon.isNan then "ok rejected-nan" else "ok rejected-range")
    | _, _ => none
  | "sun.accept", [la, lo] =>
    match la.toNat?, lo.toNat? with
    | some la, some lo =>
      let model := coordsNew (F64.ofBits la) (F64.ofBits lo)
      if model.isNone then
        (if impl == ["rejected"] then some "ok rejected" else some "fail accept-iff-valid model=rejected")
      else if isPanic impl then some "fail accepted-evaluates class=panic model=accepted"
      else match impl with
        | [zone, _country, st, _next] =>
          if zone.isEmpty || !(["o", "c", "u"].contains st) then some "fail accepted-evaluates model=accepted"
          else some (if _country == "-" then "ok accepted-no-country" else "ok accepted-country")
        | _ => some "fail accepted-evaluates model=accepted"
    | _, _ => none
  | "sun.events", [lat, _lon, day] =>
    match day.toInt?, impl with
    | some day, _zone :: "U" :: u1 :: u2 :: u3 :: u4 :: "L" :: l1 :: l2 :: l3 :: l4 :: "O" :: o1 :: o2 :: o3 :: o4 :: "Z" :: z1 :: z2 :: z3 :: z4 :: "C" :: w1 :: w2 :: w3 :: w4 :: "N" :: rest =>
      match ints [u1, u2, u3, u4], nats [l1, l2, l3, l4], ints [o1, o2, o3, o4], pSide rest, ints [z1, z2, z3, z4], nats [w1, w2, w3, w4] with
      | some u, some l, some o, some ((nd, nm, np, nc, nst), "M" :: rest2), some z, some w =>
        match pSide rest2 with
        | some ((md, mm, mp, mc, mst), []) =>
          let instOK := ordered4 (fun (a b : Int) => decide (a < b)) u
          let todOK := ordered4 (fun (a b : Nat) => decide (a < b)) l
          let epoch := u.any (fun t => 0 ≤ t && t < 86400) && (day < 719000 || day > 719300)
          let sameDate := o.all (· == o.headD 0)
          -- the clock changed between two events: the zone's UTC offset, read from the zone data (not from
          -- what the library answered), is not the same at the four event instants
          let clockChange := instOK && !z.all (· == z.headD 0)
          -- every local event time is the minute its instant shows on the zone's clock (the UTC -> zone
          -- conversion of localize.rs: "consistent with coordinates and zone"), clock change or not
          let wallOK := l == w
          -- Triage of D17 against the property text ("physically ordered"): the local event times are the
          -- instants of the events read on the local clock; their ORDER is the order of the instants.  When
          -- the instants are ordered but an event falls on the next (or previous) local date — civil dusk
          -- after local midnight at 55–60° in June — the times of DAY are not increasing, which is not a
          -- violation: the evaluator reads such spans as wrapping past midnight (`sun_wrapped`) and the
          -- stated consequence (open at solar noon, closed at solar midnight) is still checked below.
          let dateWrap := instOK && !sameDate && !clockChange
          let clauses :=
            (if instOK then [] else ["ordered-instants"]) ++ (if todOK || dateWrap then [] else ["ordered-local"])
            ++ (if wallOK then [] else ["local-is-instant-on-zone-clock"])
            ++ (if nst == "o" || nd < 693596 then [] else ["noon-open"]) ++ (if mst == "c" then [] else ["midnight-closed"])
          let classes :=
            (if !wallOK then ["local-not-wallclock"] else []) ++
            (if !instOK then [if epoch then "no-event-epoch" else "instants-unordered"] else [])
            ++ (if !todOK && instOK then
                  [if clockChange then "clock-change-between-events"
                   else if sameDate then "tod-unordered" else "D17-event-date-dropped"] else [])
            ++ (if ((nst != "o" && nd ≥ 693596) || mst != "c") && todOK && instOK then
                  [if clockChange then "clock-change-between-events" else "consequence-fails"] else [])
          let mN := modelState nd nm np nc
          let mM := modelState md mm mp mc
          let model := s!"{mN} {mM}"
          if !clauses.isEmpty then
            -- a violated clause is reported even when the model follows the code there
            some (failLine clauses classes model ++ (if mN != nst || mM != mst then " model-differs" else ""))
          else if mN != nst || mM != mst then some s!"disagree model={model}"
          else some (if dateWrap && !todOK then s!"ok events-date-wrap-{bandTag lat}" else s!"ok events-{bandTag lat}")
        | _ => none
      | _, _, _, _, _, _ => none
    | _, _ => none
  | "sun.scan", [lat, _lon, _first, _stride, _last] =>
    match impl with
    | _zone :: days :: "I" :: iu :: ie :: "L" :: l17 :: lcc :: lo :: "N" :: nn :: nncc :: "M" :: mn :: mncc :: "P" :: pn :: "X" :: lw :: "W" :: _ =>
      match nats [days, iu, ie, l17, lcc, lo, nn, nncc, mn, mncc, pn, lw] with
      | some [days, iu, ie, l17, lcc, lo, nn, nncc, mn, mncc, pn, lw] =>
        let clauses :=
          (if iu == 0 then [] else ["ordered-instants"]) ++ (if lcc + lo == 0 then [] else ["ordered-local"])
          ++ (if lw == 0 then [] else ["local-is-instant-on-zone-clock"])
          ++ (if nn == 0 then [] else ["noon-open"]) ++ (if mn == 0 then [] else ["midnight-closed"])
          ++ (if pn == 0 then [] else ["no-panic"])
        let classes :=
          (if lw != 0 then ["local-not-wallclock"] else []) ++
          (if ie != 0 then ["no-event-epoch"] else []) ++ (if iu > ie then ["instants-unordered"] else [])
          ++ (if lcc + nncc + mncc != 0 then ["clock-change-between-events"] else [])
          ++ (if lo != 0 && iu == 0 then ["tod-unordered"] else [])
          ++ (if nn > nncc || mn > mncc then ["consequence-fails"] else [])
          ++ (if pn != 0 then ["panic"] else [])
        if days == 0 then none
        else if clauses.isEmpty then some (if l17 != 0 then s!"ok scan-date-wrap-{bandTag lat}" else s!"ok scan-{bandTag lat}")
        else some (failLine clauses classes s!"{days} I 0 0 L 0 0 0 N 0 0 M 0 0 P 0")
      | _ => none
    | _ => none
  | _, _ => none

end OH.Driver.C11
