import OH.Model.Calendar
import OH.Model.Eval
import OH.Driver.Util
/-
Suite `chr.*` (harness suite `cal`): ties the calendar model `OH.Model.Cal` to chrono.
A day is chrono's `num_days_from_ce()`.
  chr.bounds                  => <MIN day> <MAX day> <DATE_END day>
  chr.civil <day>             => <y> <m> <d> <weekday 0=Mon> <isoyear> <isoweek> <ordinal0> | none
  chr.ymd <y> <m> <d>         => some <day> | none
  chr.isoywd <y> <w> <wd>     => some <day> | none
  chr.succ <day> / chr.pred <day> / chr.addmonth <day>   => some <day> | none
  chr.adddays <day> <n>       => some <day> | none
  chr.withyear <day> <y>      => some <day> | none
  chr.first <day>             => <day>
  chr.dim <day>               => <n>
  chr.easter <y>              => some <day> | none

Verdict: (1) the *spec* — the statements of `OH.Props.Calendar`, evaluated on chrono's output with
closed forms written out here (`yearStart`, the `monthStart` table, the week-1 Monday), in the direction
opposite to the one the model computes (e.g. chrono's (y, m, d) is checked by `ymdRaw y m d = day`,
chrono's day for (y, m, d) by the search-based `year`/`month`/`dayOfMonth`) — `fail <clause>`;
(2) model output = chrono output — `disagree`.
-/
namespace OH.Driver.Cal
open OH.Model.Cal OH.Driver

def showOpt : Option Int → List String
  | none => ["none"]
  | some d => ["some", toString d]

/-- `some <int>` / `none` -/
def readOpt : List String → Option (Option Int)
  | ["none"] => some none
  | ["some", t] => t.toInt?.map some
  | _ => none

def verdict (failed : Option String) (model impl : List String) (tag : String) : String :=
  match failed with
  | some clause => s!"fail {clause} model={joinSp model}"
  | none => if model != impl then s!"disagree model={joinSp model}" else s!"ok {tag}"

/-- first clause whose check is false -/
def firstFail : List (String × Bool) → Option String
  | [] => none
  | (n, ok) :: rest => if ok then firstFail rest else some n

def representable (d : Int) : Bool := decide (minDay ≤ d ∧ d ≤ maxDay)

/-- Monday of ISO week 1 of year `y`, closed form (`OH.Model.Cal.isoYearStart`) -/
def week1Monday (y : Int) : Int := yearStart y + 4 - (yearStart y + 3) % 7

def validYmd (y : Int) (m dd : Int) : Bool :=
  decide (1 ≤ m ∧ m ≤ 12 ∧ 1 ≤ dd ∧ dd ≤ daysInMonth y m.toNat)

/-- spec of `chr.civil` on chrono's fields (theorems `ymdRaw_civil`, `dayOfMonth_bounds`, `month_bounds`,
`weekday_eq`, `isoYwdRaw_iso`, `isoWeek_bounds`, `ordinal0`) -/
def civilSpec (day y m dd wd iy iw ord : Int) : Option String :=
  firstFail [
    ("range", representable day),
    ("ymd-valid", validYmd y m dd),
    ("ymd", ymdRaw y m.toNat dd.toNat == day),
    ("ord", ord == day - 1 - yearStart y),
    ("wd", wd == (day - 1) % 7),
    ("iso-valid", decide (1 ≤ iw ∧ 7 * iw ≤ week1Monday (iy + 1) - week1Monday iy ∧ iw ≤ 53)),
    ("iso", week1Monday iy + 7 * (iw - 1) + wd == day)]

def civilModel (day : Int) : List String :=
  if representable day then
    [toString (year day), toString (month day), toString (dayOfMonth day), toString (weekday day),
     toString (isoYear day), toString (isoWeek day), toString (ordinal0 day)]
  else ["none"]

def civilTag (y iy iw : Int) : String :=
  (if isLeap y then "L" else "C") ++ (if iy < y then "-" else if iy > y then "+" else "")
    ++ (if iw == 53 then "w53" else "")

/-- fields of a day as the search-based model functions see them -/
def fields (d : Int) : Int × Nat × Nat := (year d, month d, dayOfMonth d)

def handle (op : String) (args impl : List String) : Option String :=
  match op, args.map String.toInt? with
  | "chr.bounds", [] =>
    let model := [toString minDay, toString maxDay, toString dateEnd]
    some (verdict (firstFail [("numerals", impl == ["-95746129", "95745399", "3652060"])]) model impl "bounds")
  | "chr.civil", [some day] =>
    let model := civilModel day
    match impl.map String.toInt? with
    | [some y, some m, some dd, some wd, some iy, some iw, some ord] =>
      some (verdict (civilSpec day y m dd wd iy iw ord) model impl ("civ:" ++ civilTag y iy iw))
    | _ =>
      if impl == ["none"] then
        some (verdict (firstFail [("range", !representable day)]) model impl "civ:none")
      else some (verdict (some "shape") model impl "")
  | "chr.ymd", [some y, some m, some dd] =>
    let model := showOpt (ofYmd? y m.toNat dd.toNat)
    let okArgs := decide (minYear ≤ y ∧ y ≤ maxYear) && validYmd y m dd
    match readOpt impl with
    | some (some day) =>
      -- `civil_of_ofYmd?`, `ofYmd?_inRange`
      some (verdict (firstFail [("valid", okArgs), ("range", representable day),
        ("fields", fields day == (y, m.toNat, dd.toNat))]) model impl (if isLeap y then "ymd:someL" else "ymd:someC"))
    | some none => some (verdict (firstFail [("none", !okArgs)]) model impl "ymd:none")
    | none => some (verdict (some "shape") model impl "")
  | "chr.isoywd", [some y, some w, some wd] =>
    let model := showOpt (ofIsoYwd? y w.toNat wd.toNat)
    let raw := week1Monday y + 7 * (w - 1) + wd
    let okArgs := decide (1 ≤ w ∧ 7 * w ≤ week1Monday (y + 1) - week1Monday y ∧ 0 ≤ wd ∧ wd ≤ 6)
    match readOpt impl with
    | some (some day) =>
      -- `iso_of_ofIsoYwd?`
      some (verdict (firstFail [("valid", okArgs), ("range", representable day),
        ("fields", (isoYear day, (isoWeek day : Int), (weekday day : Int)) == (y, w, wd))]) model impl
        (if w == 53 then "iso:some53" else "iso:some"))
    | some none => some (verdict (firstFail [("none", !(okArgs && representable raw))]) model impl
        (if okArgs then "iso:none-range" else "iso:none"))
    | none => some (verdict (some "shape") model impl "")
  | "chr.succ", [some d] =>
    let spec := if d < maxDay then some (d + 1) else none
    some (verdict (firstFail [("spec", showOpt spec == impl)]) (showOpt (succ? d)) impl (if spec.isSome then "succ:some" else "succ:none"))
  | "chr.pred", [some d] =>
    let spec := if minDay < d then some (d - 1) else none
    some (verdict (firstFail [("spec", showOpt spec == impl)]) (showOpt (pred? d)) impl (if spec.isSome then "pred:some" else "pred:none"))
  | "chr.adddays", [some d, some n] =>
    let spec := if representable (d + n) then some (d + n) else none
    some (verdict (firstFail [("spec", showOpt spec == impl)]) (showOpt (addDays? d n)) impl (if spec.isSome then "add:some" else "add:none"))
  | "chr.addmonth", [some d] =>
    let model := showOpt (addOneMonth? d)
    let (y, m, dd) := fields d
    match readOpt impl with
    | some (some d') =>
      -- `addOneMonth?_spec`
      let (y', m', dd') := fields d'
      some (verdict (firstFail [
        ("next-month", (m != 12 && y' == y && m' == m + 1) || (m == 12 && y' == y + 1 && m' == 1)),
        ("clamped-day", dd' == min dd (daysInMonth y' m'))]) model impl
        (if dd' < dd then "mon:clamped" else "mon:same-day"))
    | some none => some (verdict (firstFail [("none", y == maxYear && m == 12)]) model impl "mon:none")
    | none => some (verdict (some "shape") model impl "")
  | "chr.withyear", [some d, some ty] =>
    let model := showOpt (withYear? d ty)
    let (_, m, dd) := fields d
    let inYears := decide (minYear ≤ ty ∧ ty ≤ maxYear)
    match readOpt impl with
    | some (some d') =>
      -- `withYear?_eq_some_iff`
      some (verdict (firstFail [("years", inYears), ("fields", fields d' == (ty, m, dd))]) model impl "wy:some")
    | some none =>
      -- `withYear?_eq_none_iff`
      some (verdict (firstFail [("none", !inYears || (m == 2 && dd == 29 && !isLeap ty))]) model impl
        (if inYears then "wy:none-feb29" else "wy:none-range"))
    | none => some (verdict (some "shape") model impl "")
  | "chr.first", [some d] =>
    let model := [toString (firstOfMonth d)]
    let (y, m, _) := fields d
    match impl.map String.toInt? with
    | [some d'] =>
      -- `civil_firstOfMonth`
      some (verdict (firstFail [("fields", fields d' == (y, m, 1))]) model impl "first")
    | _ => some (verdict (some "shape") model impl "")
  | "chr.dim", [some d] =>
    let model := match OH.Model.countDaysInMonth d with
      | .ok n => [toString n]
      | .error e => ["panic:" ++ e.replace " " "_"]
    -- `firstOfMonth_addOneMonth?` / `addOneMonth?_eq_none_iff`
    let spec := [toString (daysInMonth (year d) (month d))]
    some (verdict (firstFail [("spec", spec == impl)]) model impl s!"dim{joinSp spec}")
  | "chr.easter", [some y] =>
    let model := match easter y with
      | .ok r => showOpt r
      | .error e => ["panic:" ++ e.replace " " "_"]
    match readOpt impl with
    | some (some d) =>
      -- `easter_spec`
      some (verdict (firstFail [("year", year d == y), ("mar22", decide (ymdRaw y 3 22 ≤ d)),
        ("apr25", decide (d ≤ ymdRaw y 4 25)), ("sunday", (d - 1) % 7 == 6)]) model impl
        (if month d == 3 then "easter:march" else "easter:april"))
    | some none => some (verdict (some "exists") model impl "easter:none")
    | none => some (verdict (some "shape") model impl "")
  | _, _ => none

end OH.Driver.Cal
