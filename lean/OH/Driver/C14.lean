import OH.Model.Schedule
import OH.Spec.Schedule
import OH.Driver.Util
/-
Suite `sch.*` (C14, Schedule algebra).

`sch.hist <tok>… => <group>…` — one history in postfix notation (see harness/src/c14.rs), one output
group `[ raw… / iter… ]` per token.  For every step the driver evaluates, on the IMPLEMENTATION's
output, the predicates that `OH.Props.C14` proves about the model:
  wf            raw ranges are non-empty, increasing, disjoint                      (`WF`)
  coalesced     no two touching raw ranges of the same kind                         (`Coalesced`)
  covers        `from_ranges`: state = union of the input ranges, pointwise          (`fromSpec`)
  overlay       `addition`: state = state of b where b covers, else state of a, pointwise, with a, b
                the implementation's own operands
  overlay-global  the same against the overlay computed directly from the inputs of the whole history
                (last added covering schedule wins; from_ranges = union of its inputs)
  comments / isolated   comment lists sorted, duplicate-free, drawn from the operands; an operand range
                neither overlapped nor touched by the other operand survives unchanged
  iter-tiling / iter-alternates / iter-state / iter-comments   the iteration tiles `[0, 24:00)` (or
                `[0, E)`, `E ≥ 24:00`, when raw ranges reach beyond 24:00), adjacent kinds differ,
                every minute shows the raw state with `closed` in the holes
pointwise = on the compressed grid of all endpoints ±1 (all functions involved are constant between
two consecutive endpoints).  A failure whose history contains a `from_ranges` input outside
`FromRangesOK` (defect D6) carries `class=D6-fromranges-nested`.
Then model == implementation on raw ranges and iteration, comments included (`disagree`).
-/
namespace OH.Driver.C14
open OH.Model OH.Model.Schedule OH.Spec.Schedule OH.Driver

/-! ### tokens -/

def hexDigit (n : Nat) : Char := if n < 10 then Char.ofNat (48 + n) else Char.ofNat (55 + n)

def hexVal (c : Char) : Option Nat :=
  let n := c.toNat
  if 48 ≤ n ∧ n ≤ 57 then some (n - 48)
  else if 65 ≤ n ∧ n ≤ 70 then some (n - 55)
  else if 97 ≤ n ∧ n ≤ 102 then some (n - 87)
  else none

def decBytes : List Char → Option (List UInt8)
  | [] => some []
  | '%' :: a :: b :: rest => do
    let x ← hexVal a
    let y ← hexVal b
    let r ← decBytes rest
    pure (UInt8.ofNat (16 * x + y) :: r)
  | '%' :: _ => none
  | c :: rest => do
    let r ← decBytes rest
    if c.toNat < 128 then pure (UInt8.ofNat c.toNat :: r) else none

/-- inverse of the harness's `encc` -/
def dec (s : String) : Option String :=
  if s == "%" then some ""
  else do
    let bs ← decBytes s.toList
    String.fromUTF8? (ByteArray.mk bs.toArray)

/-- `util::enc` plus the separators `,` `:` `_` -/
def encc (s : String) : String :=
  if s.isEmpty then "%"
  else String.join (s.toUTF8.toList.map fun b =>
    let n := b.toNat
    if n > 0x20 ∧ n < 0x7f ∧ n ≠ 37 ∧ n ≠ 44 ∧ n ≠ 58 ∧ n ≠ 95 then String.singleton (Char.ofNat n)
    else String.ofList ['%', hexDigit (n / 16), hexDigit (n % 16)])

def parseKind : String → Option Kind
  | "o" => some Kind.open
  | "c" => some Kind.closed
  | "u" => some Kind.unknown
  | _ => none

def kindStr : Kind → String
  | Kind.open => "o"
  | Kind.closed => "c"
  | Kind.unknown => "u"

def parsePair (s : String) : Option (Nat × Nat) :=
  match s.splitOn "-" with
  | [a, b] => do pure ((← a.toNat?), (← b.toNat?))
  | _ => none

def parsePairs (s : String) : Option (List (Nat × Nat)) :=
  if s == "_" then some [] else (s.splitOn ",").mapM parsePair

def showPairs (l : List (Nat × Nat)) : String :=
  if l.isEmpty then "_" else ",".intercalate (l.map fun r => s!"{r.1}-{r.2}")

def parseComments (s : String) : Option (List String) :=
  if s == "_" then some [] else (s.splitOn ",").mapM dec

def parseTR (s : String) : Option TimeRange :=
  match s.splitOn ":" with
  | [r, k, c] => do
    let p ← parsePair r
    pure ⟨p.1, p.2, ← parseKind k, ← parseComments c⟩
  | _ => none

def showTR (t : TimeRange) : String :=
  let cs := if t.comments.isEmpty then "_" else ",".intercalate (t.comments.map encc)
  s!"{t.s}-{t.e}:{kindStr t.kind}:{cs}"

inductive Tok where
  | new
  | add
  | from (k : Kind) (c : List String) (rs : List (Nat × Nat))

def parseTok (s : String) : Option Tok :=
  if s == "N" then some Tok.new
  else if s == "A" then some Tok.add
  else match s.splitOn ":" with
    | ["F", k, c, rs] => do pure (Tok.from (← parseKind k) (← parseComments c) (← parsePairs rs))
    | _ => none

/-- one output group `[ raw… / iter… ]`; a `panic:…` token anywhere is kept aside -/
structure Grp where
  raw : List TimeRange
  it : List TimeRange
  panic : Option String

def parseTRs (toks : List String) : Option (List TimeRange × Option String) :=
  match toks.getLast? with
  | some l => if l.startsWith "panic:" then do pure ((← toks.dropLast.mapM parseTR), some l)
              else do pure ((← toks.mapM parseTR), none)
  | none => some ([], none)

def parseGroups (toks : List String) : Option (List Grp) :=
  let rec go (fuel : Nat) (toks : List String) : Option (List Grp) :=
    match fuel, toks with
    | _, [] => some []
    | 0, _ => none
    | fuel + 1, "[" :: rest =>
      let body := rest.takeWhile (· != "]")
      let after := (rest.dropWhile (· != "]")).drop 1
      let rawT := body.takeWhile (· != "/")
      let itT := (body.dropWhile (· != "/")).drop 1
      do
        let (raw, p1) ← parseTRs rawT
        let (it, p2) ← parseTRs itT
        let gs ← go fuel after
        pure (⟨raw, it, p1 <|> p2⟩ :: gs)
    | _, _ => none
  go toks.length toks

/-! ### predicates evaluated on the implementation's output -/

def sortedUniq : List String → Bool
  | a :: b :: rest => decide (a < b) && sortedUniq (b :: rest)
  | _ => true

/-- compressed grid: every endpoint and its two neighbours, plus the day boundaries -/
def grid (pts : List Nat) : List Nat :=
  (pts ++ [0, 1440]).foldr (fun p acc => (p - 1) :: p :: (p + 1) :: acc) []

def endpoints (l : List TimeRange) : List Nat := l.foldr (fun t acc => t.s :: t.e :: acc) []

def allComments (l : List TimeRange) : List String := l.foldr (fun t acc => t.comments ++ acc) []

/-- iteration checks; `none` = all hold -/
def checkIter (raw it : List TimeRange) (g : List Nat) : Option String :=
  let E := (it.getLast?.map (·.e)).getD 0
  if ¬ (decide (Tiles it 0 E) && decide (1440 ≤ E) && (!decide (Within 1440 raw) || E == 1440)) then
    some "iter-tiling"
  else if ¬ decide (Alternates it) then some "iter-alternates"
  else if ¬ g.all (fun m => !decide (m < E) || stateAt it m == some (dayState raw m)) then some "iter-state"
  else if ¬ it.all (fun v =>
      -- exactly the comments of the raw ranges it overlaps; when raw ranges reach beyond 24:00 the
      -- last closed range is cut at 24:00 after having absorbed the comments of closed ranges lying
      -- entirely beyond 24:00, so only inclusion in the raw comments is required there
      let src := allComments (raw.filter fun t => decide (t.s < v.e ∧ v.s < t.e))
      sortedUniq v.comments && v.comments.all ((allComments raw).contains ·)
        && src.all (v.comments.contains ·)
        && (!decide (Within 1440 raw) || v.comments.all (src.contains ·))) then
    some "iter-comments"
  else none

/-- a stack entry: the model's schedule, the implementation's raw ranges, the overlay specification
computed from the inputs, the endpoints seen so far, and whether a D6-class input occurred -/
structure Entry where
  model : Schedule
  impl : Schedule
  spec : Nat → Option Kind
  pts : List Nat
  d6 : Bool

def showGrp (raw it : List TimeRange) (p : Bool) : String :=
  joinSp (["["] ++ raw.map showTR ++ ["/"] ++ it.map showTR ++ (if p then ["panic"] else []) ++ ["]"])

def first (l : List (Option String)) : Option String := l.findSome? id

def d6tag (d6 : Bool) : String := if d6 then " class=D6-fromranges-nested" else ""

/-- touching or overlapping -/
def meets (t u : TimeRange) : Bool := decide (t.s ≤ u.e ∧ u.s ≤ t.e)

/-- checks common to all steps -/
def checkCommon (g : Grp) (pts : List Nat) : Option String :=
  if g.panic.isSome then some "panic"
  else if ¬ decide (WF g.raw) then some "wf"
  else if ¬ decide (Coalesced g.raw) then some "coalesced"
  else checkIter g.raw g.it (grid pts)

/-- one step: new stack, first failed clause (if any), model output if it differs -/
def stepTok (t : Tok) (g : Grp) (stack : List Entry) :
    Option (List Entry × Option String × Option String) :=
  let here := endpoints g.raw ++ endpoints g.it
  let dis (m : Schedule) : Option String :=
    if m == g.raw ∧ iter m == g.it ∧ iterPanics m == g.panic.isSome then none
    else some (showGrp m (iter m) (iterPanics m))
  match t, stack with
  | Tok.new, st =>
    let f := first [if g.raw.isEmpty then none else some "new", checkCommon g here]
    some (⟨Schedule.new, g.raw, fun _ => none, here, false⟩ :: st, f, dis Schedule.new)
  | Tok.from k c rs, st =>
    let m := fromRanges rs k (SortedVec.fromVec c)
    let pts := here ++ rs.foldr (fun r acc => r.1 :: r.2 :: acc) []
    let d6 := ¬ decide (FromRangesOK rs)
    let f := first [
      if g.panic.isSome then some "panic" else none,
      if decide (WF g.raw) then none else some "wf",
      if (grid pts).all (fun x => stateAt g.raw x == fromSpec rs k x) then none
        else some ("covers" ++ d6tag d6),
      if g.raw.all (fun t => sortedUniq t.comments && t.comments.all (c.contains ·) && c.all (t.comments.contains ·))
        then none else some "comments",
      checkCommon g pts]
    some (⟨m, g.raw, fromSpec rs k, pts, d6⟩ :: st, f, dis m)
  | Tok.add, b :: a :: st =>
    let m := addition a.model b.model
    let pts := here ++ a.pts ++ b.pts
    let d6 := a.d6 || b.d6
    let spec := fun x => (b.spec x).or (a.spec x)
    let src := allComments a.impl ++ allComments b.impl
    let f := first [
      if g.panic.isSome then some "panic" else none,
      if decide (WF g.raw) then none else some "wf",
      if (grid pts).all (fun x => stateAt g.raw x == (stateAt b.impl x).or (stateAt a.impl x)) then none
        else some "overlay",
      if (grid pts).all (fun x => stateAt g.raw x == spec x) then none
        else some ("overlay-global" ++ d6tag d6),
      if g.raw.all (fun t => sortedUniq t.comments && t.comments.all (src.contains ·)) then none
        else some "comments",
      if (a.impl.all fun t => b.impl.any (meets t) || g.raw.contains t)
         && (b.impl.all fun t => a.impl.any (meets t) || g.raw.contains t) then none
        else some "isolated",
      checkCommon g pts]
    some (⟨m, g.raw, spec, pts, d6⟩ :: st, f, dis m)
  | _, _ => none

def runHist : List Tok → List Grp → List Entry → Option String → Option String →
    Option (List Entry × Option String × Option String)
  | [], [], st, f, d => some (st, f, d)
  | t :: ts, g :: gs, st, f, d =>
    match stepTok t g st with
    | none => none
    | some (st', f', d') => runHist ts gs st' (f <|> f') (d <|> d')
  | _, _, _, _, _ => none

def histVerdict (args impl : List String) : Option String := do
  let toks ← args.mapM parseTok
  let grps ← parseGroups impl
  let (st, f, d) ← runHist toks grps [] none none
  match st with
  | [e] =>
    match f, d with
    | some c, _ => some s!"fail {c} model={showGrp e.model (iter e.model) (iterPanics e.model)}"
    | none, some m => some s!"disagree model={m}"
    | none, none =>
      let tag :=
        if e.impl.isEmpty then "empty"
        else if e.pts.any (· > 1440) then "ext"
        else if toks.length == 1 then "from"
        else "add"
      some s!"ok {tag}"
  | _ => none

/-! ### the macro `schedule!` -/

/-- the fixed instances of harness/src/c14.rs `macro_instance` -/
def macroTable : List (List (Nat × List MacroLink)) := [
  [],
  [(540, [(Kind.open, [], 720)]),
   (840, [(Kind.open, [], 1080), (Kind.unknown, ["Closes when stock is depleted"], 1200)]),
   (1320, [(Kind.closed, ["Maintenance team only"], 1560)])],
  [(600, [(Kind.open, ["b", "a", "b"], 840), (Kind.closed, [], 720), (Kind.unknown, ["c"], 780)]),
   (480, [(Kind.unknown, [], 660), (Kind.open, ["a"], 750)])],
  [(0, [(Kind.open, [], 360), (Kind.open, ["x"], 720), (Kind.closed, [], 1440)])]]

def macroVerdict (id : Nat) (impl : List String) : Option String := do
  let seqs ← macroTable[id]?
  let m := scheduleMacro seqs
  match ← parseGroups impl with
  | [g] =>
    let pts := endpoints g.raw ++ endpoints g.it
    match checkCommon g pts with
    | some c => some s!"fail {c} model={showGrp m (iter m) (iterPanics m)}"
    | none =>
      if m == g.raw ∧ iter m == g.it then some (if m.isEmpty then "ok macro-empty" else "ok macro")
      else some s!"disagree model={showGrp m (iter m) (iterPanics m)}"
  | _ => none

/-! ### `utils/range.rs` -/

def coveredBy (rs : List (Nat × Nat)) (m : Nat) : Bool := rs.any fun r => decide (r.1 ≤ m ∧ m < r.2)

def pairGrid (rs : List (Nat × Nat)) : List Nat :=
  grid (rs.foldr (fun r acc => r.1 :: r.2 :: acc) [])

/-- strictly separated, increasing, non-empty -/
def pairsWF : List (Nat × Nat) → Bool
  | [] => true
  | [r] => decide (r.1 < r.2)
  | r :: u :: rest => decide (r.1 < r.2 ∧ r.2 < u.1) && pairsWF (u :: rest)

def handle (op : String) (args impl : List String) : Option String :=
  match op, args with
  | "sch.hist", _ => histVerdict args impl
  | "sch.macro", [id] => do macroVerdict (← id.toNat?) impl
  | "sch.union", [rs] => do
    let rs ← parsePairs rs
    let m := rangesUnion rs
    match impl with
    | [o] =>
      match parsePairs o with
      | none => some s!"fail panic model={showPairs m}"
      | some out =>
        let g := pairGrid (rs ++ out)
        if ¬ g.all (fun x => coveredBy out x == coveredBy rs x) then some s!"fail union-covers model={showPairs m}"
        else if rs.all (fun r => decide (r.1 < r.2)) ∧ ¬ pairsWF out then some s!"fail union-wf model={showPairs m}"
        else if m != out then some s!"disagree model={showPairs m}"
        else some (if rs.all (fun r => decide (r.1 < r.2)) then "ok union" else "ok union-degenerate")
    | _ => none
  | "sch.inter", [a, b] => do
    let a ← parsePair a
    let b ← parsePair b
    let m := rangeIntersection a b
    let sh : Option (Nat × Nat) → String
      | none => "none"
      | some r => s!"{r.1}-{r.2}"
    match impl with
    | [o] =>
      let out : Option (Option (Nat × Nat)) := if o == "none" then some none else (parsePair o).map some
      match out with
      | none => some s!"fail panic model={sh m}"
      | some out =>
        let g := pairGrid [a, b]
        let both := fun x => coveredBy [a] x && coveredBy [b] x
        let ok : Bool := match out with
          | none => g.all (fun x => !both x)
          | some r => decide (r.1 < r.2) && g.all (fun x => coveredBy [r] x == both x)
        if ¬ ok then some s!"fail inter model={sh m}"
        else if m != out then some s!"disagree model={sh m}"
        else some (if out.isSome then "ok inter-some" else "ok inter-none")
    | _ => none
  | "sch.wrap", [lo, hi, x] => do
    let lo ← lo.toNat?
    let hi ← hi.toNat?
    let x ← x.toNat?
    let m := wrappingContains lo hi x
    let spec := decide ((lo ≤ x ∧ x ≤ hi) ∨ (hi < lo ∧ (lo ≤ x ∨ x ≤ hi)))
    match impl with
    | [o] =>
      if o != toString spec then some s!"fail wrap model={m}"
      else if o != toString m then some s!"disagree model={m}"
      else some (if lo ≤ hi then "ok wrap-plain" else "ok wrap-wrapping")
    | _ => none
  | _, _ => none

end OH.Driver.C14
