import OH.Driver.Ev
import Std.Data.HashMap
import OH.Model.Parser
/-
Property-specific verdicts for the evaluator ops (same executions as `ev.*`, other predicates):
  c02.iter   C02 structure + pointwise clauses on the implementation's stream
  c03.state / c03.nextw / c03.next / c03.nextpair
  c08.state / c08.iter / c08.next
  c16.next / c16.state
  c17.sched / c17.iter
  c04.*      any panic is a failure
In every case the daily schedules used by the predicates are the model's `daySchedule`, which the
`c01.sched` correspondence ties to the implementation's `schedule_at`.
-/
namespace OH.Driver.Props
open OH.Model OH.Model.Cal OH.Driver OH.Driver.Ev OH.Spec

def schedOf (ctx : Ctx) (e : Expr) (d : Int) : Option (List TimeRange) :=
  match daySchedule ctx e d with | .ok s => some s | .error _ => none

def pInterval : P Interval := fun ts =>
  match ts with
  | a :: b :: k :: ts =>
    match parseInstant a, parseInstant b, pKind [k] with
    | some a, some b, some (k, _) =>
      match pList pTok ts with
      | some (cs, ts) => some (⟨a, b, k, cs.map dec⟩, ts)
      | none => none
    | _, _, _ => none
  | _ => none

def pIntervals (ts : List String) : Option (List Interval) :=
  match pList pInterval ts with
  | some (is, []) => some is
  | _ => none

/-- intervals without their comments (C02/C08 are about instants and kinds) -/
def showIntervalsKinds (is : List Interval) : List String :=
  toString is.length :: is.flatMap (fun i => [showInstant i.start, showInstant i.stop, kindTok i.kind])

def modelIterKinds (ctx : Ctx) (e : Expr) (f t : Int) (cut : Option Nat) : List String :=
  runM (match iterRangeNaive ctx e f t with
    | .ok s => .ok (showIntervalsKinds (match cut with | some n => s.take n | none => s))
    | .error p => .error p)

def modelIter (ctx : Ctx) (e : Expr) (f t : Int) (cut : Option Nat) : List String :=
  runM (match iterRangeNaive ctx e f t with
    | .ok s => .ok (showIntervals (match cut with | some n => s.take n | none => s))
    | .error p => .error p)

def fmtInst (t : Int) : String := showInstant t

/-- panic in the implementation's result: not this property's business (C04 decides it) -/
def skipPanic (res : List String) : Option String :=
  if isPanicTok res then some "ok panic" else none

def kindOfTok (s : String) : Option Kind := (pKind [s]).map (·.1)

/-! ### C02 -/
def handleC02 (args : List String) (ctx : Ctx) (e : Expr) (res : List String) : Option String :=
  match args with
  | f :: t :: _ =>
    match parseInstant f, parseInstant t with
    | some f, some t =>
      (skipPanic res).orElse fun _ =>
      match res with
      | mode :: r =>
        match pIntervals r with
        | none => none
        | some out =>
          let cut := mode == "cut"
          -- a cut stream is checked as the stream of the window that ends where it was cut
          let t' := if cut then (out.getLast?.map (·.stop)).getD t else t
          let m := modelIterKinds ctx e f t (if cut then some out.length else none)
          let r := showIntervalsKinds out
          match c02Structure f t' out with
          | some c => some s!"fail {c} model={joinSp m}"
          | none =>
            match c02Pointwise (schedOf ctx e) out with
            | some (d, i) => some s!"fail pointwise day={d} interval={fmtInst i.start}..{fmtInst i.stop}:{kindTok i.kind} model={joinSp m}"
            | none =>
              if sameOut m r then some s!"ok n{min out.length 6}-{exprTag e}" else some s!"disagree model={joinSp m}"
      | _ => none
    | _, _ => none
  | _ => none

/-! ### C02: the hint itself (`c02.hint d0 n`: the implementation's `next_change_hint` for `n` days from `d0`) -/

/-- `c02HintBad` (= `EnvOK.hint_gt` + `EnvOK.hint_sound`, theorem `OH.Props.C02H.c02Hint_of_envOK`) on each
answer, with the model's daily schedules (computed once per day of the line); an answer BEYOND the model's
own hint passes the test on the days looked at but is outside what Layer B proves: a disagreement -/
def handleC02Hint (args : List String) (ctx : Ctx) (e : Expr) (res : List String) : Option String :=
  match args with
  | d0 :: n :: _ =>
    match d0.toInt?, n.toNat? with
    | some d0, some n =>
      (skipPanic res).orElse fun _ =>
      if res.length != n then none else
      -- (day, jump target) of every answer for a day before 10000-01-01
      let answers : List (Int × Int) := (List.range n).zip res |>.filterMap (fun (i, tk) =>
        let d := d0 + Int.ofNat i
        if tk == "x" || d ≥ dateEnd then none
        else if tk == "none" then some (d, d + 1)
        else (tk.toInt?).map (fun h => (d, h)))
      let needed : List Int := answers.flatMap (fun (d, h) => d :: hintDaysToCheck d h 14 16)
      let cache : Std.HashMap Int (Option (List TimeRange)) :=
        needed.foldl (fun m x => if m.contains x then m else m.insert x (schedOf ctx e x)) {}
      let sched : Int → Option (List TimeRange) := fun x => match cache.get? x with | some v => v | none => schedOf ctx e x
      let modelHint (d : Int) : Option Int :=
        match nextChangeHint ctx e d with | .ok (some x) => some x | .ok none => some (d + 1) | .error _ => none
      let bad := answers.findSome? (fun (d, h) =>
        (c02HintBad sched d h (hintDaysToCheck d h 14 16)).map (fun b => (d, h, b)))
      match bad with
      | some (d, h, b) =>
        let mh := match modelHint d with | some x => toString x | none => "panic"
        if b == d then some s!"fail hint-not-after day={d} hint={h} model={mh}"
        else some s!"fail hint-skips-a-change day={b} from={d} hint={h} model={mh}"
      | none =>
        match answers.find? (fun (d, h) => match modelHint d with | some mh => decide (mh < h) | none => true) with
        | some (d, h) =>
          some s!"disagree model={match modelHint d with | some x => toString x | none => "panic"} at={d} hint={h}"
        | none =>
          some (if answers.any (fun (d, h) => decide (d + 1 < h)) then s!"ok hint-jump-{exprTag e}" else "ok hint-next")
    | _, _ => none
  | _ => none

/-! ### C03 -/

/-- the clauses of C03 for an answer `c` of `next_change(t)` computed on a window ending at `lim`:
strictly after `t`, before 10000-01-01, the state is constant on `[t, c)` and differs at `c` -/
def nextClauses (ctx : Ctx) (e : Expr) (t c : Int) : Option String :=
  match schedOf ctx e (instDay t), schedOf ctx e (instDay c) with
  | some st, some sc =>
    match kindAtInstant st t, kindAtInstant sc c with
    | some k, some kc =>
      if !(t < c) then some "not-after-t"
      else if !(c < instEnd) then some "beyond-date-end"
      else if kc == k then some "no-change-at-answer"
      else match firstBadDay (schedOf ctx e) t c k (daysToCheck t c 60 16) with
        | some d => some s!"change-skipped day={d}"
        | none => none
    | _, _ => some "no-state"
  | _, _ => none

/-- no change on `[t, lim)` according to the (sampled) daily schedules -/
def noChangeClauses (ctx : Ctx) (e : Expr) (t lim : Int) : Option String :=
  if t ≥ lim then none else
  match schedOf ctx e (instDay t) with
  | some st =>
    match kindAtInstant st t with
    | some k =>
      (match firstBadDay (schedOf ctx e) t lim k (daysToCheck t lim 60 24) with
        | some d => some s!"missed-change day={d}"
        | none => none)
    | none => some "no-state"
  | none => none

def handleC03 (op : String) (args : List String) (ctx : Ctx) (e : Expr) (res : List String) : Option String :=
  (skipPanic res).orElse fun _ =>
  match op, args with
  | "c03.state", t :: _ =>
    match parseInstant t with
    | none => none
    | some t =>
      let m := runM (match state ctx e t with
        | .ok k => .ok [kindTok k, (if k == .open then "1" else "0") ++ (if k == .closed then "1" else "0") ++ (if k == .unknown then "1" else "0")]
        | .error p => .error p)
      match res with
      | [k, flags] =>
        let spec := (schedOf ctx e (instDay t)).bind (kindAtInstant · t)
        let expFlags := (if k == "o" then "1" else "0") ++ (if k == "c" then "1" else "0") ++ (if k == "u" then "1" else "0")
        if spec.map kindTok != some k then some s!"fail state-vs-schedule spec={(spec.map kindTok).getD "?"} model={joinSp m}"
        else if flags != expFlags then some s!"fail three-cases model={joinSp m}"
        else if sameOut m res then some s!"ok state-{k}" else some s!"disagree model={joinSp m}"
      | _ => none
  | "c03.nextw", t :: h :: _ =>
    match parseInstant t, h.toInt? with
    | some t, some h =>
      let to := t + h * nsPerDay
      let lim := min to instEnd
      let m := runM (match firstInterval ctx e t to with
        | .ok none => .ok ["none"]
        | .ok (some iv) => if iv.stop ≥ lim then .ok ["beyond", kindTok iv.kind] else .ok ["some", showInstant iv.stop, kindTok iv.kind]
        | .error p => .error p)
      let verdictOf (clause : Option String) (tag : String) : Option String :=
        match clause with
        | some c => some s!"fail {c} model={joinSp m}"
        | none => if sameOut m res then some s!"ok {tag}" else some s!"disagree model={joinSp m}"
      match res with
      | ["some", c, _] =>
        match parseInstant c with
        | some c => verdictOf (nextClauses ctx e t c) "nextw-some"
        | none => none
      | ["beyond", _] => verdictOf (noChangeClauses ctx e t lim) "nextw-beyond"
      | ["none"] => verdictOf (if t ≥ lim then none else some "none-inside-window") "nextw-none"
      | _ => none
    | _, _ => none
  | "c03.next", t :: _ =>
    match parseInstant t with
    | none => none
    | some t =>
      let m := runM (match nextChange ctx e t with
        | .ok none => .ok ["none"]
        | .ok (some c) => .ok ["some", showInstant c]
        | .error p => .error p)
      let verdictOf (clause : Option String) (tag : String) : Option String :=
        match clause with
        | some c => some s!"fail {c} model={joinSp m}"
        | none => if sameOut m res then some s!"ok {tag}" else some s!"disagree model={joinSp m}"
      match res with
      | ["some", c] =>
        match parseInstant c with
        | some c => verdictOf (nextClauses ctx e t c) "next-some"
        | none => none
      | ["none"] => verdictOf (noChangeClauses ctx e t instEnd) "next-none"
      | _ => none
  | "c03.nextpair", t :: t2 :: _ =>
    -- res: answers at t and at t2 (`none` | `some <instant>` each, separated by `/`)
    match parseInstant t, parseInstant t2 with
    | some t, some t2 =>
      let m1 := runM (match nextChange ctx e t with | .ok none => .ok ["none"] | .ok (some c) => .ok ["some", showInstant c] | .error p => .error p)
      let m2 := runM (match nextChange ctx e t2 with | .ok none => .ok ["none"] | .ok (some c) => .ok ["some", showInstant c] | .error p => .error p)
      let m := m1 ++ ["/"] ++ m2
      let (r1, r2) := splitBar (res.map (fun x => if x == "/" then "|" else x))
      let inside : Bool := match r1 with
        | ["some", c] => (match parseInstant c with | some c => t ≤ t2 && t2 < c | none => false)
        | ["none"] => t ≤ t2 && t2 < instEnd
        | _ => false
      if inside && r1 != r2 then some s!"fail same-interval-same-answer model={joinSp m}"
      else if sameOut m res then some (if inside then "ok pair-inside" else "ok pair-outside") else some s!"disagree model={joinSp m}"
    | _, _ => none
  | _, _ => none

/-! ### C08 -/
def handleC08 (op : String) (args : List String) (ctx : Ctx) (e : Expr) (res : List String) : Option String :=
  (skipPanic res).orElse fun _ =>
  match op, args with
  | "c08.state", t :: _ =>
    match parseInstant t with
    | none => none
    | some t =>
      let m := runM (match state ctx e t with
        | .ok k => .ok [kindTok k, (if k == .open then "1" else "0") ++ (if k == .closed then "1" else "0") ++ (if k == .unknown then "1" else "0")]
        | .error p => .error p)
      let outside := t < instStart || t ≥ instEnd
      match res with
      | k :: _ =>
        if outside && k != "c" then some s!"fail open-outside-range model={joinSp m}"
        else if sameOut m res then some (if outside then "ok outside" else "ok inside") else some s!"disagree model={joinSp m}"
      | _ => none
  | "c08.sched", d :: _ =>
    match d.toInt?, pRanges res with
    | some d, some rs =>
      let m := runM (match daySchedule ctx e d with | .ok s => .ok (showRanges s) | .error p => .error p)
      let outside := d < dateStart || d ≥ dateEnd
      if outside && rs != [⟨0, 1440, .closed, []⟩] then some s!"fail schedule-not-closed-outside-range model={joinSp m}"
      else if sameOut m res then some (if outside then "ok sched-outside" else "ok sched-inside") else some s!"disagree model={joinSp m}"
    | _, _ => none
  | "c08.iter", f :: t :: _ =>
    match parseInstant f, parseInstant t with
    | some f, some t =>
      match res with
      | mode :: r =>
        match pIntervals r with
        | none => none
        | some out =>
          let m := modelIterKinds ctx e f t (if mode == "cut" then some out.length else none)
          let r := showIntervalsKinds out
          let lim := min t instEnd
          if out.any (fun i => i.start < f) then some s!"fail starts-before-from model={joinSp m}"
          else if out.any (fun i => i.stop > lim) then some s!"fail ends-after-limit model={joinSp m}"
          else if out.any (fun i => (i.stop ≤ instStart || i.start ≥ instEnd) && i.kind != .closed) then some s!"fail open-outside-range model={joinSp m}"
          else if sameOut m r then some s!"ok iter-n{min out.length 4}" else some s!"disagree model={joinSp m}"
      | _ => none
    | _, _ => none
  | "c08.next", t :: _ =>
    match parseInstant t with
    | none => none
    | some t =>
      let m := runM (match nextChange ctx e t with
        | .ok none => .ok ["none"]
        | .ok (some c) => .ok ["some", showInstant c]
        | .error p => .error p)
      let fail (c : String) : Option String := some s!"fail {c} model={joinSp m}"
      match res with
      | ["some", c] =>
        match parseInstant c with
        | none => none
        | some c =>
          if c ≥ instEnd then fail "next-at-or-beyond-date-end"
          else if t < instStart then
            -- first instant from 1900-01-01T00:00 on at which the expression is not closed
            let kc := (schedOf ctx e (instDay c)).bind (kindAtInstant · c)
            if c < instStart then fail "before-date-start"
            else if kc == some .closed then fail "answer-is-closed"
            else match firstBadDay (schedOf ctx e) instStart c .closed (daysToCheck instStart (max c (instStart + 1)) 60 16) with
              | some d => if c > instStart then fail s!"not-closed-before-answer day={d}" else (if sameOut m res then some "ok before-start" else some s!"disagree model={joinSp m}")
              | none => if sameOut m res then some "ok before-start" else some s!"disagree model={joinSp m}"
          else if sameOut m res then some "ok some" else some s!"disagree model={joinSp m}"
      | ["none"] => if sameOut m res then some "ok none" else some s!"disagree model={joinSp m}"
      | _ => none
  | _, _ => none

def parseBound (s : String) : Option Int :=
  if s == "max" then some deltaMax else if s == "min" then some (-deltaMax) else s.toInt?

/-! ### C16 -/
def handleC16 (op : String) (args : List String) (ctx : Ctx) (e : Expr) (res : List String) : Option String :=
  (skipPanic res).orElse fun _ =>
  match op, args with
  | "c16.bnext", t :: b :: h :: _ =>
    -- res = `<exact on a window of h days: some c | beyond | none> / <bounded: some c | none>`
    match parseInstant t, parseBound b, h.toInt? with
    | some t, some b, some h =>
      let (rx, ry) := splitBar (res.map (fun x => if x == "/" then "|" else x))
      let to := t + h * nsPerDay
      let lim := min to instEnd
      let ctxB : Ctx := { ctx with bound := some b }
      let mx := runM (match firstInterval { ctx with bound := none } e t to with
        | .ok none => .ok ["none"]
        | .ok (some iv) => if iv.stop ≥ lim then .ok ["beyond"] else .ok ["some", showInstant iv.stop]
        | .error p => .error p)
      let my := runM (match nextChange ctxB e t with
        | .ok none => .ok ["none"]
        | .ok (some c) => .ok ["some", showInstant c]
        | .error p => .error p)
      let m := mx ++ ["/"] ++ my
      let fail (c : String) : Option String := some s!"fail {c} model={joinSp m}"
      let agree : Option String := if sameOut m res then some "ok" else some s!"disagree model={joinSp m}"
      match rx, ry with
      | ["some", c], y =>
        match parseInstant c with
        | none => none
        | some c =>
          if y != ["some", showInstant c] && y != ["none"] then fail "neither-exact-nor-none"
          else if c - t ≤ b - nsPerDay && y != ["some", showInstant c] then fail "not-exact-within-B-minus-24h"
          else if c - t > b && y != ["none"] then fail "not-none-beyond-B"
          else agree.map (· ++ (if y == ["none"] then " bounded-none" else " bounded-exact"))
      | ["beyond"], y =>
        -- no change within the window, which is longer than B: the bounded answer must be none
        if lim - t > b && lim < instEnd && y != ["none"] then fail "reports-change-that-does-not-exist"
        else agree.map (· ++ " exact-beyond")
      | ["none"], y => if y != ["none"] then fail "some-for-none" else agree.map (· ++ " exact-none")
      | _, _ => none
    | _, _, _ => none
  | "c16.bstate", t :: b :: _ =>
    match parseInstant t, parseBound b with
    | some t, some b =>
      let m := runM (match state { ctx with bound := some b } e t, state { ctx with bound := none } e t with
        | .ok k1, .ok k2 => .ok [kindTok k1, kindTok k2]
        | .error p, _ => .error p
        | _, .error p => .error p)
      match res with
      | [k1, k2] => if k1 != k2 then some s!"fail state-changed-by-bound model={joinSp m}"
                    else if sameOut m res then some s!"ok state-{k1}" else some s!"disagree model={joinSp m}"
      | _ => none
    | _, _ => none
  | _, _ => none

/-! ### C17 -/
def handleC17 (op : String) (args : List String) (ctx : Ctx) (e : Expr) (res : List String) : Option String :=
  (skipPanic res).orElse fun _ =>
  match op, args with
  | "c17.sched", d :: _ =>
    match d.toInt?, pRanges res with
    | some d, some rs =>
      let m := runM (match daySchedule ctx e d with | .ok s => .ok (showRanges s) | .error p => .error p)
      match c17Day ctx e d rs with
      | some c => some s!"fail {c} model={joinSp m}"
      | none =>
        let tag := if rs.any (fun r => !r.comments.isEmpty) then "with-comments" else "no-comments"
        if sameOut m res then some s!"ok {tag}" else some s!"disagree model={joinSp m}"
    | _, _ => none
  | "c17.iter", f :: t :: _ =>
    match parseInstant f, parseInstant t with
    | some f, some t =>
      match res with
      | mode :: r =>
        match pIntervals r with
        | none => none
        | some out =>
          let m := modelIter ctx e f t (if mode == "cut" then some out.length else none)
          let all := e.flatMap (·.comments)
          let f' := min f instEnd
          let firstExp : Option (List String) :=
            (schedOf ctx e (instDay f')).bind (fun rs => (rs.find? (fun r => r.s ≤ instMinuteOfDay f' && instMinuteOfDay f' < r.e)).map (·.comments))
          if out.any (fun i => !(strictlySorted i.comments)) then some s!"fail sorted-unique model={joinSp m}"
          else if out.any (fun i => i.comments.any (fun c => !(all.contains c))) then some s!"fail provenance model={joinSp m}"
          else if out.any (fun i => (i.stop ≤ instStart || i.start ≥ instEnd) && !i.comments.isEmpty) then some s!"fail empty-outside model={joinSp m}"
          else match out.head?, firstExp with
            | some i0, some ce => if i0.comments != ce then some s!"fail first-interval-comments model={joinSp m}"
                                  else if sameOut m r then some (if ce.isEmpty then "ok no-comments" else "ok with-comments") else some s!"disagree model={joinSp m}"
            | _, _ => if sameOut m r then some "ok empty" else some s!"disagree model={joinSp m}"
      | _ => none
    | _, _ => none
  | _, _ => none

/-! ### C04 (evaluation part): any panic fails -/
def panicClass (e : Expr) (res : List String) : String :=
  let site := (res.head?).getD ""
  let bigOffset := e.any (fun r =>
    r.day.monthday.any (fun m => match m with | .date _ so _ eo => so.days.natAbs > 3000000 || eo.days.natAbs > 3000000 | _ => false) ||
    r.day.weekday.any (fun w => match w with | .fixed _ _ o _ _ => o.natAbs > 3000000 | .holiday _ o => o.natAbs > 3000000))
  if bigOffset then " class=D2-date-offset-overflow"
  else if (site.splitOn "opening_hours.rs").length > 1 && e.isEmpty then ""
  else ""

def handle (op : String) (args impl : List String) : Option String :=
  match impl with
  | "parse-error" :: _ => some "ok parse-error"
  | _ =>
  match decode impl with
  | none =>
    match impl with
    | [t] =>
      if t.startsWith "parse-panic" then
        let src := dec (args.getLast?.getD "")
        let cls := if (src.splitOn "/").length > 1 then " class=D1-repeats-unwrap" else ""
        if op.startsWith "c04." then some s!"fail parse-panic{cls} at={t}" else some "ok panic"
      else none
    | _ => none
  | some (ctx, e, res) =>
    if res == ["skip-unrepresentable"] then some "ok skip-unrepresentable" else
    if op == "c02.hint" then handleC02Hint args ctx e res
    else if op.startsWith "c02." then handleC02 args ctx e res
    else if op.startsWith "c03." then handleC03 op args ctx e res
    else if op.startsWith "c08." then handleC08 op args ctx e res
    else if op.startsWith "c16." then handleC16 op args ctx e res
    else if op.startsWith "c17." then
      -- comment collection at parse (parser.rs:82-87 is one of C17's mechanisms): the comments of each
      -- rule of the expression the real parser returned must be those the sentence carries — read off
      -- the source by the parser MODEL, which is proved to build the denoted expression (C05)
      (match OH.Model.Parser.parse (dec (args.getLast?.getD "")) with
       | .ok em =>
         if em.map (·.comments) != e.map (·.comments) then
           some s!"fail parsed-comments model={joinSp (em.map (fun r => "[" ++ ",".intercalate (r.comments.map enc) ++ "]"))}"
         else handleC17 op args ctx e res
       | .error _ => handleC17 op args ctx e res)
    else if op.startsWith "c04." then
      if isPanicTok res then some s!"fail panic{panicClass e res} at={(res.head?).getD "?"}"
      else if res == ["endless"] then some "fail unbounded-iteration"
      else if op == "c04.bnext" then (match handleC16 "c16.bnext" args ctx e res with | some v => some v | none => some "ok no-panic")
      else if op == "c04.bstate" then (match handleC16 "c16.bstate" args ctx e res with | some v => some v | none => some "ok no-panic")
      else match OH.Driver.Ev.handle ("ev." ++ (op.drop 4).toString) args impl with
        | some v => some v
        | none => some "ok no-panic"
    else none

end OH.Driver.Props
