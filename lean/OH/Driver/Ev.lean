import OH.Driver.Ast
import OH.Spec.Holds
import OH.Model.ParserWF
/-
Suite `ev.*`: the evaluator ops.  The implementation part of each line is
`<CTX dump> <AST dump> | <result>`; the model evaluates the same AST in the same context.
-/
namespace OH.Driver.Ev
open OH.Model OH.Driver

def splitBar (toks : List String) : List String × List String :=
  let rec go (acc : List String) : List String → List String × List String
    | [] => (acc.reverse, [])
    | "|" :: rest => (acc.reverse, rest)
    | t :: rest => go (t :: acc) rest
  go [] toks

def isPanicTok (l : List String) : Bool :=
  match l with
  | [t] => t.startsWith "panic:"
  | _ => false

/-- model result tokens or the panic marker -/
def runM (r : M (List String)) : List String :=
  match r with
  | .ok t => t
  | .error p => ["panic:" ++ p.replace " " "_"]

/-- compare canonical outputs; any implementation panic matches any model panic -/
def sameOut (model impl : List String) : Bool :=
  if isPanicTok model && isPanicTok impl then true else model == impl

def exprTag (e : Expr) : String :=
  let hasDate := e.any (fun r => r.day.monthday.any (fun m => match m with | .date .. => true | _ => false))
  let hasHol := e.any (fun r => r.day.weekday.any (fun w => match w with | .holiday .. => true | _ => false))
  let hasEv := e.any (fun r => r.time.any (fun t => (match t.start with | .variable .. => true | _ => false) || (match t.stop with | .variable .. => true | _ => false)))
  s!"r{min e.length 5}{if hasDate then "d" else ""}{if hasHol then "h" else ""}{if hasEv then "e" else ""}"

def decode (impl : List String) : Option (Ctx × Expr × List String) :=
  let (hd, res) := splitBar impl
  match pCtx hd with
  | none => none
  | some (ctx, rest) =>
    match pExpr rest with
    | some (e, []) => some (ctx, e, res)
    | _ => none

def verdict (tag : String) (model impl : List String) : String :=
  if isPanicTok impl then
    s!"fail panic class=panic model={joinSp model}"
  else if sameOut model impl then s!"ok {tag}"
  else s!"disagree model={joinSp model}"

/-- decode the implementation's `n (s e kind k comment*)*` day ranges -/
def pRange : P TimeRange := fun ts =>
  match ts with
  | s :: e :: k :: ts =>
    match s.toNat?, e.toNat?, pKind [k] with
    | some s, some e, some (k, _) =>
      match pList pTok ts with
      | some (cs, ts) => some (⟨s, e, k, cs.map dec⟩, ts)
      | none => none
    | _, _, _ => none
  | _ => none

def pRanges (ts : List String) : Option (List TimeRange) :=
  match pList pRange ts with
  | some (rs, []) => some rs
  | _ => none

/-- day ranges without their comments (C01 is about kinds; comments are C17's business) -/
def showRangesKinds (rs : List TimeRange) : List String :=
  toString rs.length :: rs.flatMap (fun r => [toString r.s, toString r.e, kindTok r.kind])

/-- `c01.sched`: the C01 oracle on the implementation's output, then model agreement -/
def handleC01 (args impl : List String) : Option String :=
  match impl with
  | "parse-error" :: _ => some "ok parse-error"
  | _ =>
  -- a panic inside `parse` is C04's (and C05's) business, like a panic of the evaluation below
  if (impl.head?.map (·.startsWith "parse-panic")).getD false then some "ok panic" else
  match decode impl, args with
  | some (ctx, e, res), d :: _ =>
    match d.toInt? with
    | none => none
    | some d =>
      if isPanicTok res then some "ok panic"      -- C04's business
      else match pRanges res with
      | none => none
      | some rs =>
        let m := runM (match daySchedule ctx e d with | .ok s => .ok (showRangesKinds s) | .error p => .error p)
        let res := showRangesKinds rs
        -- the hypothesis of the evaluator theorems must hold of everything the real parser builds
        if !(ParserWF e) then some s!"fail parser-wf model={joinSp m}"
        else if !(OH.Spec.exprDefined e) then
          (if sameOut m res then some "ok undefined-range" else some s!"disagree model={joinSp m}")
        else if !(OH.Spec.tilesFrom 0 rs) then some s!"fail tiling model={joinSp m}"
        else match OH.Spec.c01Mismatch ctx e d rs with
          | some mm =>
            some s!"fail spec minute={mm} spec={kindTok (OH.Spec.dayState ctx e d mm)} model={joinSp m}"
          | none =>
            if sameOut m res then
              some ("ok " ++ (match res with | ["1", _, _, "c"] => "allclosed" | _ => exprTag e))
            else s!"disagree model={joinSp m}"
  | _, _ => none

def handle (op : String) (args impl : List String) : Option String :=
  if op == "c01.sched" then handleC01 args impl else
  match impl with
  | "parse-error" :: _ => some "ok parse-error"
  | _ =>
  match decode impl with
  | none => if (impl.head?.map (·.startsWith "parse-panic")).getD false then some "fail parse-panic class=panic" else none
  | some (ctx, e, res) =>
    match op, args with
    | "ev.sched", d :: _ =>
      match d.toInt? with
      | none => none
      | some d =>
        let m := runM (match daySchedule ctx e d with | .ok s => .ok (showRanges s) | .error p => .error p)
        let nt := match res with | ["1", _, _, "c", "0"] => "allclosed" | _ => exprTag e
        some (verdict nt m res)
    | "ev.iter", f :: t :: _ =>
      match parseInstant f, parseInstant t with
      | some f, some t =>
        match res with
        | "all" :: r =>
          let m := runM (match iterRangeNaive ctx e f t with | .ok s => .ok (showIntervals s) | .error p => .error p)
          some (verdict ("iter-" ++ exprTag e) m r)
        | "cut" :: r =>
          -- the harness stopped collecting after its cap: compare the common prefix
          match iterRangeNaive ctx e f t with
          | .error p => some (verdict "iter-cut" ["panic:" ++ p] r)
          | .ok s =>
            match r.head?.bind String.toNat? with
            | none => none
            | some n => some (verdict "iter-cut" (showIntervals (s.take n)) r)
        | _ => if isPanicTok res then
                 let m := runM (match iterRangeNaive ctx e f t with | .ok s => .ok (showIntervals s) | .error p => .error p)
                 some (verdict "iter" m res)
               else none
      | _, _ => none
    | "ev.state", t :: _ =>
      match parseInstant t with
      | none => none
      | some t =>
        let m := runM (match state ctx e t with
          | .ok k => .ok [kindTok k, (if k == .open then "1" else "0") ++ (if k == .closed then "1" else "0") ++ (if k == .unknown then "1" else "0")]
          | .error p => .error p)
        some (verdict ("state-" ++ (match res with | k :: _ => k | [] => "?")) m res)
    | "ev.next", t :: _ =>
      match parseInstant t with
      | none => none
      | some t =>
        let m := runM (match nextChange ctx e t with
          | .ok none => .ok ["none"]
          | .ok (some c) => .ok ["some", showInstant c]
          | .error p => .error p)
        some (verdict ("next-" ++ (match res with | k :: _ => k | [] => "?")) m res)
    | "ev.nextw", t :: h :: _ =>
      match parseInstant t, h.toInt? with
      | some t, some h =>
        let to := t + h * nsPerDay
        let lim := min to instEnd
        let m := runM (match firstInterval ctx e t to with
          | .ok none => .ok ["none"]
          | .ok (some iv) => if iv.stop ≥ lim then .ok ["beyond", kindTok iv.kind] else .ok ["some", showInstant iv.stop, kindTok iv.kind]
          | .error p => .error p)
        some (verdict ("nextw-" ++ (match res with | k :: _ => k | [] => "?")) m res)
      | _, _ => none
    | _, _ => none

end OH.Driver.Ev
