import OH.Model.Normalize
import OH.Proofs.Normalize
import OH.Driver.Ast
/-
Suite `nz.*` (C07, C13 — normalisation).
  nz.norm <expr> <day>*  =>  <AST orig> | <AST n1> | <AST n2> | <rp0> <rp1> <det> <enc(n1.to_string())> | <AST of parse(n1.to_string()) if it differs, else ->
with `n1 = orig.normalize()`, `n2 = n1.normalize()` computed by the implementation.

Verdict, in this order:
 * `fail hypothesis-ExprOK`          the parser returned an expression outside `ExprOK` (the hypothesis of
                                     the theorems: field ranges of the grammar, non-empty time selector)
 * `fail panic class=panic`          `normalize` panicked
 * `fail normal-form-range`          the implementation's normal form is outside `ExprOK`
 * `fail idem class=…`               C13: the implementation's `n2` differs from its `n1`
                                     (`idem+meaning` when C07 fails too)
 * `fail meaning day=<d> class=…`    C07: on sample day `d` the day schedules of `orig` and of the
                                     implementation's `n1` (both evaluated with the evaluator model
                                     `daySchedule Ctx.default`) differ in kind at some minute
 * `fail determinism class=none`     C13: a second clone normalised on another thread differs from `n1`
 * `fail reparse class=…`            C13 (printable): `parse(n1.to_string())` is an error or a panic
 * `fail reparse-meaning class=…`    `parse(n1.to_string())` is a different AST whose day schedule differs
                                     from that of `n1` on a sample day (a different AST with the same
                                     schedules is accepted: C06 compares the composite)
 * `disagree model=…`                the model's `normalize orig` ≠ `n1`, or `normalize n1` ≠ `n2`
 * `ok <tag>`                        tag = `noop` (no canonical prefix), else `p<k>[t][=]`: `k` rules in
                                     the canonical prefix (3 = three or more), `t` a non-empty tail,
                                     `=` when the normal form equals the input; suffix `+c` when the
                                     kinds agree on every sample day but the COMMENTS differ on one
                                     (C07 is about states; comments are C17's weaker clause: the
                                     evaluator hands the comments of an overwritten range to the
                                     overwriting one, the paving's `set` replaces the value)
A failing verdict also says `model-agrees=no` when the model's output differs from the
implementation's.

Classes (decidable predicates on the input expression, see NOTES.md):
 * `D13-isval` (repaired in /repo 18307f0; the class now recognises a REGRESSION): the implementation's
   `n1` and `n2` differ from the model's and are exactly the outputs of the model of the code before the
   repair (`normalizeG false orig`, `normalizeG false n1`).  On the INPUT expression the exact class
   predicate of the old defect is `normalizeG false e ≠ normalizeG true e` ("the early return of
   `Dim::is_val` changes the normal form") — 0.9 % of the generated expressions.
 * `D12-spill` (repaired; over-approximation kept as information): some rule of the input has a time
   span reaching beyond 24:00 (end ≤ start or end > 24:00, event times taken from the default locale).
   With the D12/D18 repairs `C07_normalize_preserves` is a theorem of the model, so a `meaning` failure
   with `model-agrees=yes` would contradict it (it can only come from the evaluator model, not from
   `normalize`).
 * `D21-normalform-year-months` (clause `reparse-meaning` only): `d21Class n1` — some rule of the normal
   form has exactly one year range, which is a single year, and at least two month ranges: `Display for
   DaySelector` prints them without separator (`2022` + `Jan-Apr,Jun-Dec` → `2022Jan-Apr,Jun-Dec`) and the
   grammar's `monthday_selector` alternative binds the year to the first month range only.  On the INPUT
   expression the predicate is `d21Class (normalize e)`.
   `C06-display`: the ORIGINAL expression does not print/reparse to itself either.
 * `none`: unclassified — a potential new finding.
-/
namespace OH.Driver.Nz
open OH.Model OH.Model.Cal OH.Model.Norm OH.Driver

def splitBars (toks : List String) : List (List String) :=
  let rec go (cur : List String) (acc : List (List String)) : List String → List (List String)
    | [] => (cur.reverse :: acc).reverse
    | "|" :: rest => go [] (cur.reverse :: acc) rest
    | t :: rest => go (t :: cur) acc rest
  go [] [] toks

/-! ### AST → tokens (inverse of `pExpr`, same encoding as harness/src/ast.rs) -/

def optTok {α} [ToString α] : Option α → String
  | some x => toString x
  | none => "-"

def showDate : DateSpec → List String
  | .fixed y m d => ["f", optTok y, toString m, toString d]
  | .easter y => ["e", optTok y]

def showOff (o : DateOffset) : List String :=
  [match o.wday with | .none => "n" | .next w => s!"+{w}" | .prev w => s!"-{w}", toString o.days]

def showBits (b : List Bool) : String := String.ofList (b.map (fun x => if x then '1' else '0'))

def showRule (r : Rule) : List String :=
  ["R", (match r.op with | .normal => "n" | .additional => "a" | .fallback => "f"), kindTok r.kind,
    toString r.comments.length] ++ r.comments.map enc
  ++ ["Y", toString r.day.year.length] ++ r.day.year.flatMap (fun y => [toString y.lo, toString y.hi, toString y.step])
  ++ ["M", toString r.day.monthday.length] ++ r.day.monthday.flatMap (fun m => match m with
      | .month lo hi y => ["m", toString lo, toString hi, optTok y]
      | .date s so e eo => ["d"] ++ showDate s ++ showOff so ++ showDate e ++ showOff eo)
  ++ ["W", toString r.day.week.length] ++ r.day.week.flatMap (fun w => [toString w.lo, toString w.hi, toString w.step])
  ++ ["D", toString r.day.weekday.length] ++ r.day.weekday.flatMap (fun w => match w with
      | .fixed lo hi off ns ne => ["f", toString lo, toString hi, toString off, showBits ns, showBits ne]
      | .holiday k off => ["h", (match k with | .pub => "p" | .school => "s"), toString off])
  ++ ["T", toString r.time.length] ++ r.time.flatMap (fun t =>
      (match t.start with | .fixed m => ["x", toString m] | .variable ev off => ["v", (match ev with | .dawn => "dawn" | .sunrise => "sunrise" | .sunset => "sunset" | .dusk => "dusk"), toString off])
      ++ (match t.stop with | .fixed m => ["x", toString m] | .variable ev off => ["v", (match ev with | .dawn => "dawn" | .sunrise => "sunrise" | .sunset => "sunset" | .dusk => "dusk"), toString off])
      ++ [if t.openEnd then "1" else "0", optTok t.repeats])

def showExpr (e : Expr) : List String := ["E", toString e.length] ++ e.flatMap showRule

def showNM (r : NM Expr) : String :=
  match r with
  | .ok e => joinSp (showExpr e)
  | .error p => "panic:" ++ p.replace " " "_"

/-! ### sample days derived from the expression -/

def clipYear (y : Int) : Int := max 1900 (min 9999 y)

/-- years mentioned by the rules (range ends and their neighbours) -/
def yearsOf (e : Expr) : List Int :=
  e.flatMap (fun r =>
    r.day.year.flatMap (fun y => [(y.lo : Int), (y.hi : Int), (y.hi : Int) + 1, (y.lo : Int) - 1])
    ++ r.day.monthday.flatMap (fun m => match m with
        | .month _ _ (some y) => [(y : Int)]
        | .date (.fixed (some y) ..) _ _ _ => [(y : Int)]
        | _ => []))

def monthsOf (e : Expr) : List (Nat × Nat) :=
  e.flatMap (fun r => r.day.monthday.filterMap (fun m => match m with
    | .month lo hi _ => some (lo, hi)
    | .date (.fixed _ m1 _) _ (.fixed _ m2 _) _ => some (m1, m2)
    | _ => none))

def weeksOf (e : Expr) : List (Nat × Nat) := e.flatMap (fun r => r.day.week.map (fun w => (w.lo, w.hi)))

/-- boundary days of year `y`: around Jan 1 / Dec 31, around the first and last day of each mentioned
month, around the Monday of the first and the Sunday of the last mentioned ISO week -/
def boundaryDays (e : Expr) (y : Int) : List Int :=
  let jan1 := ymdRaw y 1 1
  let dec31 := ymdRaw y 12 31
  [jan1 - 1, jan1, dec31, dec31 + 1]
  ++ (monthsOf e).flatMap (fun (lo, hi) =>
      if 1 ≤ lo ∧ lo ≤ 12 ∧ 1 ≤ hi ∧ hi ≤ 12 then
        let first := ymdRaw y lo 1
        let afterLast := if hi = 12 then ymdRaw (y + 1) 1 1 else ymdRaw y (hi + 1) 1
        [first - 1, first, afterLast - 1, afterLast]
      else [])
  ++ (weeksOf e).flatMap (fun (lo, hi) =>
      (match ofIsoYwd? y lo 0 with | some d => [d - 1, d] | none => [])
      ++ (match ofIsoYwd? y hi 6 with | some d => [d, d + 1] | none => []))

def dedupInts (l : List Int) : List Int :=
  (l.foldl (fun acc x => if acc.contains x then acc else x :: acc) []).reverse

/-- the sample days of an operation line: the extra days of the line, a whole week starting at the
first of them (every weekday), and the boundary days in up to three years (mentioned years first,
then the year of the first extra day) -/
def sampleDays (e : Expr) (extra : List Int) : List Int :=
  let base := extra.headD (ymdRaw 2024 6 10)
  let ys := (dedupInts (((yearsOf e).map clipYear) ++ [clipYear (year base)])).take 3
  let week := (List.range 7).map (fun (i : Nat) => base + (i : Int))
  (dedupInts (extra ++ week ++ ys.flatMap (boundaryDays e))).take 64

/-! ### the meaning check -/

/-- maximal runs of equal kind of a day schedule (a tiling of the day) -/
def kindRuns : List TimeRange → List (Nat × Nat × Kind)
  | [] => []
  | r :: rs =>
    match kindRuns rs with
    | (s, e, k) :: rest => if k == r.kind && r.e == s then (r.s, e, k) :: rest else (r.s, r.e, r.kind) :: (s, e, k) :: rest
    | [] => [(r.s, r.e, r.kind)]

inductive DayCmp | same | kinds | comments
  deriving DecidableEq

/-- compare two day schedules: kinds pointwise (as runs), then the full ranges with comments;
an evaluation panic equals only an evaluation panic -/
def cmpDay (a b : M (List TimeRange)) : DayCmp :=
  match a, b with
  | .error _, .error _ => .same
  | .ok x, .ok y => if kindRuns x != kindRuns y then .kinds else if x != y then .comments else .same
  | _, _ => .kinds

def evalDay (e : Expr) (d : Int) : M (List TimeRange) := daySchedule Ctx.default e d

/-! ### defect classes -/

/-- D12 over-approximation: a span reaching beyond 24:00 -/
def spanSpills (t : TimeSpan) : Bool :=
  let s := t.start.asNaive Ctx.default 0
  let e := t.stop.asNaive Ctx.default 0
  decide (e ≤ s) || decide (e > 1440)

def d12Class (e : Expr) : Bool := e.any (fun r => r.time.any spanSpills)

def classOf (d13Explains : Bool) (agrees : String) (orig : Expr) : String :=
  if d13Explains then "D13-isval" else if agrees == "yes" && d12Class orig then "D12-spill" else "none"

/-! ### the handler -/

def prefixLen (e : Expr) : Nat :=
  match foldPrefix Paving.empty e with
  | .ok (_, rest) => e.length - rest.length
  | .error _ => 0

/-- D21 class predicate on a rule of the normal form: exactly one year range that is a single year
(printed `2022`) followed by at least two month ranges: `Display for DaySelector` prints
`2022Jan-Apr,Jun-Dec`, which the grammar's `monthday_selector` alternative reads as `2022Jan-Apr`
(year 2022) and `Jun-Dec` (every year) -/
def d21Rule (r : Rule) : Bool :=
  (match r.day.year with | [y] => y.lo == y.hi && y.step == 1 | _ => false) && r.day.monthday.length ≥ 2

/-- D21 on an expression (the normal form, or `normalize e` for an input `e`) -/
def d21Class (e : Expr) : Bool := e.any d21Rule

/-- first sample day on which the kinds differ -/
def firstKindsDiff (a b : Expr) (days : List Int) : Option Int :=
  days.find? (fun d => cmpDay (evalDay a d) (evalDay b d) == .kinds)

def handle (op : String) (args impl : List String) : Option String :=
  if op == "nz.api" then
    -- `OpeningHours::normalize()` under a context, implementation against implementation: the day's
    -- kinds and the state at noon must be those of the value it was called on, whether the context
    -- was attached before or after normalizing
    (match impl with
     | "parse-error" :: _ => some "ok parse-error"
     | [t] => if t.startsWith "parse-panic" then some "ok parse-panic" else if t == "rejected" then some "ok rejected" else none
     | _ =>
       match splitBars impl with
       | [[k0], [k1], [k2], [s0, s1]] =>
         if k1.startsWith "panic" then some s!"fail panic class=panic at={k1}"
         else if k0 != k1 then some s!"fail meaning-through-api class=none normalized-with-its-context"
         else if k0 != k2 then some s!"fail meaning-through-api class=none context-attached-after-normalizing"
         else if s0 != s1 then some s!"fail meaning-through-api class=none state-at-noon"
         else some (if k0 == "-" then "ok api-empty" else "ok api")
       | _ => none) else
  if op != "nz.norm" then none else
  match impl with
  | "parse-error" :: _ => some "ok parse-error"
  | _ =>
  if (impl.head?.map (·.startsWith "parse-panic")).getD false then some "fail parse-panic class=panic" else
  match splitBars impl with
  | [a0, a1, a2, info, rpAst] =>
    match pExpr a0 with
    | some (orig, []) =>
      let extra := (args.drop 1).filterMap String.toInt?
      -- the hypothesis of the C07/C13 theorems, evaluated on what the real parser returned
      if !decide (OH.Proofs.Normalize.ExprOK orig) then some "fail hypothesis-ExprOK class=none" else
      let m1 := normalizeM orig
      let isPanic (l : List String) : Bool := match l with | [t] => t.startsWith "panic:" | _ => false
      if isPanic a1 then
        some s!"fail panic class=panic model-agrees={match m1 with | .error _ => "yes" | .ok _ => "no"} model={showNM m1}"
      else
      match pExpr a1 with
      | some (n1, []) =>
        let m2 := normalizeM n1
        let agree1 := showNM m1 == joinSp a1
        let agree2 := showNM m2 == joinSp a2
        let agrees := if agree1 && agree2 then "yes" else "no"
        -- `C13_normal_form_in_range` on the implementation's output
        if !decide (OH.Proofs.Normalize.ExprOK n1) then some s!"fail normal-form-range class=none model-agrees={agrees}" else
        -- D13 class (the defect is repaired in /repo and in the model): the implementation's outputs are
        -- those of the model of the code BEFORE the repair and differ from the model's
        let d13 := agrees == "no" && showNM (normalizeG false orig) == joinSp a1
          && showNM (normalizeG false n1) == joinSp a2
        if isPanic a2 then some s!"fail panic class=panic model-agrees={agrees} model={showNM m2}"
        else
          let idemFail := a2 != a1
          let days := sampleDays orig extra
          match firstKindsDiff orig n1 days with
          | some d =>
            some s!"fail {if idemFail then "idem+" else ""}meaning day={d} class={classOf d13 agrees orig} model-agrees={agrees} model={showNM m1}"
          | none =>
            if idemFail then
              some s!"fail idem class={classOf d13 agrees orig} model-agrees={agrees} model={showNM m2}"
            else
            let rp0 := info.getD 0 "?"
            let rp1 := info.getD 1 "?"
            if info.getD 2 "?" != "same" then some s!"fail determinism class=none model-agrees={agrees}"
            else if rp1 == "err" || rp1 == "panic" then
              some s!"fail reparse class={if rp0 == "same" then "none" else "C06-display"} model-agrees={agrees}"
            else if (match pExpr rpAst with
                | some (rp, []) => (firstKindsDiff n1 rp days).isSome
                | _ => false) then
              some s!"fail reparse-meaning class={if d21Class n1 then "D21-normalform-year-months" else if rp0 == "same" then "none" else "C06-display"} model-agrees={agrees}"
            else if !agree1 then some s!"disagree model={showNM m1}"
            else if !agree2 then some s!"disagree second-pass model={showNM m2}"
            else
              -- comments are the weaker clause (C17): a difference in comments only is a tag
              let cdiff := days.any (fun d => cmpDay (evalDay orig d) (evalDay n1 d) == .comments)
              let c := if cdiff then "+c" else ""
              let k := prefixLen orig
              if k = 0 then some s!"ok noop{c}"
              else
                let t := if k < orig.length then "t" else ""
                let eq := if n1 == orig then "=" else ""
                some s!"ok p{min k 3}{t}{eq}{c}"
      | _ => none
    | _ => none
  | _ => none

end OH.Driver.Nz
