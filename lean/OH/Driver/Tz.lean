import OH.Driver.Ev
import OH.Model.Tz
/-
Suite `tz.*` (C09).  Implementation part of a line:
  `Z <init> <n> (<unix s> <offset s>)* [<CTX dump> <AST dump>] | <result> [=N= <wall-clock time(s)> <NoLocation result>]`
For the evaluator ops the harness also runs the SAME expression without location at the wall-clock
time chrono computes; that second result is the oracle of "localized = naive" (independent of the
evaluator model).  The zone table is the one chrono-tz uses (extracted by the harness, restricted to ±3 years around
the instants of the line).  Absolute instants are UTC readings `day:ns`.

Verdicts (first that applies):
  `fail <clause> [class=…] model=…`  a clause is false on the IMPLEMENTATION's output:
     naive-time    chrono's wall-clock time of the input ≠ `naive` of the table
     eq-naive      result ≠ the implementation's own NoLocation evaluation at the wall-clock time
                   (state / next / iter: kinds, comments, count)
     local-time    a returned instant does not read the naive result although that local time exists
     later         … exists twice and the earlier instant was returned
     first-valid   the naive result does not exist and the returned instant is not the first valid
                   instant after it (`OH.Props.C09.FirstValidAfter`, computed by `gapOf`:
                   `firstValidAfter_of_gapOf`) — judged by the same rule for EVERY table, also when a
                   fold follows the gap directly (Europe/Lisbon 1992; the former class `zone-not-ok`,
                   repaired in /repo e1e5204, is no longer excused); a sub-second phase of the
                   requested time (direct `tz.datetime` ops only) is kept: first valid instant + phase
                   (`datetime_gap_ordered`); class `unaligned-gap` = `unalignedGap z n` (repaired too)
     backwards     interval bounds go backwards in absolute time; class `unaligned-gap-backwards` =
                   `backwardsInGap z a b` for the naive bounds `a ≤ b` concerned
     c02-nonempty  a returned interval is EMPTY (`start = stop` as instants): C02's "intervals are
                   non-empty", demanded in zone contexts too since /repo dfe1ade (the former class
                   `D16-empty-interval-in-gap` is no longer excused; `localized_intervals_nonempty`)
   Since /repo dfe1ade the localized stream is the naive stream with the spans the clock skips entirely
   DROPPED and the neighbours they separated MERGED.  The oracle computes that from the
   implementation's own NoLocation stream with the spec's reading of "skipped" (`specKeep`: no local
   time of the span exists = `localSpanInGap`, `OH.Props.C09.localSpanInGap_iff_skipped` /
   `filter_drops_exactly_skipped`) and `OH.Model.Tz.mergeRanges`; `eq-naive` = the returned stream
   does not have the kinds, comments and count of that list; the clauses on instants are evaluated
   against its bounds.  `tz.next`: the expected answer is the end of the first range of that list
   (the harness prints the NoLocation stream as far as needed after `=I=`); tag `next-long` = the
   printed stream does not settle it (model equality only).
  `disagree model=…`                 clauses hold but model ≠ implementation
  `ok <tag>`                         suffix `-nzok`: the table is not `zoneOK` but `zoneOrdered` (the
                                     `…_ordered` theorems apply); `-nzok-nord`: not even `zoneOrdered`
                                     (Europe/Dublin 1916: judged by the same rules, outside the theorems)
-/
namespace OH.Driver.Tz
open OH.Model OH.Model.Tz OH.Driver OH.Driver.Ev

def unixToInstant (s : Int) : Int := (s + 719163 * 86400) * 1000000000

def pTrans : P (Int × Int)
  | t :: o :: ts =>
    match t.toInt?, o.toInt? with
    | some t, some o => some ((unixToInstant t, o), ts)
    | _, _ => none
  | _ => none

def pZone : P Zone := fun ts =>
  match pExpect "Z" ts with
  | none => none
  | some (_, ts) =>
    match pInt ts with
    | none => none
    | some (init, ts) =>
      match pList pTrans ts with
      | none => none
      | some (tr, ts) => some (⟨init, tr⟩, ts)

def pInterval : P Interval
  | s :: e :: k :: ts =>
    match parseInstant s, parseInstant e, pKind [k] with
    | some s, some e, some (k, _) =>
      match pList pTok ts with
      | some (cs, ts) => some (⟨s, e, k, cs.map dec⟩, ts)
      | none => none
    | _, _, _ => none
  | _ => none

def localKind (z : Zone) (n : Int) : String :=
  match fromLocal z n with
  | [] => "gap"
  | [_] => "single"
  | [_, _] => "amb"
  | _ => "multi"

/-- the clause "every returned instant is the context-zone instant whose wall-clock time is the
naive result — the later one when ambiguous, the first valid instant after it when it does not
exist", evaluated on a returned instant `u` for the naive result `n`.  `none` = holds. -/
def checkMapped (z : Zone) (n u : Int) : Option String :=
  match fromLocal z n with
  | [] =>
    match gapOf z n with
    | some (T, _, b) =>
      if u = T then none
      -- a sub-second phase of `n` only comes from direct `tz.datetime` ops and is not a naive result:
      -- there the proven value of `datetime_gap_ordered` (first valid instant + phase) is what is
      -- checked — in every zone, whether or not a fold follows the gap
      else if n % nsPerSec ≠ 0 ∧ u = T + (n - b) % nsPerSec then none
      else if unalignedGap z n then some "first-valid class=unaligned-gap"
      else some "first-valid"
    -- no forward jump skips `n` although no instant shows it: impossible for a sorted table
    | none => some "first-valid"
  | l =>
    if naive z u ≠ n then some "local-time"
    else if l.getLast? ≠ some u then some "later"
    else none

def okTag (z : Zone) (tag : String) : String :=
  if zoneOK z then s!"ok {tag}" else if zoneOrdered z then s!"ok {tag}-nzok" else s!"ok {tag}-nzok-nord"

def finish (z : Zone) (tag : String) (clause : Option String) (model impl : List String)
    (evOk : Bool := true) : String :=
  if isPanicTok impl then s!"fail panic class=panic model={joinSp model}"
  else match clause with
    | some c => s!"fail {c} model={joinSp model}"
    | none =>
      if sameOut model impl then okTag z tag
      else if evOk then s!"disagree model={joinSp model}"
      -- the model of the NoLocation evaluator already differs from the implementation's own
      -- NoLocation run: not a matter of the zone layer
      else s!"disagree class=evaluator-model model={joinSp model}"

def splitN (toks : List String) : List String × List String :=
  let rec go (acc : List String) : List String → List String × List String
    | [] => (acc.reverse, [])
    | "=N=" :: rest => (acc.reverse, rest)
    | t :: rest => go (t :: acc) rest
  go [] toks

def splitI (toks : List String) : List String × List String :=
  let rec go (acc : List String) : List String → List String × List String
    | [] => (acc.reverse, [])
    | "=I=" :: rest => (acc.reverse, rest)
    | t :: rest => go (t :: acc) rest
  go [] toks

/-- first failing clause in priority order -/
def firstSome : List (Option String) → Option String
  | [] => none
  | some c :: _ => some c
  | none :: rest => firstSome rest

/-- the spec's reading of the filter of `iter_range`: a range is kept unless it is empty or the clock
skips all of it (`localSpanInGap z a b`: `a` does not exist and the forward jump that skips it lands
at/after `b`; `OH.Props.C09.localSpanInGap_iff_skipped`) -/
def specKeep (z : Zone) (a : Interval) : Bool :=
  decide (a.start < a.stop) && !((fromLocal z a.start).isEmpty && localSpanInGap z a.start a.stop)

/-- what the localized stream must look like, from the NoLocation stream `nl`: skipped spans dropped,
neighbours merged (`mergeRanges` = the `next_if` loop), bounds still naive -/
def specCoalesce (z : Zone) (nl : List Interval) : List Interval := mergeRanges (nl.filter (specKeep z))

/-- clauses on a list of returned intervals `out` against the naive list `nl`; `cut`: both lists are
prefixes of longer streams (the last expected range may still grow: only the settled part is compared) -/
def checkIntervals (z : Zone) (cut : Bool) (nl out : List Interval) : Option String :=
  let el0 := specCoalesce z nl
  let k := min (el0.length - 1) out.length
  let el := if cut then el0.take k else el0
  let out := if cut then out.take k else out
  if el.length ≠ out.length ∨ (el.zip out).any (fun (a, b) => a.kind != b.kind || a.comments != b.comments) then
    some "eq-naive"
  else
    let pairs := el.zip out
    let mapped := pairs.map (fun (a, b) =>
      (checkMapped z a.start b.start, checkMapped z a.stop b.stop))
    let hard := firstSome (mapped.flatMap (fun (x, y) =>
      [x, y].map (fun r => match r with
        | some c => if c.startsWith "first-valid" then none else some c
        | none => none)))
    let cls (a b : Int) : String :=
      if backwardsInGap z a b then "backwards class=unaligned-gap-backwards" else "backwards"
    let rec back : List (Interval × Interval) → Option String
      | (a, b) :: (a', b') :: rest =>
        if a.start ≤ a.stop ∧ b.start > b.stop then some (cls a.start a.stop)
        else if a.stop ≤ a'.start ∧ b.stop > b'.start then some (cls a.stop a'.start)
        else back ((a', b') :: rest)
      | [(a, b)] => if a.start ≤ a.stop ∧ b.start > b.stop then some (cls a.start a.stop) else none
      | [] => none
    let backwards := back pairs
    let firstValid := firstSome (mapped.flatMap (fun (x, y) => [x, y]))
    let empty := firstSome (out.map (fun b => if b.start = b.stop then some "c02-nonempty" else none))
    firstSome [hard, backwards, firstValid, empty]

/-- C02 in a zone context, on the localized stream `out` of the window `[f, t)` (absolute instants): the
intervals are non-empty, each starts where the previous one stopped, consecutive ones differ in kind, the first
starts at `f` and — when the window ends before 10000-01-01 local time — the last stops at `t`; and each has the
kind the daily schedules (the model's, tied by `c01.sched`) give to its first instant, to its middle and to its last
nanosecond, read on the zone's clock.  `cut`: `out` is a prefix of a longer stream (no clause on its end). -/
def c02ZoneClauses (z : Zone) (ctx : Ctx) (e : Expr) (f t : Int) (cut : Bool) (out : List Interval) : Option String :=
  -- a context with an interval-size bound yields an approximate stream (C16 judges it; C02's suite has none either)
  if ctx.bound.isSome then none else
  let windowEmpty := f ≥ t || naive z f ≥ instEnd
  if windowEmpty then (if out.isEmpty then none else some "c02-nonempty-for-empty-window") else
  match out with
  | [] => some "c02-empty-for-nonempty-window"
  | i0 :: _ =>
    -- an instant whose wall-clock reading is repeated or skipped has no single place in the naive stream (the
    -- results are mapped back to "the later one" / "the first valid one": C09's clauses): the clauses on the two
    -- ends of the window and the pointwise clause speak about plain instants only
    let plain (x : Int) : Bool := fromLocal z (naive z x) == [x]
    if plain f && i0.start ≠ f then some "c02-first-start"
    else if out.any (fun i => !(decide (i.start < i.stop))) then some "c02-nonempty"
    else
      let rec chk : List Interval → Option String
        | a :: b :: rest =>
          if a.stop ≠ b.start then some "c02-gap-or-overlap"
          else if a.kind == b.kind then some "c02-adjacent-same-kind"
          else chk (b :: rest)
        | _ => none
      match chk out with
      | some c => some c
      | none =>
        if !cut && plain t && naive z t < instEnd && (out.getLast?.map (·.stop)) ≠ some t then some "c02-last-stop"
        else
          let kindAt (x : Int) : Option Kind :=
            let n := naive z x
            match daySchedule ctx e (instDay n) with
            | .ok s => OH.Spec.kindAtInstant s n
            | .error _ => none
          let bad := (out.take 60).find? (fun i =>
            [i.start, i.start + (i.stop - i.start) / 2, i.stop - 1].any (fun x =>
              plain x && decide (naive z x < instEnd) && (match kindAt x with | some k => k != i.kind | none => false)))
          match bad with
          | some i => some s!"c02-pointwise interval={showInstant i.start}..{showInstant i.stop}:{kindTok i.kind}"
          | none => none

def boundsTag (z : Zone) (nl : List Interval) : String :=
  let ks := nl.flatMap (fun a => [localKind z a.start, localKind z a.stop])
  if ks.contains "multi" then "multi" else if ks.contains "gap" then "gap"
  else if ks.contains "amb" then "amb" else "plain"

def handle (op0 : String) (args impl : List String) : Option String :=
  -- `tzc02.iter`: the execution of `tz.iter`, judged by C02's clauses instead of C09's
  let isC02 := op0 == "tzc02.iter"
  let op := if isC02 then "tz.iter" else op0
  match impl with
  | "parse-error" :: _ => some "ok parse-error"
  | _ =>
  let (hd, res) := splitBar impl
  match pZone hd with
  | none => if (impl.head?.map (·.startsWith "parse-panic")).getD false then some "fail parse-panic class=panic" else none
  | some (z, rest) =>
    match op, args with
    | "tz.naive", [_, u] =>
      match parseInstant u with
      | none => none
      | some u =>
        let m := runM (match naiveChecked z u with | .ok n => .ok [showInstant n] | .error p => .error p)
        -- the table IS the specification of `naive`: equality only
        some (finish z "naive" none m res)
    | "tz.datetime", [_, n] =>
      match parseInstant n with
      | none => none
      | some n =>
        let lr := match fromLocal z n with
          | [] => ["none"]
          | [u] => ["single", showInstant u]
          | [a, b] => ["ambiguous", showInstant a, showInstant b]
          | l => "multi" :: l.map showInstant
        let m := runM (match datetime z n with | .ok u => .ok (lr ++ [showInstant u]) | .error p => .error p)
        let clause : Option String :=
          match res with
          | ["none", d] =>
            match parseInstant d with
            | some d => checkMapped z n d
            | none => some "malformed"
          | ["single", u, d] =>
            match parseInstant u, parseInstant d with
            | some u, some d =>
              if naive z u ≠ n then some "local-time" else if d ≠ u then some "single-result" else none
            | _, _ => some "malformed"
          | ["ambiguous", a, b, d] =>
            match parseInstant a, parseInstant b, parseInstant d with
            | some a, some b, some d =>
              if naive z a ≠ n ∨ naive z b ≠ n ∨ ¬ a < b then some "local-time"
              else if d ≠ b then some "later" else none
            | _, _, _ => some "malformed"
          | _ => none
        let tag := "dt-" ++ localKind z n ++ (if n % nsPerMin = 0 then "" else "-sub")
        some (finish z tag clause m res)
    | _, _ =>
      match pCtx rest with
      | none => none
      | some (ctx, rest) =>
        match pExpr rest with
        | some (e, []) =>
          match op, args with
          | "tz.state", [_, _, t, _, _] =>
            match parseInstant t with
            | none => none
            | some t =>
              let (r, nres) := splitN res
              let m := runM (match stateTz ctx e z t with | .ok k => .ok [kindTok k] | .error p => .error p)
              let inTr := naive z (t + nsPerMin) ≠ naive z t + nsPerMin
              let tag := "state" ++ (if inTr then "-tr" else "")
              match nres with
              | [n0, nk] =>
                let mnv := runM (match stateG (envOf ctx e) (naive z t) with | .ok k => .ok [kindTok k] | .error p => .error p)
                let clause :=
                  if parseInstant n0 ≠ some (naive z t) then some "naive-time"
                  else if sameOut [nk] r then none
                  else some "eq-naive"
                some (finish z tag clause m r (sameOut mnv [nk]))
              | _ => some (finish z tag none m r)
          | "tz.next", [_, _, t, _, _] =>
            match parseInstant t with
            | none => none
            | some t =>
              let (r, nres) := splitN res
              let m := runM (match nextChangeTz ctx e z t with
                | .ok none => .ok ["none"]
                | .ok (some c) => .ok ["some", showInstant c]
                | .error p => .error p)
              match nres with
              | n0 :: nrest =>
                let (nv, itoks) := splitI nrest
                let mnv := runM (match nextChange ctx e (naive z t) with
                  | .ok none => .ok ["none"]
                  | .ok (some c) => .ok ["some", showInstant c]
                  | .error p => .error p)
                -- the expected answer, from the implementation's own NoLocation stream: the end of the
                -- first range after dropping skipped spans and merging; `none` = not settled by the
                -- printed prefix
                let expected : Option (Option Int) :=
                  match pList pInterval itoks with
                  | some (nl, []) =>
                    match specCoalesce z nl with
                    | [] => if nl.isEmpty then some none else none
                    | c :: more =>
                      if c.stop ≥ instEnd then some none
                      else if more.isEmpty then none
                      else some (some c.stop)
                  | _ => none
                let (clause, tag) : Option String × String :=
                  if parseInstant n0 ≠ some (naive z t) then (some "naive-time", "next") else
                  if isPanicTok nv ∨ isPanicTok itoks then (none, "next-panic") else
                  match expected, r with
                  | some none, ["none"] => (none, "next-none")
                  | some (some c), ["some", u] =>
                    match parseInstant u with
                    | some u => (checkMapped z c u, "next-" ++ localKind z c)
                    | none => (some "malformed", "next")
                  | none, _ => (none, "next-long")
                  | _, _ => (some "eq-naive", "next")
                some (finish z tag clause m r (sameOut mnv nv))
              | _ => some (finish z "next" none m r)
          | "tz.iter", [_, _, f, t, _, _] =>
            match parseInstant f, parseInstant t with
            | some f, some t =>
              let (r, nres) := splitN res
              let (cut, toks) := match r with
                | "all" :: r => (false, r)
                | "cut" :: r => (true, r)
                | r => (false, r)
              let cap := (toks.head?.bind String.toNat?).getD 0
              let trim (l : List Interval) := if cut then l.take cap else l
              let m := runM (match iterRangeTz ctx e z f t with
                | .ok l => .ok (showIntervals (trim l))
                | .error p => .error p)
              match nres with
              | nf :: nt :: ntoks =>
                let mnv := runM (match iterRangeNaive ctx e (naive z f) (naive z t) with
                  | .ok l => .ok (showIntervals (l.take 200))
                  | .error p => .error p)
                let evOk := sameOut mnv ntoks
                if parseInstant nf ≠ some (naive z f) ∨ parseInstant nt ≠ some (naive z t) then
                  some (finish z "iter" (some "naive-time") m toks evOk)
                else
                match pList pInterval ntoks, pList pInterval toks with
                | some (nl, []), some (out, []) =>
                  some (finish z ("iter-" ++ boundsTag z nl ++ (if cut then "-cut" else ""))
                    (if isC02 then c02ZoneClauses z ctx e f t cut out else checkIntervals z cut nl out) m toks evOk)
                | _, _ => if isPanicTok toks ∨ isPanicTok ntoks then some (finish z "iter-panic" none m toks evOk) else none
              | _ => some (finish z "iter" none m toks)
            | _, _ => none
          | _, _ => none
        | _ => none

end OH.Driver.Tz
