import OH.Model.Purity
import OH.Driver.Util
/-
Suite `pur.*` (C18).

  pur.batch <mode> <n ops> <seed> => <n equal> <n different> stats=<distinct>,<parse errors>,<panics> [first difference…]
  pur.firstuse <order>            => <n equal> <n different> cells=<cell order> [first difference…]

  pur.selftest <kind>             => <n equal> <n different>   (impure evaluator: differences expected)

Verdict (the spec = the statement of C18: every re-evaluation returns the sequential answer):
  `ok <tag>`              0 different (and the counts add up)
  `fail same-answer …`    some evaluation returned something else than the sequential one
  `disagree model=…`      the order of first use of the cells reported by the harness is not the one the
                          model derives from the order of entry points (`Api.cells`)
The model side is replayed as well — an instance of `pure_under_racing_interleaving` /
`first_use_order_irrelevant` on toy tables, with `k` threads and a schedule derived from the seed: by
the theorems it cannot fail (`bad model-replay` would mean the compiled model does not behave as
proved).
-/
namespace OH.Driver.C18
open OH.Model.Purity OH.Driver

/-- toy tables for the replay: every table is a number -/
def toy : Tables := ⟨fun _ => Nat, fun c => match c with
  | .dbPublic => 11 | .dbSchool => 12 | .boundaries => 13 | .tzNameFinder => 14 | .tzByName => 15 | .warnEaster => 0⟩

/-- a program reading the given cells in order and summing what it reads with `x` -/
def sumProg (x : Nat) : List CellId → Prog toy Nat
  | [] => .ret x
  | c :: cs => .read c fun (v : Nat) => sumProg (x + v) cs

def apiOfChar : Char → Option Api
  | 'H' => some .countryHolidays
  | 'B' => some .countryTryFromCoords
  | 'Z' => some .tzLocationFromCoords
  | 'C' => some .contextFromCoords
  | 'P' => some .parse
  | _ => none

def cellDigit : CellId → Option Char
  | .dbPublic => some '0' | .dbSchool => some '1' | .boundaries => some '2'
  | .tzNameFinder => some '3' | .tzByName => some '4' | .warnEaster => none

/-- order of first use of the cells implied by an order of API entry points -/
def cellOrder (apis : List Api) : List CellId :=
  (apis.flatMap Api.cells).foldl (fun acc c => if acc.contains c then acc else acc ++ [c]) []

def lcg (s : Nat) : Nat := (s * 6364136223846793005 + 1442695040888963407) % 18446744073709551616

/-- a pseudo-random schedule of `len` steps over `k` threads -/
def mkSchedule (k : Nat) : Nat → Nat → List Nat
  | 0, _ => []
  | len + 1, s => (s / 65536) % k :: mkSchedule k len (lcg s)

def roundRobin (k rounds : Nat) : List Nat := (List.range rounds).flatMap (fun _ => List.range k)

def isInit {α : Type} : Cell α → Bool
  | .init _ => true
  | .uninit => false

/-- replay of the small-step model: `k` threads, programs over API cell lists, a random schedule
followed by enough round-robin rounds for everybody to finish; all answers must be the pure ones -/
def replayThreads (k seed : Nat) : Bool :=
  let apis : List Api := [.countryHolidays, .countryTryFromCoords, .tzLocationFromCoords, .contextFromCoords, .parse, .evaluate]
  let ps : List (Prog toy Nat) := (List.range k).map (fun i => sumProg (i + seed % 7) (apis.getD ((i + seed) % 6) .evaluate).cells)
  let cfg := runSchedule (Config.start (allUninit toy) ps) (mkSchedule k (3 * k) (lcg seed) ++ roundRobin k 12)
  (cfg.threads.map Thread.result?) == ps.map (fun p => some p.pureRun)

/-- replay of `first_use_order_irrelevant`: forcing the cells in the given order or in the canonical
order gives the same state, and a program run afterwards gives the pure answer -/
def replayOrder (cells : List CellId) : Bool :=
  let st1 := forceList (allUninit toy) cells
  let st2 := forceList (allUninit toy) (CellId.all.filter cells.contains)
  let p := sumProg 1 (Api.cells .contextFromCoords)
  CellId.all.all (fun c => isInit (st1 c) == isInit (st2 c) && isInit (st1 c) == cells.contains c)
    && (run p st1).2 == p.pureRun && (run p (allUninit toy)).2 == p.pureRun

def threadsOfMode (mode : String) : Option Nat :=
  if mode == "seq" || mode == "clones" || mode == "interleaved" || mode == "recontext" then some 1
  else if mode.startsWith "threads" then (mode.drop 7).toString.toNat? else none

def tagOfMode (mode : String) : String := if mode.startsWith "threads" then "threads" else mode

def failMsg (rest : List String) : String :=
  s!"fail same-answer model=0-different {joinSp (rest.take 8)}"

def handle (op : String) (args impl : List String) : Option String :=
  match op, args, impl with
  | "pur.batch", [mode, n, seed], eq :: diff :: stats :: rest =>
    match threadsOfMode mode, n.toNat?, seed.toNat?, eq.toNat?, diff.toNat? with
    | some k, some n, some seed, some eq, some diff =>
      let distinct := (((stats.drop 6).toString.splitOn ",").head? >>= String.toNat?).getD 0
      if k == 0 || k > 64 || !stats.startsWith "stats=" then none
      -- a batch whose reference answers are (nearly) all the same would test nothing
      else if n ≥ 20 && distinct * 4 < n then some "bad trivial-batch"
      else if !replayThreads k seed then some "bad model-replay"
      else if diff != 0 then some (failMsg (toString eq :: toString diff :: rest))
      else if eq != n then some s!"fail all-ops-answered model={n} 0"
      else some s!"ok {tagOfMode mode}"
    | _, _, _, _, _ => none
  | "pur.rebuild", [_i, _n], eq :: diff :: _first =>
    -- the country, zone, calendars and one evaluation derived from the same coordinates, rebuilt from
    -- scratch: a function of the coordinates only
    match eq.toNat?, diff.toNat? with
    | some eq, some diff =>
      if diff != 0 then some s!"fail same-answer model=0-different rebuilt-from-coordinates eq={eq} diff={diff}"
      else some "ok rebuild"
    | _, _ => none
  | "pur.selftest", [_kind], [eq, diff] =>
    -- the detector applied to a deliberately impure evaluator must see differences
    match eq.toNat?, diff.toNat? with
    | some _, some diff => if diff > 0 then some "ok selftest-detected" else some "fail selftest-blind model=some-different"
    | _, _ => none
  | "pur.firstuse", [order], eq :: diff :: cells :: rest =>
    match eq.toNat?, diff.toNat? with
    | some eq, some diff =>
      if order.startsWith "concurrent" then
        if cells != "cells=racing" then none
        else if !replayThreads 10 eq then some "bad model-replay"
        else if diff != 0 || eq == 0 then some (failMsg (toString eq :: toString diff :: rest))
        else some "ok firstuse-racing"
      else
        match order.toList.mapM apiOfChar with
        | none => none
        | some apis =>
          let co := cellOrder apis
          let model := "cells=" ++ String.ofList (co.filterMap cellDigit)
          if !replayOrder co then some "bad model-replay"
          else if diff != 0 || eq == 0 then some (failMsg (toString eq :: toString diff :: rest))
          else if model != cells then some s!"disagree model={model}"
          else some "ok firstuse-order"
    | _, _ => none
  | _, _, _ => none

end OH.Driver.C18
