import OH.Model.HolidayDb
import OH.Model.Inflate
import OH.Model.Iter
import OH.Spec.DateSet
import OH.Driver.Ast
import OH.Driver.Ev
import OH.Driver.Util
import Std.Data.HashSet
/-
Suite `hol.*` (C10).  The driver reads the two SOURCE text files itself (`hol.load <public> <school>`,
or lazily from `$OH_HOLIDAYS_PUBLIC` / `$OH_HOLIDAYS_SCHOOL` / the default paths when a `hol.*`
line arrives first), runs the MODEL pipeline `parseLines → group → encodeDb → decodeDb` once per
file and keeps the decoded maps; every later line is answered from them:
  (1) the SPEC — plain membership `(iso code, date) ∈ lines of the file` (no grouping, no calendar,
      no serialization) — is evaluated on the IMPLEMENTATION's dump → `fail <clause> …`;
  (2) the model's `lookup` result is dumped the same way and compared bit for bit → `disagree …`.
`hol.raw <pub|school>` carries the pair the binary really embeds (region string + the still deflated
bytes): the Lean model of inflate (`OH.Model.Inflate`) must turn the bytes into EXACTLY the model's
`encodeDb` of the source file, and the string must be the model's `regionNames` (the hypotheses of
`OH.Props.C10I.C10_embedded_bytes_*`) → `fail embedded-bytes-…` (a stream that inflates to another encoding than the model's: `disagree class=embedded-format`).
The reading of the file is IO; everything else is the pure `handle`.
-/
namespace OH.Driver.C10
open OH.Model OH.Model.HolidayDb OH.Model.CompactCalendar OH.Model.CompactCalendar.CompactCalendar
open OH.Driver OH.Generated

/-! ### loaded state -/

structure KindData where
  lines : List Line              -- the SPEC: the `(region, date)` pairs of the file
  map : CountryMap               -- the MODEL: `embedded text`
  regions : List String          -- distinct regions of the lines, in order of first appearance
  names : String                 -- the MODEL's `regionNames (group lines)` (= `HOLIDAYS_*_REGIONS`)
  encoded : List Nat             -- the MODEL's `encodeDb (group lines)`: the bytes `build.rs` hands to the encoder

structure Loaded where
  pubPath : String
  schoolPath : String
  pubStat : String               -- `<bytes>:<fnv64> <lines>`
  schoolStat : String
  pub : Except String KindData
  school : Except String KindData

def fnv64 (bs : ByteArray) : UInt64 :=
  bs.foldl (fun h b => (h ^^^ b.toUInt64) * 1099511628211) 14695981039346656037

def hexDigitL (n : Nat) : Char := Char.ofNat (if n < 10 then 48 + n else 87 + n)

def hex16 (h : UInt64) : String :=
  String.ofList ((List.range 16).map fun i => hexDigitL ((h.toNat >>> (4 * (15 - i))) % 16))

def fileStat (text : String) : String :=
  let bs := text.toUTF8
  s!"{bs.size}:{hex16 (fnv64 bs)} {(bufLines text).length}"

def dedupKeep (l : List String) : List String :=
  (l.foldl (fun (acc : List String × Std.HashSet String) s =>
    if acc.2.contains s then acc else (s :: acc.1, acc.2.insert s)) ([], {})).1.reverse

def loadKind (text : String) : Except String KindData :=
  match parseLines (bufLines text) with
  | .error e => .error e
  | .ok lines =>
    -- `embedded text` unfolded, keeping the intermediate values
    let db := group lines
    match encodeDb db with
    | .error e => .error e
    | .ok bytes =>
      match decodeDb (regionNames db) bytes with
      | .error e => .error e
      | .ok m => .ok ⟨lines, m, dedupKeep (lines.map (·.1)), regionNames db, bytes⟩

def mkLoaded (pubPath schoolPath pubText schoolText : String) : Loaded :=
  ⟨pubPath, schoolPath, fileStat pubText, fileStat schoolText, loadKind pubText, loadKind schoolText⟩

def defaultPublic : String := "/repo/opening-hours/data/holidays_public.txt"
def defaultSchool : String := "/repo/opening-hours/data/holidays_school.txt"

/-- the IO part: read the two files -/
def load (pubPath schoolPath : String) : IO Loaded := do
  let p ← IO.FS.readFile pubPath
  let s ← IO.FS.readFile schoolPath
  return mkLoaded pubPath schoolPath p s

/-! ### tokens -/

def ymdTok (d : Date) : String := toString (d.year * 10000 + (d.month : Int) * 100 + (d.day : Int))

def outTok {α : Type} (f : α → String) : Except String α → String
  | .ok a => f a
  | .error e => "panic:" ++ e.replace " " "_"

def nibble (bs : List Bool) : Nat :=
  match bs with
  | [a, b, c, d] => (if a then 8 else 0) + (if b then 4 else 0) + (if c then 2 else 0) + (if d then 1 else 0)
  | [a, b, c] => (if a then 8 else 0) + (if b then 4 else 0) + (if c then 2 else 0)
  | [a, b] => (if a then 8 else 0) + (if b then 4 else 0)
  | [a] => if a then 8 else 0
  | _ => 0

def hexOfBitsAux : Nat → List Bool → List Char → List Char
  | 0, _, acc => acc.reverse
  | _, [], acc => acc.reverse
  | fuel + 1, bs, acc => hexOfBitsAux fuel (bs.drop 4) (hexDigitL (nibble (bs.take 4)) :: acc)

/-- 4 days per hex digit, first day = most significant bit; `0` when no bit is set -/
def hexOfBits (bs : List Bool) : String :=
  if bs.any id then String.ofList (hexOfBitsAux bs.length bs []) else "0"

/-- the (month, day) pairs of calendar year `Y` in order -/
def monthDays (Y : Int) : List (Nat × Nat) :=
  (List.range 12).flatMap fun m0 => (List.range (daysInMonth Y (m0 + 1))).map fun d0 => (m0 + 1, d0 + 1)

def years : List Int := (List.range 96).map fun (i : Nat) => (1990 : Int) + (i : Int)

/-- SPEC bitmap of year `Y`: is `(Y, m, d)` among the listed dates -/
def specBitmap (dates : List Date) (Y : Int) : String :=
  let keys := (dates.filter (·.year == Y)).map fun d => d.month * 32 + d.day
  if keys.isEmpty then "0" else hexOfBits ((monthDays Y).map fun md => keys.contains (md.1 * 32 + md.2))

/-- MODEL bitmap of year `Y`: `CompactCalendar::contains` of the model on every day -/
def modelBitmap (cal : CompactCalendar) (Y : Int) : String :=
  let rs := (monthDays Y).map fun md => contains cal ⟨Y, md.1, md.2⟩
  match rs.find? (fun r => match r with | .error _ => true | .ok _ => false) with
  | some (.error e) => "panic:" ++ e
  | _ => hexOfBits (rs.map fun r => match r with | .ok b => b | .error _ => false)

def firstDiff (a b : List String) : Option (Nat × String × String) :=
  let rec go (i : Nat) : List String → List String → Option (Nat × String × String)
    | [], [] => none
    | x :: xs, y :: ys => if x == y then go (i + 1) xs ys else some (i, x, y)
    | x :: _, [] => some (i, x, "<missing>")
    | [], y :: _ => some (i, "<missing>", y)
  go 0 a b

def clip (s : String) : String := if s.length > 60 then (s.take 60).toString ++ "…" else s

/-- run-length encoding `<tok>*<n>` -/
def rle (toks : List String) : List String :=
  let rec go (cur : String) (n : Nat) (acc : List String) : List String → List String
    | [] => (s!"{cur}*{n}" :: acc).reverse
    | t :: ts => if t == cur then go cur (n + 1) acc ts else go t 1 (s!"{cur}*{n}" :: acc) ts
  match toks with
  | [] => []
  | t :: ts => go t 1 [] ts

/-! ### spec helpers -/

def specDates (k : KindData) (code : String) : List Date :=
  (k.lines.filter (fun l => l.1 == code)).map (·.2)

def isIsoCodeOf (c s : String) : Bool := Country.isVariant c && Country.isoCode c == some s

def fromStrTok (s : String) : String :=
  match Country.fromStr s with
  | some c => "ok:" ++ c
  | none => "err:" ++ enc ("Unknown ISO code `" ++ s ++ "`")      -- `Display for UnknownCountryCode`

/-! ### handlers -/

def handleLoad (L : Loaded) (impl : List String) : String :=
  let mine := (L.pubStat.splitOn " ") ++ (L.schoolStat.splitOn " ")
  if mine != impl then s!"fail load-same-bytes model={joinSp mine}"
  else
    match L.pub, L.school with
    | .error e, _ => s!"fail load-public model={e.replace " " "_"}"
    | _, .error e => s!"fail load-school model={e.replace " " "_"}"
    | .ok p, .ok s =>
      -- the hypotheses `LinesOK` of `OH.Props.C10.embedded_contains` (valid dates: by `parseLines_valid`)
      let bad (k : KindData) : Option String :=
        if k.lines.isEmpty then some "empty"
        else if k.lines.any (fun l => l.1.toList.contains ',') then some "comma-in-region"
        else none
      match bad p, bad s with
      | some w, _ => s!"fail hypothesis-public-{w}"
      | _, some w => s!"fail hypothesis-school-{w}"
      | none, none =>
        let stat (k : KindData) : String :=
          let unknown := k.regions.filter (fun r => (Country.fromStr r).isNone)
          let distinct := (k.regions.map fun r => (OH.Spec.DateSet.ofList (specDates k r)).length).sum
          let nodata := Country.all.filter (fun c => match Country.isoCode c with
            | some code => !(k.regions.contains code) | none => true)
          s!"lines={k.lines.length},distinct={distinct},regions={k.regions.length},notCountry=[{",".intercalate unknown}],countriesWithoutData={nodata.length},decoded={k.map.length}"
        s!"ok load public:{stat p} school:{stat s}"

def handleAll (impl : List String) : String :=
  let model := toString Country.all.length :: Country.all
  match impl with
  | n :: names =>
    -- spec: every variant exactly once, 115
    let complete := Countries.variants.all (fun v => names.contains v) && names.all (fun v => Countries.variants.contains v)
    let nodup := (dedupKeep names).length == names.length
    if !(complete && nodup && n == "115" && names.length == 115) then s!"fail all-complete-nodup model={joinSp (model.take 3)}…"
    else if model != impl then s!"disagree model={joinSp (model.take 3)}…"
    else "ok all-115"
  | _ => "bad arity"

def handleCountry (cc : String) (impl : List String) : Option String :=
  if !Country.isVariant cc then none else
  let iso := (Country.isoCode cc).getD "?"
  let model := [toString (Country.all.idxOf cc), enc iso, enc ((Country.name cc).getD "?"),
    enc ((Country.display cc).getD "?"), fromStrTok iso]
  match impl with
  | [_, _, _, _, back] =>
    if back != "ok:" ++ cc then some s!"fail fromStr-isoCode model={joinSp model}"
    else if model != impl then some s!"disagree model={joinSp model}"
    else some "ok country"
  | _ => some "bad arity"

def handleFromStr (args impl : List String) : String :=
  let strs := args.map dec
  if strs.length != impl.length then "bad arity" else
  let model := strs.map fromStrTok
  -- spec: accepted iff the string is the iso code of the returned country; rejected iff it is nobody's code
  let specBad := (strs.zip impl).find? fun (s, r) =>
    if r.startsWith "ok:" then !(isIsoCodeOf (r.drop 3).toString s)
    else if r.startsWith "err:" then Countries.variants.any (fun v => isIsoCodeOf v s)
    else true
  match specBad with
  | some (s, r) => s!"fail fromStr-only-isoCodes input={enc s} impl={clip r}"
  | none =>
    match firstDiff model impl with
    | some (i, m, y) => s!"disagree @{i} model={m} impl={clip y}"
    | none => s!"ok fromstr-{(impl.filter (·.startsWith "ok:")).length}of{impl.length}"

def handlePdate (args impl : List String) : String :=
  let strs := args.map dec
  if strs.length != impl.length then "bad arity" else
  let model := strs.map fun s => match parseDate s.toList with
    | .ok d => some ("ok:" ++ ymdTok d)
    | .error e => if e == shapeNotModelled then none else some "err"
  match ((model.zip impl).zip strs).find? (fun ((m, y), _) => match m with | some m => m != y | none => false) with
  | some ((m, y), s) => s!"disagree input={enc s} model={m.getD "?"} impl={y}"
  | none => s!"ok pdate-{(model.filter Option.isSome).length}of{impl.length}"

def handleCal (L : Loaded) (cc kind : String) (impl : List String) : Option String :=
  if !Country.isVariant cc then none else
  match (match kind with | "pub" => some L.pub | "school" => some L.school | _ => none) with
  | none => none
  | some (.error e) => some s!"fail load model={e.replace " " "_"}"
  | some (.ok k) =>
    match Country.isoCode cc with
    | none => none
    | some code =>
      let (hd, maps) := Ev.splitBar impl
      match hd with
      | ser :: cnt :: n :: dates =>
        -- SPEC on the implementation's dump
        let spec := OH.Spec.DateSet.ofList (specDates k code)
        let specTok := spec.map ymdTok
        if n != toString dates.length then some "bad arity"
        else if dates != specTok then
          some s!"fail iter-eq-listed spec={spec.length}dates impl={dates.length}dates first-diff={match firstDiff specTok dates with | some (i, a, b) => s!"@{i}:spec={a}/impl={b}" | none => "-"}"
        else if cnt != toString spec.length then some s!"fail count spec={spec.length} impl={cnt}"
        else
          match firstDiff (years.map (specBitmap spec)) maps with
          | some (i, a, b) => some s!"fail contains-iff-listed year={1990 + i} spec={a} impl={b}"
          | none =>
            -- MODEL vs implementation
            let cal := lookup k.map cc
            let mDates := outTok (fun ds => joinSp (ds.map ymdTok)) (collect (iter cal))
            let mCount := outTok toString (count cal)
            let bytes := serialize cal
            let mSer := s!"{bytes.length}:{hex16 (fnv64 (ByteArray.mk (bytes.map UInt8.ofNat).toArray))}"
            if mSer != ser then some s!"disagree serialize model={mSer} impl={ser}"
            else if mDates != joinSp dates then some s!"disagree iter model={clip mDates}"
            else if mCount != cnt then some s!"disagree count model={mCount}"
            else match firstDiff (years.map (modelBitmap cal)) maps with
              | some (i, a, b) => some s!"disagree contains year={1990 + i} model={a} impl={b}"
              | none => some s!"ok c10-{kind}-{spec.length}"
      | [p] => if p.startsWith "panic:" then some s!"fail panic impl={p}" else none
      | _ => none

/-! ### the embedded bytes themselves (`hol.raw`) -/

def hexVal (b : UInt8) : Option UInt8 :=
  if 48 ≤ b && b ≤ 57 then some (b - 48) else if 97 ≤ b && b ≤ 102 then some (b - 87) else none

/-- lower-case hex string ↦ bytes (`-` = no byte) -/
def unhex (s : String) : Option ByteArray :=
  if s == "-" then some ByteArray.empty else
  let u := s.toUTF8
  if u.size % 2 != 0 then none else
  (List.range (u.size / 2)).foldl (fun (acc : Option ByteArray) i =>
    match acc, hexVal (u.get! (2 * i)), hexVal (u.get! (2 * i + 1)) with
    | some a, some h, some l => some (a.push (16 * h + l))
    | _, _, _ => none) (some (ByteArray.emptyWithCapacity (u.size / 2)))

def firstDiffNat (a b : List Nat) : Nat :=
  let rec go (i : Nat) : List Nat → List Nat → Nat
    | x :: xs, y :: ys => if x == y then go (i + 1) xs ys else i
    | _, _ => i
  go 0 a b

/-- the block types of a deflate stream, in order (statistics for the tag; the same walk as
`Inflate.blocks`) -/
def blockTypes (d : ByteArray) : (fuel p : Nat) → (out : ByteArray) → (acc : List Nat) → List Nat
  | 0, _, _, acc => acc.reverse
  | fuel + 1, p, out, acc =>
    match Inflate.bits d p 1, Inflate.bits d (p + 1) 2 with
    | some last, some type =>
      let sf := 8 * d.size + 1
      let r := if type == 0 then Inflate.stored d (p + 3) out else if type == 1 then Inflate.fixed d sf (p + 3) out
        else if type == 2 then Inflate.dynamic d sf (p + 3) out else .error ""
      match r with
      | .error _ => (type :: acc).reverse
      | .ok (p, out) => if last == 1 then (type :: acc).reverse else blockTypes d fuel p out (type :: acc)
    | _, _ => acc.reverse

/-- `hol.raw <kind> => <regions> <n> <hex>`: the implementation's embedded pair.  Property clause (a
`fail`: the binary embeds something else than the source data): the bytes inflate (Lean model of
RFC 1951) to exactly the model's encoding of the source file, the string is the model's region list,
and `decodeDb` on the pair gives the maps every other `hol.*` verdict is computed from. -/
def handleRaw (L : Loaded) (kind : String) (impl : List String) : Option String :=
  match (match kind with | "pub" => some L.pub | "school" => some L.school | _ => none) with
  | none => none
  | some (.error e) => some s!"fail load model={e.replace " " "_"}"
  | some (.ok k) =>
    match impl with
    | [regTok, nTok, hexTok] =>
      match unhex hexTok with
      | none => some "bad hex"
      | some z =>
        if nTok != toString z.size then some "bad arity" else
        let regions := dec regTok
        match Inflate.inflateNat z with
        | .error e => some s!"fail embedded-bytes-do-not-inflate model={e.replace " " "_"} compressed={z.size}"
        | .ok bytes =>
          if bytes != k.encoded then
            -- the bytes inflate, but to something else than the MODEL's encoding of the source: the byte format is a
            -- matter of the model (hypothesis `inflateNat z = encodeDb db` of OH.Props.C10I), not of the property — a
            -- change of the serialization format used consistently by build.rs and the decoder keeps every embedded
            -- calendar equal to the source.  A broken correspondence, not a failing input: whether a calendar differs
            -- from the source is decided by the `hol.cal` lines on the implementation's own decoded calendars
            some s!"disagree class=embedded-format model=encoding-of-source:{k.encoded.length}-bytes inflated={bytes.length} first-diff=@{firstDiffNat bytes k.encoded}"
          else if regions != k.names then
            some s!"fail embedded-bytes-regions-string model={enc (clip k.names)} impl={enc (clip regions)}"
          else
            -- `decode_holidays_db` on the pair itself (inflate inside), as in `OH.Props.C10I`
            match decodeHolidaysDb regions z with
            | .error e => some s!"fail embedded-bytes-decode model={e.replace " " "_"}"
            | .ok m =>
              if m != k.map then some "fail embedded-bytes-decode-differs-from-maps"
              else
                let bt := blockTypes z (8 * z.size + 1) 0 ByteArray.empty []
                let cnt (t : Nat) := (bt.filter (· == t)).length
                some s!"ok raw-{kind}-{z.size}-{bytes.length} blocks=stored:{cnt 0},fixed:{cnt 1},dynamic:{cnt 2}"
    | _ => some "bad arity"

def expandDays (specs : List String) : Option (List Int) :=
  specs.foldr (fun s acc =>
    match acc with
    | none => none
    | some tl =>
      match s.splitOn ".." with
      | [a] => a.toInt?.map (· :: tl)
      | [a, b] =>
        match a.toInt?, b.toInt? with
        | some a, some b => some ((List.range (b - a + 1).toNat).map (fun (i : Nat) => a + (i : Int)) ++ tl)
        | _, _ => none
      | _ => none) (some [])

def rangesTok (rs : List TimeRange) : String :=
  if rs.isEmpty then "none" else
  ",".intercalate (rs.map fun r =>
    "-".intercalate ([toString r.s, toString r.e, kindTok r.kind] ++ r.comments.map enc))

def handlePh (L : Loaded) (cc src : String) (dayArgs impl : List String) : Option String :=
  if !Country.isVariant cc then none else
  match L.pub, L.school, Country.isoCode cc, expandDays dayArgs with
  | .ok p, .ok s, some code, some days =>
    let (astToks, res) := Ev.splitBar impl
    match pExpr astToks with
    | some (e, []) =>
      match res with
      | [t] => if t.startsWith "panic:" then some s!"fail panic impl={t}" else
        handleRes p s code days e res
      | _ => handleRes p s code days e res
    | _ => none
  | .error e, _, _, _ => some s!"fail load model={e.replace " " "_"}"
  | _, .error e, _, _ => some s!"fail load model={e.replace " " "_"}"
  | _, _, _, _ => none
where
  handleRes (p s : KindData) (code : String) (days : List Int) (e : Expr) (res : List String) : Option String :=
    let k := if src == "PH" then p else s
    -- SPEC: the selector sees exactly the listed dates: open the whole day iff listed, else closed
    let listed : Std.HashSet Int := (specDates k code).foldl (fun acc d =>
      match OH.Model.Cal.ofYmd? d.year d.month d.day with
      | some n => acc.insert n
      | none => acc) {}
    let specRle := rle (days.map fun d => if listed.contains d then "0-1440-o" else "0-1440-c")
    match firstDiff specRle res with
    | some (i, a, b) => some s!"fail selector-sees-listed run={i} spec={a} impl={b}"
    | none =>
      -- MODEL: the evaluator model in the context built from the model pipeline's calendars
      let ctx := ctxOfHolidays (holidays p.map s.map cc)
      let mRle := rle (days.map fun d => match daySchedule ctx e d with
        | .ok rs => rangesTok rs
        | .error err => "panic:" ++ err.replace " " "_")
      match firstDiff mRle res with
      | some (i, a, b) => some s!"disagree run={i} model={a} impl={b}"
      | none =>
        let nOpen := (days.filter listed.contains).length
        some s!"ok {src}-{if nOpen == 0 then "none" else if days.length > 30000 then "everyday" else "listed+neighbours"}"

/-- all ops except the IO part of `hol.load` -/
def handle (L : Loaded) (op : String) (args impl : List String) : Option String :=
  match op, args with
  | "hol.load", [_, _] => some (handleLoad L impl)
  | "hol.all", [] => some (handleAll impl)
  | "hol.raw", [kind] => handleRaw L kind impl
  | "hol.country", [cc] => handleCountry cc impl
  | "hol.fromstr", _ => some (handleFromStr args impl)
  | "hol.pdate", _ => some (handlePdate args impl)
  | "hol.cal", [cc, kind] => handleCal L cc kind impl
  | "hol.ph", cc :: src :: days => if src == "PH" || src == "SH" then handlePh L cc src days impl else none
  | _, _ => none

end OH.Driver.C10
