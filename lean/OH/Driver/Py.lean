import OH.Driver.Ast
import OH.Model.Py
import OH.Spec.Py
/-
Suite `py.*` (C12).  A line is
  `<op> <args…> => <python tokens> || <rust-core tokens> ## <facts>`
(formats: harness/src/py.rs).  `python tokens` is what CPython got from the extension module,
`rust-core tokens` what the harness got from the Rust core's public API with the equivalent context,
`facts` what the real core answered for every abstract operation of `OH.Model.Py.Core`:
`P:` parse, `C:` country, `X:` Coordinates::new, `AZ:` zone at the coordinates, `K:` the context built by the
harness, `D:`/`ND:`/`DQ:` strings, `in0=`/`in1=` the inputs, `Tn:<zone>:<utc>:<naive>` (`tzNaive`),
`Td:<zone>:<naive>:<utc|panic>` (`tzDatetime`), and ONE stream fact (`streamNaive`), the items of
`iter_range_naive(from, to)` as far as the call pulls them:
  `F <from> <to> <all|cut|panic:site> <n> <iv>*`  state / next / normalize — a lazily pulled prefix: after the
      items the stream ends (`all`), was not pulled further (`cut`: the model answers `missing-fact` if it asks
      for more, which shows as a `disagree`), or panics;
  `L <from> <to> <all|cut|panic:site> <n> <iv>*`  intervals — the items that make up the first `cap` localized
      ranges; `cut` = a further localized range exists (the model is run on the listed items as the whole stream
      and the answer is reported as `cut`).
The model replays the generic `iter_range` of the core on them (`OH.Model.Py.iterRange` / `firstOfRange`: filter
with `naive(datetime(start)) < end`, merge, map) with the binding's own locale.

Verdicts (first that applies):
  `fail <clause> [class=…] …`  a clause of C12 is false on the PYTHON output:
     py-type        a value of an unexpected Python type came back
     no-panic       a `PanicException` surfaced  (class D1-repeats-unwrap: the parser's `unwrap`)
     exc            another exception class than the property names / than the core's outcome
     eq             result ≠ the Rust core's result for the equivalent context
     zone           a returned date-time carries another zone than the core's
     zone-offset    same wall-clock time and zone, another UTC offset (class tzdb-horizon: from 2100 on
                    chrono-tz no longer applies daylight-saving rules, CPython's zoneinfo does; class
                    tzdb-pre1970: the system database carries `backzone` history, chrono-tz's does not)
     input-instant  the instant chrono derives from an aware input ≠ the one CPython means (same classes)
     zone-carried   the zone is not "the context's, else the input's, else none"
     none-mapping   `None` ⇎ the core's naive result is 10000-01-01 (or there is none)
     eval-repr      `str(eval(repr(x))) != str(x)`  (class repr-rust-escape: `\u{…}` in the repr; class
                    D14-display-reparse: the printed expression itself does not parse, C06)
     aware-input    an aware `datetime` is refused with TypeError: class tzinfo-not-zoneinfo (its tzinfo is a
                    `datetime.timezone`, e.g. `timezone.utc`), class local-time-in-gap (a `ZoneInfo` wall-clock
                    time skipped by a transition)
     ctor-timezone  a `ZoneInfo` is refused (class tzdb-zone-missing: chrono-tz does not know the zone)
     validate-iff   `validate(s)` ⇎ `OpeningHours(s)` is accepted
     ctor-table     the constructor's outcome (exception class / kind of the context under which the core
                    agrees) is not the entry of `OH.Spec.Py.table` (theorem `py_ctx_table`)
     eq-self        `x == x` is false or `hash(x)` is unstable
  `disagree <what> model=…`    the clauses hold but the binding MODEL (run on the facts) predicts
                               something else: ctor (outcome), ctx (context kind), result
  `ok <tag>`
-/
namespace OH.Driver.Py
open OH.Model OH.Model.Py OH.Driver

/-! ## tokens -/

def splitAt (sep : String) (toks : List String) : List String × List String :=
  let rec go (acc : List String) : List String → List String × List String
    | [] => (acc.reverse, [])
    | t :: rest => if t == sep then (acc.reverse, rest) else go (t :: acc) rest
  go [] toks

def hexNat (s : String) : Option Nat :=
  s.toList.foldl (fun acc c => match acc, hexVal c with
    | some a, some v => some (16 * a + v)
    | _, _ => none) (some 0)

/-- an IEEE-754 binary64 bit pattern as the model's `Fl` (exact) -/
def flOfBits (b : Nat) : Fl :=
  let neg : Bool := b / 2 ^ 63 % 2 == 1
  let ex : Nat := b / 2 ^ 52 % 2048
  let mant : Nat := b % 2 ^ 52
  if ex == 2047 then (if mant == 0 then (if neg then .negInf else .posInf) else .nan)
  else
    let m : Nat := if ex == 0 then mant else 2 ^ 52 + mant
    let e : Int := if ex == 0 then -1074 else (ex : Int) - 1075
    let sm : Int := if neg then -(m : Int) else (m : Int)
    if e ≥ 0 then .fin (sm * (2 ^ e.toNat : Nat)) 1 else .fin sm (2 ^ (-e).toNat)

def parseCoords (t : String) : Option (Option (Fl × Fl)) :=
  if t == "-" then some none
  else if t.startsWith "b:" then
    match (t.drop 2).toString.splitOn "," with
    | [x, y] => match hexNat x, hexNat y with
      | some x, some y => some (some (flOfBits x, flOfBits y))
      | _, _ => none
    | _ => none
  else if t.startsWith "i:" then
    match (t.drop 2).toString.splitOn "," with
    | [x, y] => match x.toInt?, y.toInt? with
      | some x, some y => some (some (Fl.ofInt x, Fl.ofInt y))
      | _, _ => none
    | _ => none
  else none

def parseFlag (t : String) : Option (Option Bool) :=
  match t with
  | "d" => some (some true)      -- omitted: the signature default `Some(true)`
  | "-" => some none
  | "1" => some (some true)
  | "0" => some (some false)
  | _ => none

/-! ## facts -/

structure Facts where
  parse : String := "-"
  country : String := "-"
  coordsOk : String := "-"
  autoZone : String := "-"
  k : String := "-"
  display : String := ""
  ndisplay : String := ""
  debug : String := ""
  ins : List String := []
  tn : List (String × Int × Int) := []
  /-- `none` = the core panicked -/
  td : List (String × Int × Option Int) := []
  /-- `F`: `(from, to, ending, items)`; ending = `all` | `cut` | `panic:…` -/
  first : Option (Int × Int × String × List Interval) := none
  /-- `L`: `(from, to, ending, items)` -/
  list : Option (Int × Int × String × List Interval) := none
  bad : Bool := false

def pIv : P Interval
  | s :: e :: k :: ts =>
    match parseInstant s, parseInstant e, pKind [k] with
    | some s, some e, some (k, _) =>
      match pList pTok ts with
      | some (cs, ts) => some (⟨s, e, k, cs.map dec⟩, ts)
      | none => none
    | _, _, _ => none
  | _ => none

/-- `Tn:<zone>:<d>:<ns>:<d>:<ns>` / `Td:<zone>:<d>:<ns>:<d>:<ns>` / `Td:<zone>:<d>:<ns>:panic:…` -/
def parseT (t : String) : Option (String × Int × Option Int) :=
  match t.splitOn ":" with
  | _ :: z :: d1 :: n1 :: rest =>
    match parseInstant (d1 ++ ":" ++ n1) with
    | none => none
    | some a =>
      match rest with
      | [d2, n2] => (parseInstant (d2 ++ ":" ++ n2)).map (fun b => (z, a, some b))
      | "panic" :: _ => some (z, a, none)
      | _ => none
  | _ => none

def afterColon (t : String) : String := ":".intercalate ((t.splitOn ":").drop 1)
def afterEq (t : String) : String := "=".intercalate ((t.splitOn "=").drop 1)

def parseFacts : List String → Facts → Facts
  | [], f => f
  | "F" :: a :: b :: ending :: items, f =>
    match parseInstant a, parseInstant b, pList pIv items with
    | some a, some b, some (l, []) =>
      if ending == "all" || ending == "cut" || ending.startsWith "panic" then { f with first := some (a, b, ending, l) }
      else { f with bad := true }
    | _, _, _ => { f with bad := true }
  | "L" :: a :: b :: ending :: items, f =>
    match parseInstant a, parseInstant b, pList pIv items with
    | some a, some b, some (l, []) =>
      if ending == "all" || ending == "cut" || ending.startsWith "panic" then { f with list := some (a, b, ending, l) }
      else { f with bad := true }
    | _, _, _ => { f with bad := true }
  | t :: rest, f =>
    let f :=
      if t.startsWith "P:" then { f with parse := afterColon t }
      else if t.startsWith "C:" then { f with country := afterColon t }
      else if t.startsWith "X:" then { f with coordsOk := afterColon t }
      else if t.startsWith "AZ:" then { f with autoZone := afterColon t }
      else if t.startsWith "K:" then { f with k := afterColon t }
      else if t.startsWith "D:" then { f with display := dec (afterColon t) }
      else if t.startsWith "ND:" then { f with ndisplay := dec (afterColon t) }
      else if t.startsWith "DQ:" then { f with debug := dec (afterColon t) }
      else if t.startsWith "in0=" || t.startsWith "in1=" then { f with ins := f.ins ++ [afterEq t] }
      else if t.startsWith "Tn:" then
        match parseT t with
        | some (z, a, some b) => { f with tn := (z, a, b) :: f.tn }
        | _ => { f with bad := true }
      else if t.startsWith "Td:" then
        match parseT t with
        | some (z, a, b) => { f with td := (z, a, b) :: f.td }
        | none => { f with bad := true }
      else { f with bad := true }
    parseFacts rest f

/-- sentinel for a conversion the harness did not report (shows up in a `disagree`) -/
def missing : Int := -999999999999999999999999

/-- the stream a fact describes: its items, then the normal end (`all`), a panic (`panic:…`), or — for a
prefix that was not pulled further (`cut`) — `missing-fact` (`lazy`), resp. the end (`L`: the listed items are
the whole input of the model) -/
def streamOf (lazy : Bool) (ending : String) : List Interval → NStream
  | [] =>
    if ending == "all" then .done
    else if ending == "cut" then (if lazy then .panic "missing-fact" else .done)
    else .panic "panic"
  | iv :: rest => .cons iv (streamOf lazy ending rest)

/-- the `Core` whose operations answer what the real core answered -/
@[reducible] def coreOf (f : Facts) : Core where
  Expr := String
  Zone := String
  Hol := String
  parse := fun _ =>
    if f.parse == "1" then .ok f.display else if f.parse == "0" then .err else .panic f.parse
  display := fun e => e
  normalize := fun _ => f.ndisplay
  debugStr := fun _ => f.debug
  holDefault := "none"
  countryHolidays := fun iso => if f.country == "1" then some ("country:" ++ iso) else none
  coordsHolidays := fun _ => "coords"
  coordsZone := fun _ => f.autoZone
  tzNaive := fun z u =>
    match f.tn.find? (fun (z', u', _) => z' == z && u' == u) with
    | some (_, _, n) => n
    | none => missing
  tzDatetime := fun z n =>
    match f.td.find? (fun (z', n', _) => z' == z && n' == n) with
    | some (_, _, some u) => .ok u
    | some (_, _, none) => .error "panic"
    | none => .error "missing-fact"
  streamNaive := fun _ _ _ a b =>
    match f.list, f.first with
    | some (a', b', ending, l), _ =>
      if a == a' && b == b' then streamOf false ending l else .panic "missing-fact"
    | none, some (a', b', ending, l) =>
      if a == a' && b == b' then streamOf true ending l else .panic "missing-fact"
    | none, none => .panic "missing-fact"

/-! ## printing model values -/

def showDT (f : Facts) : DateTimeMaybeAware String → String
  | .naive n => "N:" ++ showInstant n
  | .aware a =>
    let w := (coreOf f).tzNaive a.zone a.utc
    if w == missing then s!"A:{a.zone}:?" else s!"A:{a.zone}:{showInstant w}:{(w - a.utc) / 1000000000}"

def showOptDT (f : Facts) : Option (DateTimeMaybeAware String) → String
  | none => "none"
  | some d => showDT f d

def bit (b : Bool) : String := if b then "1" else "0"

def errTok (stage : String) (p : String) : List String :=
  ["E", stage, if p.startsWith "panic" then "PanicException" else p]

def pyErrTok : PyErr → String
  | .invalidCoordinates => "InvalidCoordinatesError"
  | .parserError => "ParserError"
  | .unknownCountry => "UnknownCountryError"
  | .panic _ => "PanicException"

def ctxDesc (f : Facts) (c : PyCtx (coreOf f)) : String :=
  let h := HolidaySource.hol (coreOf f) c.holidays
  let l := match c.locale with
    | .naive => "naive"
    | .awareTz z => "tz:" ++ z
    | .awareTzCoords z _ => "tzc:" ++ z
    | .awareFromCoords x => "auto:" ++ (coreOf f).coordsZone x
  h ++ ";" ++ l

/-- an input as the facts give it -/
inductive Inp where
  | dt (d : DateTimeMaybeAware String)
  | now (n : Int)
  | conv

def parseIn (s : String) : Option Inp :=
  match s.splitOn ":" with
  | ["conv"] => some .conv
  | ["N", d, n] => (parseInstant (d ++ ":" ++ n)).map (fun x => .dt (.naive x))
  | ["now", d, n] => (parseInstant (d ++ ":" ++ n)).map .now
  | ["A", z, d, n] => (parseInstant (d ++ ":" ++ n)).map (fun x => .dt (.aware ⟨x, z⟩))
  | _ => none

def Inp.val : Inp → Option (DateTimeMaybeAware String)
  | .dt d => some d
  | .now n => some (DateTimeMaybeAware.unwrapOrNow n none)
  | .conv => none

/-! ## comparison of result tokens -/

/-- `A:<zone>:<day>:<ns>:<off>` → (zone, wall, off) -/
def parseAware (t : String) : Option (String × Int × Int) :=
  match t.splitOn ":" with
  | ["A", z, d, n, o] =>
    match parseInstant (d ++ ":" ++ n), o.toInt? with
    | some w, some o => some (z, w, o)
    | _, _ => none
  | _ => none

/-- 2100-01-01 in `Cal.Day` numbering × ns: from here on chrono-tz applies no daylight-saving rule -/
def horizon : Int := 766645 * nsPerDay
/-- 1970-01-01: before it the system tz database (built with `backzone`) and chrono-tz's differ for
many zones -/
def epoch : Int := 719163 * nsPerDay

/-- finding class of a tz-database difference at wall-clock time `w` (empty = none known) -/
def tzdbClass (w : Int) : String :=
  if w ≥ horizon then " class=tzdb-horizon" else if w < epoch then " class=tzdb-pre1970" else ""

/-- Python's `datetime` covers 0001-01-01 … 9999-12-31 -/
def pyRepresentable (w : Int) : Bool := decide (1 * nsPerDay ≤ w ∧ w < 3652060 * nsPerDay)

def tokWall (t : String) : Option Int :=
  match t.splitOn ":" with
  | "A" :: _ :: d :: n :: _ => parseInstant (d ++ ":" ++ n)
  | ["N", d, n] => parseInstant (d ++ ":" ++ n)
  | _ => none

/-- first difference between Python's and the core's tokens, as a clause -/
def diffToks : List String → List String → Option String
  | [], [] => none
  | p :: ps, r :: rs =>
    if p == r then diffToks ps rs
    else match parseAware p, parseAware r with
      | some (zp, wp, _), some (zr, wr, _) =>
        if zp != zr then some s!"zone py={p} core={r}"
        else if wp != wr then some s!"eq py={p} core={r}"
        else some s!"zone-offset{tzdbClass wp} py={p} core={r}"
      | _, _ => some s!"eq py={p} core={r}"
  | p :: _, [] => some s!"eq py={p} core=<end>"
  | [], r :: _ => some s!"eq py=<end> core={r}"

/-- strip the trailing `i=…` token of the Python side -/
def stripI (l : List String) : List String × Option String :=
  match l.getLast? with
  | some t => if t.startsWith "i=" then (l.dropLast, some (afterEq t)) else (l, none)
  | none => (l, none)

/-- Rust panics are `panic:<site>`; Python sees `PanicException` -/
def normCore (l : List String) : List String :=
  l.map (fun t => if t.startsWith "panic:" then "PanicException" else t)

/-- zone of a result token (`none` = naive or not a date-time) -/
def tokZone (t : String) : Option String :=
  match t.splitOn ":" with
  | "A" :: z :: _ => some z
  | _ => none

/-- the zone of the context according to the facts (`K:…;tz:Z` …) -/
def ctxZone (f : Facts) : Option String :=
  match f.k.splitOn ";" with
  | [_, l] =>
    if l.startsWith "tz:" || l.startsWith "tzc:" || l.startsWith "auto:" then some (afterColon l) else none
  | _ => none

def inZone : Option Inp → Option String
  | some (.dt (.aware a)) => some a.zone
  | _ => none

/-- "the zone of the context or else of the input" (`start`'s before `end`'s): the predicate of
`OH.Props.C12.py_next_change_zone`, `OH.Spec.Py.resultZone`, on the facts -/
def expectedZone (f : Facts) (i0 i1 : Option Inp) : Option String :=
  let loc : PyLocation (coreOf f).Zone := match ctxZone f with
    | some z => .aware ⟨z, none⟩
    | none => .naive
  let input : Option String := match inZone i0 with
    | some z => some z
    | none => inZone i1
  OH.Spec.Py.resultZone (coreOf f) loc input

def dtTokens (l : List String) : List String := l.filter (fun t => t.startsWith "A:" || t.startsWith "N:")

def zonesOK (exp : Option String) (l : List String) : Bool := (dtTokens l).all (fun t => tokZone t == exp)

/-- wall-clock reading carried by an input token of the OP line (`A:<zone>:<fold>:<day>:<ns>`) -/
def opAwareWall (t : String) : Option Int :=
  match t.splitOn ":" with
  | ["A", _, _, d, n] => parseInstant (d ++ ":" ++ n)
  | _ => none

/-- CPython's own idea of the instant of an aware input (wall − utcoffset) against chrono's -/
def inputInstantClause (optok : String) (pyOff : String) (inp : Option Inp) : Option String :=
  match opAwareWall optok, pyOff.toInt?, inp with
  | some w, some o, some (.dt (.aware a)) =>
    if w - o * 1000000000 == a.utc then none
    else some s!"input-instant{tzdbClass w} py-offset={o} chrono-utc={showInstant a.utc}"
  | _, _, _ => none

def kindLetter : Option Inp → String
  | some (.dt (.naive _)) => "n"
  | some (.dt (.aware _)) => "a"
  | some (.now _) => "w"
  | some .conv => "x"
  | none => "-"

def locLetter (f : Facts) : String := if (ctxZone f).isSome then "a" else "n"

/-! ## the ops -/

structure Line where
  op : String
  args : List String
  py : List String
  core : List String
  f : Facts

def d1Class (l : Line) : String :=
  if (l.f.parse.startsWith "panic:opening-hours-syntax/src/parser.rs") && (l.args.headD "").contains '/' then
    " class=D1-repeats-unwrap" else ""

def modelArgs (a : List String) : Option (Args String) :=
  match a with
  | oh :: tz :: country :: coords :: ac :: at_ :: _ =>
    let tz? : Option (Option String) :=
      if tz == "-" then some none else if tz.startsWith "Z:" then some (some (tz.drop 2).toString) else none
    let country? : Option (Option String) :=
      if country == "-" then some none else if country.startsWith "=" then some (some (dec (country.drop 1).toString)) else none
    match tz?, country?, parseCoords coords, parseFlag ac, parseFlag at_ with
    | some tz, some country, some coords, some ac, some at_ => some ⟨dec oh, tz, country, coords, ac, at_⟩
    | _, _, _, _, _ => none
  | _ => none

open OH.Spec.Py in
/-- the entry of the specification's decision table (`OH.Spec.Py.table`, theorem `py_ctx_table`) for
this call, from the arguments and the core's answers -/
def specOutcome (f : Facts) (a : Args String) : Outcome :=
  table a.timezone.isSome (givenCountry (coreOf f) a.country) (givenCoords a.coords) a.autoCountry a.autoTimezone
    (parseKind (coreOf f) a.oh)

open OH.Spec.Py in
/-- what was observed: the exception class Python raised, or the kind of the equivalent context
under which the core's results equal Python's -/
def observedOutcome (f : Facts) (py : List String) : Option Outcome :=
  match py with
  | ["E", "ctor", "InvalidCoordinatesError"] => some .invalidCoordinatesError
  | ["E", "ctor", "ParserError"] => some .parserError
  | ["E", "ctor", "UnknownCountryError"] => some .unknownCountryError
  | ["E", "ctor", "PanicException"] => some .panicException
  | "E" :: "ctor" :: _ => none
  | _ =>
    match f.k.splitOn ";" with
    | [h, l] =>
      let hk : Option HolKind :=
        if h == "none" then some .none else if h.startsWith "country:" then some .country
        else if h == "coords" then some .fromCoords else none
      let lk : Option LocKind :=
        if l == "naive" then some .naive else if l.startsWith "tz:" then some .awareTz
        else if l.startsWith "tzc:" then some .awareTzCoords else if l.startsWith "auto:" then some .awareFromCoords
        else none
      match hk, lk with
      | some hk, some lk => some (.built hk lk)
      | _, _ => none
    | _ => none

open OH.Spec.Py in
def showOutcome : Outcome → String
  | .invalidCoordinatesError => "InvalidCoordinatesError"
  | .parserError => "ParserError"
  | .unknownCountryError => "UnknownCountryError"
  | .panicException => "PanicException"
  | .built h l =>
    let hs := match h with | .none => "none" | .country => "country" | .fromCoords => "coords"
    let ls := match l with
      | .naive => "naive" | .awareTz => "tz" | .awareTzCoords => "tzc" | .awareFromCoords => "auto"
    s!"built:{hs};{ls}"

/-- clause `ctor-table`; also checks the model of `Coordinates::new` against the real one -/
def ctorTableClause (f : Facts) (a : Args String) (py : List String) : Option String :=
  let g := OH.Spec.Py.givenCoords a.coords
  let x := if g == .absent then "-" else if g == .valid then "1" else "0"
  if x != f.coordsOk then some s!"disagree coords-valid model={x} core={f.coordsOk}"
  else match observedOutcome f py with
    | none => some s!"fail ctor-table unexpected py={joinSp py}"
    | some o =>
      if o == specOutcome f a then none
      else some s!"fail ctor-table spec={showOutcome (specOutcome f a)} observed={showOutcome o}"

/-- tokens the model predicts for an evaluation op on a built object -/
def modelEval (l : Line) (o : PyOH (coreOf l.f)) (i0 i1 : Option Inp) : Option (List String) :=
  let f := l.f
  match l.op with
  | "py.ctor" => some ["R", "ok"]
  | "py.str" => some ["R", enc o.str]
  | "py.repr" => some ["R", enc o.str, enc o.repr]
  | "py.state" =>
    match i0 with
    | some .conv => some ["E", "call", "TypeError"]
    | some i =>
      match i.val with
      | none => none
      | some t =>
        match o.state t, o.isOpen t, o.isClosed t, o.isUnknown t with
        | .ok k, .ok a, .ok b, .ok c => some ["R", kindTok k, bit a ++ bit b ++ bit c]
        | .error p, _, _, _ => some (errTok "call" p)
        | _, _, _, _ => none
    | none => none
  | "py.next" =>
    match i0 with
    | some .conv => some ["E", "call", "TypeError"]
    | some i =>
      match i.val with
      | none => none
      | some t =>
        match o.nextChange t with
        | .ok r => some ["R", showOptDT f r]
        | .error p => some (errTok "call" p)
    | none => none
  | "py.normalize" =>
    match i0 with
    | some .conv => some ["E", "call", "TypeError"]
    | some i =>
      match i.val with
      | none => none
      | some t =>
        match o.normalize.nextChange t with
        | .ok r => some ["R", enc o.normalize.str, showOptDT f r]
        | .error p => some (errTok "call" p)
    | none => none
  | "py.intervals" =>
    match i0, i1 with
    | some .conv, _ => some ["E", "call", "TypeError"]
    | _, some .conv => some ["E", "call", "TypeError"]
    | some s, e =>
      match s.val with
      | none => none
      | some sv =>
        match o.intervals sv (e.bind Inp.val) with
        | .error p => some (errTok "iter" p)
        | .ok items =>
          let cut := match f.list with | some (_, _, c, _) => c == "cut" | none => false
          some (["R", if cut then "cut" else "all", toString items.length] ++
            items.flatMap (fun it =>
              [showDT f it.start, showOptDT f it.stop, kindTok it.kind, toString it.comments.length] ++ it.comments.map enc))
    | none, _ => none
  | _ => none

/-- the wall-clock ranges behind the results, by the SPECIFICATION's description (`OH.Spec.Py.dropSkipped`
for a context with a zone — spans the zone's clock skips are dropped —, every non-empty range otherwise;
then same-kind neighbours merged): `none` when a conversion it needs panicked or was not reported -/
def specNaiveRanges (f : Facts) (l : List Interval) : Option (List Interval) :=
  match ctxZone f with
  | some z =>
    match OH.Spec.Py.dropSkipped (coreOf f) z l with
    | .ok kept => some (Tz.mergeRanges kept)
    | .error _ => none
  | none => some (Tz.mergeRanges (l.filter (fun iv => decide (iv.start < iv.stop))))

/-- spec clause "None ⇔ the core's naive result is DATE_END (or there is none)" for `next_change` -/
def noneMappingNext (f : Facts) (py : List String) : Option String :=
  match f.first, py with
  | some (_, _, ending, l), ["R", v] =>
    if ending.startsWith "panic" then none else
    match specNaiveRanges f l with
    | none => none
    | some rs =>
      -- a prefix that was cut before any range was kept says nothing
      if rs.isEmpty && ending != "all" then none else
      let expectNone := match rs with
        | [] => true
        | iv :: _ => decide (iv.stop ≥ instEnd)
      if expectNone == (v == "none") then none else some s!"none-mapping py={v}"
  | _, _ => none

/-- … and for the items of `intervals`: end `None` ⇔ the naive end is DATE_END -/
def noneMappingItems (f : Facts) (py : List String) : Option String :=
  match f.list, py with
  | some (_, _, ending, l), "R" :: _ :: n :: items =>
    if ending.startsWith "panic" then none else
    match specNaiveRanges f l with
    | none => none
    | some ivs =>
      let rec go : List Interval → List String → Option String
        | [], _ => none
        | iv :: ivs, _ :: e :: _ :: k :: rest =>
          let nc := k.toNat?.getD 0
          if decide (iv.stop = instEnd) == (e == "none") then go ivs (rest.drop nc)
          else some s!"none-mapping end={e} core-end={showInstant iv.stop}"
        | _ :: _, _ => none
      if n.toNat? == some ivs.length then go ivs items else none
  | _, _ => none

/-- for `now` ops the two sides read two different clocks: hide the start of the first item -/
def hideNowStart (l : List String) : List String :=
  match l with
  | "R" :: c :: n :: _ :: rest => "R" :: c :: n :: "*" :: rest
  | _ => l

def handleLine (l : Line) : String :=
  let f := l.f
  let (py, pyI) := stripI l.py
  let core := normCore l.core
  -- 0. protocol problems
  if f.bad then "bad facts" else
  if py.head? == some "driver-error" then s!"bad {joinSp py}" else
  if py.any (fun t => t.startsWith "X:") then s!"fail py-type py={joinSp py}" else
  -- 1. no call surfaces a Rust panic
  if py.contains "PanicException" then s!"fail no-panic{d1Class l} py={joinSp py} core={joinSp l.core}" else
  -- validate has its own small story
  if l.op == "py.validate" then
    let model := match validate (coreOf f) (dec (l.args.headD "")) with
      | .ok b => ["R", bit b]
      | .error e => ["E", "call", pyErrTok e]
    if py != core then s!"fail eq py={joinSp py} core={joinSp core}"
    else if model != py then s!"disagree result model={joinSp model}"
    else s!"ok validate-{py.getLastD "?"}"
  else
  if l.op == "py.enum" then
    let ks := [Kind.open, Kind.closed, Kind.unknown]
    let ord := stateRank .open < stateRank .closed && stateRank .closed < stateRank .unknown
    let model := ["R"] ++ ks.map stateStr ++ [bit ord ++ "11"]
    if py != core then s!"fail eq py={joinSp py} core={joinSp core}"
    else if model != py then s!"disagree result model={joinSp model}"
    else "ok enum"
  else
  if l.op == "py.valctor" then
    let a : Args String := ⟨dec (l.args.headD ""), none, none, none, some true, some true⟩
    let model := match validate (coreOf f) a.oh, ctor (coreOf f) a with
      | .ok b, .ok _ => ["R", bit b, "ok"]
      | .ok b, .error e => ["R", bit b, pyErrTok e]
      | .error e, _ => ["E", "call", pyErrTok e]
    if py != core then s!"fail eq py={joinSp py} core={joinSp core}"
    else match py with
      | ["R", v, c] =>
        if (v == "1") != (c == "ok") then s!"fail validate-iff py={joinSp py}"
        else if model != py then s!"disagree result model={joinSp model}"
        else s!"ok valctor-{v}"
      | _ => s!"fail eq py={joinSp py} core={joinSp core}"
  else
  -- inputs as chrono sees them
  let i0 := (f.ins[0]?).bind parseIn
  let i1 := (f.ins[1]?).bind parseIn
  let isNow := match i0 with | some (.now _) => true | _ => false
  -- 2. exceptions: the class the core's outcome calls for
  match py, core with
  | "E" :: _, _ | _, "E" :: _ =>
    -- a result Python's `datetime` cannot hold (year 0): ValueError / OverflowError is all it can do
    let unrep := core.any (fun t => match tokWall t with | some w => !pyRepresentable w | none => false)
    if unrep && (match py with | ["E", _, c] => c == "ValueError" || c == "OverflowError" | _ => false) then
      "ok py-range"
    else
    if py != core then s!"fail exc py={joinSp py} core={joinSp core}"
    else
      -- model: the constructor's decision table / the conversion errors
      let conv := core == ["E", "ctor", "TypeError"]
      if conv then
        -- a `ZoneInfo` CPython knows and chrono-tz does not is refused; anything that is not a
        -- `ZoneInfo` is outside the signature
        (if (l.args.getD 1 "").startsWith "Z:" then
          s!"fail ctor-timezone class=tzdb-zone-missing zone={l.args.getD 1 ""} py={joinSp py}"
         else "ok conv-error-ctor") else
      match modelArgs l.args with
      | none => "bad args"
      | some a =>
        match (if py.getD 1 "" == "ctor" then ctorTableClause f a py else none) with
        | some c => c
        | none =>
        match ctor (coreOf f) a with
        | .error e =>
          if py == ["E", "ctor", pyErrTok e] then s!"ok ctor-{pyErrTok e}"
          else s!"disagree ctor model={pyErrTok e}"
        | .ok c =>
          match modelEval l (PyCtx.build (coreOf f) c) i0 i1 with
          | some m =>
            if m != py then s!"disagree result model={joinSp m}"
            else
              -- an aware date-time the binding refuses (TypeError): the property promises an answer
              let dts := l.args.drop 6
              if dts.any (fun t => t.startsWith "U:" || t.startsWith "F:") then
                s!"fail aware-input class=tzinfo-not-zoneinfo py={joinSp py}"
              else if (dts.zip [i0, i1]).any (fun (t, i) => t.startsWith "A:" && (match i with | some .conv => true | _ => false)) then
                s!"fail aware-input class=local-time-in-gap py={joinSp py}"
              else s!"ok conv-error-{kindLetter i0}{kindLetter i1}"
          | none => "bad model-eval"
  | _, _ =>
    -- 3. equality with the core, zone by zone
    let (pyC, coreC) := if isNow && l.op == "py.intervals" then (hideNowStart py, hideNowStart core) else (py, core)
    let pyCmp := match l.op, pyC with
      | "py.repr", "R" :: s :: _ => ["R", s]
      | "py.eq", _ => coreC
      | _, _ => pyC
    match diffToks pyCmp coreC with
    | some c => s!"fail {c}"
    | none =>
    -- 4. the instant of aware inputs
    let offs := (pyI.getD "").splitOn ","
    let optoks := l.args.drop 6
    match inputInstantClause (optoks.headD "") (offs.headD "") i0 with
    | some c => s!"fail {c}"
    | none =>
    match inputInstantClause (optoks.getD 1 "") (offs.getD 1 "") i1 with
    | some c => s!"fail {c}"
    | none =>
    -- 5. zone carried, None mapping
    let resToks := match l.op with | "py.normalize" => py.drop 2 | _ => py
    if (l.op == "py.next" || l.op == "py.normalize" || l.op == "py.intervals") && !zonesOK (expectedZone f i0 i1) resToks then
      s!"fail zone-carried expected={(expectedZone f i0 i1).getD "naive"} py={joinSp py}"
    else
    match (if l.op == "py.next" then noneMappingNext f py
           else if l.op == "py.normalize" then noneMappingNext f ("R" :: py.drop 2)
           else if l.op == "py.intervals" then noneMappingItems f py else none) with
    | some c => s!"fail {c}"
    | none =>
    -- 6. op-specific clauses
    let extra : Option String :=
      match l.op, py with
      | "py.repr", ["R", _, ev, r] =>
        let rs := dec r
        if !(rs.startsWith "OpeningHours(\"" && rs.endsWith "\")") then some s!"fail repr-shape py={r}"
        else if ev == "1" then none
        else if (rs.splitOn "\\u{").length > 1 then some s!"fail eval-repr class=repr-rust-escape eval={ev} repr={r}"
        else if ev == "E:ParserError" then some s!"fail eval-repr class=D14-display-reparse eval={ev} repr={r}"
        else some s!"fail eval-repr eval={ev} repr={r}"
      | "py.eq", ["R", e, h] =>
        if e.startsWith "1" && h.startsWith "1" then none else some s!"fail eq-self py={joinSp py}"
      | _, _ => none
    match extra with
    | some c => c
    | none =>
    -- 7. the decision table of the specification, then the model
    match modelArgs l.args with
    | none => "bad args"
    | some a =>
      match ctorTableClause f a py with
      | some c => c
      | none =>
      match ctor (coreOf f) a with
      | .error e => s!"disagree ctor model={pyErrTok e}"
      | .ok c =>
        if ctxDesc f c != f.k then s!"disagree ctx model={ctxDesc f c} core={f.k}" else
        let tag :=
          match l.op, py with
          | "py.ctor", _ => s!"ctor-ok-{((f.k.splitOn ";").getD 1 "?").takeWhile (· != ':')}"
          | "py.state", _ => s!"state-{locLetter f}{kindLetter i0}"
          | "py.next", ["R", v] => s!"next-{locLetter f}{kindLetter i0}-{if v == "none" then "none" else "some"}"
          | "py.normalize", _ => "normalize"
          | "py.intervals", "R" :: c :: n :: _ =>
            s!"ivs-{locLetter f}{kindLetter i0}{kindLetter i1}-{if n == "0" then "empty" else c}"
          | "py.str", _ => "str"
          | "py.repr", _ => "repr"
          | "py.eq", ["R", e, _] => if e == "101" then "eq-identity" else if e == "110" then "eq-structural" else s!"eq-{e}"
          | _, _ => "other"
        if l.op == "py.eq" then s!"ok {tag}" else
        match modelEval l (PyCtx.build (coreOf f) c) i0 i1 with
        | none => "bad model-eval"
        | some m =>
          let m := if isNow && l.op == "py.intervals" then hideNowStart m else m
          let pyM := match l.op, pyC with
            | "py.repr", ["R", s, _, r] => ["R", s, r]
            | _, _ => pyC
          if m == pyM then s!"ok {tag}" else s!"disagree result model={joinSp m}"

def handle (op : String) (args impl : List String) : Option String :=
  let (py, rest) := splitAt "||" impl
  let (core, facts) := splitAt "##" rest
  if rest.isEmpty then some "bad no-core-side" else
  some (handleLine ⟨op, args, py, core, parseFacts facts {}⟩)

end OH.Driver.Py
