/-
C19 on the code as it is NOW: the five arithmetic functions of `opening-hours-syntax/src/extended_time.rs`
are translated from the Rust source on every run (`translators/rs2lean.py` → `OH/Generated/Arith.lean`,
machine integers with every overflow / panic an explicit outcome, `OH/Model/RustInt.lean`).  For ALL
values of the machine types this file proves that each generated definition

 (a) never reaches an overflow or panic outcome, and
 (b) equals the hand-written model (`OH/Model/ExtendedTime.lean`) under the value embedding `emb`,

and restates the headline clauses of `OH/Props/C19.lean` directly on the generated definitions.
An edit of the Rust source that changes what a function computes changes the generated definition and
breaks a theorem here.
-/
import OH.Generated.Arith
import OH.Proofs.RustInt
import OH.Props.C19
namespace OH.Props.ArithC19
open OH.Model.RustInt
open OH.Generated.Arith

abbrev MTime := OH.Model.ExtendedTime
abbrev GTime := OH.Generated.Arith.ExtendedTime

/-- the value embedding: a model value (two `Nat`) as a value of the Rust struct (two `u8` as `Int`) -/
def emb (t : MTime) : GTime := { hour := t.hour, minute := t.minute }

/-- both fields are `u8` -/
def IsU8 (t : MTime) : Prop := t.hour ≤ 255 ∧ t.minute ≤ 255

theorem emb_inj (a b : MTime) (h : emb a = emb b) : a = b := by
  cases a; cases b; simp [emb] at h; simp; omega

/-! ## (b) the generated definitions equal the hand-written model, for every input of the machine types -/

/-- `ExtendedTime::new(hour: u8, minute: u8)` -/
theorem new_eq_model (h m : Nat) (_hh : h ≤ 255) (_hm : m ≤ 255) :
    ExtendedTime.new h m = .ok ((OH.Model.ExtendedTime.new h m).map emb) := by
  unfold ExtendedTime.new OH.Model.ExtendedTime.new
  by_cases c1 : h > 48 <;> by_cases c2 : m > 59 <;> by_cases c3 : h = 48 <;> by_cases c4 : m > 0 <;>
    simp [c1, c2, c3, c4, emb] <;> omega

/-- `mins_from_midnight(self) -> u16`: `u16` arithmetic cannot overflow on two `u8` -/
theorem mins_eq_model (t : MTime) (ht : IsU8 t) :
    ExtendedTime.mins_from_midnight (emb t) = .ok (t.mins : Int) := by
  obtain ⟨h1, h2⟩ := ht
  unfold ExtendedTime.mins_from_midnight OH.Model.ExtendedTime.mins emb
  rs_ok
  simp

/-- `from_mins_from_midnight(minute: u16)` -/
theorem fromMins_eq_model (n : Nat) (hn : n ≤ 65535) :
    ExtendedTime.from_mins_from_midnight n = .ok ((OH.Model.ExtendedTime.fromMins n).map emb) := by
  unfold ExtendedTime.from_mins_from_midnight OH.Model.ExtendedTime.fromMins
  have e1 : Int.tdiv (n : Int) 60 = ((n / 60 : Nat) : Int) := by
    rw [Int.tdiv_eq_ediv_of_nonneg (by omega)]; simp
  have e2 : Int.tmod (n : Int) 60 = ((n % 60 : Nat) : Int) := by
    rw [Int.tmod_eq_emod_of_nonneg (by omega)]; simp
  rw [e1, e2]
  by_cases c : n / 60 > 255
  · rw [if_pos c]; rs_ok; rfl
  · rw [if_neg c]; rs_ok
    exact new_eq_model _ _ (by omega) (by omega)

/-- `add_minutes(self, minutes: i16)` -/
theorem addMinutes_eq_model (t : MTime) (d : Int) (ht : IsU8 t) (_hd : -32768 ≤ d ∧ d ≤ 32767) :
    ExtendedTime.add_minutes (emb t) d = .ok ((OH.Model.ExtendedTime.addMinutes t d).map emb) := by
  have hm : t.mins ≤ 15555 := by
    obtain ⟨h1, h2⟩ := ht; unfold OH.Model.ExtendedTime.mins; omega
  unfold ExtendedTime.add_minutes OH.Model.ExtendedTime.addMinutes
  rw [mins_eq_model t ht]
  simp only
  by_cases c1 : (t.mins : Int) + d < -32768 ∨ (t.mins : Int) + d > 32767
  · rw [if_pos c1]; rs_ok; rfl
  · rw [if_neg c1]
    by_cases c2 : (t.mins : Int) + d < 0
    · rw [if_pos c2]; rs_ok; rfl
    · rw [if_neg c2]; rs_ok
      obtain ⟨k, hk⟩ : ∃ k : Nat, (t.mins : Int) + d = k := ⟨((t.mins : Int) + d).toNat, by omega⟩
      rw [hk, Int.toNat_natCast]
      exact fromMins_eq_model k (by omega)

/-- `add_hours(self, hours: i8)`: the `i16` sum of a `u8` and an `i8` cannot overflow -/
theorem addHours_eq_model (t : MTime) (d : Int) (ht : IsU8 t) (hd : -128 ≤ d ∧ d ≤ 127) :
    ExtendedTime.add_hours (emb t) d = .ok ((OH.Model.ExtendedTime.addHours t d).map emb) := by
  obtain ⟨h1, h2⟩ := ht
  unfold ExtendedTime.add_hours OH.Model.ExtendedTime.addHours
  have eh : (emb t).hour = (t.hour : Int) := rfl
  have em : (emb t).minute = (t.minute : Int) := rfl
  rw [eh, em]
  simp only
  by_cases c : (t.hour : Int) + d < 0 ∨ (t.hour : Int) + d > 255
  · rw [if_pos c]; rs_ok; rfl
  · rw [if_neg c]; rs_ok
    obtain ⟨k, hk⟩ : ∃ k : Nat, (t.hour : Int) + d = k := ⟨((t.hour : Int) + d).toNat, by omega⟩
    rw [hk, Int.toNat_natCast]
    exact new_eq_model k t.minute (by omega) (by omega)

/-! ## (a) no overflow, no panic: every call returns a value -/

theorem new_total (h m : Nat) (hh : h ≤ 255) (hm : m ≤ 255) : ∃ r, ExtendedTime.new h m = .ok r :=
  ⟨_, new_eq_model h m hh hm⟩

theorem mins_total (t : MTime) (ht : IsU8 t) : ∃ r, ExtendedTime.mins_from_midnight (emb t) = .ok r :=
  ⟨_, mins_eq_model t ht⟩

theorem fromMins_total (n : Nat) (hn : n ≤ 65535) : ∃ r, ExtendedTime.from_mins_from_midnight n = .ok r :=
  ⟨_, fromMins_eq_model n hn⟩

theorem addMinutes_total (t : MTime) (d : Int) (ht : IsU8 t) (hd : -32768 ≤ d ∧ d ≤ 32767) :
    ∃ r, ExtendedTime.add_minutes (emb t) d = .ok r := ⟨_, addMinutes_eq_model t d ht hd⟩

theorem addHours_total (t : MTime) (d : Int) (ht : IsU8 t) (hd : -128 ≤ d ∧ d ≤ 127) :
    ∃ r, ExtendedTime.add_hours (emb t) d = .ok r := ⟨_, addHours_eq_model t d ht hd⟩

/-! ## the headline clauses of C19, on the generated definitions -/

theorem wf_isU8 (t : MTime) (h : C19.WF t) : IsU8 t := by
  obtain ⟨h1, h2, _⟩ := h; constructor <;> omega

/-- "can be built exactly for 00:00 up to and including 48:00 with minutes below 60" -/
theorem gen_new_some_iff (h m : Nat) (hh : h ≤ 255) (hm : m ≤ 255) :
    (∃ t, ExtendedTime.new h m = .ok (some t)) ↔ ((h ≤ 47 ∧ m ≤ 59) ∨ (h = 48 ∧ m = 0)) := by
  rw [new_eq_model h m hh hm]
  have key := C19.new_some_iff h m
  constructor
  · intro ⟨t, ht⟩
    cases hn : OH.Model.ExtendedTime.new h m with
    | none => rw [hn] at ht; cases ht
    | some u => have := key.mp ⟨u, hn⟩; omega
  · intro hh'
    obtain ⟨u, hu⟩ := key.mpr (by omega)
    exact ⟨emb u, by rw [hu]; rfl⟩

/-- a constructed value carries exactly the arguments -/
theorem gen_new_fields (h m : Nat) (hh : h ≤ 255) (hm : m ≤ 255) (t : GTime)
    (ht : ExtendedTime.new h m = .ok (some t)) : t.hour = h ∧ t.minute = m := by
  rw [new_eq_model h m hh hm] at ht
  cases hn : OH.Model.ExtendedTime.new h m with
  | none => rw [hn] at ht; cases ht
  | some u =>
    rw [hn] at ht
    obtain ⟨a, b, _⟩ := C19.new_eq h m u hn
    have : emb u = t := by simpa using ht
    subst this
    simp [emb, a, b]

/-- conversion to and from minutes are inverse (1): `from_mins_from_midnight` succeeds exactly on
0..=2880 and the result has that minute count -/
theorem gen_fromMins_some_iff (n : Nat) (hn : n ≤ 65535) :
    (∃ t, ExtendedTime.from_mins_from_midnight n = .ok (some t)) ↔ n ≤ 2880 := by
  rw [fromMins_eq_model n hn, ← C19.fromMins_some_iff]
  constructor
  · intro ⟨t, ht⟩
    cases hf : OH.Model.ExtendedTime.fromMins n with
    | none => rw [hf] at ht; cases ht
    | some u => exact ⟨u, rfl⟩
  · intro ⟨u, hu⟩
    exact ⟨emb u, by rw [hu]; rfl⟩

theorem gen_mins_fromMins (n : Nat) (hn : n ≤ 65535) (u : MTime)
    (h : ExtendedTime.from_mins_from_midnight n = .ok (some (emb u))) :
    ExtendedTime.mins_from_midnight (emb u) = .ok (n : Int) := by
  rw [fromMins_eq_model n hn] at h
  cases hf : OH.Model.ExtendedTime.fromMins n with
  | none => rw [hf] at h; cases h
  | some v =>
    rw [hf] at h
    have hv : emb v = emb u := by simpa using h
    have := emb_inj _ _ hv
    subst this
    have hm := C19.mins_fromMins n v hf
    have hw : IsU8 v := by
      unfold OH.Model.ExtendedTime.fromMins at hf
      split at hf
      · cases hf
      · obtain ⟨a, b, w⟩ := C19.new_eq _ _ _ hf
        exact wf_isU8 v w
    rw [mins_eq_model v hw, hm]

/-- conversion to and from minutes are inverse (2): `from_mins_from_midnight ∘ mins_from_midnight = id` -/
theorem gen_fromMins_mins (t : MTime) (h : C19.WF t) :
    ∃ n : Nat, ExtendedTime.mins_from_midnight (emb t) = .ok (n : Int) ∧
      ExtendedTime.from_mins_from_midnight n = .ok (some (emb t)) := by
  refine ⟨t.mins, mins_eq_model t (wf_isU8 t h), ?_⟩
  have := C19.mins_le t h
  rw [fromMins_eq_model t.mins (by omega), C19.fromMins_mins t h]
  rfl

/-- `add_minutes` is integer addition on the minute count, `None` exactly outside 00:00..48:00 -/
theorem gen_addMinutes_spec (t : MTime) (d : Int) (h : C19.WF t) (hd : -32768 ≤ d ∧ d ≤ 32767) :
    ExtendedTime.add_minutes (emb t) d =
      if 0 ≤ (t.mins : Int) + d ∧ (t.mins : Int) + d ≤ 2880
      then ExtendedTime.from_mins_from_midnight (((t.mins : Int) + d).toNat : Int) else .ok none := by
  rw [addMinutes_eq_model t d (wf_isU8 t h) hd, C19.addMinutes_spec t d h hd]
  split
  · rw [fromMins_eq_model _ (by omega)]
  · rfl

theorem gen_addMinutes_none_iff (t : MTime) (d : Int) (h : C19.WF t) (hd : -32768 ≤ d ∧ d ≤ 32767) :
    ExtendedTime.add_minutes (emb t) d = .ok none ↔ ((t.mins : Int) + d < 0 ∨ (t.mins : Int) + d > 2880) := by
  rw [addMinutes_eq_model t d (wf_isU8 t h) hd, ← C19.addMinutes_none_iff t d h hd]
  cases OH.Model.ExtendedTime.addMinutes t d <;> simp

/-- a successful `add_minutes` has exactly the summed minute count -/
theorem gen_addMinutes_mins (t u : MTime) (d : Int) (h : C19.WF t) (hd : -32768 ≤ d ∧ d ≤ 32767)
    (hu : ExtendedTime.add_minutes (emb t) d = .ok (some (emb u))) :
    (u.mins : Int) = t.mins + d := by
  rw [addMinutes_eq_model t d (wf_isU8 t h) hd] at hu
  cases ha : OH.Model.ExtendedTime.addMinutes t d with
  | none => rw [ha] at hu; cases hu
  | some v =>
    rw [ha] at hu
    have hv : emb v = emb u := by simpa using hu
    have := emb_inj _ _ hv
    subst this
    exact C19.addMinutes_mins t v d h hd ha

/-- `add_hours` is integer addition of 60-minute steps, `None` exactly outside 00:00..48:00 -/
theorem gen_addHours_spec (t : MTime) (d : Int) (h : C19.WF t) (hd : -128 ≤ d ∧ d ≤ 127) :
    ExtendedTime.add_hours (emb t) d =
      if 0 ≤ (t.mins : Int) + 60 * d ∧ (t.mins : Int) + 60 * d ≤ 2880
      then ExtendedTime.from_mins_from_midnight (((t.mins : Int) + 60 * d).toNat : Int) else .ok none := by
  rw [addHours_eq_model t d (wf_isU8 t h) hd, C19.addHours_spec t d h hd]
  split
  · rw [fromMins_eq_model _ (by omega)]
  · rfl

/-! non-vacuity: the generated definitions compute (the doc-test values of extended_time.rs) -/
example : ExtendedTime.new 28 30 = .ok (some ⟨28, 30⟩) ∧ ExtendedTime.new 72 15 = .ok none ∧
    ExtendedTime.new 24 60 = .ok none ∧ ExtendedTime.new 48 0 = .ok (some ⟨48, 0⟩) ∧
    ExtendedTime.new 48 1 = .ok none := ⟨rfl, rfl, rfl, rfl, rfl⟩
example : ExtendedTime.add_minutes ⟨24, 0⟩ 75 = .ok (some ⟨25, 15⟩) ∧
    ExtendedTime.add_minutes ⟨24, 0⟩ 1441 = .ok none ∧ ExtendedTime.add_minutes ⟨24, 0⟩ (-1441) = .ok none :=
  ⟨rfl, rfl, rfl⟩
example : ExtendedTime.add_hours ⟨24, 15⟩ 3 = .ok (some ⟨27, 15⟩) ∧ ExtendedTime.add_hours ⟨24, 15⟩ 25 = .ok none ∧
    ExtendedTime.add_hours ⟨24, 15⟩ (-25) = .ok none := ⟨rfl, rfl, rfl⟩
example : ExtendedTime.from_mins_from_midnight 1575 = .ok (some ⟨26, 15⟩) ∧
    ExtendedTime.from_mins_from_midnight 65000 = .ok none := ⟨rfl, rfl⟩
example : C19.WF ⟨48, 0⟩ ∧ IsU8 ⟨255, 255⟩ ∧
    ExtendedTime.mins_from_midnight (emb ⟨255, 255⟩) = .ok 15555 :=
  ⟨by simp [C19.WF], by simp [IsU8], rfl⟩

end OH.Props.ArithC19
