import OH.Generated.Tables
import OH.Model.ExtendedTime
/-
Tie 1 for data-like code (DESIGN §8.8): the hand-written model uses exactly the constants and look-up
tables that translators/tables2lean.py extracts from the Rust sources on every run
(OH/Generated/Tables.lean).  A changed constant, a permuted or missing match arm, a changed separator or
name in /repo breaks one of these kernel-checked obligations.
-/
namespace OH.Props.TablesC19
open OH.Model OH.Generated


theorem C19_midnights :
    Tables.midnights = [(0, ExtendedTime.midnight00.hour, ExtendedTime.midnight00.minute),
      (24, ExtendedTime.midnight24.hour, ExtendedTime.midnight24.minute),
      (48, ExtendedTime.midnight48.hour, ExtendedTime.midnight48.minute)] := by decide

end OH.Props.TablesC19
