/-
C15 on the code as it is NOW, continued: `CompactCalendar` (compact-calendar/src/lib.rs): `year_for`,
`contains`, `first_after`, `count` are translated from the Rust source on every run
(`translators/rs2lean.py` → `OH.Generated.Arith.CompactCalendar.*`).  The `VecDeque<CompactYear>` is the
`List` of its elements (front first), `first_year: i32` an `Int`.  What belongs to chrono is NOT
translated: the results of `date.year()`, `date.month()`, `date.day()` are the parameters `ext_date_year`,
`ext_date_month`, `ext_date_day` of the generated definitions (one per getter of the by-value parameter
`date`: the getters of a `NaiveDate` are functions of the date; the theorems pass them BY NAME, so a
definition that swaps two getters is a different one), a `NaiveDate` built by
`NaiveDate::from_ymd_opt(y, m, d).expect(..)` is kept as the triple of the arguments, and WHETHER
`from_ymd_opt` returns `Some` is the parameter `from_ymd_opt_is_some`, about which the theorems make the
explicit hypothesis `hvalid` (it is the model's `validYmd`).  `self.iter().next()` (a `flat_map` chain,
not translated) is the parameter `ext1` of `first_after`; hypothesis `hnext`: it is what the model's
`next (iter c)` returns when that is a value.

For EVERY calendar of `u32` masks with an `i32` first year and EVERY date with `i32` year and `u32`
month / day the generated definition and the hand-written model
(`OH.Model.CompactCalendar.CompactCalendar.yearFor/contains/firstAfter/count`) agree: the same value, an
error outcome (overflow of `date.year() - self.first_year`, of `date.year() + 1`, of the `RangeFrom<i32>`
counter, of the `u32` sum; the assertion panics of `CompactYear`; "invalid date loaded from calendar")
on one side exactly when the model has one (`AgreeE`).
-/
import OH.Props.ArithC15Iter
set_option linter.unusedSimpArgs false
namespace OH.Props.ArithC15Cal
open OH.Model.RustInt
open OH.Generated.Arith (CompactYear CompactMonth)
open OH.Model.CompactCalendar (Date Year validYmd expectYmd)
open OH.Props.ArithC15 (Agree)
open OH.Props.ArithC15Mut (toGen)
open OH.Props.ArithC15Iter (pairCast pairRel year_first_eq year_firstAfter_agree year_count_agree)

/-- the generated outcome and the model outcome agree: related values, or an error outcome on both
sides (the model writes overflow panics and explicit panics alike as `.error site`) -/
inductive AgreeE {α β : Type} (rel : α → β → Prop) : R α → Except String β → Prop
  | value (a : α) (b : β) (h : rel a b) : AgreeE rel (.ok a) (.ok b)
  | error (e : Err) (site : String) : AgreeE rel (.error e) (.error site)

theorem AgreeE.of_agree {α β : Type} {rel : α → β → Prop} {x : R α} {y : Except String β}
    (h : Agree rel x y) : AgreeE rel x y := by
  cases h with
  | value a b h => exact .value a b h
  | panic msg site => exact .error _ _

/-- the model's calendar as the generated structure -/
def toGenCal (c : Model.CompactCalendar.CompactCalendar) : Generated.Arith.CompactCalendar :=
  ⟨c.firstYear, c.years.map toGen⟩

/-- every mask of the year is a `u32` -/
abbrev U32Year (y : Year) : Prop := ∀ (i : Nat) (h : i < 12), y[i] < 4294967296

/-- the calendar exists in memory: `u32` masks, `i32` first year -/
structure InMem (c : Model.CompactCalendar.CompactCalendar) : Prop where
  masks : ∀ y ∈ c.years, U32Year y
  first : InRange .i32 c.firstYear

/-- the date's getters return an `i32` / two `u32` -/
structure DateInMem (d : Date) : Prop where
  year : InRange .i32 d.year
  month : d.month < 4294967296
  day : d.day < 4294967296

/-- a `NaiveDate` value of the generated code: (year, month, day) -/
def dateTriple (d : Date) : Int × Int × Int := (d.year, (d.month : Int), (d.day : Int))

def dateRel (a : Option (Int × Int × Int)) (b : Option Date) : Prop := a = b.map dateTriple

/-! ### year_for, contains -/

/-- `CompactCalendar::year_for(&self, date)`: the `i32` subtraction overflows exactly where the model says,
`usize::try_from` fails exactly on a negative difference, `VecDeque::get` is `List` lookup -/
theorem yearFor_agree (c : Model.CompactCalendar.CompactCalendar) (date : Date) (hc : InMem c) (hd : DateInMem date) :
    AgreeE (fun a b => a = b.map toGen)
      (Generated.Arith.CompactCalendar.year_for (toGenCal c) (ext_date_year := date.year))
      (Model.CompactCalendar.CompactCalendar.yearFor c date) := by
  have hf := hc.first
  have hy := hd.year
  simp only [Generated.Arith.CompactCalendar.year_for, Model.CompactCalendar.CompactCalendar.yearFor,
    Model.CompactCalendar.CompactCalendar.yearIndex, toGenCal]
  by_cases ov : date.year - c.firstYear < -2147483648 ∨ date.year - c.firstYear > 2147483647
  · rw [if_pos ov]
    rs_ok
    exact .error _ _
  · rw [if_neg ov]
    by_cases ng : date.year - c.firstYear < 0
    · rw [if_pos ng]
      rs_ok
      exact .value _ _ rfl
    · rw [if_neg ng]
      rs_ok
      refine .value _ _ ?_
      simp only [List.getElem?_map]

/-- a year found by `year_for` has `u32` masks -/
theorem yearFor_mem (c : Model.CompactCalendar.CompactCalendar) (date : Date) (y : Year)
    (h : Model.CompactCalendar.CompactCalendar.yearFor c date = .ok (some y)) : y ∈ c.years := by
  simp only [Model.CompactCalendar.CompactCalendar.yearFor] at h
  split at h
  · cases h
  · cases h
  · simp only [Except.ok.injEq] at h
    exact List.mem_of_getElem? h

/-- `CompactCalendar::contains(&self, date)` -/
theorem contains_agree (c : Model.CompactCalendar.CompactCalendar) (date : Date) (hc : InMem c) (hd : DateInMem date) :
    AgreeE (fun a b => a = b)
      (Generated.Arith.CompactCalendar.contains (toGenCal c) (ext_date_year := date.year) (ext_date_month := date.month)
        (ext_date_day := date.day))
      (Model.CompactCalendar.CompactCalendar.contains c date) := by
  simp only [Generated.Arith.CompactCalendar.contains, Model.CompactCalendar.CompactCalendar.contains]
  have h := yearFor_agree c date hc hd
  have hmem := yearFor_mem c date
  generalize Generated.Arith.CompactCalendar.year_for (toGenCal c) (ext_date_year := date.year) = g at h ⊢
  generalize Model.CompactCalendar.CompactCalendar.yearFor c date = mo at h hmem ⊢
  cases h with
  | error e site => rw [bnd_error]; exact .error _ _
  | value a b hab =>
    rw [bnd_ok, hab]
    cases b with
    | none => exact .value _ _ rfl
    | some y =>
      simp only [Option.map_some]
      exact .of_agree (ArithC15Mut.year_contains_agree y (hc.masks y (hmem y rfl)) date.month date.day hd.day)

/-! ### count -/

theorem year_count_le (y : Year) : Model.CompactCalendar.Year.count y ≤ 384 := by
  unfold Model.CompactCalendar.Year.count
  have h : ∀ (l : List Nat), (l.map Model.CompactCalendar.Month.count).sum ≤ 32 * l.length := by
    intro l
    induction l with
    | nil => simp
    | cons m ms ih =>
      simp only [List.map_cons, List.sum_cons, List.length_cons, Model.CompactCalendar.Month.count, Model.CompactCalendar.countOnes] at ih ⊢
      have : (List.filter m.testBit (List.range 32)).length ≤ (List.range 32).length := List.length_filter_le _ _
      simp only [List.length_range] at this
      omega
  have := h y.toList
  simp only [Vector.length_toList] at this
  omega

theorem sum_year_count_cast (ys : List Year) :
    ((ys.map toGen).map fun (y : CompactYear) => ((Model.CompactCalendar.Year.count (y.v0.map fun mo => mo.v0.toNat) : Nat) : Int)).sum
      = (((ys.map Model.CompactCalendar.Year.count).sum : Nat) : Int) := by
  induction ys with
  | nil => rfl
  | cons y ys ih =>
    simp only [List.map_cons, List.sum_cons, Int.natCast_add] at ih ⊢
    rw [ih]
    congr 3
    simp only [toGen, Vector.map_map]
    apply Vector.ext
    intro i hi
    simp

/-- `CompactCalendar::count(&self)`: the sum of the years' counts; an overflow of one of the `u32`
additions of `Sum for u32` exactly when the total does not fit (as the model) -/
theorem count_agree (c : Model.CompactCalendar.CompactCalendar) (hc : InMem c) :
    AgreeE (fun a b => a = ((b : Nat) : Int))
      (Generated.Arith.CompactCalendar.count (toGenCal c))
      (Model.CompactCalendar.CompactCalendar.count c) := by
  simp only [Generated.Arith.CompactCalendar.count, Model.CompactCalendar.CompactCalendar.count, toGenCal, sumM]
  have hpt : ∀ gy ∈ c.years.map toGen, CompactYear.count gy
      = .ok ((Model.CompactCalendar.Year.count (gy.v0.map fun mo => mo.v0.toNat) : Nat) : Int) ∧
        (0 : Int) ≤ ((Model.CompactCalendar.Year.count (gy.v0.map fun mo => mo.v0.toNat) : Nat) : Int) := by
    intro gy hgy
    obtain ⟨y, hy, rfl⟩ := List.mem_map.mp hgy
    refine ⟨?_, by omega⟩
    have e : (toGen y).v0.map (fun mo => mo.v0.toNat) = y := by
      simp only [toGen, Vector.map_map]
      apply Vector.ext
      intro i hi
      simp
    rw [e]
    exact year_count_agree y (hc.masks y hy)
  have key := fun s => sumFromM_nonneg .u32 s (f := fun (y : CompactYear) => CompactYear.count y) (c.years.map toGen) 0
    hpt (by decide) (by decide)
  simp only [sum_year_count_cast, Ty.max] at key
  by_cases ov : (c.years.map Model.CompactCalendar.Year.count).sum > 4294967295
  · rw [if_pos ov]
    suffices H : ∀ s, ∃ e, sumFromM .u32 s (fun (y : CompactYear) => CompactYear.count y) 0 (c.years.map toGen) = .error e by
      obtain ⟨e, he⟩ := H _
      rw [he]
      exact .error _ _
    intro s
    exact (key s).2 (by omega)
  · rw [if_neg ov]
    suffices H : ∀ s, sumFromM .u32 s (fun (y : CompactYear) => CompactYear.count y) 0 (c.years.map toGen)
        = .ok (0 + (((c.years.map Model.CompactCalendar.Year.count).sum : Nat) : Int)) by
      rw [H _]
      exact .value _ _ (by omega)
    intro s
    exact (key s).1 (by omega)

/-! ### first_after -/

theorem bnd_pure {α : Type} (x : R α) : (bnd x fun t => .ok t) = x := by
  cases x <;> rfl

/-- what `year_for` returning a year says about the difference of the years -/
theorem yearFor_some (c : Model.CompactCalendar.CompactCalendar) (date : Date) (y : Year)
    (h : Model.CompactCalendar.CompactCalendar.yearFor c date = .ok (some y)) :
    0 ≤ date.year - c.firstYear ∧ date.year - c.firstYear ≤ 2147483647 ∧
    ∀ site, Model.CompactCalendar.CompactCalendar.yearIndex site c date = .ok (some (date.year - c.firstYear).toNat) := by
  simp only [Model.CompactCalendar.CompactCalendar.yearFor, Model.CompactCalendar.CompactCalendar.yearIndex] at h ⊢
  by_cases ov : date.year - c.firstYear < -2147483648 ∨ date.year - c.firstYear > 2147483647
  · rw [if_pos ov] at h; cases h
  · rw [if_neg ov] at h
    by_cases ng : date.year - c.firstYear < 0
    · rw [if_pos ng] at h; cases h
    · refine ⟨by omega, by omega, fun site => ?_⟩
      rw [if_neg ov, if_neg ng]

/-- `(start..).zip(years).find_map(|(year_i, year)| { let (month, day) = year.first()?; Some(from_ymd_opt(..).expect(..)) })`
against the model's `firstFrom`: the counter overflows exactly where the model says, the closure runs up
to the first year that has a day -/
theorem firstFrom_agree (valid : Int → Int → Int → Bool)
    (hvalid : ∀ (y : Int) (m d : Nat), valid y m d = validYmd y m d)
    (site s msg : String) (f : Int × CompactYear → R (Option (Int × Int × Int)))
    (ys : List Year)
    (hf : ∀ (yi : Int) (y : Year), y ∈ ys → f (yi, toGen y) =
        match Model.CompactCalendar.Year.first y with
        | none => .ok none
        | some p => if valid yi p.1 p.2 then .ok (some (yi, (p.1 : Int), (p.2 : Int))) else .error (.panic msg))
    (start : Int) (h0 : InRange .i32 start) :
    AgreeE dateRel (findMapZipFromM .i32 s f start (ys.map toGen))
      (Model.CompactCalendar.CompactCalendar.firstFrom site start ys) := by
  induction ys generalizing start with
  | nil =>
    rw [List.map_nil, findMapZipFromM, Model.CompactCalendar.CompactCalendar.firstFrom]
    by_cases ov : start ≥ 2147483647
    · rw [if_pos ov]; rs_ok; exact .error _ _
    · rw [if_neg ov]; rs_ok; exact .value _ _ rfl
  | cons y ys ih =>
    rw [List.map_cons, findMapZipFromM, Model.CompactCalendar.CompactCalendar.firstFrom]
    by_cases ov : start ≥ 2147483647
    · rw [if_pos ov]; rs_ok; exact .error _ _
    · rw [if_neg ov]
      rs_ok
      rw [hf start y (List.mem_cons_self ..)]
      cases Model.CompactCalendar.Year.first y with
      | none =>
        simp only [bnd_ok]
        exact ih (fun yi y' hy' => hf yi y' (List.mem_cons_of_mem _ hy')) (start + 1) (by in_range)
      | some p =>
        obtain ⟨m, d⟩ := p
        simp only [hvalid, expectYmd]
        by_cases v : validYmd start m d = true
        · simp only [v, if_true, bnd_ok]; exact .value _ _ rfl
        · simp only [v, if_false, bnd_error]; exact .error _ _

/-- `CompactCalendar::first_after(&self, date)` -/
theorem firstAfter_agree (c : Model.CompactCalendar.CompactCalendar) (date : Date) (hc : InMem c) (hd : DateInMem date)
    (valid : Int → Int → Int → Bool) (hvalid : ∀ (y : Int) (m d : Nat), valid y m d = validYmd y m d)
    (r0 : Option Date)
    (hnext : date.year < c.firstYear →
      Model.CompactCalendar.CompactCalendar.next (Model.CompactCalendar.CompactCalendar.iter c) = .ok r0) :
    AgreeE dateRel
      (Generated.Arith.CompactCalendar.first_after (toGenCal c) (ext_date_year := date.year) (ext_date_month := date.month)
        (ext_date_day := date.day) (ext1 := r0.map dateTriple) (from_ymd_opt_is_some := valid))
      (Model.CompactCalendar.CompactCalendar.firstAfter c date) := by
  simp only [Generated.Arith.CompactCalendar.first_after, Model.CompactCalendar.CompactCalendar.firstAfter]
  have h := yearFor_agree c date hc hd
  have hmem := yearFor_mem c date
  have hsome := yearFor_some c date
  generalize Generated.Arith.CompactCalendar.year_for (toGenCal c) (ext_date_year := date.year) = g at h ⊢
  generalize Model.CompactCalendar.CompactCalendar.yearFor c date = mo at h hmem hsome ⊢
  cases h with
  | error e site => rw [bnd_error]; exact .error _ _
  | value a b hab =>
    rw [bnd_ok, hab]
    cases b with
    | none =>
      simp only [Option.map_none, toGenCal]
      by_cases lt : date.year < c.firstYear
      · simp only [lt, decide_true, if_true]
        rw [hnext lt]
        exact .value _ _ rfl
      · simp only [lt, decide_false, if_false, Bool.false_eq_true]
        exact .value _ _ rfl
    | some y =>
      simp only [Option.map_some]
      have hy := hc.masks y (hmem y rfl)
      obtain ⟨d0, d1, hidx⟩ := hsome y rfl
      have h2 := year_firstAfter_agree y hy date.month date.day hd.day
      generalize CompactYear.first_after (toGen y) date.month date.day = g2 at h2 ⊢
      generalize Model.CompactCalendar.Year.firstAfter y date.month date.day = mo2 at h2 ⊢
      cases h2 with
      | panic msg site => rw [bnd_error]; exact .error _ _
      | value a2 b2 hab2 =>
        rw [bnd_ok, hab2]
        cases b2 with
        | some p =>
          obtain ⟨m, d⟩ := p
          simp only [Option.map_some, pairCast, hvalid, expectYmd]
          by_cases v : validYmd date.year m d = true
          · simp only [v, if_true, bnd_ok]; exact .value _ _ rfl
          · simp only [v, if_false, bnd_error]; exact .error _ _
        | none =>
          have hf := hc.first
          have hyr := hd.year
          simp only [Option.map_none, bnd_ok, hidx, toGenCal]
          rs_ok
          by_cases ov : date.year + 1 > 2147483647
          · rw [if_pos ov]; rs_ok; exact .error _ _
          · rw [if_neg ov]
            rs_ok
            rw [bnd_pure, bnd_pure, ← List.map_drop]
            simp (disch := omega) only [Int.toNat_add, Int.toNat_one, Nat.add_comm 1]
            apply firstFrom_agree valid hvalid
            · intro yi y' hy'
              have hy'' := hc.masks y' (List.mem_of_mem_drop hy')
              simp only [year_first_eq y' hy'', bnd_ok]
              cases Model.CompactCalendar.Year.first y' with
              | none => rfl
              | some p => rfl
            · in_range

/-- where the model returns a value (e.g. `Props/C15.firstAfter_total`: every invariant calendar, every
valid date), the generated definition returns the same date and no error outcome -/
theorem firstAfter_value (c : Model.CompactCalendar.CompactCalendar) (date : Date) (hc : InMem c) (hd : DateInMem date)
    (valid : Int → Int → Int → Bool) (hvalid : ∀ (y : Int) (m d : Nat), valid y m d = validYmd y m d)
    (r0 : Option Date)
    (hnext : date.year < c.firstYear →
      Model.CompactCalendar.CompactCalendar.next (Model.CompactCalendar.CompactCalendar.iter c) = .ok r0)
    (r : Option Date) (hr : Model.CompactCalendar.CompactCalendar.firstAfter c date = .ok r) :
    Generated.Arith.CompactCalendar.first_after (toGenCal c) (ext_date_year := date.year) (ext_date_month := date.month)
        (ext_date_day := date.day) (ext1 := r0.map dateTriple) (from_ymd_opt_is_some := valid) = .ok (r.map dateTriple) := by
  have h := firstAfter_agree c date hc hd valid hvalid r0 hnext
  rw [hr] at h
  generalize Generated.Arith.CompactCalendar.first_after (toGenCal c) (ext_date_year := date.year) (ext_date_month := date.month)
        (ext_date_day := date.day) (ext1 := r0.map dateTriple) (from_ymd_opt_is_some := valid) = g at h ⊢
  cases h with
  | value a b hab => rw [hab]

theorem contains_value (c : Model.CompactCalendar.CompactCalendar) (date : Date) (hc : InMem c) (hd : DateInMem date)
    (b : Bool) (hb : Model.CompactCalendar.CompactCalendar.contains c date = .ok b) :
    Generated.Arith.CompactCalendar.contains (toGenCal c) (ext_date_year := date.year) (ext_date_month := date.month)
        (ext_date_day := date.day) = .ok b := by
  have h := contains_agree c date hc hd
  rw [hb] at h
  generalize Generated.Arith.CompactCalendar.contains (toGenCal c) (ext_date_year := date.year) (ext_date_month := date.month)
        (ext_date_day := date.day) = g at h ⊢
  cases h with
  | value a b hab => rw [hab]

/-! non-vacuity: the empty calendar; a year difference that does not fit `i32` is the overflow outcome -/
example (valid : Int → Int → Int → Bool) :
    Generated.Arith.CompactCalendar.first_after ⟨0, []⟩ (ext_date_year := 2020) (ext_date_month := 1) (ext_date_day := 1)
      (ext1 := none) (from_ymd_opt_is_some := valid) = .ok none ∧
    Generated.Arith.CompactCalendar.contains ⟨0, []⟩ (ext_date_year := 2020) (ext_date_month := 1) (ext_date_day := 1)
      = .ok false ∧
    Generated.Arith.CompactCalendar.count ⟨0, []⟩ = .ok 0 := ⟨rfl, rfl, rfl⟩
example (valid : Int → Int → Int → Bool) (e : Option (Int × Int × Int)) :
    ∃ s, Generated.Arith.CompactCalendar.first_after ⟨-2147483648, []⟩ (ext_date_year := 2020) (ext_date_month := 1)
      (ext_date_day := 1) (ext1 := e) (from_ymd_opt_is_some := valid) = .error (.overflow s) := ⟨_, rfl⟩
/-- before the window the answer is whatever `self.iter().next()` returns -/
example (valid : Int → Int → Int → Bool) (e : Option (Int × Int × Int)) :
    Generated.Arith.CompactCalendar.first_after ⟨2021, []⟩ (ext_date_year := 2020) (ext_date_month := 1)
      (ext_date_day := 1) (ext1 := e) (from_ymd_opt_is_some := valid) = .ok e := rfl

end OH.Props.ArithC15Cal
