/-
C01 on the code as it is NOW: the year and week selectors with a step.  `impl DateFilter for
ds::YearRange` and `impl DateFilter for ds::WeekRange` (`filter`, opening-hours/src/filter/date_filter.rs)
are translated from the Rust source on every run (`translators/rs2lean.py` →
`OH.Generated.Arith.YearRange.filter`, `WeekRange.filter`): `**self.range.start()` is the accessor of
`RangeInclusive`, the dereference of the reference and `impl Deref` of the newtype; `let Ok(year) =
date.year().try_into() else { return false }` is the `u16` range test; `range.wrapping_contains(&year)`
calls the translated generic function at `u16` / `u8`; `checked_sub(..).or_else(|| ..).unwrap_or(0)`,
`saturating_sub` and `% self.step` (a remainder by zero is an explicit outcome) are the step
arithmetic.  The calls into chrono (`date.year()`, `date.iso_week().week()`) are NOT translated: their
results are the parameter `ext1`, and the theorems take it to be the model calendar's `year d` /
`isoWeek d`.

The tie: for EVERY range and step of the machine types and EVERY date the generated definition and the
hand-written evaluator model (`OH.Model.YearRange.filter`, `OH.Model.WeekRange.filter`) agree: the same
answer, the remainder-by-zero panic on one side exactly when the model has it (a step 0, which the
parser never produces), and no other panic / overflow outcome.
-/
import OH.Props.ArithC01Range
import OH.Proofs.RustInt
import OH.Model.Eval
namespace OH.Props.ArithC01Step
set_option linter.unusedSimpArgs false
open OH.Model.RustInt
open OH.Generated.Arith
open OH.Model (wrappingContains)
open OH.Props.ArithC01Range (wrappingContains_eq_model)

/-- the generated outcome and the model outcome agree: the same value, or the remainder-by-zero outcome
exactly where the model has its panic (never an overflow / `unwrap` outcome) -/
inductive AgreeDZ : R Bool → Except String Bool → Prop
  | value (b : Bool) : AgreeDZ (.ok b) (.ok b)
  | divZero (site e : String) : AgreeDZ (.error (.divZero site)) (.error e)

def genYear (r : OH.Model.YearRange) : OH.Generated.Arith.YearRange := ⟨⟨⟨r.lo⟩, ⟨r.hi⟩⟩, r.step⟩
def genWeek (r : OH.Model.WeekRange) : OH.Generated.Arith.WeekRange := ⟨⟨⟨r.lo⟩, ⟨r.hi⟩⟩, r.step⟩

/-- `wrapping_contains` on the machine values (`Int`) is the model's on `Nat` -/
theorem wrappingContains_cast (lo hi y : Nat) :
    wrappingContains (lo : Int) (hi : Int) (y : Int) = wrappingContains lo hi y := by
  unfold wrappingContains
  by_cases h : lo ≤ hi
  · have h' : (lo : Int) ≤ hi := by omega
    simp only [h, h', if_true, ↓reduceIte]
    by_cases c : lo ≤ y ∧ y ≤ hi
    · have c' : (lo : Int) ≤ y ∧ (y : Int) ≤ hi := by omega
      simp [c, c']
    · have c' : ¬ ((lo : Int) ≤ y ∧ (y : Int) ≤ hi) := by omega
      simp only [c, c', decide_false]
  · have h' : ¬ (lo : Int) ≤ hi := by omega
    simp only [h, h', if_false, ↓reduceIte]
    by_cases c : lo ≤ y ∨ y ≤ hi
    · have c' : (lo : Int) ≤ y ∨ (y : Int) ≤ hi := by omega
      simp [c, c']
    · have c' : ¬ ((lo : Int) ≤ y ∨ (y : Int) ≤ hi) := by omega
      simp only [c, c', decide_false]

theorem decide_cast_zero (k : Nat) : decide ((k : Int) = 0) = (k == 0) := by
  by_cases q : k = 0
  · subst q; rfl
  · have : ¬ ((k : Int) = 0) := by omega
    simp [this, q]

theorem decide_zero_cast (k : Nat) : decide ((0 : Int) = (k : Int)) = (k == 0) := by
  by_cases q : k = 0
  · subst q; rfl
  · have : ¬ ((0 : Int) = (k : Int)) := by omega
    simp [this, q]

theorem rem_u16 (s : String) (a b : Nat) : rem .u16 s (a : Int) (b : Int) =
    if b = 0 then .error (.divZero s) else .ok (((a % b : Nat) : Int)) := by
  unfold rem
  by_cases h : b = 0
  · subst h; simp
  · have : ¬ ((b : Int) = 0) := by omega
    simp only [this, h, if_false, Ty.signed, Bool.false_eq_true, false_and, ↓reduceIte]
    rw [Int.tmod_eq_emod_of_nonneg (by omega)]
    rfl

theorem rem_u8 (s : String) (a b : Nat) : rem .u8 s (a : Int) (b : Int) =
    if b = 0 then .error (.divZero s) else .ok (((a % b : Nat) : Int)) := by
  unfold rem
  by_cases h : b = 0
  · subst h; simp
  · have : ¬ ((b : Int) = 0) := by omega
    simp only [this, h, if_false, Ty.signed, Bool.false_eq_true, false_and, ↓reduceIte]
    rw [Int.tmod_eq_emod_of_nonneg (by omega)]
    rfl

/-- `YearRange::filter`: every `u16` range and step, every date whose year chrono represents (an `i32`) -/
theorem yearRange_filter_agree (r : OH.Model.YearRange) (hlo : r.lo ≤ 65535) (_hhi : r.hi ≤ 65535) (_hst : r.step ≤ 65535)
    (d : Int) (hy : -2147483648 ≤ OH.Model.Cal.year d ∧ OH.Model.Cal.year d ≤ 2147483647) :
    AgreeDZ (YearRange.filter (genYear r) (OH.Model.Cal.year d)) (OH.Model.YearRange.filter r d) := by
  simp only [YearRange.filter, OH.Model.YearRange.filter, genYear]
  generalize OH.Model.Cal.year d = y at hy ⊢
  by_cases c : y < 0 ∨ y > 65535
  · rw [if_pos c, tryInto_none (by in_range)]
    exact .value _
  · rw [if_neg c, tryInto_some (by in_range)]
    obtain ⟨n, rfl⟩ : ∃ n : Nat, y = n := ⟨y.toNat, by omega⟩
    simp only [wrappingContains_eq_model, bnd_ok, wrappingContains_cast, Int.toNat_natCast]
    cases wrappingContains r.lo r.hi n with
    | false => simp only [Bool.false_eq_true, if_false, ↓reduceIte, bnd_ok]; exact .value _
    | true =>
      simp only [if_true, ↓reduceIte]
      by_cases g : n ≥ r.lo
      · rw [checkedSub_some (by in_range)]
        simp only [bnd_ok, Option.getD_some]
        have e : (n : Int) - r.lo = ((n - r.lo : Nat) : Int) := by omega
        rw [e, rem_u16]
        by_cases z : r.step = 0
        · simp only [z, if_true, ↓reduceIte, bnd_error]; exact .divZero _ _
        · simp only [z, if_false, ↓reduceIte, bnd_ok, g, if_true]
          simp only [decide_cast_zero, decide_zero_cast]; exact .value _
      · rw [checkedSub_none (by in_range), checkedSub_some (by in_range)]
        simp only [bnd_ok, Option.getD_some]
        have e : (r.lo : Int) - n = ((r.lo - n : Nat) : Int) := by omega
        rw [e, rem_u16]
        by_cases z : r.step = 0
        · simp only [z, if_true, ↓reduceIte, bnd_error]; exact .divZero _ _
        · simp only [z, if_false, ↓reduceIte, bnd_ok, g]
          simp only [decide_cast_zero, decide_zero_cast]; exact .value _

/-- `WeekRange::filter`: every `u8` range and step, every date (`week()` is 1..53, any `u8` here) -/
theorem weekRange_filter_agree (r : OH.Model.WeekRange) (hlo : r.lo ≤ 255) (_hhi : r.hi ≤ 255) (_hst : r.step ≤ 255)
    (d : Int) (hw : OH.Model.Cal.isoWeek d ≤ 255) :
    AgreeDZ (WeekRange.filter (genWeek r) (OH.Model.Cal.isoWeek d)) (OH.Model.WeekRange.filter r d) := by
  simp only [WeekRange.filter, OH.Model.WeekRange.filter, genWeek]
  generalize OH.Model.Cal.isoWeek d = w at hw ⊢
  rw [wrap_id (by in_range)]
  simp only [wrappingContains_eq_model, bnd_ok, wrappingContains_cast]
  cases wrappingContains r.lo r.hi w with
  | false => simp only [Bool.false_eq_true, if_false, ↓reduceIte, bnd_ok]; exact .value _
  | true =>
    simp only [if_true, ↓reduceIte]
    have e : saturatingSub .u8 (w : Int) (r.lo : Int) = ((w - r.lo : Nat) : Int) := by
      unfold saturatingSub
      simp only [Ty.min, Ty.max]
      by_cases h1 : (w : Int) - r.lo < 0
      · simp only [h1, if_true, ↓reduceIte]; omega
      · by_cases h2 : (w : Int) - r.lo > 255
        · omega
        · simp only [h1, h2, if_false, ↓reduceIte]; omega
    rw [e, rem_u8]
    by_cases z : r.step = 0
    · simp only [z, if_true, ↓reduceIte, bnd_error]; exact .divZero _ _
    · simp only [z, if_false, ↓reduceIte, bnd_ok]
      simp only [decide_cast_zero, decide_zero_cast]; exact .value _

/-- with the steps the parser produces (≥ 1) no `.error` outcome is reachable -/
theorem yearRange_filter_total (r : OH.Model.YearRange) (hlo : r.lo ≤ 65535) (hhi : r.hi ≤ 65535) (hst : 1 ≤ r.step ∧ r.step ≤ 65535)
    (d : Int) (hy : -2147483648 ≤ OH.Model.Cal.year d ∧ OH.Model.Cal.year d ≤ 2147483647) :
    ∃ b, YearRange.filter (genYear r) (OH.Model.Cal.year d) = .ok b ∧ OH.Model.YearRange.filter r d = .ok b := by
  have h := yearRange_filter_agree r hlo hhi hst.2 d hy
  have hne : ∀ e, OH.Model.YearRange.filter r d ≠ .error e := by
    intro e
    simp only [OH.Model.YearRange.filter]
    have : ¬ r.step = 0 := by omega
    split
    · simp
    · split
      · simp [this]
      · simp
  generalize YearRange.filter (genYear r) (OH.Model.Cal.year d) = g at h ⊢
  generalize OH.Model.YearRange.filter r d = m at h hne ⊢
  cases h with
  | value b => exact ⟨b, rfl, rfl⟩
  | divZero s e => exact absurd rfl (hne e)

/-! non-vacuity: `2020-2030/3` in 2026 (6 % 3 = 0) and 2027; the wrapping week range `50-03/2` in week 2
(`saturating_sub` gives 0: the code's reading) -/
example : YearRange.filter ⟨⟨⟨2020⟩, ⟨2030⟩⟩, 3⟩ 2026 = .ok true := rfl
example : YearRange.filter ⟨⟨⟨2020⟩, ⟨2030⟩⟩, 3⟩ 2027 = .ok false := rfl
example : YearRange.filter ⟨⟨⟨2020⟩, ⟨2030⟩⟩, 3⟩ (-5) = .ok false := rfl
example : ∃ site, YearRange.filter ⟨⟨⟨2020⟩, ⟨2030⟩⟩, 0⟩ 2026 = .error (.divZero site) := ⟨_, rfl⟩
example : WeekRange.filter ⟨⟨⟨50⟩, ⟨3⟩⟩, 2⟩ 2 = .ok true := rfl
example : WeekRange.filter ⟨⟨⟨10⟩, ⟨20⟩⟩, 2⟩ 13 = .ok false := rfl

end OH.Props.ArithC01Step
