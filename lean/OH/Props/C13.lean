import OH.Proofs.Normalize
/-
C13 — normalisation is idempotent and deterministic.

  "normalize(normalize(e)) equals normalize(e) for every expression e, normalizing equal expressions
   gives equal results, and the normal form is itself printable and reparseable."

Model: `OH.Model.Norm.normalize` (OH/Model/Normalize.lean), the transliteration of
`OpeningHoursExpression::normalize` and of `normalize/{mod,canonical,paving,frame}.rs`; 0 disagreements
with the implementation on 100 000 generated expressions (suite `nz`).

"Every expression" is every value the parser can build.  The hypothesis `ExprOK e` states the field
ranges the grammar guarantees (`year` = 1900..9999, `month` = 1..12, `weeknum` = 1..53, weekdays
0..6); it is decidable, it holds for every parser output (grammar.pest `year`, `weeknum`, `month`,
`wday`; C04/C05 own that fact), and outside it the Rust code can panic (`Year(self.0 + 1)` at 65535,
`WeekNum::pred` above 204), which the model reports as `.error`.

STATUS.
 * `C13_idempotent`     FULL, for the code as it is now (D13 repaired in /repo 18307f0).
 * `C13_deterministic`  FULL (congruence: the model is a pure function; on the implementation the
                        driver also compares a clone normalised on another thread).
 * `C13_no_panic`, `C13_normal_form_in_range`  FULL: `normalize` does not panic on parser output and its
                        result is again within the parser's ranges — the part of "printable and
                        reparseable" that belongs to `normalize`.  That the printed normal form
                        reparses to the same meaning is C06's clause (`C06_normal_form`); it is FALSE
                        today: finding D21 (`May; 2022 open` ↦ `May ; 2022Jan-Apr,Jun-Dec`, whose
                        reparse opens Jun-Dec of every year), see NOTES.md.
 * About the code before the repair (`normalizeG false`, kept for the record):
   `C13_idempotent_before_repair_fails` — refutation on `Apr 05:00-23:00, 13:30-14:00 unknown`.
-/
namespace OH.Props.C13
open OH.Model OH.Model.Norm OH.Proofs.Normalize

/-- the model follows the repaired `is_val` -/
theorem normalizeM_eq (e : Expr) : normalizeM e = normalizeG true e := rfl

/-- `normalize` is total on parser output: the `.error` outcome (a Rust panic, or a stalled
`canonical_to_seq`) is unreachable -/
theorem C13_no_panic (e : Expr) (he : ExprOK e) : ∃ n, normalizeM e = .ok n :=
  normalizeG_ok true e he

theorem normalize_eq_of_ok {e n : Expr} (h : normalizeM e = .ok n) : normalize e = n := by
  simp [normalize, h]

/-- the normal form of an expression within the parser's ranges is within the parser's ranges:
the emitted rules (`emitRule_ok`) and the untouched tail -/
theorem C13_normal_form_in_range (e : Expr) (he : ExprOK e) : ExprOK (normalize e) := by
  obtain ⟨n, hn⟩ := C13_no_panic e he
  rw [normalize_eq_of_ok hn]
  rw [normalizeM_eq] at hn
  unfold normalizeG at hn
  split at hn
  · cases hn
  · rename_i P rest hfold
    split at hn
    · cases hn
    · rename_i rs hrs
      cases hn
      obtain ⟨pre, rfl, hfr, _⟩ := foldPrefix_split e Paving.empty P rest hfold
      have hP : PavOK P := pavOK_foldRules pre _ _ (fun r hr => he r (List.mem_append_left _ hr)) pavOK_empty hfr
      obtain ⟨_, _, _, _, hall⟩ := foldback P hP rs hrs
      intro r hr
      rcases List.mem_append.mp hr with h | h
      · exact hall r h
      · exact he r (List.mem_append_right _ h)

/-- **C13, clause 1**: `normalize(normalize(e)) = normalize(e)` -/
theorem C13_idempotent (e : Expr) (he : ExprOK e) : normalize (normalize e) = normalize e := by
  obtain ⟨n, hn⟩ := C13_no_panic e he
  rw [normalize_eq_of_ok hn]
  exact normalize_eq_of_ok (normalizeG_idem e n he hn)

/-- **C13, clause 2**: normalising equal expressions gives equal results (the model is a function) -/
theorem C13_deterministic (e e' : Expr) (h : e = e') : normalize e = normalize e' := congrArg normalize h

/-- the normal form is a fixed point, stated on the panic-explicit function -/
theorem C13_idempotent_M (e n : Expr) (he : ExprOK e) (h : normalizeM e = .ok n) : normalizeM n = .ok n :=
  normalizeG_idem e n he h

/-! ### non-vacuity, and the code before the repair -/

def noDay : DaySelector := ⟨[], [], [], []⟩
def span (a b : Nat) : TimeSpan := ⟨.fixed a, .fixed b, false, none⟩

/-- `Apr 05:00-23:00, 13:30-14:00 unknown` (the D13 witness) -/
def d13Witness : Expr :=
  [⟨{ noDay with monthday := [.month 4 4 none] }, [span 300 1380], .open, .normal, []⟩,
   ⟨noDay, [span 810 840], .unknown, .additional, []⟩]

/-- `Apr 05:00-13:30,14:00-23:00, 13:30-14:00 unknown` -/
def d13NormalForm : Expr :=
  [⟨{ noDay with monthday := [.month 4 4 none] }, [span 300 810, span 840 1380], .open, .normal, []⟩,
   ⟨noDay, [span 810 840], .unknown, .additional, []⟩]

/-- `Apr 05:00-13:30,14:00-23:00; 13:30-14:00 unknown` (`;` where `,` is needed) -/
def d13NormalFormBefore : Expr :=
  [⟨{ noDay with monthday := [.month 4 4 none] }, [span 300 810, span 840 1380], .open, .normal, []⟩,
   ⟨noDay, [span 810 840], .unknown, .normal, []⟩]

/-- `13:30-14:00 unknown` -/
def d13SecondPassBefore : Expr := [⟨noDay, [span 810 840], .unknown, .normal, []⟩]

example : ExprOK d13Witness := by decide

set_option maxRecDepth 100000 in
/-- a non-trivial input meeting the hypothesis: its normal form differs from it and is a fixed point -/
theorem d13Witness_normalizes : normalizeM d13Witness = .ok d13NormalForm ∧ d13NormalForm ≠ d13Witness :=
  ⟨normalizeG_of_F true 5 _ _ (by decide), by decide⟩

set_option maxRecDepth 100000 in
/-- **before the repair** the normal form was not a fixed point: the first pass emits the second rule
with `;` (D13: `days_covered.is_val` answered "no day covered" for a selector sticking out of the
cuts), and the second pass then drops the April rule.  Refutes `C13_idempotent` for `normalizeG false`. -/
theorem C13_idempotent_before_repair_fails :
    ExprOK d13Witness ∧
    normalizeG false d13Witness = .ok d13NormalFormBefore ∧
    normalizeG false d13NormalFormBefore = .ok d13SecondPassBefore ∧
    d13SecondPassBefore ≠ d13NormalFormBefore :=
  ⟨by decide, normalizeG_of_F false 5 _ _ (by decide), normalizeG_of_F false 5 _ _ (by decide), by decide⟩

end OH.Props.C13
