import OH.Proofs.EvalCommentsProv
/-
C17 — comments are well-formed and come from the rule in effect: the EXPRESSION-LEVEL clauses
(proofs: OH/Proofs/EvalCommentsProv*.lean, second session), for every context, expression and day:
comments of every range of the day's schedule are strictly sorted (hence duplicate-free) and each comes
from a rule of the expression whose day selector matches `d` or `d − 1`; no contribution ⇒ no range ⇒ no
comment; with one rule every range carries exactly its comments; and the property's exactness clause: a
period apart from (neither touching nor overlapping) everything the other rules contribute is a period
of the one remaining rule, carries exactly its comments, and survives the iteration of the day.
The only hypothesis on the expression is that each rule's comment list is strictly sorted — what the
parser builds (`SortedVec.fromVec`).  The iterator clauses ("first interval") are in OH/Props/C17.lean.
-/
namespace OH.Props.C17E
open OH.Model OH.Model.Cal OH.Proofs.EvalCommentsProv

/-- the hypothesis of the theorems below holds for parsed expressions: `build_rule_sequence` collects
the comments through `UniqueSortedVec::from` -/
theorem C17_parser_comments_sorted (e : Expr)
    (h : ∀ r ∈ e, ∃ v : List String, r.comments = OH.Model.SortedVec.fromVec v) : SortedComments e :=
  sortedComments_of_fromVec e h

/-- **sorted, duplicate-free, taken from a rule in effect**: every comment of every range of the day's
schedule (iterated form) comes from a rule of the expression whose day selector matches that day or the
day before (spans continued past midnight) -/
theorem C17_comments_sorted_and_from_applying_rule (ctx : Ctx) (e : Expr) (d : Int) (hs : SortedComments e)
    {l : List TimeRange} (h : daySchedule ctx e d = .ok l) :
    ∀ t ∈ l, OH.Proofs.SortedVec.Sorted t.comments ∧ t.comments.Nodup ∧ ∀ c ∈ t.comments, ∃ r ∈ e,
      (r.day.filter ctx d = .ok true ∨ r.day.filter ctx (d - 1) = .ok true) ∧ c ∈ r.comments :=
  fun t ht => ⟨(daySchedule_comments_applies ctx e d hs h t ht).1, daySchedule_comments_nodup ctx e d hs h t ht,
    (daySchedule_comments_applies ctx e d hs h t ht).2⟩

/-- the same for the raw schedule of the day (`schedule_at`) -/
theorem C17_schedule_comments_sorted_and_from_applying_rule (ctx : Ctx) (e : Expr) (d : Int)
    (hs : SortedComments e) {s : Schedule} (h : scheduleAt ctx e d = .ok s) :
    ∀ t ∈ s, OH.Proofs.SortedVec.Sorted t.comments ∧ ∀ c ∈ t.comments, ∃ r ∈ e,
      (r.day.filter ctx d = .ok true ∨ r.day.filter ctx (d - 1) = .ok true) ∧ c ∈ r.comments :=
  scheduleAt_comments_applies ctx e d hs h

/-- **empty on days to whose schedule no rule contributes** -/
theorem C17_no_contribution_no_comments (ctx : Ctx) (e : Expr) (d : Int)
    (hno : ∀ r ∈ e, ¬ Contributes ctx r d) {l : List TimeRange} (h : daySchedule ctx e d = .ok l) :
    l = [⟨0, 1440, .closed, []⟩] :=
  daySchedule_no_contribution ctx e d hno h

/-- in particular when no day selector matches the day nor the day before -/
theorem C17_no_match_no_comments (ctx : Ctx) (e : Expr) (d : Int)
    (h : ∀ r ∈ e, r.day.filter ctx d = .ok false ∧ r.day.filter ctx (d - 1) = .ok false) :
    daySchedule ctx e d = .ok [⟨0, 1440, .closed, []⟩] :=
  (scheduleAt_noMatch' ctx e d h).2

/-- one rule: every range of the day carries exactly that rule's comments (and its kind) -/
theorem C17_single_rule_exact (ctx : Ctx) (r : Rule) (d : Int) (hc : OH.Proofs.SortedVec.Sorted r.comments)
    {s : Schedule} (h : scheduleAt ctx [r] d = .ok s) : ∀ t ∈ s, t.comments = r.comments ∧ t.kind = r.kind :=
  scheduleAt_single_rule ctx r d hc h

/-- **the exactness clause**: a non-closed period of the day's schedule that neither touches nor overlaps
any period contributed by the OTHER rules of the expression is a period of the remaining rule, carries
exactly that rule's comments, and is reported unchanged by the iteration of the day -/
theorem C17_isolated_period_carries_its_rule_comments (ctx : Ctx) (pre post : List Rule) (r : Rule) (d : Int)
    (hc : OH.Proofs.SortedVec.Sorted r.comments) {sr s : Schedule} {l : List TimeRange} {u : TimeRange}
    (hr : ruleScheduleAt ctx r d = .ok (some sr))
    (hother : ∀ r', r' ∈ pre ∨ r' ∈ post → ∀ s', ruleScheduleAt ctx r' d = .ok (some s') →
      ∀ x ∈ s', OH.Proofs.Schedule.Apart u x)
    (hs : scheduleAt ctx (pre ++ r :: post) d = .ok s) (hu : u ∈ s) (hk : u.kind ≠ Kind.closed)
    (h : daySchedule ctx (pre ++ r :: post) d = .ok l) :
    u ∈ sr ∧ u ∈ l ∧ u.comments = r.comments :=
  ⟨(scheduleAt_single_contributor_comments ctx pre post r d hc hr hother hs hu).1,
   (daySchedule_single_contributor_comments ctx pre post r d hc hr hother hs hu hk h).1,
   (daySchedule_single_contributor_comments ctx pre post r d hc hr hother hs hu hk h).2.1⟩

end OH.Props.C17E
