/-
C02 "Layer A" (with the corollaries for C03, C08, C16 and the iterator part of C17):
the time-domain iterator — `TimeDomainIterator::{new, consume_until_next_kind, next}`,
`iter_range_naive`, `state`, `next_change` of `opening-hours/src/opening_hours.rs`, modelled in
`OH/Model/Iter.lean` — turns ANY day level that meets `EnvOK` into exactly the maximal constant runs
of the pointwise state.

 C02 "For every expression, context and window [from, to), the intervals produced by range iteration are
      non-empty, in increasing order, gap-free and cover exactly [from, min(to, 10000-01-01)); the state of
      each interval is the state the daily schedules give to every instant inside it, and consecutive
      intervals have different states. No state change present in the daily schedules is skipped or
      displaced, however many days lie between changes."
 C03 "state(t) is the state the schedule of t's day gives to t …. next_change(t) is the earliest instant
      after t whose state differs from state(t) - never earlier, never later - and is none exactly when
      the state stays the same until 10000-01-01; hence it is strictly greater than t and identical for
      all t inside one interval."
 C08 (part) no reported interval starts before the requested start or ends after
      min(requested end, 10000-01-01T00:00); next_change never returns an instant at or beyond 10000-01-01.
 C16 "With an interval-size bound B in the context, state is unchanged and next_change returns either the
      exact answer or none: it is exact whenever the exact next change lies at most B minus 24 hours after
      the query instant, and none whenever it lies more than B after it."

Vocabulary (defined in `OH/Proofs/Iter.lean`):
* `Env = {sched, hint, bound}`: the day level the iterator is written against (`envOf ctx e` is the real one).
* `TilesFrom 0 rs`: the ranges of `rs` are non-empty, contiguous, start at 0 and end at 1440.
* `pointKind env t` / `pointComments env t`: kind / comments of the range of `env.sched (day of t)` that
  contains the minute of `t` — "the state the daily schedules give to instant t".
* `EnvOK env` — exactly what the day level has to guarantee (Layer B proves it for `envOf ctx e`):
    `sched_ok`   : `env.sched d` does not panic for `d ≤ dateEnd`;
    `tiles`      : it tiles `[0, 1440)` for `d < dateEnd`;
    `hint_ok`    : `env.hint d` does not panic for `d < dateEnd`;
    `hint_gt`    : the jump target `env.hintOf d` (the hint, or `d + 1` for `None`) is after `d`;
    `hint_sound` : every day `d'` with `d < d' < env.hintOf d`, `d' < dateEnd` only has ranges of the kind of
                   the LAST range of day `d`.
  Nothing about comments, about kinds of neighbouring ranges, about days after `dateEnd`, nor about what the
  schedule of a day outside 1900…9999 looks like (that it is "closed" is C08's day-level clause).
* `Runs env a b l`: `l` is the list of maximal constant runs of `pointKind env` tiling `[a, b)`.
* `IsNextChange env t r`: `r` is the exact next change after `t` (semantic definition, no iterator).
* `boundLimit b` (model): the limit of the loop test of `consume_until_next_kind`, `max(b, 0) + 1 day`
  saturating at `TimeDelta::MAX` (`deltaMax`).  No hypothesis on the bound is needed any more for totality and
  `state`; the C16 clauses hold for EVERY bound (see the C16 section for the one side condition).

Instants are `Int` nanoseconds (`Instant`), so every statement "for all t inside the interval" really
ranges over all sub-minute instants.  All theorems are about the abstract functions `iterRangeG`,
`firstIntervalG`, `stateG`, `nextChangeG`; `iterRangeNaive ctx e`, `state ctx e`, `nextChange ctx e` are
these at `envOf ctx e` by `rfl` (see the last section).

NOT PROVED here:
* `EnvOK (envOf ctx e)` — Layer B (tilings from `Schedule.iter`, soundness of `next_change_hint`), other files.
  (The ctx-level reading of C16 is in `OH/Props/C16.lean`: `envOf {ctx with bound := none} e = unbounded (envOf ctx e)`.)
* Nothing is claimed about the items of a BOUNDED stream after the first one (they may overlap; C16 is about
  `state`/`next_change` only) beyond finiteness, absence of panics and clipping to the window.
-/
import OH.Model.Iter
import OH.Proofs.Iter
namespace OH.Props.C02A
open OH.Model OH.Model.Cal

/-! ## C02 — the stream of `iter_range_naive` (no interval-size bound) -/

section C02
variable {env : Env} (ok : EnvOK env) (hbn : env.bound = none) (frm to : Instant)
include ok hbn

/-- no panic, no endless iteration: the run-time progress check of `collect` never fires -/
theorem iter_total : ∃ out, iterRangeG env frm to = .ok out :=
  let ⟨out, h, _⟩ := iterRangeG_spec ok hbn frm to; ⟨out, h⟩

/-- master statement: the output is THE list of maximal constant runs over `[min from END, min to END)` -/
theorem iter_runs {out : List Interval} (h : iterRangeG env frm to = .ok out) :
    if min instEnd frm < min instEnd to then Runs env (min instEnd frm) (min instEnd to) out else out = [] := by
  obtain ⟨out', h', hr⟩ := iterRangeG_spec ok hbn frm to
  rw [h'] at h; cases h; exact hr

/-- …and nothing else is: any list with the `Runs` property is the output -/
theorem iter_complete {l : List Interval} (hl : Runs env (min instEnd frm) (min instEnd to) l)
    (hlt : min instEnd frm < min instEnd to) : iterRangeG env frm to = .ok l := by
  obtain ⟨out, h, hr⟩ := iterRangeG_spec ok hbn frm to
  rw [if_pos hlt] at hr
  rw [h, hr.unique hl]

variable {out : List Interval} (h : iterRangeG env frm to = .ok out)
include h

/-- the stream is empty exactly when the clipped window is -/
theorem iter_empty_iff : out = [] ↔ min instEnd to ≤ min instEnd frm := by
  have hr := iter_runs ok hbn frm to h
  split at hr
  · rw [hr.eq_nil_iff]
  · rw [hr]; simp; omega

/-- the first interval starts at `min from END` (the first start is clipped to `from`) -/
theorem iter_first_start : ∀ iv ∈ out.head?, iv.start = min instEnd frm := by
  have hr := iter_runs ok hbn frm to h
  split at hr
  · intro iv hiv; exact (hr.head iv hiv).1
  · rw [hr]; simp

/-- the last interval stops at `min to END` -/
theorem iter_last_stop : ∀ iv ∈ out.getLast?, iv.stop = min instEnd to := by
  have hr := iter_runs ok hbn frm to h
  split at hr
  · exact hr.last
  · rw [hr]; simp

/-- gap-free: each interval starts where the previous one stops -/
theorem iter_contiguous : ∀ i (hi : i + 1 < out.length), out[i].stop = out[i + 1].start := by
  have hr := iter_runs ok hbn frm to h
  split at hr
  · intro i hi; exact (hr.adjacent i hi).1
  · subst hr; intro i hi; simp at hi

/-- consecutive intervals have different states -/
theorem iter_adjacent_kinds_differ : ∀ i (hi : i + 1 < out.length), out[i].kind ≠ out[i + 1].kind := by
  have hr := iter_runs ok hbn frm to h
  split at hr
  · intro i hi; exact (hr.adjacent i hi).2
  · subst hr; intro i hi; simp at hi

/-- every interval is non-empty -/
theorem iter_intervals_nonempty : ∀ iv ∈ out, iv.start < iv.stop := by
  have hr := iter_runs ok hbn frm to h
  split at hr
  · intro iv hiv; exact (hr.mem iv hiv).2.1
  · rw [hr]; simp

/-- in increasing order (with non-emptiness: strictly increasing starts) -/
theorem iter_increasing : out.Pairwise (fun x y => x.stop ≤ y.start) := by
  have hr := iter_runs ok hbn frm to h
  split at hr
  · exact hr.pairwise
  · rw [hr]; exact List.Pairwise.nil

/-- exact cover: every instant of the clipped window lies in an interval of the stream
(and, by `C08.iter_inside_window` below, no interval reaches outside it) -/
theorem iter_cover : ∀ t, min instEnd frm ≤ t → t < min instEnd to → ∃ iv ∈ out, iv.start ≤ t ∧ t < iv.stop := by
  have hr := iter_runs ok hbn frm to h
  split at hr
  · exact hr.cover
  · intro t h1 h2; omega

/-- the state of each interval is the state the daily schedules give to EVERY instant inside it -/
theorem iter_kind_pointwise : ∀ iv ∈ out, ∀ t, iv.start ≤ t → t < iv.stop → iv.kind = pointKind env t := by
  have hr := iter_runs ok hbn frm to h
  split at hr
  · intro iv hiv t h1 h2; exact ((hr.mem iv hiv).2.2.2.1 t h1 h2).symm
  · rw [hr]; simp

/-- no state change is skipped or displaced: wherever the pointwise state changes strictly inside the
window (between the instant before `t` and `t`), an interval starts at exactly `t` — however many days
the iterator jumped over -/
theorem iter_no_change_skipped : ∀ t, min instEnd frm < t → t < min instEnd to →
    pointKind env (t - 1) ≠ pointKind env t → ∃ iv ∈ out, iv.start = t := by
  have hr := iter_runs ok hbn frm to h
  split at hr
  · exact hr.change_is_boundary
  · intro t h1 h2; omega

/-- conversely every inner boundary of the stream is a real state change -/
theorem iter_boundary_is_change : ∀ i (hi : i + 1 < out.length),
    pointKind env (out[i + 1].start - 1) ≠ pointKind env out[i + 1].start := by
  intro i hi
  have hc := iter_contiguous ok hbn frm to h i hi
  have hk := iter_adjacent_kinds_differ ok hbn frm to h i hi
  have h1 := iter_intervals_nonempty ok hbn frm to h out[i] (List.getElem_mem _)
  have h2 := iter_intervals_nonempty ok hbn frm to h out[i + 1] (List.getElem_mem _)
  rw [← iter_kind_pointwise ok hbn frm to h out[i] (List.getElem_mem _) (out[i + 1].start - 1) (by omega) (by omega),
    ← iter_kind_pointwise ok hbn frm to h out[i + 1] (List.getElem_mem _) out[i + 1].start (by omega) h2]
  exact hk

/-- C17 (iterator part): the comments of an interval are those of the schedule range in force at its
first instant — for the first interval that is the range containing the (clipped) start instant; ranges
merged into the interval later do not contribute -/
theorem iter_comments : ∀ iv ∈ out, iv.comments = pointComments env iv.start := by
  have hr := iter_runs ok hbn frm to h
  split at hr
  · intro iv hiv; exact (hr.mem iv hiv).2.2.2.2
  · rw [hr]; simp

theorem iter_first_comments : ∀ iv ∈ out.head?, iv.comments = pointComments env (min instEnd frm) := by
  intro iv hiv
  rw [← iter_first_start ok hbn frm to h iv hiv]
  exact iter_comments ok hbn frm to h iv (List.mem_of_mem_head? hiv)

end C02

/-! ## The first interval (what `state` and `next_change` consume) -/

/-- `firstIntervalG` (the model of `iter_range_naive(..).next()`) is the head of the collected stream —
for ANY day level and bound -/
theorem first_is_head (env : Env) (frm to : Instant) {out : List Interval}
    (h : iterRangeG env frm to = .ok out) : firstIntervalG env frm to = .ok out.head? :=
  firstIntervalG_eq_head env frm to h

/-- without a bound the first interval is `[from', c)` with the state and comments in force at `from'`,
constant state inside, and `c` either the end of the window or a real change -/
theorem first_interval_exact {env : Env} (ok : EnvOK env) (hbn : env.bound = none) (frm to : Instant)
    (hlt : min instEnd frm < min instEnd to) :
    ∃ c, firstIntervalG env frm to
        = .ok (some ⟨min instEnd frm, c, pointKind env (min instEnd frm), pointComments env (min instEnd frm)⟩)
      ∧ min instEnd frm < c ∧ c ≤ min instEnd to
      ∧ (∀ t, min instEnd frm ≤ t → t < c → pointKind env t = pointKind env (min instEnd frm))
      ∧ (c = min instEnd to ∨ pointKind env c ≠ pointKind env (min instEnd frm)) := by
  obtain ⟨s, c0, tr, hf, hr, h1, h2, h3, h4, h5⟩ := first_spec ok hlt (Int.min_le_left _ _)
  have hk := pointKind_of_range hr
  have hcm : pointComments env (min instEnd frm) = tr.comments := by simp [pointComments, hr]
  simp only [reported, hbn] at hf
  refine ⟨min (min instEnd to) c0, ?_, by omega, by omega, ?_, ?_⟩
  · rw [firstIntervalG_clip, hf, hk, hcm]
    have : min (min (min instEnd to) c0) (min instEnd to) = min (min instEnd to) c0 := by omega
    rw [this]
  · intro t ht1 ht2; rw [hk]; exact h4 t ht1 (by omega) (by omega)
  · rcases h5 with h5 | ⟨h5, h6 | ⟨b, hb, _⟩⟩
    · left; omega
    · by_cases hc : c0 < min instEnd to
      · right
        have : min (min instEnd to) c0 = c0 := by omega
        rw [this, hk]; exact h6
      · left; omega
    · rw [hbn] at hb; cases hb

/-- an empty clipped window has no first interval -/
theorem first_interval_none {env : Env} (ok : EnvOK env) (frm to : Instant)
    (h : min instEnd to ≤ min instEnd frm) : firstIntervalG env frm to = .ok none :=
  firstIntervalG_empty ok h

/-! ## C08 — the window is respected (ANY day level, ANY bound: no hypothesis at all) -/

/-- no reported interval starts before the requested start or ends after `min(requested end, END)` -/
theorem iter_inside_window (env : Env) (frm to : Instant) {out : List Interval}
    (h : iterRangeG env frm to = .ok out) :
    ∀ iv ∈ out, min instEnd frm ≤ iv.start ∧ iv.stop ≤ min instEnd to := by
  simp only [iterRangeG] at h
  split at h
  · cases h
  · exact collect_clip env _ _ _ [] (by simp) out h

/-- in particular nothing is reported beyond 10000-01-01T00:00 -/
theorem iter_before_end (env : Env) (frm to : Instant) {out : List Interval}
    (h : iterRangeG env frm to = .ok out) : ∀ iv ∈ out, iv.stop ≤ instEnd := by
  intro iv hiv
  have := (iter_inside_window env frm to h iv hiv).2
  omega

/-- `next_change` never returns an instant at or beyond 10000-01-01 -/
theorem nextChange_lt_end (env : Env) (t c : Instant) (h : nextChangeG env t = .ok (some c)) : c < instEnd :=
  nextChangeG_lt_end env t c h

/-! ## C03 — `state` and `next_change` (with or without a bound for `state`; without for `next_change`) -/

section C03
variable {env : Env} (ok : EnvOK env)
include ok

/-- `state(t)` is the state the schedule of `t`'s day gives to `t`, for every `t` before END — whatever the
bound, and with no representability side condition (`t + 1 minute` cannot overflow below END:
`state_window_representable`) -/
theorem state_eq_pointKind {t : Instant} (hlt : t < instEnd) :
    stateG env t = .ok (pointKind env t) := (stateG_spec ok t).1 hlt

/-- from 10000-01-01 on, `state` is closed (early return; holds for any day level) -/
theorem state_after_end {t : Instant} (hge : instEnd ≤ t) :
    stateG env t = .ok .closed := (stateG_spec ok t).2 hge

/-- `state` never panics -/
theorem state_total (t : Instant) : ∃ k, stateG env t = .ok k := by
  by_cases hlt : t < instEnd
  · exact ⟨_, (stateG_spec ok t).1 hlt⟩
  · exact ⟨_, (stateG_spec ok t).2 (by omega)⟩

/-- `next_change` never panics and is the exact next change -/
theorem nextChange_exact (hbn : env.bound = none) {t : Instant} (hlt : t < instEnd) :
    ∃ x, nextChangeG env t = .ok x ∧ IsNextChange env t x := nextChangeG_exact ok hbn hlt

theorem nextChange_after_end {t : Instant} (hge : instEnd ≤ t) : nextChangeG env t = .ok none :=
  nextChangeG_after_end ok hge

/-- `some c`: strictly after `t`, before END, the state is constant on `[t, c)` (never earlier) and
different at `c` (never later) -/
theorem nextChange_some (hbn : env.bound = none) {t c : Instant} (h : nextChangeG env t = .ok (some c)) :
    t < c ∧ c < instEnd ∧ (∀ u, t ≤ u → u < c → pointKind env u = pointKind env t)
      ∧ pointKind env c ≠ pointKind env t := by
  by_cases hlt : t < instEnd
  · obtain ⟨x, hx, hs⟩ := nextChangeG_exact ok hbn hlt
    rw [hx] at h; cases h; exact hs
  · rw [nextChangeG_after_end ok (by omega)] at h; cases h

/-- `none`: exactly when the state stays the same until 10000-01-01 (or `t` is already there) -/
theorem nextChange_none (hbn : env.bound = none) {t : Instant} (h : nextChangeG env t = .ok none) :
    ∀ u, t ≤ u → u < instEnd → pointKind env u = pointKind env t := by
  by_cases hlt : t < instEnd
  · obtain ⟨x, hx, hs⟩ := nextChangeG_exact ok hbn hlt
    rw [hx] at h; cases h; exact hs
  · intro u h1 h2; omega

/-- …and conversely: if the state stays the same until END, the answer is `none`; if `c` is the first
change, the answer is `some c` -/
theorem nextChange_complete (hbn : env.bound = none) {t : Instant} (hlt : t < instEnd) {r : Option Instant}
    (hr : IsNextChange env t r) : nextChangeG env t = .ok r := by
  obtain ⟨x, hx, hs⟩ := nextChangeG_exact ok hbn hlt
  rw [hx, hs.unique hr]

/-- identical for all instants inside one interval -/
theorem nextChange_same_interval_some (hbn : env.bound = none) {t c u : Instant}
    (h : nextChangeG env t = .ok (some c)) (h1 : t ≤ u) (h2 : u < c) : nextChangeG env u = .ok (some c) := by
  have hs : IsNextChange env t (some c) := nextChange_some ok hbn h
  have hu : u < instEnd := by have := hs.2.1; omega
  exact nextChange_complete ok hbn hu (hs.shift h1 (fun c' hc' => by cases hc'; exact h2) (fun hn => nomatch hn))

theorem nextChange_same_interval_none (hbn : env.bound = none) {t u : Instant}
    (h : nextChangeG env t = .ok none) (h1 : t ≤ u) : nextChangeG env u = .ok none := by
  by_cases hu : u < instEnd
  · have hs : IsNextChange env t none := nextChange_none ok hbn h
    exact nextChange_complete ok hbn hu (hs.shift h1 (fun c' hc' => nomatch hc') (fun _ => hu))
  · exact nextChangeG_after_end ok (by omega)

/-- `state` and `next_change` are mutually consistent: `state` is constant up to the next change and
different there -/
theorem state_nextChange_consistent (hbn : env.bound = none) {t c : Instant}
    (h : nextChangeG env t = .ok (some c)) :
    (∀ u, t ≤ u → u < c → stateG env u = stateG env t) ∧ stateG env c ≠ stateG env t := by
  obtain ⟨h1, h2, h3, h4⟩ := nextChange_some ok hbn h
  have ht := state_eq_pointKind ok (t := t) (by omega)
  refine ⟨fun u hu1 hu2 => ?_, ?_⟩
  · rw [state_eq_pointKind ok (t := u) (by omega), ht, h3 u hu1 hu2]
  · rw [state_eq_pointKind ok h2, ht]
    intro e; exact h4 (Except.ok.inj e)

end C03

/-! ## C16 — the interval-size bound -/

/-- the same day level without the bound: the "exact" side of C16 -/
def unbounded (env : Env) : Env := { env with bound := none }

theorem pointKind_unbounded (env : Env) (t : Instant) : pointKind (unbounded env) t = pointKind env t := rfl

theorem envOK_unbounded {env : Env} (ok : EnvOK env) : EnvOK (unbounded env) :=
  ⟨ok.sched_ok, ok.tiles, ok.hint_ok, ok.hint_gt, ok.hint_sound⟩

/-- with a bound — ANY bound — `state` is unchanged, at every instant (it does not even look at it) -/
theorem bounded_state_unchanged {env : Env} (ok : EnvOK env) (t : Instant) :
    stateG env t = stateG (unbounded env) t := by
  by_cases hlt : t < instEnd
  · rw [(stateG_spec ok t).1 hlt, (stateG_spec (envOK_unbounded ok) t).1 hlt]; rfl
  · rw [(stateG_spec ok t).2 (by omega), (stateG_spec (envOK_unbounded ok) t).2 (by omega)]

/-- with ANY bound (none, negative, zero, `TimeDelta::MAX`, …) the stream is finite and panic-free
(its items may overlap: C02 is about the unbounded stream only) -/
theorem bounded_iter_total {env : Env} (ok : EnvOK env) (frm to : Instant) :
    ∃ out, iterRangeG env frm to = .ok out := iterRangeG_total ok frm to

section C16
variable {env : Env} (ok : EnvOK env) {B : Int} (hB : env.bound = some B)
include ok hB

/-- With a bound `B` — ANY integer `B`, negative and huge ones included — `next_change` returns (no panic)
the exact answer `x` or `none`; exact when `x = some c` with `c − t ≤ B − 24 h`; `none` when `c − t > B`;
`none` when `x = none`.

Side condition `hfit`: `B + 1 day ≤ TimeDelta::MAX` OR `t` is a representable instant (`instMin ≤ t`).  The
second alternative holds for every `NaiveDateTime`, so for real inputs there is no condition at all; it is
only there because the model's instants are unbounded integers: when `B + 1 day` saturates at
`TimeDelta::MAX` the loop test (saturated limit) and the test of `next` (raw `B`) can only disagree on
spans that no two representable instants before END have.  For `B < 0` see also
`negative_bound_nextChange` (always `none`): the "exact within `B − 24 h`" clause is then vacuous, as it is
for every `B < 24 h`. -/
theorem bounded_nextChange {t : Instant} (hfit : B + nsPerDay ≤ deltaMax ∨ instMin ≤ t)
    {x : Option Instant} (hx : nextChangeG (unbounded env) t = .ok x) :
    ∃ y, nextChangeG env t = .ok y
      ∧ (y = x ∨ y = none)
      ∧ (∀ c, x = some c → c - t ≤ B - nsPerDay → y = x)
      ∧ (∀ c, x = some c → c - t > B → y = none)
      ∧ (x = none → y = none) := by
  by_cases hlt : t < instEnd
  · obtain ⟨x', hx', hs⟩ := nextChangeG_exact (envOK_unbounded ok) rfl hlt
    rw [hx'] at hx; cases hx
    exact nextChangeG_bounded ok hB hfit hlt hs
  · rw [nextChangeG_after_end (envOK_unbounded ok) (by omega)] at hx; cases hx
    exact ⟨none, nextChangeG_after_end ok (by omega), Or.inl rfl, fun _ h => (nomatch h),
      fun _ h => (nomatch h), fun _ => rfl⟩

/-- a NEGATIVE bound: `end − start > B` holds for every item, so `next_change` is `none` at every instant
(consistent with all four clauses above: "exact or none", "none when more than `B` after", the exactness
clause being vacuous) -/
theorem negative_bound_nextChange (hneg : B < 0) (t : Instant) : nextChangeG env t = .ok none :=
  nextChangeG_negative_bound ok hB hneg t

/-- …and the first item of every non-empty window is reported as `from'..DATE_END`, clipped to the window:
right state and comments, end = window end -/
theorem negative_bound_first_interval (hneg : B < 0) (frm to : Instant)
    (hlt : min instEnd frm < min instEnd to) :
    firstIntervalG env frm to = .ok (some ⟨min instEnd frm, min instEnd to,
      pointKind env (min instEnd frm), pointComments env (min instEnd frm)⟩) := by
  rw [firstIntervalG_clip]
  exact firstIntervalG_negative_bound ok hB hneg hlt (Int.min_le_left _ _)

end C16

/-! History (kept for the record; both repaired in the repository by "fix: an interval-size bound below -1 day
or close to TimeDelta::MAX must not hang or panic", and in the model by `boundLimit`): with the original
loop test `curr_date − start_date > max_interval_size + TimeDelta::days(1)`
* `B < −1 day` made `consume_until_next_kind` return before consuming anything: `iter_range` yielded the same
  item for ever (former theorem `bound_below_minus_one_day_diverges`; real code: 1 000 000 identical items);
* `B > TimeDelta::MAX − 1 day` made the addition panic in every `state`/`next_change`/`iter_range` before
  END (former theorem `bound_overflow_panics`).
Both are now covered by the positive theorems `bounded_iter_total`, `state_total`, `bounded_nextChange`. -/

/-! ## The real entry points are the abstract ones at `envOf ctx e` -/

theorem iterRangeNaive_eq (ctx : Ctx) (e : Expr) (frm to : Instant) :
    iterRangeNaive ctx e frm to = iterRangeG (envOf ctx e) frm to := rfl
theorem state_eq (ctx : Ctx) (e : Expr) (t : Instant) : state ctx e t = stateG (envOf ctx e) t := rfl
theorem nextChange_eq (ctx : Ctx) (e : Expr) (t : Instant) :
    nextChange ctx e t = nextChangeG (envOf ctx e) t := rfl
theorem envOf_bound (ctx : Ctx) (e : Expr) : (envOf ctx e).bound = ctx.bound := rfl

/-! ## Non-vacuity: concrete day levels meeting every hypothesis -/

/-- the real day level of the (empty) expression under the default context satisfies `EnvOK` -/
example : EnvOK (envOf Ctx.default []) := envOK_nil

/-- an abstract weekly day level: working days `closed / open "c" 09:00-17:00 / closed`, weekend closed,
the hint jumps from Saturday over Sunday to Monday — three ranges a day, merging across midnight and a
skipped day all occur -/
example (b : Option Int) : EnvOK (weekEnv b) := envOK_week b

/-- every hypothesis of the C02 theorems is met by it, for any window -/
example (frm to : Instant) : ∃ out, iterRangeG (weekEnv none) frm to = .ok out :=
  iter_total (envOK_week none) rfl frm to

/-- … e.g. Thursday 10:00:00.000000007 to Tuesday 00:00:00.000000001 (day 3 to day 8): six intervals
(`#eval iterRangeG (weekEnv none) (3 * nsPerDay + 600 * nsPerMin + 7) (8 * nsPerDay + 1)`), the fourth one
running from Friday 17:00 over the skipped weekend to Monday 09:00; its window is non-empty: -/
example : min instEnd (3 * nsPerDay + 600 * nsPerMin + 7) < min instEnd (8 * nsPerDay + 1) := by decide

/-- the C03 hypothesis (`t` before END) -/
example : (4 * nsPerDay + 1100 * nsPerMin + 7 : Int) < instEnd := by decide

/-- the C16 hypotheses: a bound of two days (the exact next change after Friday 18:20 is Monday 09:00,
more than two days later: the bounded answer is `none`; with four days it is exact) -/
example : (weekEnv (some (2 * nsPerDay))).bound = some (2 * nsPerDay)
    ∧ (2 * nsPerDay + nsPerDay ≤ deltaMax ∨ instMin ≤ 4 * nsPerDay + 1100 * nsPerMin + 7) :=
  ⟨rfl, Or.inl (by decide)⟩

example {t : Instant} {x : Option Instant} (hx : nextChangeG (unbounded (weekEnv (some (2 * nsPerDay)))) t = .ok x) :
    ∃ y, nextChangeG (weekEnv (some (2 * nsPerDay))) t = .ok y ∧ (y = x ∨ y = none) :=
  let ⟨y, h1, h2, _⟩ := bounded_nextChange (envOK_week _) rfl (Or.inl (by decide)) hx
  ⟨y, h1, h2⟩

/-- a bound of `TimeDelta::MAX` (`B + 1 day` saturates) at a representable instant -/
example {x : Option Instant} (hx : nextChangeG (unbounded (weekEnv (some deltaMax))) 7 = .ok x) :
    ∃ y, nextChangeG (weekEnv (some deltaMax)) 7 = .ok y ∧ (y = x ∨ y = none) :=
  let ⟨y, h1, h2, _⟩ := bounded_nextChange (envOK_week _) rfl (Or.inr (by decide)) hx
  ⟨y, h1, h2⟩

/-- a bound of −2 days (the former endless iteration): the stream is finite, `next_change` is `none` -/
example : ∃ out, iterRangeG (weekEnv (some (-2 * nsPerDay))) 0 nsPerDay = .ok out :=
  bounded_iter_total (envOK_week _) 0 nsPerDay

example (t : Instant) : nextChangeG (weekEnv (some (-2 * nsPerDay))) t = .ok none :=
  negative_bound_nextChange (envOK_week _) rfl (by decide) t

end OH.Props.C02A
