/-
C02 (and C01/C03/C08/C16) on the code as it is NOW, sixth increment of `translators/rs2lean.py` (`dated3`): THE TIES of
`OH.Generated.Arith.Dated3.*` to the hand-written evaluator model (`OH/Model/Eval.lean`), for every date, every `ds::Date`
whose fields are of their machine types with a day the parser can produce (`DateOk`, `DayOk`), every offset (`WdOk`):

* `singleInterval_agree`: `single_interval_from_bounds` and `Model.singleInterval` agree (the same interval / `None`; a
  `debug_assert!` panic exactly where the model has its error; never an overflow: the window `end_year - 1 ..= end_year + 2`
  is inside `i32` because `year_before_offset` returns a year chrono can represent, `yearBeforeOffset_yearOk`);
* `firstEnd_agree`: the lazy search `(..).filter_map(..).map(..).find(..)` is the model's `firstEndFrom`.
-/
import OH.Generated.Arith
import OH.Proofs.RustInt
import OH.Proofs.RustDated
import OH.Proofs.RustDated3
import OH.Proofs.Calendar
import OH.Proofs.HintWeekday
import OH.Model.Eval
import OH.Props.ArithC01Dated
import OH.Props.ArithC02Dated2
import OH.Props.ArithC02Dated3
namespace OH.Props.ArithC02Dated3Tie
set_option linter.unusedSimpArgs false
set_option linter.unusedVariables false
open OH.Model.RustInt
open OH.Model.RustChrono
open OH.Generated.Arith
open OH.Proofs.RustDated (bnd_pure)
open OH.Props.ArithC01Offset (AgreeP genOffset WdOk apply_agree gen_apply_total)
open OH.Props.ArithC01MonthSel (num wrap_num)
open OH.Props.ArithC01Dated
open OH.Props.ArithC02Dated2 (pairOf modelIntervals nextChangeFromIntervals_eq_model isOpenFromIntervals_eq_model nextChangeFromBounds_eq_model isOpenFromBounds_eq_model)
open OH.Props.ArithC02Dated3 (YearOk SingleDay)
open OH.Proofs.RustDated3 (rangeInclList_eq window_single window_eq mem_yearsAround)

/-- `year_before_offset` returns a year chrono can represent, for every date and every offset -/
theorem yearBeforeOffset_yearOk (d : Int) (o : OH.Model.DateOffset) : YearOk (OH.Model.yearBeforeOffset d o) := by
  unfold OH.Model.yearBeforeOffset YearOk
  have h := OH.Model.addDaysSat_inRange' d (OH.Model.satNeg o.days)
  have h2 := (OH.Model.Cal.inRange_iff_year _).1 h
  simp only [OH.Model.Cal.minYear, OH.Model.Cal.maxYear] at h2
  omega

theorem builder_false : builder false = DateFilter.valid_ymd_before := by simp [builder]
theorem builder_true : builder true = DateFilter.valid_ymd_after := by simp [builder]

/-- the lazy search of `single_interval_from_bounds` is the model's `firstEndFrom`, on every list of `i32` years -/
theorem firstEnd_agree (e : Date) (he : DateOk e) (hde : DayOk e) (eo : OH.Model.DateOffset) (hwe : WdOk eo.wday) (start : Int)
    (ys : List Int) (h : ∀ y ∈ ys, -2147483648 ≤ y ∧ y ≤ 2147483647) :
    AgreeP (filterMapMapFindM (fun y => DateFilter.date_on_year e y DateFilter.valid_ymd_before) (fun x => DateOffset.apply (genOffset eo) x)
              (fun x => decide (x ≥ start)) ys)
      (OH.Model.firstEndFrom (specOf e) eo start ys) := by
  induction ys with
  | nil => exact .value _
  | cons y ys ih =>
    have ih' := ih (fun y hy => h y (List.mem_cons_of_mem _ hy))
    have ha := dateOnYear_agree e he hde y (h y (List.mem_cons_self ..)) false
    rw [builder_false] at ha
    simp only [filterMapMapFindM, OH.Model.firstEndFrom]
    generalize DateFilter.date_on_year e y DateFilter.valid_ymd_before = g at ha ⊢
    generalize OH.Model.dateOnYear (specOf e) y false = m at ha ⊢
    cases ha with
    | panic msg er => exact .panic _ _
    | value a =>
      cases a with
      | none => exact ih'
      | some x =>
        have hb := apply_agree eo x hwe
        simp only [bnd_ok, bind, Except.bind]
        generalize DateOffset.apply (genOffset eo) x = g2 at hb ⊢
        generalize OH.Model.DateOffset.apply eo x = m2 at hb ⊢
        cases hb with
        | panic msg er => exact .panic _ _
        | value v =>
          simp only [bnd_ok]
          by_cases c : v ≥ start
          · simp only [c, decide_true, if_true, ↓reduceIte]; exact .value _
          · simp only [c, decide_false, Bool.false_eq_true, if_false, ↓reduceIte]; exact ih'

/-- the year a `ds::Date` carries is a `u16` -/
theorem dateYear_bounds (s : Date) (hs : DateOk s) (v : Int) (h : OH.Model.dateYear (specOf s) = some v) : 0 ≤ v ∧ v ≤ 65535 := by
  have e := dateYear_eq_model s hs
  rw [h] at e
  cases s with
  | Fixed y m d =>
    simp only [DateFilter.date_year, Except.ok.injEq] at e
    exact hs.1 v e
  | Easter y =>
    simp only [DateFilter.date_year, Except.ok.injEq] at e
    exact hs v e

/-- THE TIE: `single_interval_from_bounds` as the code has it now and the model's `singleInterval` agree, for every pair of
bounds the parser can produce: the same interval (read as the pair of its ends) or `None`; a panic exactly where the model
has its error (`easter`, the `debug_assert!`s of `DateOffset::apply`); never an overflow -/
theorem singleInterval_agree (s e : Date) (so eo : OH.Model.DateOffset) (hs : DateOk s) (hds : DayOk s) (he : DateOk e) (hde : DayOk e)
    (hws : WdOk so.wday) (hwe : WdOk eo.wday) :
    AgreeP (bnd (Dated3.single_interval_from_bounds s (genOffset so) e (genOffset eo)) fun r => .ok (r.map pairOf))
      (OH.Model.singleInterval (specOf s) so (specOf e) eo) := by
  unfold Dated3.single_interval_from_bounds OH.Model.singleInterval
  rw [dateYear_eq_model s hs, dateYear_eq_model e he]
  simp only [bnd_ok]
  cases hsy : OH.Model.dateYear (specOf s) with
  | none => exact .value _
  | some sy =>
    have bsy := dateYear_bounds s hs sy hsy
    have ha := dateOnYear_agree s hs hds sy (by omega) true
    rw [builder_true] at ha
    simp only []
    generalize DateFilter.date_on_year s sy DateFilter.valid_ymd_after = g at ha ⊢
    generalize OH.Model.dateOnYear (specOf s) sy true = m at ha ⊢
    cases ha with
    | panic msg er => exact .panic _ _
    | value a =>
      cases a with
      | none => exact .value _
      | some s0 =>
        have hb := apply_agree so s0 hws
        simp only [bnd_ok, bind, Except.bind]
        generalize DateOffset.apply (genOffset so) s0 = g2 at hb ⊢
        generalize OH.Model.DateOffset.apply so s0 = m2 at hb ⊢
        cases hb with
        | panic msg er => exact .panic _ _
        | value start =>
          simp only [bnd_ok]
          cases hey : OH.Model.dateYear (specOf e) with
          | some ey =>
            have bey := dateYear_bounds e he ey hey
            have hc := dateOnYear_agree e he hde ey (by omega) false
            rw [builder_false] at hc
            simp only []
            generalize DateFilter.date_on_year e ey DateFilter.valid_ymd_before = g3 at hc ⊢
            generalize OH.Model.dateOnYear (specOf e) ey false = m3 at hc ⊢
            cases hc with
            | panic msg er => exact .panic _ _
            | value b =>
              cases b with
              | none => exact .value _
              | some e0 =>
                have hd := apply_agree eo e0 hwe
                simp only [bnd_ok, bind, Except.bind]
                generalize DateOffset.apply (genOffset eo) e0 = g4 at hd ⊢
                generalize OH.Model.DateOffset.apply eo e0 = m4 at hd ⊢
                cases hd with
                | panic msg er => exact .panic _ _
                | value stop => exact .value _
          | none =>
            simp only [yearBeforeOffset_eq_model, bnd_ok]
            obtain ⟨hy1, hy2⟩ := yearBeforeOffset_yearOk start eo
            generalize OH.Model.yearBeforeOffset start eo = y0 at hy1 hy2 ⊢
            rs_ok
            simp only [bnd_pure, window_single]
            have hf := firstEnd_agree e he hde eo hwe start [y0 - 1, y0, y0 + 1, y0 + 2]
              (by intro y hy; simp only [List.mem_cons, List.mem_nil_iff, or_false] at hy; omega)
            generalize filterMapMapFindM (fun y => DateFilter.date_on_year e y DateFilter.valid_ymd_before)
              (fun x => DateOffset.apply (genOffset eo) x) (fun x => decide (x ≥ start)) [y0 - 1, y0, y0 + 1, y0 + 2] = g5 at hf ⊢
            generalize OH.Model.firstEndFrom (specOf e) eo start [y0 - 1, y0, y0 + 1, y0 + 2] = m5 at hf ⊢
            cases hf with
            | panic msg er => exact .panic _ _
            | value r =>
              cases r with
              | none => exact .value _
              | some stop => exact .value _

/-! ### the general branch: the two windows handed to `next_change_from_bounds` / `is_open_from_bounds` -/

/-- the items of `(..).filter_map(|y| date_on_year(bound, y, builder)).map(|d| offset.apply(d))` are the model's `boundsOn`
(both evaluate every year of the window; an error anywhere is an error of the whole) -/
theorem boundsOn_agree (s : Date) (hs : DateOk s) (hds : DayOk s) (so : OH.Model.DateOffset) (hws : WdOk so.wday) (after : Bool)
    (ys : List Int) (h : ∀ y ∈ ys, -2147483648 ≤ y ∧ y ≤ 2147483647) :
    AgreeP (filterMapMapM (fun y => DateFilter.date_on_year s y (builder after)) (fun x => DateOffset.apply (genOffset so) x) ys)
      (OH.Model.boundsOn (specOf s) so after ys) := by
  induction ys with
  | nil => exact .value _
  | cons y ys ih =>
    have ih' := ih (fun y hy => h y (List.mem_cons_of_mem _ hy))
    have ha := dateOnYear_agree s hs hds y (h y (List.mem_cons_self ..)) after
    simp only [filterMapMapM, OH.Model.boundsOn]
    generalize filterMapMapM (fun y => DateFilter.date_on_year s y (builder after)) (fun x => DateOffset.apply (genOffset so) x) ys = gr at ih' ⊢
    generalize OH.Model.boundsOn (specOf s) so after ys = mr at ih' ⊢
    generalize DateFilter.date_on_year s y (builder after) = g at ha ⊢
    generalize OH.Model.dateOnYear (specOf s) y after = m at ha ⊢
    cases ha with
    | panic msg er =>
      cases ih' with
      | panic msg2 er2 => exact .panic _ _
      | value rest => exact .panic _ _
    | value a =>
      cases a with
      | none =>
        cases ih' with
        | panic msg2 er2 => exact .panic _ _
        | value rest => exact .value _
      | some x =>
        have hb := apply_agree so x hws
        simp only [bnd_ok, bind, Except.bind]
        generalize DateOffset.apply (genOffset so) x = g2 at hb ⊢
        generalize OH.Model.DateOffset.apply so x = m2 at hb ⊢
        cases hb with
        | panic msg er =>
          cases ih' with
          | panic msg2 er2 => exact .panic _ _
          | value rest => exact .panic _ _
        | value v =>
          cases ih' with
          | panic msg2 er2 => exact .panic _ _
          | value rest => exact .value _

/-- what `AgreeP` says about a generated outcome read through a function of its value -/
theorem agree_map_inv {α β : Type} (x : R α) (φ : α → β) (m : Except String β) (h : AgreeP (bnd x fun r => .ok (φ r)) m) :
    (∃ r, x = .ok r ∧ m = .ok (φ r)) ∨ (∃ msg er, x = .error (.panic msg) ∧ m = .error er) := by
  cases x with
  | ok r =>
    simp only [bnd_ok] at h
    cases h
    exact .inl ⟨r, rfl, rfl⟩
  | error err =>
    simp only [bnd_error] at h
    cases h
    exact .inr ⟨_, _, rfl, rfl⟩

/-- the model's reading of a `ds::Date` loses nothing -/
theorem specOf_inj (a b : Date) (ha : DateOk a) (hb : DateOk b) (h : specOf a = specOf b) : a = b := by
  cases a with
  | Fixed y m d =>
    cases b with
    | Fixed y' m' d' =>
      simp only [specOf, OH.Model.DateSpec.fixed.injEq] at h
      obtain ⟨h1, h2, h3⟩ := h
      have e1 := map_toNat_cast y ha.1
      have e2 := map_toNat_cast y' hb.1
      rw [h1] at e1
      have hy : y = y' := e1.symm.trans e2
      have hm := OH.Props.ArithC01MonthSel.num_injective h2
      have hd : d = d' := by have := ha.2; have := hb.2; omega
      rw [hy, hm, hd]
    | Easter y' => simp only [specOf] at h; cases h
  | Easter y =>
    cases b with
    | Fixed y' m' d' => simp only [specOf] at h; cases h
    | Easter y' =>
      simp only [specOf, OH.Model.DateSpec.easter.injEq] at h
      have e1 := map_toNat_cast y ha
      have e2 := map_toNat_cast y' hb
      rw [h] at e1
      rw [e1.symm.trans e2]

/-! ### THE TIES of the `Date` arms (everything but the single-day branch, whose `single_day_intervals` is not translated) -/

/-- THE TIE (hint): the arm `Date { start, end }` of `MonthdayRange::next_change_hint` as the code has it now, with the hand
model of `intervals_from_bounds` for the named parameter, agrees with the model's `MonthdayRange.hint` on every dated range
that is not a single day: the single-interval branch (`next_change_from_intervals(date, [interval])`) and the general
branch (the windows `start_year - 2 ..= start_year + 10`, `end_year - 2 ..= end_year + 10`, no overflow) -/
theorem hintDate_agree (d : Int) (s e : Date) (so eo : OH.Model.DateOffset) (hs : DateOk s) (hds : DayOk s) (he : DateOk e) (hde : DayOk e)
    (hws : WdOk so.wday) (hwe : WdOk eo.wday) (hne : ¬ SingleDay s e)
    :
    AgreeP (Dated3.hint_date d s (genOffset so) e (genOffset eo) modelIntervals)
      (OH.Model.MonthdayRange.hint (.date (specOf s) so (specOf e) eo) d) := by
  have hmodel : OH.Model.MonthdayRange.hint (.date (specOf s) so (specOf e) eo) d =
      (do match ← OH.Model.singleInterval (specOf s) so (specOf e) eo with
          | some iv => pure (some (OH.Model.nextChangeFromIntervals d [iv]))
          | none =>
            let starts ← OH.Model.boundsOn (specOf s) so true (OH.Model.yearsAround (OH.Model.yearBeforeOffset d so) 2 10)
            let ends ← OH.Model.boundsOn (specOf e) eo false (OH.Model.yearsAround (OH.Model.yearBeforeOffset d eo) 2 10)
            pure (some (OH.Model.nextChangeFromIntervals d (OH.Model.intervalsFromBounds starts ends)))) := by
    cases s with
    | Easter y => simp only [OH.Model.MonthdayRange.hint, specOf]; rfl
    | Fixed y m dd =>
      have hb : (specOf (.Fixed y m dd) == specOf e) = false := by
        rw [beq_eq_false_iff_ne]
        exact fun h => hne ⟨⟨_, _, _, rfl⟩, specOf_inj _ _ hs he h⟩
      simp only [specOf] at hb
      simp only [OH.Model.MonthdayRange.hint, specOf, hb]
      rfl
  have hgen : Dated3.hint_date d s (genOffset so) e (genOffset eo) modelIntervals =
      bnd (Dated3.single_interval_from_bounds s (genOffset so) e (genOffset eo)) fun r =>
      match r with
      | some iv => .ok (some (OH.Model.nextChangeFromIntervals d [pairOf iv]))
      | none =>
        bnd (filterMapMapM (fun y => DateFilter.date_on_year s y (builder true)) (fun x => DateOffset.apply (genOffset so) x)
              (OH.Model.yearsAround (OH.Model.yearBeforeOffset d so) 2 10)) fun starts =>
        bnd (filterMapMapM (fun y => DateFilter.date_on_year e y (builder false)) (fun x => DateOffset.apply (genOffset eo) x)
              (OH.Model.yearsAround (OH.Model.yearBeforeOffset d eo) 2 10)) fun ends =>
        .ok (some (OH.Model.nextChangeFromIntervals d (OH.Model.intervalsFromBounds starts ends))) := by
    obtain ⟨a1, a2⟩ := yearBeforeOffset_yearOk d so
    obtain ⟨b1, b2⟩ := yearBeforeOffset_yearOk d eo
    have w1 : rangeInclList (OH.Model.yearBeforeOffset d so - 2) (OH.Model.yearBeforeOffset d so + 10) = _ := window_eq (OH.Model.yearBeforeOffset d so) 2 10
    have w2 : rangeInclList (OH.Model.yearBeforeOffset d eo - 2) (OH.Model.yearBeforeOffset d eo + 10) = _ := window_eq (OH.Model.yearBeforeOffset d eo) 2 10
    unfold Dated3.hint_date
    simp only [yearBeforeOffset_eq_model, bnd_ok, builder_true, builder_false]
    generalize OH.Model.yearBeforeOffset d so = ys at *
    generalize OH.Model.yearBeforeOffset d eo = ye at *
    cases s with
    | Easter y =>
      simp only []
      congr 1; funext r
      cases r with
      | some iv => simp only [nextChangeFromIntervals_eq_model, bnd_ok, List.map_cons, List.map_nil]
      | none =>
        rs_ok
        simp only [bnd_pure, w1, w2, nextChangeFromBounds_eq_model, bnd_ok]
    | Fixed y m dd =>
      have hd : decide (Date.Fixed y m dd = e) = false := by
        simp only [decide_eq_false_iff_not]
        exact fun h => hne ⟨⟨_, _, _, rfl⟩, h⟩
      simp only [hd]
      congr 1; funext r
      cases r with
      | some iv => simp only [nextChangeFromIntervals_eq_model, bnd_ok, List.map_cons, List.map_nil]
      | none =>
        rs_ok
        simp only [bnd_pure, w1, w2, nextChangeFromBounds_eq_model, bnd_ok]
  rw [hmodel, hgen]
  have hy : ∀ (y0 : Int), YearOk y0 → ∀ y ∈ OH.Model.yearsAround y0 2 10, -2147483648 ≤ y ∧ y ≤ 2147483647 := by
    intro y0 h0 y hy
    have := mem_yearsAround y0 2 10 y hy
    obtain ⟨h1, h2⟩ := h0
    omega
  rcases agree_map_inv _ _ _ (singleInterval_agree s e so eo hs hds he hde hws hwe) with ⟨r, hx, hm⟩ | ⟨msg, er, hx, hm⟩
  · rw [hx, hm]
    simp only [bnd_ok, bind, Except.bind]
    cases r with
    | some iv => exact .value _
    | none =>
      have h1 := boundsOn_agree s hs hds so hws true _ (hy _ (yearBeforeOffset_yearOk d so))
      have h2 := boundsOn_agree e he hde eo hwe false _ (hy _ (yearBeforeOffset_yearOk d eo))
      simp only [Option.map_none]
      generalize filterMapMapM (fun y => DateFilter.date_on_year s y (builder true)) _ _ = g1 at h1 ⊢
      generalize OH.Model.boundsOn (specOf s) so true _ = m1 at h1 ⊢
      generalize filterMapMapM (fun y => DateFilter.date_on_year e y (builder false)) _ _ = g2 at h2 ⊢
      generalize OH.Model.boundsOn (specOf e) eo false _ = m2 at h2 ⊢
      cases h1 with
      | panic a b => exact .panic _ _
      | value starts =>
        cases h2 with
        | panic a b => exact .panic _ _
        | value ends => exact .value _
  · rw [hx, hm]
    exact .panic _ _

/-- THE TIE (filter): the arm `Date { start, end }` of `MonthdayRange::filter`, the same way: `interval.contains(&date)` in the
single-interval branch, the windows `start_year - 2 ..= start_year + 2`, `end_year - 2 ..= end_year + 2` in the general one -/
theorem filterDate_agree (d : Int) (s e : Date) (so eo : OH.Model.DateOffset) (hs : DateOk s) (hds : DayOk s) (he : DateOk e) (hde : DayOk e)
    (hws : WdOk so.wday) (hwe : WdOk eo.wday) (hne : ¬ SingleDay s e)
    :
    AgreeP (Dated3.filter_date d s (genOffset so) e (genOffset eo) modelIntervals)
      (OH.Model.MonthdayRange.filter (.date (specOf s) so (specOf e) eo) d) := by
  have hmodel : OH.Model.MonthdayRange.filter (.date (specOf s) so (specOf e) eo) d =
      (do match ← OH.Model.singleInterval (specOf s) so (specOf e) eo with
          | some iv => pure (decide (iv.1 ≤ d) && decide (d ≤ iv.2))
          | none =>
            let starts ← OH.Model.boundsOn (specOf s) so true (OH.Model.yearsAround (OH.Model.yearBeforeOffset d so) 2 2)
            let ends ← OH.Model.boundsOn (specOf e) eo false (OH.Model.yearsAround (OH.Model.yearBeforeOffset d eo) 2 2)
            pure (OH.Model.isOpenFromIntervals d (OH.Model.intervalsFromBounds starts ends))) := by
    cases s with
    | Easter y => simp only [OH.Model.MonthdayRange.filter, specOf]; rfl
    | Fixed y m dd =>
      have hb : (specOf (.Fixed y m dd) == specOf e) = false := by
        rw [beq_eq_false_iff_ne]
        exact fun h => hne ⟨⟨_, _, _, rfl⟩, specOf_inj _ _ hs he h⟩
      simp only [specOf] at hb
      simp only [OH.Model.MonthdayRange.filter, specOf, hb]
      rfl
  have hgen : Dated3.filter_date d s (genOffset so) e (genOffset eo) modelIntervals =
      bnd (Dated3.single_interval_from_bounds s (genOffset so) e (genOffset eo)) fun r =>
      match r with
      | some iv => .ok (decide ((pairOf iv).1 ≤ d) && decide (d ≤ (pairOf iv).2))
      | none =>
        bnd (filterMapMapM (fun y => DateFilter.date_on_year s y (builder true)) (fun x => DateOffset.apply (genOffset so) x)
              (OH.Model.yearsAround (OH.Model.yearBeforeOffset d so) 2 2)) fun starts =>
        bnd (filterMapMapM (fun y => DateFilter.date_on_year e y (builder false)) (fun x => DateOffset.apply (genOffset eo) x)
              (OH.Model.yearsAround (OH.Model.yearBeforeOffset d eo) 2 2)) fun ends =>
        .ok (OH.Model.isOpenFromIntervals d (OH.Model.intervalsFromBounds starts ends)) := by
    obtain ⟨a1, a2⟩ := yearBeforeOffset_yearOk d so
    obtain ⟨b1, b2⟩ := yearBeforeOffset_yearOk d eo
    have w1 : rangeInclList (OH.Model.yearBeforeOffset d so - 2) (OH.Model.yearBeforeOffset d so + 2) = _ := window_eq (OH.Model.yearBeforeOffset d so) 2 2
    have w2 : rangeInclList (OH.Model.yearBeforeOffset d eo - 2) (OH.Model.yearBeforeOffset d eo + 2) = _ := window_eq (OH.Model.yearBeforeOffset d eo) 2 2
    unfold Dated3.filter_date
    simp only [yearBeforeOffset_eq_model, bnd_ok, builder_true, builder_false]
    generalize OH.Model.yearBeforeOffset d so = ys at *
    generalize OH.Model.yearBeforeOffset d eo = ye at *
    cases s with
    | Easter y =>
      simp only []
      congr 1; funext r
      cases r with
      | some iv => rfl
      | none =>
        rs_ok
        simp only [bnd_pure, w1, w2, isOpenFromBounds_eq_model, bnd_ok]
    | Fixed y m dd =>
      have hd : decide (Date.Fixed y m dd = e) = false := by
        simp only [decide_eq_false_iff_not]
        exact fun h => hne ⟨⟨_, _, _, rfl⟩, h⟩
      simp only [hd]
      congr 1; funext r
      cases r with
      | some iv => rfl
      | none =>
        rs_ok
        simp only [bnd_pure, w1, w2, isOpenFromBounds_eq_model, bnd_ok]
  rw [hmodel, hgen]
  have hy : ∀ (y0 : Int), YearOk y0 → ∀ y ∈ OH.Model.yearsAround y0 2 2, -2147483648 ≤ y ∧ y ≤ 2147483647 := by
    intro y0 h0 y hy
    have := mem_yearsAround y0 2 2 y hy
    obtain ⟨h1, h2⟩ := h0
    omega
  rcases agree_map_inv _ _ _ (singleInterval_agree s e so eo hs hds he hde hws hwe) with ⟨r, hx, hm⟩ | ⟨msg, er, hx, hm⟩
  · rw [hx, hm]
    simp only [bnd_ok, bind, Except.bind]
    cases r with
    | some iv => exact .value _
    | none =>
      have h1 := boundsOn_agree s hs hds so hws true _ (hy _ (yearBeforeOffset_yearOk d so))
      have h2 := boundsOn_agree e he hde eo hwe false _ (hy _ (yearBeforeOffset_yearOk d eo))
      simp only [Option.map_none]
      generalize filterMapMapM (fun y => DateFilter.date_on_year s y (builder true)) _ _ = g1 at h1 ⊢
      generalize OH.Model.boundsOn (specOf s) so true _ = m1 at h1 ⊢
      generalize filterMapMapM (fun y => DateFilter.date_on_year e y (builder false)) _ _ = g2 at h2 ⊢
      generalize OH.Model.boundsOn (specOf e) eo false _ = m2 at h2 ⊢
      cases h1 with
      | panic a b => exact .panic _ _
      | value starts =>
        cases h2 with
        | panic a b => exact .panic _ _
        | value ends => exact .value _
  · rw [hx, hm]
    exact .panic _ _

/-! ### the single-day branch (`single_day_intervals`), for offsets the parser can produce (`DateOffset.wf`: then `DateOffset::apply`
returns a value on every representable date, so evaluating all the items before `find` runs is not observable) -/

/-- the occurrences of the single day `m/dd` on the years `ys`, shifted by the two offsets: the model's reading of the items of
`single_day_intervals` -/
def dayItems (m : Month) (dd : Int) (so eo : OH.Model.DateOffset) (ys : List Int) : List (Int × Int) :=
  ys.filterMap fun y => (OH.Model.Cal.ofYmd? y (num m) dd.toNat).map fun f => (so.shiftC f, eo.shiftC f)

/-- `single_day_intervals` returns these items, never a panic / overflow -/
theorem singleDayIntervals_eq (m : Month) (dd : Int) (so eo : OH.Model.DateOffset) (hso : so.wf = true) (heo : eo.wf = true) (lo hi : Int) :
    Dated3.single_day_intervals m dd ⟨lo, hi⟩ (genOffset so) (genOffset eo)
      = .ok ((dayItems m dd so eo (rangeInclList lo hi)).map fun p => RangeInclusive.mk p.1 p.2) := by
  unfold Dated3.single_day_intervals
  simp only [bnd_pure]
  generalize rangeInclList lo hi = ys
  induction ys with
  | nil => rfl
  | cons y ys ih =>
    simp only [filterMapMapM, bnd_ok, Chrono.from_ymd_opt, wrap_num, Int.toNat_natCast, dayItems, List.filterMap_cons] at ih ⊢
    cases h : OH.Model.Cal.ofYmd? y (num m) dd.toNat with
    | none => simp only [Option.map_none]; exact ih
    | some f =>
      obtain ⟨r1, r2⟩ := OH.Model.Cal.ofYmd?_inRange h
      simp only [(gen_apply_total so hso f r1 r2).1, (gen_apply_total eo heo f r1 r2).1, bnd_ok, ih, Option.map_some, List.map_cons]

/-- the model's lazy `singleDayFind` is `find` on the same items -/
theorem singleDayFind_eq (m : Month) (dd : Int) (so eo : OH.Model.DateOffset) (hso : so.wf = true) (heo : eo.wf = true) (d : Int) (ys : List Int) :
    OH.Model.singleDayFind (num m) dd.toNat so eo d ys = .ok ((dayItems m dd so eo ys).find? (fun r => decide (r.2 ≥ d))) := by
  induction ys with
  | nil => rfl
  | cons y ys ih =>
    simp only [OH.Model.singleDayFind, dayItems, List.filterMap_cons] at ih ⊢
    cases h : OH.Model.Cal.ofYmd? y (num m) dd.toNat with
    | none => simp only [Option.map_none]; exact ih
    | some f =>
      obtain ⟨r1, r2⟩ := OH.Model.Cal.ofYmd?_inRange h
      simp only [OH.Model.DateOffset.apply_eq so hso f r1 r2, OH.Model.DateOffset.apply_eq eo heo f r1 r2, bind, Except.bind, Option.map_some,
        List.find?_cons]
      by_cases c : eo.shiftC f ≥ d
      · simp only [c, decide_true, if_true, ↓reduceIte]; rfl
      · simp only [c, decide_false, Bool.false_eq_true, if_false, ↓reduceIte]; exact ih

theorem map_pairOf_mk (l : List (Int × Int)) : (l.map fun p => RangeInclusive.mk p.1 p.2).map pairOf = l := by
  induction l with
  | nil => rfl
  | cons x xs ih => simp only [List.map_cons, ih, pairOf]

/-- THE TIE (hint, single-day branch): `start == end` is a `Date::Fixed`: the code's hint is the model's, a value -/
theorem hintDate_single_day_eq (d : Int) (y : Option Int) (m : Month) (dd : Int) (so eo : OH.Model.DateOffset) (hs : DateOk (.Fixed y m dd))
    (hso : so.wf = true) (heo : eo.wf = true) (f : List Int → List Int → List (RangeInclusive Int)) :
    ∃ v, Dated3.hint_date d (.Fixed y m dd) (genOffset so) (.Fixed y m dd) (genOffset eo) f = .ok v ∧
      OH.Model.MonthdayRange.hint (.date (specOf (.Fixed y m dd)) so (specOf (.Fixed y m dd)) eo) d = .ok v := by
  obtain ⟨b1, b2⟩ := yearBeforeOffset_yearOk d eo
  have key : ∀ ys : List Int,
      (some (OH.Model.nextChangeFromIntervals d (dayItems m dd so eo ys)) : Option Int) =
        (match (dayItems m dd so eo ys).find? (fun r => decide (r.2 ≥ d)) with
         | none => some OH.Model.Cal.dateEnd
         | some r => some (if r.1 ≤ d then (OH.Model.Cal.succ? r.2).getD OH.Model.Cal.dateEnd else r.1)) := by
    intro ys
    unfold OH.Model.nextChangeFromIntervals
    cases (dayItems m dd so eo ys).find? (fun r => decide (r.2 ≥ d)) <;> rfl
  cases y with
  | some v =>
    have hv := hs.1 v rfl
    have ev : ((v.toNat : Nat) : Int) = v := by omega
    have hw : rangeInclList v v = [v] := by
      have := rangeInclList_eq v 0
      simpa using this
    have hgen : Dated3.hint_date d (.Fixed (some v) m dd) (genOffset so) (.Fixed (some v) m dd) (genOffset eo) f =
        .ok (some (OH.Model.nextChangeFromIntervals d (dayItems m dd so eo [v]))) := by
      rw [OH.Props.ArithC02Dated3.hintDate_single_day_year, singleDayIntervals_eq m dd so eo hso heo, hw]
      simp only [bnd_ok, map_pairOf_mk]
    have hmod : OH.Model.MonthdayRange.hint (.date (specOf (.Fixed (some v) m dd)) so (specOf (.Fixed (some v) m dd)) eo) d =
        .ok (some (OH.Model.nextChangeFromIntervals d (dayItems m dd so eo [v]))) := by
      simp only [OH.Model.MonthdayRange.hint, specOf, Option.map_some, beq_self_eq_true, ev, singleDayFind_eq m dd so eo hso heo d [v], bind, Except.bind, key]
      cases (dayItems m dd so eo [v]).find? (fun r => decide (r.2 ≥ d)) <;> rfl
    exact ⟨_, hgen, hmod⟩
  | none =>
    have hw : rangeInclList (OH.Model.yearBeforeOffset d eo - 1) (OH.Model.yearBeforeOffset d eo + 10) = OH.Model.yearsAround (OH.Model.yearBeforeOffset d eo) 1 10 :=
      window_eq (OH.Model.yearBeforeOffset d eo) 1 10
    have hgen : Dated3.hint_date d (.Fixed none m dd) (genOffset so) (.Fixed none m dd) (genOffset eo) f =
        .ok (some (OH.Model.nextChangeFromIntervals d (dayItems m dd so eo (OH.Model.yearsAround (OH.Model.yearBeforeOffset d eo) 1 10)))) := by
      rw [OH.Props.ArithC02Dated3.hintDate_single_day d m dd (genOffset so) (genOffset eo) _ f (yearBeforeOffset_eq_model d eo) ⟨b1, b2⟩,
        singleDayIntervals_eq m dd so eo hso heo, hw]
      simp only [bnd_ok, map_pairOf_mk]
    have hmod : OH.Model.MonthdayRange.hint (.date (specOf (.Fixed none m dd)) so (specOf (.Fixed none m dd)) eo) d =
        .ok (some (OH.Model.nextChangeFromIntervals d (dayItems m dd so eo (OH.Model.yearsAround (OH.Model.yearBeforeOffset d eo) 1 10)))) := by
      simp only [OH.Model.MonthdayRange.hint, specOf, Option.map_none, beq_self_eq_true, singleDayFind_eq m dd so eo hso heo d, bind, Except.bind, key]
      cases (dayItems m dd so eo (OH.Model.yearsAround (OH.Model.yearBeforeOffset d eo) 1 10)).find? (fun r => decide (r.2 ≥ d)) <;> rfl
    exact ⟨_, hgen, hmod⟩

/-- THE TIE (filter, single-day branch): `start == end` is a `Date::Fixed`: the code's answer is the model's, a value -/
theorem filterDate_single_day_eq (d : Int) (y : Option Int) (m : Month) (dd : Int) (so eo : OH.Model.DateOffset) (hs : DateOk (.Fixed y m dd))
    (hso : so.wf = true) (heo : eo.wf = true) (f : List Int → List Int → List (RangeInclusive Int)) :
    ∃ v, Dated3.filter_date d (.Fixed y m dd) (genOffset so) (.Fixed y m dd) (genOffset eo) f = .ok v ∧
      OH.Model.MonthdayRange.filter (.date (specOf (.Fixed y m dd)) so (specOf (.Fixed y m dd)) eo) d = .ok v := by
  obtain ⟨b1, b2⟩ := yearBeforeOffset_yearOk d eo
  have key : ∀ ys : List Int,
      (OH.Model.isOpenFromIntervals d (dayItems m dd so eo ys) : Bool) =
        (match (dayItems m dd so eo ys).find? (fun r => decide (r.2 ≥ d)) with
         | none => false
         | some r => (decide (r.1 ≤ d) && decide (d ≤ r.2))) := by
    intro ys
    unfold OH.Model.isOpenFromIntervals
    cases (dayItems m dd so eo ys).find? (fun r => decide (r.2 ≥ d)) <;> rfl
  cases y with
  | some v =>
    have hv := hs.1 v rfl
    have ev : ((v.toNat : Nat) : Int) = v := by omega
    have hw : rangeInclList v v = [v] := by
      have := rangeInclList_eq v 0
      simpa using this
    have hgen : Dated3.filter_date d (.Fixed (some v) m dd) (genOffset so) (.Fixed (some v) m dd) (genOffset eo) f =
        .ok ((OH.Model.isOpenFromIntervals d (dayItems m dd so eo [v]))) := by
      rw [OH.Props.ArithC02Dated3.filterDate_single_day_year, singleDayIntervals_eq m dd so eo hso heo, hw]
      simp only [bnd_ok, map_pairOf_mk]
    have hmod : OH.Model.MonthdayRange.filter (.date (specOf (.Fixed (some v) m dd)) so (specOf (.Fixed (some v) m dd)) eo) d =
        .ok ((OH.Model.isOpenFromIntervals d (dayItems m dd so eo [v]))) := by
      simp only [OH.Model.MonthdayRange.filter, specOf, Option.map_some, beq_self_eq_true, ev, singleDayFind_eq m dd so eo hso heo d [v], bind, Except.bind, key]
      cases (dayItems m dd so eo [v]).find? (fun r => decide (r.2 ≥ d)) <;> rfl
    exact ⟨_, hgen, hmod⟩
  | none =>
    have hw : rangeInclList (OH.Model.yearBeforeOffset d eo - 1) (OH.Model.yearBeforeOffset d eo + 8) = OH.Model.yearsAround (OH.Model.yearBeforeOffset d eo) 1 8 :=
      window_eq (OH.Model.yearBeforeOffset d eo) 1 8
    have hgen : Dated3.filter_date d (.Fixed none m dd) (genOffset so) (.Fixed none m dd) (genOffset eo) f =
        .ok ((OH.Model.isOpenFromIntervals d (dayItems m dd so eo (OH.Model.yearsAround (OH.Model.yearBeforeOffset d eo) 1 8)))) := by
      rw [OH.Props.ArithC02Dated3.filterDate_single_day d m dd (genOffset so) (genOffset eo) _ f (yearBeforeOffset_eq_model d eo) ⟨b1, b2⟩,
        singleDayIntervals_eq m dd so eo hso heo, hw]
      simp only [bnd_ok, map_pairOf_mk]
    have hmod : OH.Model.MonthdayRange.filter (.date (specOf (.Fixed none m dd)) so (specOf (.Fixed none m dd)) eo) d =
        .ok ((OH.Model.isOpenFromIntervals d (dayItems m dd so eo (OH.Model.yearsAround (OH.Model.yearBeforeOffset d eo) 1 8)))) := by
      simp only [OH.Model.MonthdayRange.filter, specOf, Option.map_none, beq_self_eq_true, singleDayFind_eq m dd so eo hso heo d, bind, Except.bind, key]
      cases (dayItems m dd so eo (OH.Model.yearsAround (OH.Model.yearBeforeOffset d eo) 1 8)).find? (fun r => decide (r.2 ≥ d)) <;> rfl
    exact ⟨_, hgen, hmod⟩

/-! ### all branches -/

theorem wdOk_of_wf (o : OH.Model.DateOffset) (hw : o.wf = true) : WdOk o.wday := by
  simp only [OH.Model.DateOffset.wf, Bool.and_eq_true] at hw
  have := hw.1
  unfold WdOk
  cases hq : o.wday <;> simp only [hq, OH.Model.WdayOffset.wf, decide_eq_true_eq] at this ⊢ <;> first | trivial | exact this

/-- THE TIE (hint), every branch: the arm `Date { start: (start, start_offset), end: (end, end_offset) }` of
`MonthdayRange::next_change_hint` as the code has it now (with the hand model of `intervals_from_bounds` for the one
named parameter) and the model's `MonthdayRange.hint` agree, for every date and every dated range the parser can produce -/
theorem hintDate_tie (d : Int) (s e : Date) (so eo : OH.Model.DateOffset) (hs : DateOk s) (hds : DayOk s) (he : DateOk e) (hde : DayOk e)
    (hso : so.wf = true) (heo : eo.wf = true) :
    AgreeP (Dated3.hint_date d s (genOffset so) e (genOffset eo) modelIntervals)
      (OH.Model.MonthdayRange.hint (.date (specOf s) so (specOf e) eo) d) := by
  by_cases h : SingleDay s e
  · obtain ⟨⟨y, m, dd, rfl⟩, rfl⟩ := h
    obtain ⟨v, h1, h2⟩ := hintDate_single_day_eq d y m dd so eo hs hso heo modelIntervals
    rw [h1, h2]
    exact .value _
  · exact hintDate_agree d s e so eo hs hds he hde (wdOk_of_wf so hso) (wdOk_of_wf eo heo) h

/-- THE TIE (filter), every branch -/
theorem filterDate_tie (d : Int) (s e : Date) (so eo : OH.Model.DateOffset) (hs : DateOk s) (hds : DayOk s) (he : DateOk e) (hde : DayOk e)
    (hso : so.wf = true) (heo : eo.wf = true) :
    AgreeP (Dated3.filter_date d s (genOffset so) e (genOffset eo) modelIntervals)
      (OH.Model.MonthdayRange.filter (.date (specOf s) so (specOf e) eo) d) := by
  by_cases h : SingleDay s e
  · obtain ⟨⟨y, m, dd, rfl⟩, rfl⟩ := h
    obtain ⟨v, h1, h2⟩ := filterDate_single_day_eq d y m dd so eo hs hso heo modelIntervals
    rw [h1, h2]
    exact .value _
  · exact filterDate_agree d s e so eo hs hds he hde (wdOk_of_wf so hso) (wdOk_of_wf eo heo) h

end OH.Props.ArithC02Dated3Tie
