/-
C14 (and the time selectors of C01 / C11) on the code as it is NOW: `range_intersection`
(opening-hours/src/utils/range.rs, generic over `T: Ord`) is translated from the Rust source on every run
(`translators/rs2lean.py` → `OH.Generated.Arith.RangeUtils.range_intersection`): `a..b` builds a
`std::ops::Range`, `max`/`min` are `std::cmp::max/min` (`cmpMax`/`cmpMin` of `OH/Model/RustInt.lean`:
the second argument unless the first is greater / the first unless it is greater), the carrier is a Lean
type parameter with decidable `≤`/`<`.

The tie is stated at the carrier the schedule model uses (minutes, `Nat`; also `Int`): for EVERY pair of
ranges the generated definition returns (no panic outcome) what the hand-written model
`OH.Model.rangeIntersection` returns.  `Props/C14.rangeIntersection_some/_none` are restated on the
generated definition.
-/
import OH.Generated.Arith
import OH.Model.Schedule
namespace OH.Props.ArithC14
open OH.Model.RustInt
open OH.Generated.Arith
open OH.Model (rangeIntersection)

/-- a model range (pair) as a `std::ops::Range` -/
def toRange {α : Type} (p : α × α) : Range α := ⟨p.1, p.2⟩

theorem cmpMax_nat (a b : Nat) : cmpMax a b = max a b := by
  unfold cmpMax; split <;> omega

theorem cmpMin_nat (a b : Nat) : cmpMin a b = min a b := by
  unfold cmpMin; split <;> omega

theorem cmpMax_int (a b : Int) : cmpMax a b = max a b := by
  unfold cmpMax; split <;> omega

theorem cmpMin_int (a b : Int) : cmpMin a b = min a b := by
  unfold cmpMin; split <;> omega

/-- `range_intersection(a, b)` is the model's `rangeIntersection a b` (minutes: `Nat`) -/
theorem rangeIntersection_eq_model (a b : Nat × Nat) :
    RangeUtils.range_intersection (toRange a) (toRange b) = .ok ((rangeIntersection a b).map toRange) := by
  simp only [RangeUtils.range_intersection, rangeIntersection, toRange, cmpMax_nat, cmpMin_nat]
  by_cases h : max a.1 b.1 < min a.2 b.2 <;> simp [h, toRange]

/-- the generated function never reaches a panic / overflow outcome -/
theorem rangeIntersection_total (a b : Range Nat) : ∃ r, RangeUtils.range_intersection a b = .ok r :=
  ⟨_, rangeIntersection_eq_model (a.start, a.«end») (b.start, b.«end»)⟩

/-- a result is the non-empty range of the common points … -/
theorem gen_rangeIntersection_some (a b r : Range Nat)
    (h : RangeUtils.range_intersection a b = .ok (some r)) :
    r.start < r.«end» ∧ ∀ m, (r.start ≤ m ∧ m < r.«end») ↔ ((a.start ≤ m ∧ m < a.«end») ∧ (b.start ≤ m ∧ m < b.«end»)) := by
  have e := rangeIntersection_eq_model (a.start, a.«end») (b.start, b.«end»)
  simp only [toRange] at e
  rw [e] at h
  cases hm : rangeIntersection (a.start, a.«end») (b.start, b.«end») with
  | none => rw [hm] at h; simp at h
  | some p =>
    rw [hm] at h
    simp only [Option.map_some, Except.ok.injEq, Option.some.injEq, toRange] at h
    subst h
    unfold rangeIntersection at hm
    simp only at hm
    split at hm
    · cases hm
      rename_i hlt
      refine ⟨hlt, fun m => ?_⟩
      simp only at hlt ⊢
      omega
    · cases hm

/-- … and no result means no common point -/
theorem gen_rangeIntersection_none (a b : Range Nat)
    (h : RangeUtils.range_intersection a b = .ok none) (m : Nat) :
    ¬ ((a.start ≤ m ∧ m < a.«end») ∧ (b.start ≤ m ∧ m < b.«end»)) := by
  have e := rangeIntersection_eq_model (a.start, a.«end») (b.start, b.«end»)
  simp only [toRange] at e
  rw [e] at h
  cases hm : rangeIntersection (a.start, a.«end») (b.start, b.«end») with
  | some p => rw [hm] at h; simp at h
  | none =>
    unfold rangeIntersection at hm
    simp only at hm
    split at hm
    · cases hm
    · rename_i hlt
      omega

/-- on `Int` carriers the generated definition is the same `max .. min` test -/
theorem gen_rangeIntersection_int (a b : Range Int) :
    RangeUtils.range_intersection a b
      = .ok (if max a.start b.start < min a.«end» b.«end» then some ⟨max a.start b.start, min a.«end» b.«end»⟩ else none) := by
  simp only [RangeUtils.range_intersection, cmpMax_int, cmpMin_int]
  by_cases h : max a.start b.start < min a.«end» b.«end» <;> simp [h]

/-! non-vacuity: the three cases of the crate's unit test -/
example : RangeUtils.range_intersection (⟨0, 1⟩ : Range Nat) ⟨1, 2⟩ = .ok none := rfl
example : RangeUtils.range_intersection (⟨0, 3⟩ : Range Nat) ⟨1, 2⟩ = .ok (some ⟨1, 2⟩) := rfl
example : RangeUtils.range_intersection (⟨0, 3⟩ : Range Nat) ⟨2, 4⟩ = .ok (some ⟨2, 3⟩) := rfl

end OH.Props.ArithC14
