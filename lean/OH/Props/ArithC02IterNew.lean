/-
C02 on the code as it is NOW, the interval iterator: `TimeDomainIterator::new` of `opening-hours/src/opening_hours.rs`,
translated from the Rust source on every run (rs2lean, seventh increment, region `[iter extension]`, third part:
`OH.Generated.Arith.Localize.TimeDomainIterator.new`, its `while` loop `.new.loop1` / `.new.loop2` — the translator
generates the continuation of the falling-through `if start_datetime >= end_datetime { .. }` in both branches).
Instantiation BY NAME: `ExtendedTime := Nat` (minute counts; `NaiveTime -> ExtendedTime` := `intoExtendedTime`),
`OpeningHours<L> :=` the model's day level `Env`, `opening_hours.schedule_at(d).into_iter().peekable()` := the model's
`env.sched d` (`dayScheduleOf`).

* `new_eq_model` (MAIN): for every day level, start and end instant the generated `new` = the model's `itNew`
  (`OH/Model/Iter.lean`): the start date and time, the schedule of the start day (its panic), the emptied schedule when
  `start >= end`, the ranges skipped until one contains the start time — for every `fuel` above the length of that day's
  schedule: TERMINATION is part of the statement.
-/
import OH.Generated.Arith
import OH.Proofs.ArithIterNew
namespace OH.Props.ArithC02IterNew
open OH.Model OH.Model.RustInt OH.Generated.Arith OH.Generated.Arith.Localize
open OH.Proofs.ArithSched OH.Proofs.ArithIter OH.Proofs.ArithIterNext OH.Proofs.ArithIterNew

theorem new_eq_model (env : Env) (start stop : Int) (fuel : Nat)
    (hfuel : ∀ l, env.sched (instDay start) = .ok l → l.length + 1 ≤ fuel) :
    TimeDomainIterator.new (Kind := Kind) (Comments := List String) env start stop
        (ext_naive_time_into_extended_time := intoExtendedTime) (ext_oh_day_schedule := dayScheduleOf) fuel
      = liftNew env stop (itNew env start stop) := by
  unfold TimeDomainIterator.new itNew dayScheduleOf
  simp only [instDay, nsPerDay] at hfuel ⊢
  cases hs : env.sched (start / 86400000000000) with
  | error p => rfl
  | ok l =>
    have hl := hfuel l hs
    simp only [bnd]
    by_cases h : start ≥ stop
    · simp only [h, decide_true, if_true]
      rw [loop1_spec _ [] fuel (by simp only [List.length_nil]; omega)]
      rfl
    · simp only [h, decide_false, if_false]
      rw [loop2_spec _ (l.map ofM) fuel (by simp only [List.length_map]; exact hl), dropWhile_ofM]
      simp only [liftNew, intoExtendedTime, TzChrono.ndt_time, instMinuteOfDay, instTod, nsPerDay]
      rfl

end OH.Props.ArithC02IterNew
