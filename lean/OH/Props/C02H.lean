import OH.Props.C02B
import OH.Spec.Holds
/-!
# C02 — the clause the oracle evaluates on the implementation's own hint (`c02.hint`)

The iterator trusts `next_change_hint(d)` each time the schedule of day `d` is used up.  Layer A proves the
interval stream right for ANY day level meeting `EnvOK`; `hint_gt` and `hint_sound` are the two fields of
`EnvOK` that speak about the hint.  `OH.Spec.c02HintBad` is exactly these two fields as an executable test on
a given answer; the driver evaluates it on what the real `next_change_hint` returned (read through the hook
`verif_next_change_hint`), with the daily schedules of the model (tied to `schedule_at` by `c01.sched`).

* `c02Hint_of_envOK`: for every day level meeting `EnvOK`, the test passes on the level's own hint, whatever
  days are looked at;
* `c02Hint_model` : … so it passes on the model's hint for every parsed expression in the scope of Layer B;
* `c02Hint_mono` : an answer that lies after `d` and not after a passing answer passes too — an
  implementation whose hint is EARLIER than the model's is covered by the same theorem (the driver reports a
  disagreement only for an answer beyond the model's);
* `c02Hint_detects`: the test is not vacuous (a jump over a day that opens is refused).
-/
namespace OH.Props.C02H
open OH.Model OH.Model.Cal OH.Spec OH.Props.C02 OH.Props.C02B

theorem lastKindOf_eq (rs : List TimeRange) : lastKindOf rs = lastKind rs := rfl

theorem c02Hint_of_envOK (env : Env) (ok : EnvOK env) (d : Int) (hd : d < dateEnd) (days : List Int) :
    c02HintBad (fun x => some (env.schedOf x)) d (env.hintOf d) days = none := by
  unfold c02HintBad
  have hgt := ok.hint_gt d hd
  simp only [hgt, decide_true, Bool.not_true, Bool.false_eq_true, if_false]
  rw [List.find?_eq_none]
  intro d' _ hbad
  simp only [Bool.and_eq_true, decide_eq_true_eq, Bool.not_eq_true', List.all_eq_false] at hbad
  obtain ⟨⟨⟨h1, h2⟩, h3⟩, r, hr, hk⟩ := hbad
  have := ok.hint_sound d d' h1 h2 h3 r hr
  rw [lastKindOf_eq] at hk
  simp [this] at hk

theorem c02Hint_model (ctx : Ctx) (hc : CtxWF ctx) (e : Expr) (hw : ParserWF e = true) (hs : exprHintSafe e = true)
    (d : Int) (hd : d < dateEnd) (days : List Int) :
    c02HintBad (fun x => some ((envOf ctx e).schedOf x)) d ((envOf ctx e).hintOf d) days = none :=
  c02Hint_of_envOK _ (envOK_of_parserWF ctx hc e hw hs) d hd days

theorem c02Hint_mono (sched : Int → Option (List TimeRange)) (d h h' : Int) (days : List Int)
    (hgt : d < h') (hle : h' ≤ h) (hok : c02HintBad sched d h days = none) :
    c02HintBad sched d h' days = none := by
  unfold c02HintBad at *
  have hdh : d < h := by omega
  simp only [hdh, hgt, decide_true, Bool.not_true, Bool.false_eq_true, if_false] at *
  cases hs : sched d with
  | none => rfl
  | some sd =>
    simp only [hs] at hok ⊢
    rw [List.find?_eq_none] at hok ⊢
    intro d' hmem hbad
    apply hok d' hmem
    simp only [Bool.and_eq_true, decide_eq_true_eq] at hbad ⊢
    exact ⟨⟨⟨hbad.1.1.1, by omega⟩, hbad.1.2⟩, hbad.2⟩

/-- non-vacuity: a jump from day 10 to day 20 over day 15, which is open while day 10 ends closed, is refused
on day 15; a jump that is not after `d` is refused on `d` -/
theorem c02Hint_detects :
    c02HintBad (fun x => some (if x = 15 then [⟨0, 1440, .open, []⟩] else [⟨0, 1440, .closed, []⟩])) 10 20
      (hintDaysToCheck 10 20 14 16) = some 15
    ∧ c02HintBad (fun _ => some [⟨0, 1440, .closed, []⟩]) 10 10 [] = some 10 := by
  decide

end OH.Props.C02H
