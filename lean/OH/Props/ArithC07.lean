/-
C07 / C13 on the code as it is NOW: the successor / predecessor functions of the framed dimensions of
the normalisation paving (`impl Framable for Year`, `impl Framable for WeekNum`,
opening-hours-syntax/src/normalize/frame.rs) are translated from the Rust source on every run
(`translators/rs2lean.py` → `OH.Generated.Arith.Year.succ/pred`, `WeekNum.succ/pred`).  These are the
only places where the normalisation can overflow, and the hand-written model
(`OH.Model.Norm.yearF`, `weekF`) has them as explicit panic outcomes.  For EVERY value of the machine
type (`u16`, `u8`) this file proves that the generated definition and the model agree: the same value,
or an overflow outcome on one side exactly when the model has its panic outcome (`Agree`).
-/
import OH.Generated.Arith
import OH.Proofs.RustInt
import OH.Model.Normalize
namespace OH.Props.ArithC07
open OH.Model.RustInt OH.Model.Norm
open OH.Generated.Arith

/-- the generated outcome (a newtype around a machine integer, read through `val`) and the model
outcome agree: equal values, or an arithmetic-overflow outcome exactly where the model panics.
(An inductive predicate rather than a `match`: a goal `Agree ..` is then in weak head normal form and
no tactic starts evaluating the checked operations inside it.) -/
inductive Agree {α : Type} (val : α → Int) : R α → NM Nat → Prop
  | value (v : α) (n : Nat) (h : val v = (n : Int)) : Agree val (.ok v) (.ok n)
  | panic (site : String) (e : String) : Agree val (.error (.overflow site)) (.error e)

/-- `Year::succ`: `Year(self.0 + 1)`, overflow exactly at `u16::MAX` -/
theorem year_succ_agree (y : Nat) (hy : y ≤ 65535) :
    Agree Year.v0 (Year.succ ⟨y⟩) (yearF.succ y) := by
  simp only [Year.succ, yearF]
  by_cases c : y + 1 > 65535
  · rw [if_pos c]; rs_ok; exact .panic _ _
  · rw [if_neg c]; rs_ok; exact .value _ _ (by simp)

/-- `Year::pred`: `Year(self.0 - 1)`, underflow exactly at 0 -/
theorem year_pred_agree (y : Nat) (hy : y ≤ 65535) :
    Agree Year.v0 (Year.pred ⟨y⟩) (yearF.pred y) := by
  simp only [Year.pred, yearF]
  by_cases c : y = 0
  · rw [if_pos c]; rs_ok; exact .panic _ _
  · rw [if_neg c]; rs_ok; exact .value _ _ (by simp only; omega)

/-- `WeekNum::succ`: `WeekNum(*self % 53 + 1)` never overflows -/
theorem week_succ_agree (w : Nat) (hw : w ≤ 255) :
    Agree WeekNum.v0 (WeekNum.succ ⟨w⟩) (weekF.succ w) := by
  simp only [WeekNum.succ, weekF]
  rw [Int.tmod_eq_emod_of_nonneg (by omega)]
  rs_ok
  exact .value _ _ (by simp only; omega)

/-- `WeekNum::pred`: `WeekNum((*self + 51) % 53 + 1)` overflows its `u8` exactly above 204 -/
theorem week_pred_agree (w : Nat) (hw : w ≤ 255) :
    Agree WeekNum.v0 (WeekNum.pred ⟨w⟩) (weekF.pred w) := by
  simp only [WeekNum.pred, weekF]
  by_cases c : w + 51 > 255
  · rw [if_pos c]; rs_ok; exact .panic _ _
  · rw [if_neg c]; rs_ok
    rw [Int.tmod_eq_emod_of_nonneg (by omega)]
    rs_ok
    exact .value _ _ (by simp only; omega)

/-- on the values the frames hold (years 1900–9999, weeks 1–53) none of the four can overflow: the
generated definitions return the value the model returns -/
theorem year_succ_in_frame (y : Nat) (h : 1900 ≤ y ∧ y ≤ 9999) :
    Year.succ ⟨y⟩ = .ok ⟨(y : Int) + 1⟩ ∧ yearF.succ y = .ok (y + 1) := by
  simp only [Year.succ, yearF]
  rw [if_neg (by omega)]; rs_ok; exact ⟨trivial, trivial⟩

theorem year_pred_in_frame (y : Nat) (h : 1900 ≤ y ∧ y ≤ 9999) :
    Year.pred ⟨y⟩ = .ok ⟨(y : Int) - 1⟩ ∧ yearF.pred y = .ok (y - 1) := by
  simp only [Year.pred, yearF]
  rw [if_neg (by omega)]; rs_ok; exact ⟨trivial, trivial⟩

theorem week_succ_in_frame (w : Nat) (h : 1 ≤ w ∧ w ≤ 53) :
    WeekNum.succ ⟨w⟩ = .ok ⟨(w : Int) % 53 + 1⟩ ∧ weekF.succ w = .ok (w % 53 + 1) := by
  simp only [WeekNum.succ, weekF]
  rw [Int.tmod_eq_emod_of_nonneg (by omega)]
  rs_ok; exact ⟨trivial, trivial⟩

theorem week_pred_in_frame (w : Nat) (h : 1 ≤ w ∧ w ≤ 53) :
    WeekNum.pred ⟨w⟩ = .ok ⟨((w : Int) + 51) % 53 + 1⟩ ∧ weekF.pred w = .ok ((w + 51) % 53 + 1) := by
  simp only [WeekNum.pred, weekF]
  rw [if_neg (by omega)]; rs_ok
  rw [Int.tmod_eq_emod_of_nonneg (by omega)]
  rs_ok; exact ⟨trivial, trivial⟩

/-! non-vacuity: both kinds of outcome occur -/
example : Year.succ ⟨9999⟩ = .ok ⟨10000⟩ ∧ (∃ s, Year.succ ⟨65535⟩ = .error (.overflow s)) ∧
    (∃ s, Year.pred ⟨0⟩ = .error (.overflow s)) := ⟨rfl, ⟨_, rfl⟩, ⟨_, rfl⟩⟩
example : WeekNum.succ ⟨53⟩ = .ok ⟨1⟩ ∧ WeekNum.pred ⟨1⟩ = .ok ⟨53⟩ ∧
    (∃ s, WeekNum.pred ⟨205⟩ = .error (.overflow s)) := ⟨rfl, rfl, ⟨_, rfl⟩⟩

end OH.Props.ArithC07
