/-
C02 (and C01/C03/C08/C16) on the code as it is NOW, sixth increment of `translators/rs2lean.py` (`dated3`): the producer of
the intervals, `ensure_increasing_iter` and `intervals_from_bounds` (`opening-hours/src/filter/date_filter.rs`).  The two
`std::iter::from_fn(move || ..)` closures are translated as STEP functions over what is left of the `Peekable` iterators
(`Dated3.ensure_increasing_iter.next`, `Dated3.intervals_from_bounds.next`); the functions collect the items with an explicit
`fuel` (`fromFn`, OH/Model/RustSeq.lean).

* `ensureIncreasing_eq_model`: for every list and every `fuel > length` the code's `ensure_increasing_iter` is the model's
  `ensureIncreasing` — a value: TERMINATION is part of the statement (the fuel is never exhausted);
* `intervalsFromBounds_eq_model`: for all lists of bounds and every `fuel` above both lengths `intervals_from_bounds` is `.ok` of
  the model's `intervalsFromBounds` (pairs read as ranges) = `ArithC02Dated2.modelIntervals`, THE function every tie instantiates
  the named parameter `ext_intervals_from_bounds` with: the `unreachable!()` arm is never taken, the fuel never exhausted.
-/
import OH.Generated.Arith
import OH.Proofs.RustInt
import OH.Proofs.HintBasic
import OH.Proofs.RustDated
import OH.Proofs.RustDated3
import OH.Model.Eval
import OH.Props.ArithC02Dated2
namespace OH.Props.ArithC02Dated3Bounds
set_option linter.unusedSimpArgs false
set_option linter.unusedVariables false
open OH.Model.RustInt
open OH.Model.RustChrono
open OH.Generated.Arith
open OH.Proofs.RustDated3
open OH.Props.ArithC02Dated2 (modelIntervals nextChangeFromBounds_eq_model isOpenFromBounds_eq_model)

/-- `ensure_increasing_iter` = the model's `ensureIncreasing`, for every list; every fuel above its length suffices -/
theorem ensureIncreasing_eq_model (l : List Int) (fuel : Nat) (h : l.length < fuel) :
    Dated3.ensure_increasing_iter l fuel = .ok (OH.Model.ensureIncreasing l) := by
  unfold Dated3.ensure_increasing_iter
  induction fuel generalizing l with
  | zero => omega
  | succ n ih =>
    cases l with
    | nil => exact fromFn_none _ n [] [] rfl
    | cons x xs =>
      have hl := length_dropWhile_le' (fun y => decide (y ≤ x)) xs
      simp only [List.length_cons] at h
      have e1 := ih (xs.dropWhile (fun y => decide (y ≤ x))) (by omega)
      rw [fromFn_some _ n (x :: xs) (xs.dropWhile (fun y => decide (y ≤ x))) x rfl, e1, bnd_ok]
      show _ = Except.ok (x :: OH.Model.ensureIncAux x xs)
      rw [ensureIncAux_eq]

/-- the model's reading of the collected intervals -/
def mk (p : Int × Int) : RangeInclusive Int := RangeInclusive.mk p.1 p.2

/-- the iterator of `intervals_from_bounds` on increasing bounds is the model's `intervalsGo`; every fuel above the number of
starts suffices; `unreachable!()` is not reached -/
theorem intervalsGo_eq_model (fuel : Nat) (ss es : List Int) (h : ss.length < fuel) :
    fromFn (fun s => Dated3.intervals_from_bounds.next s.1 s.2) fuel (ss, es) = .ok ((OH.Model.intervalsGo ss es).map mk) := by
  induction fuel generalizing ss es with
  | zero => omega
  | succ n ih =>
    cases ss with
    | nil =>
      rw [fromFn_none _ n ([], es) ([], es) (by simp only [Dated3.intervals_from_bounds.next, List.head?_nil]), OH.Model.intervalsGo_nil]
      rfl
    | cons s ss' =>
      simp only [List.length_cons] at h
      have hss : ss'.length < n := by omega
      cases hd : es.dropWhile (fun x => decide (x < s)) with
      | nil =>
        have hm := OH.Model.intervalsGo_cons_nil s ss' es hd
        have hstep : (fun (st : List Int × List Int) => Dated3.intervals_from_bounds.next st.1 st.2) (s :: ss', es)
            = .ok (some (mk (s, OH.Model.Cal.dateEnd)), (ss', [])) := by
          simp only [Dated3.intervals_from_bounds.next, List.head?_cons, hd, List.head?_nil, List.tail_cons, mk, Chrono.DATE_END]
        rw [fromFn_some _ n _ _ _ hstep, ih ss' [] hss, bnd_ok, hm, List.map_cons]
      | cons e et =>
        have hm := OH.Model.intervalsGo_cons_cons s ss' es e et hd
        have hnot := List.head?_dropWhile_not (fun x => decide (x < s)) es
        rw [hd] at hnot
        simp only [List.head?_cons, decide_eq_false_iff_not] at hnot
        have hle : s ≤ e := by omega
        by_cases c : s = e
        · subst c
          have hstep : (fun (st : List Int × List Int) => Dated3.intervals_from_bounds.next st.1 st.2) (s :: ss', es)
              = .ok (some (mk (s, s)), (ss', et)) := by
            simp only [Dated3.intervals_from_bounds.next, List.head?_cons, hd, List.tail_cons, hle, decide_true, if_true, ↓reduceIte, mk]
          rw [fromFn_some _ n _ _ _ hstep, ih ss' et hss, bnd_ok, hm]
          simp only [beq_self_eq_true, if_true, ↓reduceIte, List.map_cons]
        · have cb : (s == e) = false := by simpa using c
          have hstep : (fun (st : List Int × List Int) => Dated3.intervals_from_bounds.next st.1 st.2) (s :: ss', es)
              = .ok (some (mk (s, e)), (ss', e :: et)) := by
            simp only [Dated3.intervals_from_bounds.next, List.head?_cons, hd, List.tail_cons, hle, c, decide_true, decide_false, if_true,
              Bool.false_eq_true, if_false, ↓reduceIte, mk]
          rw [fromFn_some _ n _ _ _ hstep, ih ss' (e :: et) hss, bnd_ok, hm]
          simp only [cb, Bool.false_eq_true, if_false, ↓reduceIte, List.map_cons]

/-- THE TIE: `intervals_from_bounds` as the code has it now is the hand model `modelIntervals` (= `Model.intervalsFromBounds`,
pairs read as ranges) that the ties of `next_change_from_bounds` / `is_open_from_bounds` / the `Date` arms / the `Month` arms
instantiate the named parameter `ext_intervals_from_bounds` with — for all lists of bounds, for every fuel above their
lengths: a value, never `unreachable!()`, never out of fuel -/
theorem intervalsFromBounds_eq_model (s e : List Int) (fuel : Nat) (hs : s.length < fuel) (he : e.length < fuel) :
    Dated3.intervals_from_bounds s e fuel = .ok (modelIntervals s e) := by
  unfold Dated3.intervals_from_bounds
  have := ensureIncreasing_length s
  rw [ensureIncreasing_eq_model s fuel hs, ensureIncreasing_eq_model e fuel he]
  simp only [bnd_ok]
  rw [intervalsGo_eq_model fuel _ _ (by omega)]
  rfl

example : Dated3.intervals_from_bounds [10, 5, 20] [12, 12, 30] 4 = .ok [⟨10, 12⟩, ⟨20, 30⟩] := by rfl

/-- `next_change_from_bounds` with NOTHING left as a parameter: its body `next_change_from_intervals(date, intervals_from_bounds(
bounds_start, bounds_end))` over the two translated functions is the model's, for all lists of bounds -/
theorem nextChangeFromBounds_closed (d : Int) (s e : List Int) (fuel : Nat) (hs : s.length < fuel) (he : e.length < fuel) :
    (bnd (Dated3.intervals_from_bounds s e fuel) fun ivs => Dated2.next_change_from_intervals d ivs)
      = .ok (OH.Model.nextChangeFromIntervals d (OH.Model.intervalsFromBounds s e)) := by
  rw [intervalsFromBounds_eq_model s e fuel hs he, bnd_ok]
  have h := nextChangeFromBounds_eq_model d s e
  simp only [Dated2.next_change_from_bounds, OH.Proofs.RustDated.bnd_pure] at h
  exact h

/-- `is_open_from_bounds`, the same way -/
theorem isOpenFromBounds_closed (d : Int) (s e : List Int) (fuel : Nat) (hs : s.length < fuel) (he : e.length < fuel) :
    (bnd (Dated3.intervals_from_bounds s e fuel) fun ivs => Dated2.is_open_from_intervals d ivs)
      = .ok (OH.Model.isOpenFromIntervals d (OH.Model.intervalsFromBounds s e)) := by
  rw [intervalsFromBounds_eq_model s e fuel hs he, bnd_ok]
  have h := isOpenFromBounds_eq_model d s e
  simp only [Dated2.is_open_from_bounds, OH.Proofs.RustDated.bnd_pure] at h
  exact h

end OH.Props.ArithC02Dated3Bounds
