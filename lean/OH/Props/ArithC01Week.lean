/-
C01 (and C02, C03, C08, C16: every property that relies on the hints) on the code as it is NOW: the
`next_change_hint` of the week selector.  `impl DateFilter for ds::WeekRange` `next_change_hint`
(opening-hours/src/filter/date_filter.rs) is translated from the Rust source on every run (`translators/rs2lean.py`,
[week extension], chrono mode → `OH.Generated.Arith.WeekRange.next_change_hint` and `.next_change_hint.loop1`):
`date.iso_week().week() as u8` is the `u8` wrap of chrono's week number, `**self.range.start()` the accessor, the
reference and `impl Deref for WeekNum`, `self.range.start() > self.range.end()` the derived order of the newtype, the
early `return None`s (the wrapping range; the `return` inside the block that computes `weeknum`) branches that end the
function — the rest of the function after `let weeknum = ..` is the local function `cont1` the value branches call —,
`% 54 + 1`, `week - range.start()`, `% self.step` checked `u8` operations, `?` on `from_isoywd_opt` the `none`
arm, and the loop `while res <= date { res = from_isoywd_opt(res.iso_week().year() + 1, ..)?; }` a definition by
recursion on an explicit `fuel` (`year() + 1` a checked `i32` addition).  The chrono calls are the functions `Chrono.*`
of `OH/Model/RustChrono.lean` (trusted as the calendar model is; tied by the `chr.*` suite).

The tie: for EVERY `u8` range and step, EVERY date and EVERY fuel ≥ 2 the generated definition and the hand-written
evaluator model (`OH.Model.WeekRange.hint`, about which `Props/C02B.lean` proves hint soundness) agree: the same hint,
the remainder-by-zero outcome exactly where the model has its error (step 0, which the parser never produces), no
overflow outcome (`% 54 + 1` fits `u8`, `week - start` is only computed when `start <= week`, the ISO year of a date
chrono represents plus one fits `i32`) and the fuel never runs out: the loop runs at most twice (TERMINATION of the
`while` loop of the code).  `loop_agree_model` is the loop alone: the translated loop is the model's `weekHintLoop`
for every fuel and every start date chrono represents.
-/
import OH.Props.ArithC01Step
import OH.Proofs.ArithWeek
namespace OH.Props.ArithC01Week
set_option linter.unusedSimpArgs false
set_option linter.unusedVariables false
open OH.Model.RustInt
open OH.Model.RustChrono
open OH.Generated.Arith
open OH.Model (wrappingContains weekHintLoop weekHintTail)
open OH.Model.Cal
open OH.Props.ArithC01Range (wrappingContains_eq_model)
open OH.Props.ArithC01Step (genWeek wrappingContains_cast decide_cast_zero decide_zero_cast rem_u8)
open OH.Proofs.ArithWeek

/-- the generated outcome and the model outcome agree: the same value, or the remainder-by-zero outcome exactly where
the model has its error (never an overflow / fuel outcome) -/
inductive AgreeDZ {α : Type} : R α → Except String α → Prop
  | value (a : α) : AgreeDZ (.ok a) (.ok a)
  | divZero (site e : String) : AgreeDZ (.error (.divZero site)) (.error e)

/-- the rest of the generated function after `let weeknum = ..` (its local function `cont1`, written out: `weekRange_hint_agree`
checks by definitional unfolding that this IS what the generated definition calls at each value branch) -/
def genTail (fuel : Nat) (date weeknum : Int) : R (Option Int) :=
  match (Chrono.from_isoywd_opt (Chrono.iso_week_year (Chrono.iso_week date)) weeknum 0) with
  | none => .ok none
  | some res =>
  bnd (WeekRange.next_change_hint.loop1 fuel res date weeknum) fun t =>
  match t with
  | .ret v res => .ok v
  | .next res => .ok (some res)

/-- THE LOOP: the `while res <= date` loop as the code has it now is the model's loop, for every fuel, every week
number and every start date chrono represents (out of fuel on one side iff on the other) -/
theorem loop_agree_model (d : Int) (wn fuel : Nat) (res : Int) (h1 : minDay ≤ res) (h2 : res ≤ maxDay) :
    AgreeLoop (WeekRange.next_change_hint.loop1 fuel res d wn) (weekHintLoop d wn fuel res) :=
  loop_agree d wn fuel res h1 h2

/-- the tail of the function (first candidate, loop, result) with ANY fuel ≥ 2 is the model's tail: the fuel suffices -/
theorem tail_agree (d : Int) (wn fuel : Nat) (hf : 2 ≤ fuel) : AgreeDZ (genTail fuel d wn) (weekHintTail d wn) := by
  unfold genTail weekHintTail
  simp only [Chrono.iso_week, Chrono.iso_week_year, Chrono.from_isoywd_opt, Int.toNat_natCast,
    show (0 : Int).toNat = 0 from rfl]
  cases e : ofIsoYwd? (isoYear d) wn 0 with
  | none => exact .value _
  | some res =>
    simp only []
    obtain ⟨_, _, _, g1, g2, _⟩ := ofIsoYwd?_eq_some_iff.1 e
    obtain ⟨x, hx1, hx2⟩ := weekHintLoop_fuel d wn fuel hf res e
    have ha := loop_agree d wn fuel res g1 g2
    rw [hx1] at ha
    rw [hx2]
    generalize WeekRange.next_change_hint.loop1 fuel res d wn = g at ha ⊢
    cases ha with
    | value f => cases f <;> exact .value _

/-- THE TIE: `WeekRange::next_change_hint` as the code has it now is the model's, for every `u8` range and step, every
date and every fuel ≥ 2 -/
theorem weekRange_hint_agree (r : OH.Model.WeekRange) (hlo : r.lo ≤ 255) (hhi : r.hi ≤ 255) (hst : r.step ≤ 255)
    (d : Int) (fuel : Nat) (hf : 2 ≤ fuel) :
    AgreeDZ (WeekRange.next_change_hint fuel (genWeek r) d) (OH.Model.WeekRange.hint r d) := by
  obtain ⟨lo, hi, step⟩ := r
  have tl := fun wn => tail_agree d wn fuel hf
  unfold weekHintTail at tl
  unfold WeekRange.next_change_hint
  simp only [OH.Model.WeekRange.hint, genWeek, Chrono.iso_week, Chrono.iso_week_week] at *
  have hw := isoWeek_le_53 d
  generalize isoWeek d = w at hw ⊢
  rw [wrap_id (by in_range)]
  by_cases c1 : hi < lo
  · have c1' : (lo : Int) > (hi : Int) := by omega
    simp only [c1, c1', gt_iff_lt, decide_true, if_true, ↓reduceIte]
    exact .value _
  · have c1' : ¬ (lo : Int) > (hi : Int) := by omega
    simp only [c1, c1', gt_iff_lt, decide_false, Bool.false_eq_true, if_false, ↓reduceIte]
    simp only [wrappingContains_eq_model, bnd_ok, wrappingContains_cast]
    cases hc : wrappingContains lo hi w with
    | false =>
      simp only [Bool.false_eq_true, if_false, ↓reduceIte, pure, Except.pure, bind, Except.bind]
      exact tl lo
    | true =>
      have hlw : lo ≤ w := by
        unfold wrappingContains at hc
        rw [if_pos (by omega)] at hc
        simp only [decide_eq_true_eq] at hc
        exact hc.1
      simp only [if_true, ↓reduceIte]
      by_cases c4 : step = 1
      · subst c4
        simp only [Int.natCast_one, eq_self, decide_true, if_true, ↓reduceIte, pure, Except.pure, bind, Except.bind]
        have e : (hi : Int).tmod 54 + 1 = ((hi % 54 + 1 : Nat) : Int) := by
          rw [Int.tmod_eq_emod_of_nonneg (by omega)]; omega
        rw [add_ok (by rw [e]; in_range), bnd_ok, e]
        exact tl _
      · have c4' : ¬ (step : Int) = 1 := by omega
        simp only [c4, c4', decide_false, Bool.false_eq_true, if_false, ↓reduceIte]
        have e : (w : Int) - lo = ((w - lo : Nat) : Int) := by omega
        rw [sub_ok (by rw [e]; in_range), bnd_ok, e, rem_u8]
        by_cases z : step = 0
        · simp only [z, if_true, ↓reduceIte, bnd_error, bind, Except.bind]; exact .divZero _ _
        · simp only [z, if_false, ↓reduceIte, bnd_ok]
          by_cases c5 : (w - lo) % step = 0
          · simp only [c5, Int.natCast_zero, eq_self, decide_true, if_true, ↓reduceIte, pure, Except.pure, bind,
              Except.bind]
            have e2 : (w : Int).tmod 54 + 1 = ((w % 54 + 1 : Nat) : Int) := by
              rw [Int.tmod_eq_emod_of_nonneg (by omega)]; omega
            rw [add_ok (by rw [e2]; in_range), bnd_ok, e2]
            exact tl _
          · have c5' : ¬ (((w - lo) % step : Nat) : Int) = 0 := by omega
            simp only [c5, c5', decide_false, Bool.false_eq_true, if_false, ↓reduceIte, pure, Except.pure, bind,
              Except.bind]
            exact .value _

/-- with the steps the parser produces (≥ 1) no `.error` outcome is reachable: the hint of the code is the model's -/
theorem weekRange_hint_total (r : OH.Model.WeekRange) (hlo : r.lo ≤ 255) (hhi : r.hi ≤ 255)
    (hst : 1 ≤ r.step ∧ r.step ≤ 255) (d : Int) (fuel : Nat) (hf : 2 ≤ fuel) :
    ∃ h, WeekRange.next_change_hint fuel (genWeek r) d = .ok h ∧ OH.Model.WeekRange.hint r d = .ok h := by
  have h := weekRange_hint_agree r hlo hhi hst.2 d fuel hf
  have hne : ∀ e, OH.Model.WeekRange.hint r d ≠ .error e := by
    intro e
    have tl : ∀ wn, ∃ x, weekHintTail d wn = .ok x := fun wn => by
      obtain ⟨x, hx, _⟩ := OH.Model.weekHintTail_spec d wn
      exact ⟨x, hx⟩
    have z : ¬ r.step = 0 := by omega
    simp only [OH.Model.WeekRange.hint]
    by_cases c1 : r.lo > r.hi
    · simp [c1]
    · simp only [c1, if_false, ↓reduceIte]
      cases wrappingContains r.lo r.hi (isoWeek d) with
      | false =>
        simp only [Bool.false_eq_true, if_false, ↓reduceIte, pure, Except.pure, bind, Except.bind]
        obtain ⟨x, hx⟩ := tl r.lo
        intro h
        have h' : weekHintTail d r.lo = .error e := h
        rw [hx] at h'; cases h'
      | true =>
        simp only [if_true, ↓reduceIte]
        by_cases c4 : r.step = 1
        · simp only [c4, if_true, ↓reduceIte, pure, Except.pure, bind, Except.bind]
          obtain ⟨x, hx⟩ := tl (r.hi % 54 + 1)
          intro h
          have h' : weekHintTail d (r.hi % 54 + 1) = .error e := h
          rw [hx] at h'; cases h'
        · simp only [c4, z, if_false, ↓reduceIte]
          by_cases c5 : (isoWeek d - r.lo) % r.step = 0
          · simp only [c5, if_true, ↓reduceIte, pure, Except.pure, bind, Except.bind]
            obtain ⟨x, hx⟩ := tl (isoWeek d % 54 + 1)
            intro h
            have h' : weekHintTail d (isoWeek d % 54 + 1) = .error e := h
            rw [hx] at h'; cases h'
          · simp only [c5, if_false, ↓reduceIte, pure, Except.pure, bind, Except.bind]
            exact fun h => by cases h
  generalize WeekRange.next_change_hint fuel (genWeek r) d = g at h ⊢
  generalize OH.Model.WeekRange.hint r d = m at h hne ⊢
  cases h with
  | value b => exact ⟨b, rfl, rfl⟩
  | divZero s e => exact absurd rfl (hne e)

/-- the fuel is needed: with none the translated loop reports it (the condition can be tested twice: 2025-01-28, week 5, asked for
week 1 → 2024-12-30, the Monday of week 1 of 2025, is not after the date → the Monday 2025-12-29 of week 1 of 2026) -/
example : WeekRange.next_change_hint.loop1 0 0 0 1 = .error (.panic loopFuelExhausted) := rfl
example : WeekRange.next_change_hint 2 ⟨⟨⟨1⟩, ⟨1⟩⟩, 1⟩ (ymdRaw 2025 1 28) = .ok (some (ymdRaw 2025 12 29)) := rfl
example : WeekRange.next_change_hint 1 ⟨⟨⟨1⟩, ⟨1⟩⟩, 1⟩ (ymdRaw 2025 1 28) = .error (.panic loopFuelExhausted) := rfl
example : WeekRange.next_change_hint 2 ⟨⟨⟨10⟩, ⟨20⟩⟩, 1⟩ (ymdRaw 2024 1 15) = .ok (some (ymdRaw 2024 3 4)) := rfl
example : WeekRange.next_change_hint 2 ⟨⟨⟨20⟩, ⟨10⟩⟩, 1⟩ (ymdRaw 2024 1 15) = .ok none := rfl

end OH.Props.ArithC01Week
