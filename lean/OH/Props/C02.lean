/-
C02 — the interval stream equals pointwise evaluation (no change is skipped).

Full statement (kept visible): for every expression `e`, context `ctx` (no interval-size bound) and
window `[frm, to)`, `iterRangeNaive ctx e frm to = .ok out` where `out` is THE list of maximal
constant runs of the pointwise state over `[min frm END, min to END)`.

What is proved: exactly that statement for ANY day level that meets `EnvOK` (Layer A,
`OH/Props/C02A.lean`, all inputs, all windows, sub-minute instants), instantiated here at the real
day level `envOf ctx e`.  The theorems below are therefore `…_partial`: their extra hypothesis
`DayLevelOK ctx e` (= `EnvOK (envOf ctx e)`: the daily schedules tile the day and `next_change_hint`
never jumps over a day whose schedule differs) is Layer B, proved so far only for the empty
expression (non-vacuity example) — for generated expressions it rests on the correspondence and on
the run-time oracle (`c02.iter`), which checks the same clauses on the implementation's stream.
-/
import OH.Props.C02A
namespace OH.Props.C02
open OH.Model OH.Model.Cal

/-- Layer B obligation: what the day level of `(ctx, e)` has to guarantee -/
def DayLevelOK (ctx : Ctx) (e : Expr) : Prop := EnvOK (envOf ctx e)

/-- the state the daily schedules give to instant `t` -/
def pointState (ctx : Ctx) (e : Expr) (t : Int) : Kind := pointKind (envOf ctx e) t

theorem C02_total_partial {ctx : Ctx} {e : Expr} (ok : DayLevelOK ctx e) (hb : ctx.bound = none) (frm to : Int) :
    ∃ out, iterRangeNaive ctx e frm to = .ok out :=
  C02A.iter_total ok hb frm to

/-- master statement: the stream is the list of maximal constant runs of the pointwise state -/
theorem C02_iter_range_exact_partial {ctx : Ctx} {e : Expr} (ok : DayLevelOK ctx e) (hb : ctx.bound = none)
    (frm to : Int) {out : List Interval} (h : iterRangeNaive ctx e frm to = .ok out) :
    if min instEnd frm < min instEnd to then Runs (envOf ctx e) (min instEnd frm) (min instEnd to) out
    else out = [] :=
  C02A.iter_runs ok hb frm to h

/-- the state of each interval is the state the daily schedules give to EVERY instant inside it -/
theorem C02_pointwise_partial {ctx : Ctx} {e : Expr} (ok : DayLevelOK ctx e) (hb : ctx.bound = none)
    (frm to : Int) {out : List Interval} (h : iterRangeNaive ctx e frm to = .ok out) :
    ∀ iv ∈ out, ∀ t, iv.start ≤ t → t < iv.stop → iv.kind = pointState ctx e t :=
  C02A.iter_kind_pointwise ok hb frm to h

/-- no state change present in the daily schedules is skipped or displaced -/
theorem C02_no_change_skipped_partial {ctx : Ctx} {e : Expr} (ok : DayLevelOK ctx e) (hb : ctx.bound = none)
    (frm to : Int) {out : List Interval} (h : iterRangeNaive ctx e frm to = .ok out) :
    ∀ t, min instEnd frm < t → t < min instEnd to →
      pointState ctx e (t - 1) ≠ pointState ctx e t → ∃ iv ∈ out, iv.start = t :=
  C02A.iter_no_change_skipped ok hb frm to h

theorem C02_adjacent_kinds_differ_partial {ctx : Ctx} {e : Expr} (ok : DayLevelOK ctx e) (hb : ctx.bound = none)
    (frm to : Int) {out : List Interval} (h : iterRangeNaive ctx e frm to = .ok out) :
    ∀ i (hi : i + 1 < out.length), out[i].kind ≠ out[i + 1].kind :=
  C02A.iter_adjacent_kinds_differ ok hb frm to h

/-- non-vacuity: the hypothesis is met by a real day level -/
example : DayLevelOK Ctx.default [] := envOK_nil

end OH.Props.C02
