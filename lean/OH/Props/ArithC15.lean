/-
C15 on the code as it is NOW: the bit operations of `CompactMonth` (compact-calendar/src/lib.rs:
`contains`, `first`, `first_after`, `count` on a `u32` mask) are translated from the Rust source on
every run (`translators/rs2lean.py` → `OH.Generated.Arith.CompactMonth.*`: `day - 1`, `1 << ..`,
`>> day`, `+` as checked `u32` operations, `assert!((1..=31).contains(&day))` an explicit panic
outcome).  For EVERY `u32` mask and EVERY `u32` day this file proves that the generated definition and
the hand-written model (`OH.Model.CompactCalendar.Month`, `Nat` masks) agree: the same value, the
assertion panic on one side exactly when the model has it, and never an overflow outcome (`Agree`).
-/
import OH.Generated.Arith
import OH.Proofs.ArithBits
import OH.Model.CompactCalendar
namespace OH.Props.ArithC15
open OH.Model.RustInt
open OH.Generated.Arith
open OH.Model.CompactCalendar

/-- the generated outcome and the model outcome agree: related values, or a panic outcome (never an
overflow outcome) exactly where the model panics -/
inductive Agree {α β : Type} (rel : α → β → Prop) : R α → Except String β → Prop
  | value (a : α) (b : β) (h : rel a b) : Agree rel (.ok a) (.ok b)
  | panic (msg : String) (site : String) : Agree rel (.error (.panic msg)) (.error site)

/-- an optional `u32` of the generated code and the model's optional `Nat` -/
def optRel (a : Option Int) (b : Option Nat) : Prop := a = b.map Int.ofNat

/-- `CompactMonth::contains(self, day)` -/
theorem contains_agree (m day : Nat) (_hm : m < 4294967296) (hd : day < 4294967296) :
    Agree (fun a b => a = b) (CompactMonth.contains ⟨m⟩ day) (Month.contains m day) := by
  simp only [CompactMonth.contains, Month.contains]
  by_cases c : 1 ≤ day ∧ day ≤ 31
  · have c' : (1 : Int) ≤ day ∧ (day : Int) ≤ 31 := by omega
    rw [if_pos c, if_pos c']
    rs_ok
    rw [shl_one_u32 _ _ (by omega) (by omega), bnd_ok, band_natCast]
    have e : ((day : Int) - 1).toNat = day - 1 := by omega
    rw [e]
    refine .value _ _ ?_
    by_cases z : m &&& 1 <<< (day - 1) = 0 <;> simp [z]
  · have c' : ¬ ((1 : Int) ≤ day ∧ (day : Int) ≤ 31) := by omega
    rw [if_neg c, if_neg c']
    exact .panic _ _

/-- `CompactMonth::first(self)`: `trailing_zeros() + 1` cannot overflow -/
theorem first_agree (m : Nat) (hm : m < 4294967296) :
    Agree optRel (CompactMonth.first ⟨m⟩) (.ok (Month.first m)) := by
  simp only [CompactMonth.first, Month.first]
  by_cases c : m = 0
  · subst c
    exact .value _ _ rfl
  · have c' : ¬ ((m : Int) = 0) := by omega
    simp only [c, c', decide_false, Bool.false_eq_true, ↓reduceIte]
    rw [trailingZeros_u32]
    have := trailingZeros_lt m c hm
    rs_ok
    exact .value _ _ rfl

/-- `CompactMonth::first_after(self, day)`: `self.0 >> day` and the two additions cannot overflow -/
theorem firstAfter_agree (m day : Nat) (hm : m < 4294967296) (hd : day < 4294967296) :
    Agree optRel (CompactMonth.first_after ⟨m⟩ day) (Month.firstAfter m day) := by
  simp only [CompactMonth.first_after, Month.firstAfter]
  by_cases c : 1 ≤ day ∧ day ≤ 31
  · have c' : (1 : Int) ≤ day ∧ (day : Int) ≤ 31 := by omega
    rw [if_pos c, if_pos c']
    rw [shr_u32 _ _ _ (by omega) (by omega), bnd_ok, Int.toNat_natCast]
    have hle : m >>> day ≤ m := Nat.shiftRight_le m day
    by_cases z : m >>> day = 0
    · have z' : ((m >>> day : Nat) : Int) = 0 := by omega
      simp only [z, ↓reduceIte]
      exact .value _ _ rfl
    · have z' : ¬ (((m >>> day : Nat) : Int) = 0) := by omega
      simp only [z, z', decide_false, Bool.false_eq_true, ↓reduceIte]
      rw [trailingZeros_u32]
      have := trailingZeros_lt (m >>> day) z (by omega)
      rs_ok
      exact .value _ _ rfl
  · have c' : ¬ ((1 : Int) ≤ day ∧ (day : Int) ≤ 31) := by omega
    rw [if_neg c, if_neg c']
    exact .panic _ _

/-- `CompactMonth::count(self)` -/
theorem count_agree (m : Nat) (_hm : m < 4294967296) :
    CompactMonth.count ⟨m⟩ = .ok ((Month.count m : Nat) : Int) := by
  simp only [CompactMonth.count, Month.count]
  rw [countOnes_u32]

/-- with a day the API allows (1..=31) none of the four reaches any `.error` outcome -/
theorem contains_total (m day : Nat) (hm : m < 4294967296) (hd : 1 ≤ day ∧ day ≤ 31) :
    ∃ b, CompactMonth.contains ⟨m⟩ day = .ok b ∧ Month.contains m day = .ok b := by
  have h := contains_agree m day hm (by omega)
  have e : Month.contains m day = .ok (m &&& (1 <<< (day - 1)) != 0) := by
    simp only [Month.contains]; rw [if_pos hd]
  rw [e] at h
  generalize CompactMonth.contains ⟨m⟩ day = g at h ⊢
  cases h with
  | value a b hab => exact ⟨a, rfl, by rw [e, hab]⟩

theorem firstAfter_total (m day : Nat) (hm : m < 4294967296) (hd : 1 ≤ day ∧ day ≤ 31) :
    ∃ r, CompactMonth.first_after ⟨m⟩ day = .ok (r.map Int.ofNat) ∧ Month.firstAfter m day = .ok r := by
  have h := firstAfter_agree m day hm (by omega)
  obtain ⟨r, hr⟩ : ∃ r, Month.firstAfter m day = .ok r := by
    simp only [Month.firstAfter]; rw [if_pos hd]; split <;> exact ⟨_, rfl⟩
  rw [hr] at h
  generalize CompactMonth.first_after ⟨m⟩ day = g at h ⊢
  cases h with
  | value a b hab => exact ⟨r, by rw [hab], hr⟩

/-! non-vacuity: the mask with days 1 and 3 -/
example : CompactMonth.contains ⟨5⟩ 3 = .ok true ∧ CompactMonth.contains ⟨5⟩ 2 = .ok false ∧
    CompactMonth.contains ⟨5⟩ 0 = .error (.panic "assertion failed: (1..=31).contains(&day)") ∧
    CompactMonth.contains ⟨5⟩ 32 = .error (.panic "assertion failed: (1..=31).contains(&day)") := by
  refine ⟨?_, ?_, rfl, rfl⟩
  · obtain ⟨b, h1, h2⟩ := contains_total 5 3 (by omega) (by omega)
    have e : Month.contains 5 3 = .ok true := rfl
    rw [e] at h2; cases h2; exact h1
  · obtain ⟨b, h1, h2⟩ := contains_total 5 2 (by omega) (by omega)
    have e : Month.contains 5 2 = .ok false := rfl
    rw [e] at h2; cases h2; exact h1
example : CompactMonth.first ⟨0⟩ = .ok none := rfl

end OH.Props.ArithC15
