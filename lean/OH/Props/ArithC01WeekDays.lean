/-
C01 (and C02, C03, C08, C16) on the code as it is NOW: `count_days_in_month` (opening-hours/src/utils/dates.rs), which
`WeekDayRange::filter` uses for the `[-1]` positions.  It is translated from the Rust source on every run
(`translators/rs2lean.py`, [week extension], chrono mode → `OH.Generated.Arith.Dates.count_days_in_month`): `let
Some(date_next_month) = date.checked_add_months(Months::new(1)) else { return 31; }` is the `none => .ok 31` arm, the two
`.with_day(1).expect(..)` and the final `.try_into().expect(..)` towards `u8` are explicit panic outcomes, `a - b` on
dates is the number of days.  `checked_add_months(Months::new(1))` / `with_day(1)` are `Chrono.checked_add_months_one` /
`Chrono.with_day_one` of `OH/Model/RustChrono.lean`, i.e. `addOneMonth?` / `firstOfMonth` of the calendar model (trusted
as the calendar model is).

The tie: for EVERY date the generated definition and the hand-written evaluator model `OH.Model.countDaysInMonth`
agree: the same number, or the `try_into` panic exactly where the model has its error; the `with_day(1)` panics are
unreachable.
-/
import OH.Generated.Arith
import OH.Proofs.RustInt
import OH.Model.Eval
namespace OH.Props.ArithC01WeekDays
set_option linter.unusedSimpArgs false
set_option linter.unusedVariables false
open OH.Model.RustInt
open OH.Model.RustChrono
open OH.Generated.Arith
open OH.Model.Cal

/-- the generated outcome and the model outcome agree: the same number, or a panic exactly where the model has its error -/
inductive AgreeP : R Int → Except String Nat → Prop
  | value (n : Nat) : AgreeP (.ok (n : Int)) (.ok n)
  | panic (msg e : String) : AgreeP (.error (.panic msg)) (.error e)

/-- THE TIE: `count_days_in_month` as the code has it now is the model's, for every date -/
theorem countDaysInMonth_agree (d : Int) : AgreeP (Dates.count_days_in_month d) (OH.Model.countDaysInMonth d) := by
  simp only [Dates.count_days_in_month, OH.Model.countDaysInMonth, Chrono.checked_add_months_one, Chrono.with_day_one]
  cases addOneMonth? d with
  | none => exact .value 31
  | some nxt =>
    simp only []
    generalize firstOfMonth nxt - firstOfMonth d = n
    by_cases c : 0 ≤ n ∧ n ≤ 255
    · rw [if_pos c, tryInto_some (by in_range)]
      obtain ⟨k, rfl⟩ : ∃ k : Nat, n = k := ⟨n.toNat, by omega⟩
      simp only [Int.toNat_natCast]
      exact .value k
    · rw [if_neg c, tryInto_none (by in_range)]
      exact .panic _ _

/-- the `with_day(1)` panics are unreachable: the only `.error` outcome is the `try_into` one -/
theorem countDaysInMonth_panic (d : Int) (msg : String) (h : Dates.count_days_in_month d = .error (.panic msg)) :
    msg = "time not monotonic while comparing dates" := by
  simp only [Dates.count_days_in_month, Chrono.checked_add_months_one, Chrono.with_day_one] at h
  cases e : addOneMonth? d with
  | none => rw [e] at h; cases h
  | some nxt =>
    rw [e] at h
    simp only [] at h
    cases e2 : tryInto .u8 (firstOfMonth nxt - firstOfMonth d) with
    | none => rw [e2] at h; simp only [] at h; cases h; rfl
    | some v => rw [e2] at h; cases h

example : Dates.count_days_in_month (ymdRaw 2024 2 10) = .ok 29 := rfl
example : Dates.count_days_in_month (ymdRaw 2023 2 28) = .ok 28 := rfl
example : Dates.count_days_in_month (ymdRaw 2025 12 31) = .ok 31 := rfl

end OH.Props.ArithC01WeekDays
