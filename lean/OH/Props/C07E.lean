import OH.Props.C07
import OH.Props.C13
import OH.Props.C06
/-
C07 / C13 FROM THE STRING: the normalization theorems were stated under `ExprOK e` (field ranges of the
grammar, a non-empty time selector).  Every string the parser accepts yields such an expression
(`C06_parsed_is_printable` + `exprOK_of_printableOut`), so for EVERY string `s` with `parse s = ok e`:
the normal form of `e` has the same state as `e` on every day, at every minute, in every context; and
normalization is idempotent on it, stays within the field ranges, and is printable/reparseable.
-/
namespace OH.Props.C07E
open OH.Model OH.Model.Cal OH.Model.Norm OH.Model.Parser

theorem parsed_exprOK (s : String) (e : Expr) (h : Parser.parse s = .ok e) : OH.Proofs.Normalize.ExprOK e :=
  OH.Proofs.NormPrintable.exprOK_of_printableOut e (OH.Props.C06.C06_parsed_is_printable s e h)

/-- **C07 for every parsed expression**: the day schedule of the normal form shows, at every minute of
every day in every context, the state the original shows (evaluation errors preserved) -/
theorem C07_every_parsed_expression (s : String) (e : Expr) (h : Parser.parse s = .ok e)
    (ctx : Ctx) (d : Int) (m : Nat) (hm : m < 1440) :
    (daySchedule ctx (normalize e) d).map (fun l => OH.Spec.Schedule.stateAt l m)
      = (daySchedule ctx e d).map (fun l => OH.Spec.Schedule.stateAt l m) :=
  OH.Props.C07.C07_normalize_preserves ctx e (parsed_exprOK s e h) d m hm

/-- **C13 for every parsed expression**: normalization never panics, is idempotent, and its result stays
within the field ranges -/
theorem C13_every_parsed_expression (s : String) (e : Expr) (h : Parser.parse s = .ok e) :
    (∃ n, normalizeM e = .ok n) ∧ normalize (normalize e) = normalize e
      ∧ OH.Proofs.Normalize.ExprOK (normalize e) :=
  ⟨OH.Props.C13.C13_no_panic e (parsed_exprOK s e h), OH.Props.C13.C13_idempotent e (parsed_exprOK s e h),
   OH.Props.C13.C13_normal_form_in_range e (parsed_exprOK s e h)⟩

/-- **C13, printable**: the normal form of every parsed expression prints to a string that parses (to
the normal form with joined comments; `C06_every_normal_form_reparses_equivalent` has the evaluation
half) -/
theorem C13_every_normal_form_prints_and_reparses (s : String) (e : Expr) (h : Parser.parse s = .ok e) :
    ∃ n, normalizeM e = .ok n ∧ ∃ e', Parser.parseChars (Print.expr n) = .ok e' := by
  obtain ⟨n, hn, hr, -⟩ := OH.Props.C06.C06_every_normal_form_reparses_equivalent s e h
  exact ⟨n, hn, _, hr⟩

end OH.Props.C07E
