/-
C07 / C13 (and the month selectors of C01) on the code as it is NOW: the month arithmetic.
`Month::next`, `Month::prev` (opening-hours-syntax/src/rules/day.rs), `impl Framable for Month`
(`succ`/`pred`, normalize/frame.rs) and the conversion they go through — `impl TryFrom<u8> for Month`,
which the macro `impl_convert_for_month!` generates — are translated from the Rust source on every run
(`translators/rs2lean.py` → `OH.Generated.Arith.Month.*`).  The enum is a Lean inductive with its
discriminants (`Month.discr`, `self as u8`); the macro is expanded by the translator after checking its
shape literally (one body per listed type, `u8` among the listed types); `match value { 1 => .., _ =>
return Err(..) }` is an `if` chain; `Result` is an `Option` (the error value is not translated);
`.try_into().unwrap()` towards `Month` is the call of the translated `try_from` followed by the explicit
panic outcome.

The tie: for ALL twelve months `next`/`prev` return a value — the `unwrap()` panic and the `u8` overflow
outcomes are unreachable — and it is the value the hand-written models compute on month numbers
(`OH.Model.Norm.monthF.succ/pred` for the normalisation paving, `OH.Model.monthNext` for the evaluator's
month ranges, `OH.Model.Parser.monthNext` for the parser's month handling); for EVERY `u8` the conversion
accepts exactly 1..=12 and returns the month with that discriminant.
-/
import OH.Generated.Arith
import OH.Proofs.RustInt
import OH.Model.Normalize
import OH.Model.Eval
import OH.Model.Parser
namespace OH.Props.ArithC07Month
open OH.Model.RustInt
open OH.Generated.Arith

/-- the discriminants are the month numbers 1..12 … -/
theorem discr_range (m : Month) : 1 ≤ m.discr ∧ m.discr ≤ 12 := by cases m <;> decide

/-- … each of them once -/
theorem discr_injective (a b : Month) (h : a.discr = b.discr) : a = b := by
  cases a <;> cases b <;> first | rfl | (exact absurd h (by decide))

theorem discr_surjective (n : Int) (h : 1 ≤ n ∧ n ≤ 12) : ∃ m : Month, m.discr = n := by
  obtain ⟨h1, h2⟩ := h
  have : n = 1 ∨ n = 2 ∨ n = 3 ∨ n = 4 ∨ n = 5 ∨ n = 6 ∨ n = 7 ∨ n = 8 ∨ n = 9 ∨ n = 10 ∨ n = 11 ∨ n = 12 := by omega
  rcases this with h | h | h | h | h | h | h | h | h | h | h | h <;> subst h <;>
    first | exact ⟨.January, rfl⟩ | exact ⟨.February, rfl⟩ | exact ⟨.March, rfl⟩ | exact ⟨.April, rfl⟩ | exact ⟨.May, rfl⟩ | exact ⟨.June, rfl⟩ | exact ⟨.July, rfl⟩ | exact ⟨.August, rfl⟩ | exact ⟨.September, rfl⟩ | exact ⟨.October, rfl⟩ | exact ⟨.November, rfl⟩ | exact ⟨.December, rfl⟩

/-- `Month::try_from(value: u8)`: the month whose discriminant is `value` -/
theorem tryFrom_of_discr (m : Month) : Month.try_from m.discr = .ok (some m) := by cases m <;> rfl

/-- `Month::try_from(value: u8)` refuses everything outside 1..=12 (and never panics) -/
theorem tryFrom_none (v : Int) (hv : 0 ≤ v ∧ v ≤ 255) (h : v < 1 ∨ 12 < v) : Month.try_from v = .ok none := by
  unfold Month.try_from
  rs_ok
  have h1 : ¬ v = 1 := by omega
  have h2 : ¬ v = 2 := by omega
  have h3 : ¬ v = 3 := by omega
  have h4 : ¬ v = 4 := by omega
  have h5 : ¬ v = 5 := by omega
  have h6 : ¬ v = 6 := by omega
  have h7 : ¬ v = 7 := by omega
  have h8 : ¬ v = 8 := by omega
  have h9 : ¬ v = 9 := by omega
  have h10 : ¬ v = 10 := by omega
  have h11 : ¬ v = 11 := by omega
  have h12 : ¬ v = 12 := by omega
  simp only [h1, h2, h3, h4, h5, h6, h7, h8, h9, h10, h11, h12, if_false]

/-- the conversion, for EVERY `u8`: `Ok(month)` exactly for the month with that discriminant -/
theorem tryFrom_spec (v : Int) (hv : 0 ≤ v ∧ v ≤ 255) (m : Month) :
    Month.try_from v = .ok (some m) ↔ m.discr = v := by
  constructor
  · intro h
    by_cases c : v < 1 ∨ 12 < v
    · rw [tryFrom_none v hv c] at h; cases h
    · obtain ⟨m', hm'⟩ := discr_surjective v (by omega)
      rw [← hm', tryFrom_of_discr] at h
      cases h; exact hm'
  · intro h; rw [← h]; exact tryFrom_of_discr m

theorem tryFrom_total (v : Int) (hv : 0 ≤ v ∧ v ≤ 255) : ∃ r, Month.try_from v = .ok r := by
  by_cases c : v < 1 ∨ 12 < v
  · exact ⟨_, tryFrom_none v hv c⟩
  · obtain ⟨m, hm⟩ := discr_surjective v (by omega)
    exact ⟨_, by rw [← hm]; exact tryFrom_of_discr m⟩

/-- `Month::next`: a value for all twelve months (no overflow, the `unwrap()` cannot panic), the month
numbered `n % 12 + 1` -/
theorem next_spec (m : Month) : ∃ m', Month.next m = .ok m' ∧ m'.discr = m.discr % 12 + 1 := by
  cases m <;> exact ⟨_, rfl, rfl⟩

/-- `Month::prev`: the month numbered `(n + 10) % 12 + 1` -/
theorem prev_spec (m : Month) : ∃ m', Month.prev m = .ok m' ∧ m'.discr = (m.discr + 10) % 12 + 1 := by
  cases m <;> exact ⟨_, rfl, rfl⟩

/-- `impl Framable for Month`: `succ` agrees with the model of the normalisation paving -/
theorem month_succ_agree (m : Month) :
    ∃ m', Month.succ m = .ok m' ∧ OH.Model.Norm.monthF.succ m.discr.toNat = .ok m'.discr.toNat := by
  cases m <;> exact ⟨_, rfl, rfl⟩

theorem month_pred_agree (m : Month) :
    ∃ m', Month.pred m = .ok m' ∧ OH.Model.Norm.monthF.pred m.discr.toNat = .ok m'.discr.toNat := by
  cases m <;> exact ⟨_, rfl, rfl⟩

/-- the same on month numbers, as the normalisation uses them: every `n` of the frame 1..12 -/
theorem month_succ_in_frame (n : Nat) (h : 1 ≤ n ∧ n ≤ 12) :
    ∃ m m', m.discr = (n : Int) ∧ Month.succ m = .ok m' ∧ OH.Model.Norm.monthF.succ n = .ok m'.discr.toNat := by
  obtain ⟨m, hm⟩ := discr_surjective n (by omega)
  obtain ⟨m', h1, h2⟩ := month_succ_agree m
  refine ⟨m, m', hm, h1, ?_⟩
  rw [hm] at h2; simpa using h2

theorem month_pred_in_frame (n : Nat) (h : 1 ≤ n ∧ n ≤ 12) :
    ∃ m m', m.discr = (n : Int) ∧ Month.pred m = .ok m' ∧ OH.Model.Norm.monthF.pred n = .ok m'.discr.toNat := by
  obtain ⟨m, hm⟩ := discr_surjective n (by omega)
  obtain ⟨m', h1, h2⟩ := month_pred_agree m
  refine ⟨m, m', hm, h1, ?_⟩
  rw [hm] at h2; simpa using h2

/-- `Month::next` is the evaluator model's and the parser model's `monthNext` -/
theorem next_eq_eval_model (m : Month) :
    ∃ m', Month.next m = .ok m' ∧ m'.discr.toNat = OH.Model.monthNext m.discr.toNat
      ∧ m'.discr.toNat = OH.Model.Parser.monthNext m.discr.toNat := by
  cases m <;> exact ⟨_, rfl, rfl, rfl⟩

/-- `next` and `prev` are inverse to each other -/
theorem prev_next (m : Month) : ∃ m', Month.next m = .ok m' ∧ Month.prev m' = .ok m := by
  cases m <;> exact ⟨_, rfl, rfl⟩

theorem next_prev (m : Month) : ∃ m', Month.prev m = .ok m' ∧ Month.next m' = .ok m := by
  cases m <;> exact ⟨_, rfl, rfl⟩

/-! non-vacuity -/
example : Month.next .December = .ok .January := rfl
example : Month.prev .January = .ok .December := rfl
example : Month.try_from 0 = .ok none ∧ Month.try_from 13 = .ok none ∧ Month.try_from 7 = .ok (some .July) := ⟨rfl, rfl, rfl⟩

end OH.Props.ArithC07Month
