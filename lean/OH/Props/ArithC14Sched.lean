/-
C14 on the code as it is NOW: `TimeRange::new`, `Schedule::is_empty`, `Schedule::is_always_closed`, `Schedule::insert`
(with its two `filter_map` passes and its two `while` loops) and `Schedule::addition` of opening-hours/src/schedule.rs,
as translated by `translators/rs2lean.py` (`OH.Generated.Arith.Sched.*`), ARE the hand-written model
`OH/Model/Schedule.lean`, at `Time := Nat`, `Kind := OH.Model.Kind`, `Comments := List String`, with
`ext_union := OH.Model.cunion` and an ARBITRARY `ext_comments_default` (what `std::mem::take` leaves behind is
overwritten at once: no result depends on it).  Fuel: termination is part of the statements.
-/
import OH.Proofs.ArithSched
import OH.Proofs.RustInt
import OH.Model.RustVec
namespace OH.Props.ArithC14Sched
open OH.Model.RustInt
open OH.Generated.Arith
open OH.Proofs.ArithSched
open OH.Model (cunion)
open OH.Model.Schedule (before beforeAbsorb after afterAbsorb coalesceBeforeRev coalesceAfter insAbsorbed insStage1
  insStage2)

theorem timeRangeNew_eq (r : Range Nat) (k : OH.Model.Kind) (c : List String) :
    (Sched.TimeRange.new r k c : R GTR) = .ok ⟨r, k, c⟩ := rfl

theorem isEmpty_eq_model (s : GSched) :
    Sched.Schedule.is_empty s = .ok (OH.Model.Schedule.isEmpty (s.inner.map toM)) := by
  simp [Sched.Schedule.is_empty, OH.Model.Schedule.isEmpty]

theorem isAlwaysClosed_eq_model (s : GSched) :
    Sched.Schedule.is_always_closed s (RuleKind_Closed := OH.Model.Kind.closed)
      = .ok (OH.Model.Schedule.isAlwaysClosed (s.inner.map toM)) := by
  simp only [Sched.Schedule.is_always_closed, OH.Model.Schedule.isAlwaysClosed, List.all_map, Function.comp_def,
    toM_kind]
  rfl

theorem cmpMin_eq (a b : Nat) : cmpMin a b = min a b := by
  unfold cmpMin; split <;> omega

theorem cmpMax_eq (a b : Nat) : cmpMax a b = max a b := by
  unfold cmpMax; split <;> omega

/-! ### the two `filter_map` passes -/

/-- the first pass (`before`), for any closure that behaves like the one of the source -/
theorem pass_before (f : GTR → GTR → Option GTR × GTR)
    (hf : ∀ st tr, f st tr =
      if decide (tr.range.start < cmpMin tr.range.«end» st.range.start) then
        (some { tr with range := { tr.range with «end» := cmpMin tr.range.«end» st.range.start } }, st)
      else (none, { st with comments := cunion st.comments tr.comments }))
    (S E : Nat) (l : List GTR) (st : GTR) (hS : st.range.start = S) :
    filterMapS f st (l.filter (fun tr => decide (tr.range.start < E)))
      = ((before S E (l.map toM)).map ofM,
         { st with comments := beforeAbsorb S E st.comments (l.map toM) }) := by
  induction l generalizing st with
  | nil => simp [filterMapS, before, beforeAbsorb]
  | cons t ts ih =>
    by_cases h1 : t.range.start < E
    · by_cases h2 : t.range.start < min t.range.«end» S
      · simp [h1, filterMapS, hf, cmpMin_eq, hS, h2, before, beforeAbsorb, ih st hS, ofM]
      · have := ih { st with comments := cunion st.comments t.comments } hS
        simp [h1, filterMapS, hf, cmpMin_eq, hS, h2, before, beforeAbsorb, this]
    · simp [h1, before, beforeAbsorb, ih st hS]

/-- the second pass (`after`) -/
theorem pass_after (f : GTR → GTR → Option GTR × GTR)
    (hf : ∀ st tr, f st tr =
      if decide (cmpMax tr.range.start st.range.«end» < tr.range.«end») then
        (some { tr with range := { tr.range with start := cmpMax tr.range.start st.range.«end» } }, st)
      else (none, { st with comments := cunion st.comments tr.comments }))
    (S E : Nat) (l : List GTR) (st : GTR) (hE : st.range.«end» = E) :
    filterMapS f st (l.filter (fun tr => decide (tr.range.«end» > S)))
      = ((after S E (l.map toM)).map ofM,
         { st with comments := afterAbsorb S E st.comments (l.map toM) }) := by
  induction l generalizing st with
  | nil => simp [filterMapS, after, afterAbsorb]
  | cons t ts ih =>
    by_cases h1 : t.range.«end» > S
    · by_cases h2 : max t.range.start E < t.range.«end»
      · simp [h1, filterMapS, hf, cmpMax_eq, hE, h2, after, afterAbsorb, ih st hE, ofM]
      · have := ih { st with comments := cunion st.comments t.comments } hE
        simp [h1, filterMapS, hf, cmpMax_eq, hE, h2, after, afterAbsorb, this]
    · simp [h1, after, afterAbsorb, ih st hE]

/-! ### the two `while` loops -/

/-- first loop, on the reversed `before` vector `r` -/
theorem insert_loop1_rev (dflt : List String) (aft : List GTR) (r : List GTR) :
    ∀ (ins : GTR) (fuel : Nat), fuel > r.length →
    Sched.Schedule.insert.loop1 fuel ins r.reverse aft (ext_comments_default := dflt) (ext_union := cunion)
      = .ok (.next (ofM (coalesceBeforeRev (toM ins) (r.map toM)).2,
          ((coalesceBeforeRev (toM ins) (r.map toM)).1.map ofM).reverse, aft)) := by
  induction r with
  | nil =>
    intro ins fuel h
    cases fuel with
    | zero => omega
    | succ n => simp [Sched.Schedule.insert.loop1, vecLast, coalesceBeforeRev]
  | cons t ts ih =>
    intro ins fuel h
    cases fuel with
    | zero => omega
    | succ n =>
      have hn : n > ts.length := by simp at h; omega
      by_cases hc : t.range.«end» = ins.range.start ∧ t.kind = ins.kind
      · rw [Sched.Schedule.insert.loop1]
        simp [vecLast, seqPop, hc, coalesceBeforeRev]
        rw [ih _ n hn]
        simp [toM]
      · rw [Sched.Schedule.insert.loop1]
        simp [vecLast, hc, coalesceBeforeRev]
        simp [Function.comp_def]

theorem insert_loop1 (dflt : List String) (ins : GTR) (bef aft : List GTR) (fuel : Nat) (h : fuel > bef.length) :
    Sched.Schedule.insert.loop1 fuel ins bef aft (ext_comments_default := dflt) (ext_union := cunion)
      = .ok (.next (ofM (coalesceBeforeRev (toM ins) (bef.reverse.map toM)).2,
          ((coalesceBeforeRev (toM ins) (bef.reverse.map toM)).1.map ofM).reverse, aft)) := by
  have := insert_loop1_rev dflt aft bef.reverse ins fuel (by simpa using h)
  simpa using this

theorem insert_loop2 (dflt : List String) (bef : List GTR) (aft : List GTR) :
    ∀ (ins : GTR) (fuel : Nat), fuel > aft.length →
    Sched.Schedule.insert.loop2 fuel ins bef aft (ext_comments_default := dflt) (ext_union := cunion)
      = .ok (.next (ofM (coalesceAfter (toM ins) (aft.map toM)).2, bef,
          (coalesceAfter (toM ins) (aft.map toM)).1.map ofM)) := by
  induction aft with
  | nil =>
    intro ins fuel h
    cases fuel with
    | zero => omega
    | succ n => simp [Sched.Schedule.insert.loop2, coalesceAfter]
  | cons t ts ih =>
    intro ins fuel h
    cases fuel with
    | zero => omega
    | succ n =>
      have hn : n > ts.length := by simp at h; omega
      by_cases hc : ins.range.«end» = t.range.start ∧ t.kind = ins.kind
      · rw [Sched.Schedule.insert.loop2]
        simp [iterNext, hc, coalesceAfter]
        rw [ih _ n hn]
        simp [toM]
      · rw [Sched.Schedule.insert.loop2]
        simp [hc, coalesceAfter]
        simp [Function.comp_def]

/-! ### `insert` -/

theorem before_length (S E : Nat) (l : List OH.Model.TimeRange) : (before S E l).length ≤ l.length := by
  induction l with
  | nil => simp [before]
  | cons t ts ih => unfold before; split <;> (try split) <;> simp <;> omega

theorem after_length (S E : Nat) (l : List OH.Model.TimeRange) : (after S E l).length ≤ l.length := by
  induction l with
  | nil => simp [after]
  | cons t ts ih => unfold after; split <;> (try split) <;> simp <;> omega

/-- MAIN: the generated `Schedule::insert` is the model's, for every fuel above the length of the schedule -/
theorem insert_eq_model (self : GSched) (ins : GTR) (dflt : List String) (fuel : Nat)
    (h : fuel > self.inner.length) :
    Sched.Schedule.insert self ins (ext_comments_default := dflt) (ext_union := cunion) fuel
      = .ok ⟨(OH.Model.Schedule.insert (self.inner.map toM) (toM ins)).map ofM⟩ := by
  have hb := before_length ins.range.start ins.range.«end» (self.inner.map toM)
  have ha := after_length ins.range.start ins.range.«end» (self.inner.map toM)
  simp only [List.length_map] at hb ha
  simp only [Sched.Schedule.insert]
  rw [pass_before (S := ins.range.start) (E := ins.range.«end») (l := self.inner) (hf := ?hf1) (hS := ?hS)]
  case hf1 => intro _ _; rfl
  case hS => rfl
  simp only []
  rw [pass_after (S := ins.range.start) (E := ins.range.«end») (l := self.inner) (hf := ?hf2) (hE := ?hE)]
  case hf2 => intro _ _; rfl
  case hE => rfl
  simp only []
  rw [insert_loop1 dflt _ _ _ fuel (by simp only [List.length_map]; omega)]
  simp only [bnd_ok]
  rw [insert_loop2 dflt _ _ _ fuel (by simp only [List.length_map]; omega)]
  simp only [bnd_ok]
  simp [OH.Model.Schedule.insert, insStage1, insStage2, insAbsorbed, toM, ofM, Function.comp_def]

theorem insert_total (self : GSched) (ins : GTR) (dflt : List String) (fuel : Nat) (h : fuel > self.inner.length) :
    ∃ out, Sched.Schedule.insert self ins (ext_comments_default := dflt) (ext_union := cunion) fuel = .ok out :=
  ⟨_, insert_eq_model self ins dflt fuel h⟩

/-! ### `addition` -/

theorem coalesceBeforeRev_length (ins : OH.Model.TimeRange) (l : List OH.Model.TimeRange) :
    (coalesceBeforeRev ins l).1.length ≤ l.length := by
  induction l generalizing ins with
  | nil => simp [coalesceBeforeRev]
  | cons t ts ih =>
    unfold coalesceBeforeRev; split
    · have := ih { ins with s := t.s, comments := cunion t.comments ins.comments }
      simp only [List.length_cons]; omega
    · simp

theorem coalesceAfter_length (ins : OH.Model.TimeRange) (l : List OH.Model.TimeRange) :
    (coalesceAfter ins l).1.length ≤ l.length := by
  induction l generalizing ins with
  | nil => simp [coalesceAfter]
  | cons t ts ih =>
    unfold coalesceAfter; split
    · have := ih { ins with e := t.e, comments := cunion t.comments ins.comments }
      simp only [List.length_cons]; omega
    · simp

/-- one `insert` can split ranges: without an invariant on the schedule the length can double -/
theorem insert_length (s : OH.Model.Schedule) (t : OH.Model.TimeRange) :
    (OH.Model.Schedule.insert s t).length ≤ 2 * s.length + 1 := by
  have h1 := coalesceBeforeRev_length (insAbsorbed s t) (before t.s t.e s).reverse
  have h2 := coalesceAfter_length (insStage1 s t).2 (after t.s t.e s)
  have h3 := before_length t.s t.e s
  have h4 := after_length t.s t.e s
  simp only [List.length_reverse] at h1
  simp only [OH.Model.Schedule.insert, insStage1, insStage2, List.length_append, List.length_reverse,
    List.length_cons] at *
  omega

/-- `(insert s t).length ≤ s.length + 1` is FALSE: inserting inside a range of another kind splits it in two -/
example : (OH.Model.Schedule.insert [⟨0, 10, .open, []⟩] ⟨3, 6, .closed, []⟩).length = 3 := by decide

/-- `addition`, with `other` reversed (`pop()` takes the last range first) -/
theorem addition_rev (dflt : List String) (r : List GTR) :
    ∀ (self : GSched) (fuel : Nat), fuel ≥ 2 ^ r.length * (self.inner.length + 1) + r.length →
    Sched.Schedule.addition self ⟨r.reverse⟩ (ext_comments_default := dflt) (ext_union := cunion) fuel
      = .ok ⟨(OH.Model.Schedule.additionRev (self.inner.map toM) (r.map toM)).map ofM⟩ := by
  induction r with
  | nil =>
    intro self fuel h
    cases fuel with
    | zero => simp at h
    | succ n =>
      cases self
      simp [Sched.Schedule.addition, seqPop, OH.Model.Schedule.additionRev, Function.comp_def]
  | cons t ts ih =>
    intro self fuel h
    cases fuel with
    | zero => simp at h
    | succ n =>
      have hP : 0 < 2 ^ ts.length := Nat.pow_pos (by decide)
      have hQ : self.inner.length + 1 ≤ 2 ^ ts.length * (self.inner.length + 1) := Nat.le_mul_of_pos_left _ hP
      have e1 : 2 ^ (ts.length + 1) * (self.inner.length + 1) = 2 * (2 ^ ts.length * (self.inner.length + 1)) := by
        rw [Nat.pow_succ, Nat.mul_comm (2 ^ ts.length) 2, Nat.mul_assoc]
      simp only [List.length_cons, e1] at h
      have hL := insert_length (self.inner.map toM) (toM t)
      simp only [List.length_map] at hL
      have hM : 2 ^ ts.length * ((OH.Model.Schedule.insert (self.inner.map toM) (toM t)).length + 1)
          ≤ 2 ^ ts.length * (2 * (self.inner.length + 1)) := Nat.mul_le_mul_left _ (by omega)
      rw [Nat.mul_left_comm] at hM
      rw [Sched.Schedule.addition]
      simp only [seqPop, List.reverse_cons, List.getLast?_append, List.getLast?_singleton, Option.some_or,
        List.dropLast_concat]
      rw [insert_eq_model self t dflt n (by omega)]
      simp only [bnd_ok]
      rw [ih _ n (by simp only [List.length_map]; omega)]
      simp [OH.Model.Schedule.additionRev, Function.comp_def]

/-- MAIN: the generated `Schedule::addition` is the model's.  The fuel is shared by the recursion (depth
`other.len() + 1`) and by every `insert` on the way (each needs more than the CURRENT length of the accumulated
schedule, and an `insert` into a vector without invariant can double its length), hence the bound. -/
theorem addition_eq_model (self other : GSched) (dflt : List String) (fuel : Nat)
    (h : fuel ≥ 2 ^ other.inner.length * (self.inner.length + 1) + other.inner.length) :
    Sched.Schedule.addition self other (ext_comments_default := dflt) (ext_union := cunion) fuel
      = .ok ⟨(OH.Model.Schedule.addition (self.inner.map toM) (other.inner.map toM)).map ofM⟩ := by
  have := addition_rev dflt other.inner.reverse self fuel (by simpa using h)
  simpa [OH.Model.Schedule.addition, List.map_reverse] using this

theorem addition_total (self other : GSched) (dflt : List String) :
    ∃ fuel0, ∀ fuel, fuel ≥ fuel0 →
      ∃ out, Sched.Schedule.addition self other (ext_comments_default := dflt) (ext_union := cunion) fuel = .ok out :=
  ⟨_, fun fuel h => ⟨_, addition_eq_model self other dflt fuel h⟩⟩

end OH.Props.ArithC14Sched
