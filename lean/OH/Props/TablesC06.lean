import OH.Generated.Tables
import OH.Model.Print
/-
Tie 1 for data-like code (DESIGN §8.8): the hand-written model uses exactly the constants and look-up
tables that translators/tables2lean.py extracts from the Rust sources on every run
(OH/Generated/Tables.lean).  A changed constant, a permuted or missing match arm, a changed separator or
name in /repo breaks one of these kernel-checked obligations.
-/
namespace OH.Props.TablesC06
open OH.Model OH.Generated

def opOfNat : Nat → RuleOp | 0 => .normal | 1 => .additional | _ => .fallback
def kindOfNat : Nat → Kind | 0 => .open | 1 => .closed | _ => .unknown
def eventOfNat : Nat → TimeEvent | 0 => .dawn | 1 => .sunrise | 2 => .sunset | _ => .dusk
def holidayOfNat : Nat → HolidayKind | 0 => .pub | _ => .school

theorem C06_wday_names : ∀ p ∈ Tables.wdayStrings, Print.wdayStr p.1 = p.2.toList := by decide

theorem C06_wday_names_complete : Tables.wdayStrings.map (·.1) = [0, 1, 2, 3, 4, 5, 6] := by decide

theorem C06_month_names : ∀ p ∈ Tables.monthStrings, Print.monthStr p.1 = p.2.toList := by decide

theorem C06_month_names_complete : Tables.monthStrings.map (·.1) = [1, 2, 3, 4, 5, 6, 7, 8, 9, 10, 11, 12] := by
  decide

theorem C06_holiday_names : ∀ p ∈ Tables.holidayStrings,
    Print.weekDayRange (.holiday (holidayOfNat p.1) 0) = p.2.toList := by decide

theorem C06_kind_names : ∀ p ∈ Tables.kindStrings, Print.kindStr (kindOfNat p.1) = p.2.toList := by decide

theorem C06_event_names : ∀ p ∈ Tables.eventStrings, Print.eventStr (eventOfNat p.1) = p.2.toList := by decide

theorem C06_separators : ∀ p ∈ Tables.separatorStrings, Print.sepStr (opOfNat p.1) = p.2.toList := by decide

theorem C06_tables_complete :
    Tables.kindStrings.map (·.1) = [0, 1, 2] ∧ Tables.eventStrings.map (·.1) = [0, 1, 2, 3] ∧
      Tables.separatorStrings.map (·.1) = [0, 1, 2] ∧ Tables.holidayStrings.map (·.1) = [0, 1] := by decide

end OH.Props.TablesC06
