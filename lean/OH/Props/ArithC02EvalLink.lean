/-
C02 on the code as it is NOW, the two ties of `ArithC02Eval` and `ArithC02EvalDay` COMPOSED: the generated
`OpeningHours::next_change_hint` / `OpeningHoursExpression::is_constant` (translated with the day-selector type abstract)
instantiated at `DaySel := DayFilter.DaySelector YearRange MonthdayRange WeekRange WeekDayRange` with the GENERATED
`DaySelector::filter`, `DaySelector::next_change_hint` (date_filter.rs) and `DaySelector::is_empty` (rules/day.rs) passed
for its named parameters — i.e. the call graph next_change_hint → {is_constant → RuleSequence::is_constant,
DaySelector::filter → <[T]>::filter, DaySelector::next_change_hint → <[T]>::next_change_hint, DaySelector::is_empty} made
of generated definitions only — IS the model's `nextChangeHint` / `isConstant`.  What remains passed by name below this
level: the `DateFilter` impls of the four selector kinds and `TimeSelector::is_immutable_full_day` / `is_00_24`.
-/
import OH.Props.ArithC02Eval
import OH.Props.ArithC02EvalDay
namespace OH.Props.ArithC02EvalLink
open OH.Model.RustInt
open OH.Generated.Arith
open OH.Proofs.ArithEval
open OH.Proofs.ArithEval2

/-- **linked `next_change_hint`**: generated code all the way down to the per-selector functions -/
theorem nextChangeHint_linked (self : GOHD GDaySel) (d : Int) :
    Eval.OpeningHours.next_change_hint self d (RuleKind_Closed := OH.Model.Kind.closed)
        (RuleOperator_Fallback := OH.Model.RuleOp.fallback)
        (ext_day_selector_filter := gDayFilter) (ext_day_selector_is_empty := DayFilter.DaySelector.is_empty)
        (ext_day_selector_next_change_hint := gDayHint) (ext_time_selector_is_00_24 := gIs0024)
        (ext_time_selector_is_immutable_full_day := gImmutable)
      = liftR (OH.Model.nextChangeHint self.ctx
          (self.expr.rules.map fun r => ⟨toDS r.day_selector, r.time_selector, r.kind, r.operator, r.comments⟩) d) :=
  OH.Props.ArithC02Eval.nextChangeHint_eq_model_at
    ⟨toDS, gDayFilter, gDayHint, DayFilter.DaySelector.is_empty, OH.Props.ArithC02EvalDay.dayFilter_eq_model,
      OH.Props.ArithC02EvalDay.dayHint_eq_model, OH.Props.ArithC02EvalDay.isEmpty_eq_model⟩ self d

/-- **linked `is_constant`** -/
theorem isConstant_linked (e : GExprD GDaySel) :
    Eval.OpeningHoursExpression.is_constant e (RuleKind_Closed := OH.Model.Kind.closed)
        (RuleOperator_Fallback := OH.Model.RuleOp.fallback)
        (ext_day_selector_is_empty := DayFilter.DaySelector.is_empty) (ext_time_selector_is_00_24 := gIs0024)
      = .ok (OH.Model.isConstant
          (e.rules.map fun r => ⟨toDS r.day_selector, r.time_selector, r.kind, r.operator, r.comments⟩)) :=
  OH.Props.ArithC02Eval.isConstant_eq_model
    ⟨toDS, gDayFilter, gDayHint, DayFilter.DaySelector.is_empty, OH.Props.ArithC02EvalDay.dayFilter_eq_model,
      OH.Props.ArithC02EvalDay.dayHint_eq_model, OH.Props.ArithC02EvalDay.isEmpty_eq_model⟩ e

end OH.Props.ArithC02EvalLink
