/-
C18 — "Evaluation is pure: same answer across calls, clones and threads"

  Evaluation is a function of (expression, context, instant) only: repeated calls, calls on clones,
  calls interleaved with evaluations of other expressions, and calls made concurrently from several
  threads - including the first, lazily-initialising use of the embedded holiday, country-boundary and
  time-zone data - all return the same results as a single sequential call.
  Quantifier: all interleavings of concurrent evaluations over shared and cloned values, all orders of
  first use of the lazily decoded databases.

What the theorems say, and about what.  The evaluator model is a Lean function: pure by construction.
The theorems are about the *only* thing that is not a function in the Rust code: the process-wide
once-cells (model: OH/Model/Purity.lean).  An evaluation is any program whose only effect is reading
(= forcing) cells; `p.pureRun` is what it returns in a process where every table is decoded — the answer
of "a single sequential call".  All theorems hold for EVERY such program, table type and decoder.

 * `pure_under_interleaving`           atomic evaluation steps, any history, any reachable state
 * `pure_under_racing_interleaving`    threads interleaved between any two reads, initialisers racing
 * `racing_threads_finish`             … and nobody waits: a thread scheduled 2×(cells read) times is done
 * `repeated_call_eq`, `clone_eval_eq`, `equal_value_eval_eq`, `other_evaluations_irrelevant`
 * `first_use_order_irrelevant`        permuting first uses / evaluations: same final state, same answers
 * `reachable_states`                  the reachable states are exactly the 2⁶ "some cells decoded" states
 * `inventory_matches`, `cells_are_the_statics`, `api_cells_in_scope`   the tie to the Rust sources

What the theorems do NOT say (level note): that `std::sync::LazyLock`/`Once` implement the once-cell
(atomic publication, one value kept), that the dependencies (`tzf-rs`, `country-boundaries`, `flate2`,
`chrono-tz`, `log`) are free of data races and hidden state, and anything about the memory model.
Those rest on the run-time search of suite `c18` (threads, clones, fresh processes for all first-use
orders) and on the inventory for the four crates themselves.
-/
import OH.Proofs.Purity
import OH.Generated.SharedState
namespace OH.Props.C18
open OH.Model.Purity
variable {D : Tables}

/-- every state the process can be in is reachable by first uses from "nothing decoded", and these
are exactly the states satisfying the once-cell invariant -/
theorem reachable_states (st : State D) :
    Reachable st ↔ ∀ c, st c = .uninit ∨ st c = .init (D.decode c) :=
  reachable_iff_inv st

/-- **Atomic steps.**  For every history — a list of `(thread id, args)` evaluation steps in any
interleaving — from any reachable state, every step returns `f args allInit`, what a single
sequential call returns.  (The thread ids are arbitrary: the answer does not look at them.) -/
theorem pure_under_interleaving {A ρ : Type} (eval : A → Prog D ρ) (hist : List (Nat × A))
    (st : State D) (hst : Reachable st) :
    (runHistory eval hist st).2 = hist.map (fun s => (eval s.2).pureRun)
    ∧ Reachable (runHistory eval hist st).1 := by
  have h := (reachable_iff_inv st).1 hst
  rw [runHistory_eq eval hist h]
  exact ⟨rfl, (reachable_iff_inv _).2 (inv_forceList h _)⟩

/-- `pureRun` is the answer in a process where everything is already decoded -/
theorem pureRun_is_allInit {ρ : Type} (p : Prog D ρ) : (run p (allInit D)).2 = p.pureRun := by
  rw [run_eq p inv_allInit]

/-- … and also the answer of the very first call of a fresh process -/
theorem pureRun_is_first_call {ρ : Type} (p : Prog D ρ) : (run p (allUninit D)).2 = p.pureRun := by
  rw [run_eq p inv_allUninit]

/-- **Small steps, racing initialisers.**  Threads `ps[0], ps[1], …` are started in any reachable
state and interleaved by ANY schedule, between any two reads; a thread that finds a cell uninitialised
computes its own candidate while others may do the same, and only the first published candidate is
kept.  Whenever a thread has finished, its answer is the pure one; the state stays reachable. -/
theorem pure_under_racing_interleaving {ρ : Type} (ps : List (Prog D ρ)) (st : State D)
    (hst : Reachable st) (sched : List Nat) :
    let cfg := runSchedule (Config.start st ps) sched
    Reachable cfg.st ∧
    ∀ (i : Nat) (p : Prog D ρ) (t : Thread D ρ) (r : ρ),
      ps[i]? = some p → cfg.threads[i]? = some t → t.result? = some r → r = p.pureRun := by
  have h := cinv_runSchedule ps _ (cinv_start ((reachable_iff_inv st).1 hst) ps) sched
  refine ⟨(reachable_iff_inv _).2 h.1, ?_⟩
  intro i p t r hp ht hr
  obtain ⟨p', hp', htok⟩ := h.2 i t ht
  rw [hp] at hp'; cases hp'
  exact tok_result _ _ t htok hr

/-- No thread waits for another one in the model: once thread `i` has been scheduled twice per cell
its program reads, it has finished (with the pure answer), whatever the others did meanwhile. -/
theorem racing_threads_finish {ρ : Type} (ps : List (Prog D ρ)) (st : State D) (hst : Reachable st)
    (sched : List Nat) (i : Nat) (p : Prog D ρ) (hp : ps[i]? = some p)
    (hc : 2 * p.touched.length ≤ sched.count i) :
    ∃ t, (runSchedule (Config.start st ps) sched).threads[i]? = some t ∧ t.result? = some p.pureRun := by
  refine finishes ps _ (cinv_start ((reachable_iff_inv st).1 hst) ps) sched i (.running p) p ?_ hp hc
  simp [Config.start, hp]

/-- repeated calls: the second call returns what the first returned -/
theorem repeated_call_eq {ρ : Type} (p : Prog D ρ) (st : State D) (hst : Reachable st) :
    (run p (run p st).1).2 = (run p st).2 := by
  have h := (reachable_iff_inv st).1 hst
  rw [run_eq p (inv_run p h), run_eq p h]

/-- calls interleaved with evaluations of other expressions: whatever ran in between (`others`), the
answer is the same -/
theorem other_evaluations_irrelevant {ρ σ : Type} (p : Prog D ρ) (others : List (Prog D σ)) (st : State D)
    (hst : Reachable st) : (run p (runAll others st).1).2 = (run p st).2 := by
  have h := (reachable_iff_inv st).1 hst
  have h' : Inv (runAll others st).1 := by rw [runAll_eq others h]; exact inv_forceList h _
  rw [run_eq p h', run_eq p h]

/-- a clone (`Arc::clone` of the expression, field-wise clone of the context) evaluates like the
original, in any two reachable states (so: on another thread, later, after other work…) -/
theorem clone_eval_eq {E C A ρ : Type} (f : E → C → A → Prog D ρ) (v : OHValue E C) (a : A)
    (st st' : State D) (hst : Reachable st) (hst' : Reachable st') :
    (run (evalOH f v.clone a) st).2 = (run (evalOH f v a) st').2 := by
  rw [run_eq _ ((reachable_iff_inv st).1 hst), run_eq _ ((reachable_iff_inv st').1 hst')]
  rfl

/-- more generally two values holding equal expressions (another allocation: a deep copy, a second
parse of the same text) and equal contexts evaluate alike -/
theorem equal_value_eval_eq {E C A ρ : Type} (f : E → C → A → Prog D ρ) (v w : OHValue E C) (a : A)
    (he : v.expr.val = w.expr.val) (hc : v.ctx = w.ctx)
    (st st' : State D) (hst : Reachable st) (hst' : Reachable st') :
    (run (evalOH f v a) st).2 = (run (evalOH f w a) st').2 := by
  rw [run_eq _ ((reachable_iff_inv st).1 hst), run_eq _ ((reachable_iff_inv st').1 hst')]
  simp only [evalOH, he, hc]

/-- **Order of first use.**  Any permutation of a sequence of first uses leads to the same final
state … -/
theorem first_use_order_irrelevant (l1 l2 : List CellId) (hp : l1.Perm l2) (st : State D)
    (hst : Reachable st) : forceList st l1 = forceList st l2 := by
  have h := (reachable_iff_inv st).1 hst
  rw [forceList_eq h, forceList_eq h]
  funext c
  simp only [hp.mem_iff]

/-- … and any permutation of a batch of evaluations leads to the same final state and gives each
evaluation the same answer (`ps.map pureRun`, permuted along). -/
theorem first_use_order_irrelevant_evals {ρ : Type} (ps qs : List (Prog D ρ)) (hp : ps.Perm qs)
    (st : State D) (hst : Reachable st) :
    (runAll ps st).1 = (runAll qs st).1
    ∧ (runAll ps st).2 = ps.map Prog.pureRun ∧ (runAll qs st).2 = qs.map Prog.pureRun := by
  have h := (reachable_iff_inv st).1 hst
  rw [runAll_eq ps h, runAll_eq qs h]
  refine ⟨?_, rfl, rfl⟩
  rw [forceList_eq h, forceList_eq h]
  funext c
  have : c ∈ ps.flatMap Prog.touched ↔ c ∈ qs.flatMap Prog.touched := by
    simp only [List.mem_flatMap]
    constructor
    · rintro ⟨p, hp1, hp2⟩; exact ⟨p, hp.mem_iff.1 hp1, hp2⟩
    · rintro ⟨p, hp1, hp2⟩; exact ⟨p, hp.mem_iff.2 hp1, hp2⟩
  simp only [this]

/-! ## the tie to the Rust sources -/

/-- The inventory regenerated from the sources at every run (every `static`, `LazyLock`, `OnceLock`,
`Once`, `thread_local!`, `Cell`, `RefCell`, `Mutex`, `RwLock`, `Atomic*`, `static mut`, `unsafe`, plus
log calls, clock/environment reads, `Arc` identity tests and mutable Python classes, outside tests) is
the list the model knows.  A new item anywhere in the four crates makes this fail to compile. -/
theorem inventory_matches : OH.Generated.SharedState.inventory = knownInventory := by decide

/-- the `static` items of the inventory are exactly the six cells of the model, each visible only in
the scope the model says -/
theorem cells_are_the_statics :
    (inventoryCells OH.Generated.SharedState.inventory).Perm
      (CellId.all.map (fun c => (c.rustName, c.scope))) := by decide

/-- no `unsafe`, no `static mut`, no thread-local, no lock/atomic/`RefCell`, no `Arc` identity test
anywhere in the scanned sources: every entry has one of the eight harmless kinds — or is THE one hash
container (the decoded holiday database, looked up by key only; see `knownInventory`) -/
theorem no_other_shared_state :
    OH.Generated.SharedState.inventory.all (fun e =>
      ["static-LazyLock", "static-Once", "log-call", "logger-init", "type-named-Cell", "clock", "env",
       "pyclass-mutable"].contains e.2.2.1
      || e == ("opening-hours/src/localization/country/mod.rs", "HashMap", "hash-container", "holidays")) = true := by
  decide

/-- exactly one hash container (a container whose iteration order depends on a per-instance random
state) in the scanned sources -/
theorem one_hash_container :
    (OH.Generated.SharedState.inventory.filter (fun e => e.2.2.1 == "hash-container")).length = 1 := by decide

/-- an API function can only force the cells whose (function-local) scope it is, or those of the
functions it calls: `Context::from_coords` = `try_from_coords` + `holidays` + `TzLocation::from_coords` -/
theorem api_cells_in_scope :
    (Api.cells .countryHolidays = CellId.all.filter (fun c => c.scope == "holidays"))
    ∧ (Api.cells .countryTryFromCoords = CellId.all.filter (fun c => c.scope == "try_from_coords"))
    ∧ (Api.cells .tzLocationFromCoords = CellId.all.filter (fun c => c.scope == "from_coords"))
    ∧ (Api.cells .contextFromCoords = Api.cells .countryTryFromCoords ++ Api.cells .countryHolidays
        ++ Api.cells .tzLocationFromCoords)
    ∧ Api.cells .evaluate = [] := by decide

/-! ## non-vacuity -/

section Examples

/-- toy tables: every table is a number -/
abbrev toy : Tables := ⟨fun _ => Nat, fun c => match c with
  | .dbPublic => 11 | .dbSchool => 12 | .boundaries => 13 | .tzNameFinder => 14 | .tzByName => 15 | .warnEaster => 0⟩

/-- `Context::from_coords`-like: boundaries, then the two holiday tables only if a country was found,
then the two zone tables -/
def fromCoords (x : Nat) : Prog toy Nat :=
  .read .boundaries fun b =>
    if (b + x) % 2 = 0 then
      .read .dbPublic fun p => .read .dbSchool fun s => .read .tzNameFinder fun f => .read .tzByName fun n =>
        .ret (b + p + s + f + n + x)
    else .read .tzNameFinder fun f => .read .tzByName fun n => .ret (b + f + n + x)

/-- `Country::holidays`-like -/
def holidays (x : Nat) : Prog toy Nat := .read .dbPublic fun p => .read .dbSchool fun s => .ret (p * x + s)

example : (fromCoords 1).pureRun = 66 ∧ (fromCoords 2).pureRun = 44 ∧ (holidays 3).pureRun = 45 := by decide
example : (fromCoords 1).touched = [.boundaries, .dbPublic, .dbSchool, .tzNameFinder, .tzByName] := by decide

/-- a real race: threads 0 and 1 both find `dbPublic` uninitialised and both compute a candidate
(steps 0, 1), thread 1 publishes first, thread 0 comes back and must keep thread 1's value; the
schedule then lets everybody finish.  All three answers are the sequential ones. -/
example :
    let cfg := runSchedule (Config.start (allUninit toy) [holidays 3, holidays 5, fromCoords 1])
      [0, 1, 1, 0, 2, 2, 1, 1, 0, 0, 2, 2, 2, 2, 2, 2, 0, 1]
    cfg.threads.map Thread.result? = [some 45, some 67, some 66] := by decide

/-- in the middle of that race both threads hold a candidate while the cell is still empty -/
example :
    let cfg := runSchedule (Config.start (allUninit toy) [holidays 3, holidays 5]) [0, 1]
    (cfg.threads.map fun t => match t with | .initialising c v _ => some (c, v) | _ => none)
      = [some (.dbPublic, 11), some (.dbPublic, 11)]
    ∧ (match cfg.st .dbPublic with | .uninit => true | .init _ => false) = true := by decide

/-- the hypothesis of the theorems is not empty and not everything: a cell holding anything else than
the decoded table is NOT reachable (so the invariant does real work) -/
example : ¬ Reachable (D := toy) (fun _ => .init 7) := by
  rw [reachable_iff_inv]
  intro h
  have := h .dbPublic
  simp [toy] at this

/-- and purity would indeed fail from such a state: the invariant is necessary -/
example : (run (holidays 3) (fun _ => (.init 7 : Cell Nat))).2 ≠ (holidays 3).pureRun := by decide

end Examples

end OH.Props.C18
